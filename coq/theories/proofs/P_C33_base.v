(** C33 — basic lemmas: typed name sets, agreement of stores, expressions read what [er] says. *)
From Coq Require Import ZArith List Bool String Lia.
From LV Require Import Base.Expr Base.MiniF Base.MiniFFacts models.M_C26 models.M_C33.
Import ListNotations.
Open Scope Z_scope.

(** * typed name sets *)
Lemma tmem_In x b l : tmem x b l = true <-> In (x, b) l.
Proof.
  unfold tmem. rewrite existsb_exists. split.
  - intros [[y c] [Hin H]]. cbn in H. apply andb_true_iff in H. destruct H as [H1 H2].
    apply String.eqb_eq in H1. apply Bool.eqb_prop in H2. now subst.
  - intros H. exists (x, b). split; [exact H|]. cbn. now rewrite String.eqb_refl, Bool.eqb_reflx.
Qed.

Lemma tmemp_In p l : tmemp p l = true <-> In p l.
Proof. destruct p as [x b]. apply tmem_In. Qed.

Lemma tmemp_false p l : tmemp p l = false <-> ~ In p l.
Proof.
  rewrite <- tmemp_In. destruct (tmemp p l); split; intros H.
  - discriminate.
  - exfalso. now apply H.
  - intros H'. discriminate.
  - reflexivity.
Qed.

Lemma In_tdiff p a b : In p (tdiff a b) <-> In p a /\ ~ In p b.
Proof. unfold tdiff. rewrite filter_In, negb_true_iff, tmemp_false. tauto. Qed.

Lemma In_tinter p a b : In p (tinter a b) <-> In p a /\ In p b.
Proof. unfold tinter. rewrite filter_In, tmemp_In. tauto. Qed.

Lemma tsubset_In a b : tsubset a b = true <-> (forall p, In p a -> In p b).
Proof.
  unfold tsubset. rewrite forallb_forall. split; intros H p Hp.
  - apply tmemp_In. now apply H.
  - apply tmemp_In. now apply H.
Qed.

Lemma tdisj_In a b : tdisj a b = true <-> (forall p, In p a -> ~ In p b).
Proof.
  unfold tdisj. rewrite forallb_forall. split; intros H p Hp.
  - apply tmemp_false. specialize (H p Hp). now apply negb_true_iff in H.
  - apply negb_true_iff. apply tmemp_false. now apply H.
Qed.

Lemma tmemp_app p a b : tmemp p (a ++ b) = tmemp p a || tmemp p b.
Proof. destruct p as [x c]. unfold tmemp, tmem. cbn. apply existsb_app. Qed.

(** * agreement *)
Lemma agreeP_refl P s : agreeP P s s.
Proof. split; intros; reflexivity. Qed.

Lemma agreeP_sym P s1 s2 : agreeP P s1 s2 -> agreeP P s2 s1.
Proof. intros [A B]. split; intros; symmetry; auto. Qed.

Lemma agreeP_trans P s1 s2 s3 : agreeP P s1 s2 -> agreeP P s2 s3 -> agreeP P s1 s3.
Proof.
  intros [A B] [A' B']. split; intros.
  - rewrite A by assumption. now apply A'.
  - rewrite B by assumption. now apply B'.
Qed.

Lemma agreeP_weaken (P Q : tn -> bool) s1 s2 :
  (forall p, Q p = true -> P p = true) -> agreeP P s1 s2 -> agreeP Q s1 s2.
Proof. intros H [A B]. split; intros; [apply A|apply B]; now apply H. Qed.

Lemma agreeP_set_sv P s1 s2 x v : agreeP P s1 s2 -> agreeP (fun p => P p || tmemp p [(x, false)]) (set_sv x v s1) (set_sv x v s2).
Proof.
  intros [A B]. split.
  - intros y Hy. cbn. destruct (String.eqb y x) eqn:E; [reflexivity|].
    apply A. apply orb_true_iff in Hy. destruct Hy as [Hy|Hy]; [exact Hy|].
    unfold tmemp, tmem in Hy. cbn in Hy. rewrite E in Hy. discriminate.
  - intros a Ha i. cbn. apply B. apply orb_true_iff in Ha. destruct Ha as [Ha|Ha]; [exact Ha|].
    unfold tmemp, tmem in Ha. cbn in Ha. rewrite andb_false_r in Ha. discriminate.
Qed.

Lemma agreeP_set_sv_same P s1 s2 x v : agreeP P s1 s2 -> agreeP P (set_sv x v s1) (set_sv x v s2).
Proof.
  intros H. eapply agreeP_weaken; [|apply agreeP_set_sv; exact H]. intros p Hp. cbn. now rewrite Hp.
Qed.

Lemma agreeP_set_av P s1 s2 a i v : agreeP P s1 s2 -> agreeP P (set_av a i v s1) (set_av a i v s2).
Proof.
  intros [A B]. split.
  - intros y Hy. cbn. now apply A.
  - intros b Hb j. cbn. destruct (String.eqb b a && list_z_eqb j i); [reflexivity|]. now apply B.
Qed.

Lemma agreeP_set_arr P s1 s2 a f1 f2 :
  (forall i, f1 i = f2 i) -> agreeP P s1 s2 ->
  agreeP (fun p => P p || tmemp p [(a, true)]) (set_arr a f1 s1) (set_arr a f2 s2).
Proof.
  intros Hf [A B]. split.
  - intros y Hy. cbn. apply A. apply orb_true_iff in Hy. destruct Hy as [Hy|Hy]; [exact Hy|].
    unfold tmemp, tmem in Hy. cbn in Hy. rewrite andb_false_r in Hy. discriminate.
  - intros b Hb j. cbn. destruct (String.eqb b a) eqn:E; [apply Hf|].
    apply B. apply orb_true_iff in Hb. destruct Hb as [Hb|Hb]; [exact Hb|].
    unfold tmemp, tmem in Hb. cbn in Hb. rewrite E in Hb. discriminate.
Qed.

(** * expressions *)
Lemma is_intrinsic_spec f vs :
  (is_intrinsic f = true -> exists r, intrinsic f vs = Some r) /\
  (is_intrinsic f = false -> intrinsic f vs = None).
Proof.
  unfold is_intrinsic, intrinsic.
  destruct (String.eqb f "mod"); [split; [intros _; destruct vs as [|a [|b [|c r]]]; eauto|discriminate]|].
  destruct (String.eqb f "modulo"); [split; [intros _; destruct vs as [|a [|b [|c r]]]; eauto|discriminate]|].
  destruct (String.eqb f "abs"); [split; [intros _; destruct vs as [|a [|b r]]; eauto|discriminate]|].
  destruct (String.eqb f "min"); [split; [intros _; destruct vs as [|a r]; eauto|discriminate]|].
  destruct (String.eqb f "max"); [split; [intros _; destruct vs as [|a r]; eauto|discriminate]|].
  split; [discriminate|reflexivity].
Qed.

Lemma intrinsic_indep f vs : is_intrinsic f = true -> forall rho1 rho2 : env,
  (match intrinsic f vs with Some r => r | None => ev_fun rho1 f vs end) =
  (match intrinsic f vs with Some r => r | None => ev_fun rho2 f vs end).
Proof. intros H rho1 rho2. destruct (proj1 (is_intrinsic_spec f vs) H) as [r Hr]. now rewrite Hr. Qed.

Definition reads_ok (P : tn -> bool) (l : list tn) : Prop := forall p, In p l -> P p = true.

Lemma reads_ok_app P a b : reads_ok P (a ++ b) <-> reads_ok P a /\ reads_ok P b.
Proof. unfold reads_ok. split; [intros H; split; intros p Hp; apply H; apply in_or_app; tauto|intros [A B] p Hp; apply in_app_or in Hp; destruct Hp; auto]. Qed.

Lemma reads_ok_flat_map {A} P (f : A -> list tn) l : reads_ok P (flat_map f l) <-> Forall (fun x => reads_ok P (f x)) l.
Proof.
  induction l as [|x r IH]; cbn; [split; [constructor|intros _ p []]|].
  rewrite reads_ok_app, IH. split; [intros [HA HB]; now constructor|intros H; inversion H; tauto].
Qed.

Lemma evalZ_agree P s1 s2 : agreeP P s1 s2 -> forall e, reads_ok P (er e) -> evalZ (env_st s1) e = evalZ (env_st s2) e.
Proof.
  intros [A B] e. induction e using expr_ind'; intros R; cbn [evalZ]; try reflexivity.
  - cbn. f_equal. apply A. apply R. now left.
  - cbn [er] in R. apply reads_ok_flat_map in R.
    induction cs as [|c r IHr]; cbn; [reflexivity|].
    inversion H; subst. inversion R; subst. rewrite (H2 H4). rewrite (IHr H3 H5). reflexivity.
  - cbn [er] in R. apply reads_ok_flat_map in R.
    induction cs as [|c r IHr]; cbn; [reflexivity|].
    inversion H; subst. inversion R; subst. rewrite (H2 H4). rewrite (IHr H3 H5). reflexivity.
  - cbn [er] in R. apply reads_ok_app in R. destruct R as [R1 R2]. now rewrite IHe1, IHe2.
  - cbn [er] in R. apply reads_ok_app in R. destruct R as [R1 R2]. now rewrite IHe1, IHe2.
  - cbn [er] in R. apply reads_ok_app in R. destruct R as [R1 R2].
    apply reads_ok_flat_map in R2.
    assert (E : (fix go (l : list expr) : option (list Z) :=
                   match l with [] => Some [] | a :: r => obind (evalZ (env_st s1) a) (fun v => obind (go r) (fun vs => Some (v :: vs))) end) args
              = (fix go (l : list expr) : option (list Z) :=
                   match l with [] => Some [] | a :: r => obind (evalZ (env_st s2) a) (fun v => obind (go r) (fun vs => Some (v :: vs))) end) args).
    { clear R1. induction args as [|c r IHr]; [reflexivity|].
      inversion H; subst. inversion R2; subst. rewrite (H2 H4). rewrite (IHr H3 H5). reflexivity. }
    rewrite E. destruct ((fix go (l : list expr) : option (list Z) :=
                   match l with [] => Some [] | a :: r => obind (evalZ (env_st s2) a) (fun v => obind (go r) (fun vs => Some (v :: vs))) end) args) as [vs|]; [|reflexivity].
    cbn [obind]. destruct (is_intrinsic f) eqn:Ei.
    + now apply intrinsic_indep.
    + rewrite (proj2 (is_intrinsic_spec f vs) Ei). cbn. f_equal. apply B. apply R1. now left.
Qed.

Lemma evalB_agree P s1 s2 : agreeP P s1 s2 -> forall e, reads_ok P (er e) -> evalB (env_st s1) e = evalB (env_st s2) e.
Proof.
  intros Ag e. induction e using expr_ind'; intros R; cbn [evalB]; try reflexivity.
  - cbn [er] in R. apply reads_ok_app in R. destruct R as [R1 R2].
    now rewrite (evalZ_agree P s1 s2 Ag e1 R1), (evalZ_agree P s1 s2 Ag e2 R2).
  - cbn [er] in R. apply reads_ok_flat_map in R.
    induction cs as [|c r IHr]; cbn; [reflexivity|].
    inversion H; subst. inversion R; subst. rewrite (H2 H4). rewrite (IHr H3 H5). reflexivity.
  - cbn [er] in R. apply reads_ok_flat_map in R.
    induction cs as [|c r IHr]; cbn; [reflexivity|].
    inversion H; subst. inversion R; subst. rewrite (H2 H4). rewrite (IHr H3 H5). reflexivity.
  - cbn [er] in R. now rewrite IHe.
Qed.

Lemma eval_idx_agree P s1 s2 : agreeP P s1 s2 -> forall idx, reads_ok P (flat_map er idx) -> eval_idx s1 idx = eval_idx s2 idx.
Proof.
  intros Ag idx R. apply reads_ok_flat_map in R. unfold eval_idx.
  induction idx as [|e r IH]; [reflexivity|]. inversion R; subst. cbn.
  rewrite (evalZ_agree P s1 s2 Ag e H1). now rewrite IH.
Qed.
