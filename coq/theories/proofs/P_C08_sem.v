(** C08 — semantics of the model trees [sx]: total value [tv] / definedness [df] (integers) and
    [tb] / [dfb] (logicals), and their agreement with the shared [evalZ] / [evalB] through [to_expr]. *)
From Coq Require Import ZArith List Bool String Lia.
From LV Require Import Base.Expr models.M_C08.
Import ListNotations.
Open Scope Z_scope.

(** induction principle through the nested lists *)
Section sx_ind'.
  Variable P : sx -> Prop.
  Hypothesis HInt : forall v, P (SInt v).
  Hypothesis HPy : forall v, P (SPy v).
  Hypothesis HVar : forall x, P (SVar x).
  Hypothesis HLog : forall b, P (SLog b).
  Hypothesis HSum : forall k cs, Forall P cs -> P (SSum k cs).
  Hypothesis HProd : forall k cs, Forall P cs -> P (SProd k cs).
  Hypothesis HQuot : forall p n d, P n -> P d -> P (SQuot p n d).
  Hypothesis HPow : forall p b e, P b -> P e -> P (SPow p b e).
  Hypothesis HCmp : forall op l r, P l -> P r -> P (SCmp op l r).
  Hypothesis HAnd : forall cs, Forall P cs -> P (SAnd cs).
  Hypothesis HOr : forall cs, Forall P cs -> P (SOr cs).
  Hypothesis HNot : forall e, P e -> P (SNot e).
  Hypothesis HCall : forall f args, Forall P args -> P (SCall f args).

  Fixpoint sx_ind' (e : sx) : P e :=
    let fix go (l : list sx) : Forall P l :=
      match l with
      | [] => Forall_nil P
      | x :: r => Forall_cons x (sx_ind' x) (go r)
      end in
    match e with
    | SInt v => HInt v
    | SPy v => HPy v
    | SVar x => HVar x
    | SLog b => HLog b
    | SSum k cs => HSum k cs (go cs)
    | SProd k cs => HProd k cs (go cs)
    | SQuot p n d => HQuot p n d (sx_ind' n) (sx_ind' d)
    | SPow p b x => HPow p b x (sx_ind' b) (sx_ind' x)
    | SCmp op l r => HCmp op l r (sx_ind' l) (sx_ind' r)
    | SAnd cs => HAnd cs (go cs)
    | SOr cs => HOr cs (go cs)
    | SNot x => HNot x (sx_ind' x)
    | SCall f args => HCall f args (go args)
    end.
End sx_ind'.

(** * Total value and definedness *)
Definition powv (a n : Z) : Z := if 0 <=? n then a ^ n else Z.quot 1 (a ^ (- n)).
Definition call_opt (rho : env) (f : string) (vs : list Z) : option Z :=
  match intrinsic f vs with Some r => r | None => ev_fun rho f vs end.
Definition callv (rho : env) (f : string) (vs : list Z) : Z :=
  match call_opt rho f vs with Some v => v | None => 0 end.
Definition calld (rho : env) (f : string) (vs : list Z) : bool :=
  match call_opt rho f vs with Some _ => true | None => false end.

Fixpoint tv (rho : env) (s : sx) : Z :=
  match s with
  | SInt v | SPy v => v
  | SVar x => ev_var rho x
  | SSum _ cs => fold_right (fun c a => tv rho c + a) 0 cs
  | SProd _ cs => fold_right (fun c a => tv rho c * a) 1 cs
  | SQuot _ n d => Z.quot (tv rho n) (tv rho d)
  | SPow _ b x => powv (tv rho b) (tv rho x)
  | SCall f args => callv rho f (map (tv rho) args)
  | _ => 0
  end.

Fixpoint df (rho : env) (s : sx) : bool :=
  match s with
  | SInt _ | SPy _ | SVar _ => true
  | SSum _ cs | SProd _ cs => forallb (df rho) cs
  | SQuot _ n d => df rho n && df rho d && negb (tv rho d =? 0)
  | SPow _ b x => df rho b && df rho x && ((0 <=? tv rho x) || negb (tv rho b =? 0))
  | SCall f args => forallb (df rho) args && calld rho f (map (tv rho) args)
  | _ => false
  end.

Fixpoint tb (rho : env) (s : sx) : bool :=
  match s with
  | SLog b => b
  | SCmp op l r => cmp_z op (tv rho l) (tv rho r)
  | SAnd cs => forallb (tb rho) cs
  | SOr cs => existsb (tb rho) cs
  | SNot x => negb (tb rho x)
  | _ => false
  end.

Fixpoint dfb (rho : env) (s : sx) : bool :=
  match s with
  | SLog _ => true
  | SCmp _ l r => df rho l && df rho r
  | SAnd cs | SOr cs => forallb (dfb rho) cs
  | SNot x => dfb rho x
  | _ => false
  end.

Definition sumv (rho : env) (cs : list sx) : Z := fold_right (fun c a => tv rho c + a) 0 cs.
Definition prodv (rho : env) (cs : list sx) : Z := fold_right (fun c a => tv rho c * a) 1 cs.
Definition alldf (rho : env) (cs : list sx) : bool := forallb (df rho) cs.

Lemma tv_sum rho k cs : tv rho (SSum k cs) = sumv rho cs. Proof. reflexivity. Qed.
Lemma tv_prod rho k cs : tv rho (SProd k cs) = prodv rho cs. Proof. reflexivity. Qed.
Lemma df_sum rho k cs : df rho (SSum k cs) = alldf rho cs. Proof. reflexivity. Qed.
Lemma df_prod rho k cs : df rho (SProd k cs) = alldf rho cs. Proof. reflexivity. Qed.

Lemma sumv_cons rho c cs : sumv rho (c :: cs) = tv rho c + sumv rho cs. Proof. reflexivity. Qed.
Lemma prodv_cons rho c cs : prodv rho (c :: cs) = tv rho c * prodv rho cs. Proof. reflexivity. Qed.
Lemma alldf_cons rho c cs : alldf rho (c :: cs) = df rho c && alldf rho cs. Proof. reflexivity. Qed.
Lemma sumv_nil rho : sumv rho [] = 0. Proof. reflexivity. Qed.
Lemma prodv_nil rho : prodv rho [] = 1. Proof. reflexivity. Qed.

Lemma sumv_app rho a b : sumv rho (a ++ b) = sumv rho a + sumv rho b.
Proof. induction a; cbn [app]; rewrite ?sumv_cons, ?sumv_nil; lia. Qed.
Lemma prodv_app rho a b : prodv rho (a ++ b) = prodv rho a * prodv rho b.
Proof. induction a; cbn [app]; rewrite ?prodv_cons, ?prodv_nil; [lia | rewrite IHa; ring]. Qed.
Lemma alldf_app rho a b : alldf rho (a ++ b) = alldf rho a && alldf rho b.
Proof. unfold alldf. apply forallb_app. Qed.
Lemma alldf_rev rho a : alldf rho (rev a) = alldf rho a.
Proof.
  induction a; [reflexivity|]. cbn [rev]. rewrite alldf_app, IHa, alldf_cons. cbn [alldf forallb].
  rewrite andb_true_r. apply andb_comm.
Qed.
Lemma sumv_rev rho a : sumv rho (rev a) = sumv rho a.
Proof. induction a; [reflexivity|]. cbn [rev]. rewrite sumv_app, IHa, !sumv_cons, sumv_nil. lia. Qed.

(** * Agreement with the shared semantics *)
Lemma evalZ_sum_fold rho p l :
  evalZ rho (ESum p l) =
  fold_right (fun c acc => obind (evalZ rho c) (fun v => obind acc (fun a => Some (v + a)))) (Some 0) l.
Proof. reflexivity. Qed.
Lemma evalZ_prod_fold rho p l :
  evalZ rho (EProd p l) =
  fold_right (fun c acc => obind (evalZ rho c) (fun v => obind acc (fun a => Some (v * a)))) (Some 1) l.
Proof. reflexivity. Qed.

Definition zspec (rho : env) (s : sx) : Prop :=
  evalZ rho (to_expr s) = if df rho s then Some (tv rho s) else None.

Lemma zspec_sum rho cs : Forall (zspec rho) cs ->
  fold_right (fun c acc => obind (evalZ rho c) (fun v => obind acc (fun a => Some (v + a)))) (Some 0) (map to_expr cs)
  = if alldf rho cs then Some (sumv rho cs) else None.
Proof.
  induction 1 as [|c cs Hc _ IH]; [reflexivity|].
  cbn [map fold_right]. rewrite IH, Hc, alldf_cons, sumv_cons.
  destruct (df rho c); cbn [obind andb]; [|reflexivity].
  destruct (alldf rho cs); reflexivity.
Qed.

Lemma zspec_prod rho cs : Forall (zspec rho) cs ->
  fold_right (fun c acc => obind (evalZ rho c) (fun v => obind acc (fun a => Some (v * a)))) (Some 1) (map to_expr cs)
  = if alldf rho cs then Some (prodv rho cs) else None.
Proof.
  induction 1 as [|c cs Hc _ IH]; [reflexivity|].
  cbn [map fold_right]. rewrite IH, Hc, alldf_cons, prodv_cons.
  destruct (df rho c); cbn [obind andb]; [|reflexivity].
  destruct (alldf rho cs); reflexivity.
Qed.

Lemma zspec_args rho args : Forall (zspec rho) args ->
  (fix go (l : list expr) : option (list Z) :=
     match l with
     | [] => Some []
     | a :: r => obind (evalZ rho a) (fun v => obind (go r) (fun vs => Some (v :: vs)))
     end) (map to_expr args)
  = if alldf rho args then Some (map (tv rho) args) else None.
Proof.
  induction 1 as [|c cs Hc _ IH]; [reflexivity|].
  cbn [map]. rewrite IH, Hc, alldf_cons.
  destruct (df rho c); cbn [obind andb]; [|reflexivity].
  destruct (alldf rho cs); reflexivity.
Qed.

Lemma evalZ_to_expr rho s : zspec rho s.
Proof.
  induction s using sx_ind'; unfold zspec in *; cbn [to_expr].
  - reflexivity.
  - reflexivity.
  - reflexivity.
  - reflexivity.
  - rewrite evalZ_sum_fold, zspec_sum by assumption. reflexivity.
  - rewrite evalZ_prod_fold, zspec_prod by assumption. reflexivity.
  - cbn [evalZ df tv]. rewrite IHs1, IHs2.
    destruct (df rho s1); cbn [obind andb]; [|reflexivity].
    destruct (df rho s2); cbn [obind andb]; [|reflexivity].
    unfold div_z. destruct (tv rho s2 =? 0); reflexivity.
  - cbn [evalZ df tv]. rewrite IHs1, IHs2.
    destruct (df rho s1); cbn [obind andb]; [|reflexivity].
    destruct (df rho s2); cbn [obind andb]; [|reflexivity].
    unfold pow_z, powv. destruct (0 <=? tv rho s2); cbn [orb]; [reflexivity|].
    destruct (tv rho s1 =? 0); reflexivity.
  - reflexivity.
  - reflexivity.
  - reflexivity.
  - reflexivity.
  - cbn [evalZ]. rewrite zspec_args by assumption. cbn [df tv]. fold (alldf rho args).
    destruct (alldf rho args); cbn [obind andb]; [|reflexivity].
    unfold calld, callv, call_opt.
    destruct (intrinsic f (map (tv rho) args)) as [[v|]|]; try reflexivity.
    destruct (ev_fun rho f (map (tv rho) args)); reflexivity.
Qed.

Lemma evalZ_some rho s v : evalZ rho (to_expr s) = Some v <-> df rho s = true /\ tv rho s = v.
Proof.
  rewrite evalZ_to_expr. destruct (df rho s); split; intros H; try discriminate.
  - injection H as <-. auto.
  - destruct H as [_ <-]. reflexivity.
  - destruct H; discriminate.
Qed.

Definition bspec (rho : env) (s : sx) : Prop :=
  evalB rho (to_expr s) = if dfb rho s then Some (tb rho s) else None.

Lemma bspec_and rho cs : Forall (bspec rho) cs ->
  fold_right (fun c acc => obind (evalB rho c) (fun v => obind acc (fun a => Some (v && a)))) (Some true) (map to_expr cs)
  = if forallb (dfb rho) cs then Some (forallb (tb rho) cs) else None.
Proof.
  induction 1 as [|c cs Hc _ IH]; [reflexivity|].
  cbn [map fold_right forallb]. rewrite IH, Hc.
  destruct (dfb rho c); cbn [obind andb]; [|reflexivity].
  destruct (forallb (dfb rho) cs); reflexivity.
Qed.

Lemma bspec_or rho cs : Forall (bspec rho) cs ->
  fold_right (fun c acc => obind (evalB rho c) (fun v => obind acc (fun a => Some (v || a)))) (Some false) (map to_expr cs)
  = if forallb (dfb rho) cs then Some (existsb (tb rho) cs) else None.
Proof.
  induction 1 as [|c cs Hc _ IH]; [reflexivity|].
  cbn [map fold_right forallb existsb]. rewrite IH, Hc.
  destruct (dfb rho c); cbn [obind andb]; [|reflexivity].
  destruct (forallb (dfb rho) cs); reflexivity.
Qed.

Lemma evalB_to_expr rho s : bspec rho s.
Proof.
  induction s using sx_ind'; unfold bspec in *; cbn [to_expr]; try reflexivity.
  - cbn [evalB dfb tb]. rewrite !evalZ_to_expr.
    destruct (df rho s1); cbn [obind andb]; [|reflexivity].
    destruct (df rho s2); reflexivity.
  - cbn [evalB dfb tb]. rewrite bspec_and by assumption. reflexivity.
  - cbn [evalB dfb tb]. rewrite bspec_or by assumption. reflexivity.
  - cbn [evalB dfb tb]. rewrite IHs. destruct (dfb rho s); reflexivity.
Qed.

Lemma evalB_some rho s v : evalB rho (to_expr s) = Some v <-> dfb rho s = true /\ tb rho s = v.
Proof.
  rewrite evalB_to_expr. destruct (dfb rho s); split; intros H; try discriminate.
  - injection H as <-. auto.
  - destruct H as [_ <-]. reflexivity.
  - destruct H; discriminate.
Qed.

(** * Small facts *)
Lemma alldf_forall rho cs : alldf rho cs = true <-> Forall (fun c => df rho c = true) cs.
Proof. unfold alldf. rewrite forallb_forall, Forall_forall. reflexivity. Qed.

Lemma prodv_zero rho cs : (exists c, In c cs /\ tv rho c = 0) -> prodv rho cs = 0.
Proof.
  induction cs as [|a cs IH]; intros [c [Hin Hc]]; [destruct Hin|].
  rewrite prodv_cons. destruct Hin as [->|Hin]; [rewrite Hc; lia|].
  rewrite IH by eauto. lia.
Qed.

Lemma sgn_of_sq k : sgn_of k * sgn_of k = 1.
Proof. unfold sgn_of. destruct (Nat.even k); lia. Qed.
Lemma sgn_of_S k : sgn_of (S k) = - sgn_of k.
Proof. unfold sgn_of. rewrite Nat.even_succ, <- Nat.negb_even. destruct (Nat.even k); reflexivity. Qed.
Lemma sgn_of_add a b : sgn_of (a + b) = sgn_of a * sgn_of b.
Proof. induction a; [cbn [Nat.add]; change (sgn_of 0) with 1; lia|]. cbn [Nat.add]. rewrite !sgn_of_S, IHa. lia. Qed.
Lemma sgn_of_cases k : sgn_of k = 1 \/ sgn_of k = -1.
Proof. unfold sgn_of. destruct (Nat.even k); auto. Qed.

Lemma quot_sgn_l s a b : (s = 1 \/ s = -1) -> b <> 0 -> Z.quot (s * a) b = s * Z.quot a b.
Proof.
  intros [->| ->] Hb; [rewrite !Z.mul_1_l; reflexivity|].
  replace (-1 * a) with (- a) by lia. rewrite Z.quot_opp_l by assumption. lia.
Qed.
Lemma quot_sgn_r s a b : (s = 1 \/ s = -1) -> b <> 0 -> Z.quot a (s * b) = s * Z.quot a b.
Proof.
  intros [->| ->] Hb; [rewrite !Z.mul_1_l; reflexivity|].
  replace (-1 * b) with (- b) by lia. rewrite Z.quot_opp_r by assumption. lia.
Qed.
