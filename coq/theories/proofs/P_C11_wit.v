(** C11 — concrete witnesses (computed with vm_compute) and the assembled statements. *)
From Coq Require Import ZArith List Bool String Ascii Arith Lia.
From LV Require Import Base.Strings models.M_C11 proofs.P_C11 proofs.P_C11_tree.
Import ListNotations.
Open Scope string_scope.
Open Scope Z_scope.

Definition tNone := TN KPyNone "" 0 "" [] [].
Definition tScalar (n : string) := TN KScalar n 0 "" [] [].
Definition tInt (z : Z) (k : tree) := TN KInt "" z "" [] [k].
Definition tFloat (v : string) (k : tree) := TN KFloat "" 0 v [] [k].
Definition tPyInt (z : Z) := TN KPyInt "" z "" [] [].
Definition tPyStr (s : string) := TN KPyStr "" 0 s [] [].
Definition tRangeIndex (a b c : tree) := TN KRangeIndex "" 0 "" [] [a; b; c].
Definition tArray (n : string) (dims : list tree) := TN KArray n 0 "" [] dims.
Definition tMember (n : string) (parent : tree) (dims : list tree) := TN KArray n 1 "" [] (parent :: dims).

(** RangeIndex((IntLiteral(1), n)) vs Scalar n *)
Lemma range_shortcut_witness :
  exists ta tb : tree,
    shortcut (view_of ta) = true
    /\ node_eq (view_of ta) (view_of tb) = true /\ node_eq (view_of tb) (view_of ta) = false
    /\ hkey_of (view_of ta) <> hkey_of (view_of tb).
Proof.
  exists (tRangeIndex (tInt 1 tNone) (tScalar "n") tNone), (tScalar "n").
  repeat split; try (vm_compute; reflexivity).
  vm_compute. discriminate.
Qed.

(** FloatLiteral('3.0') vs Sum((1, 2)): the __eq__ body before d84a976 answered True, the reflected comparison False;
    the repaired model is symmetric on this pair *)
Lemma float_eval_old_witness :
  exists ta tb : tree,
    shortcut (view_of ta) = false /\ shortcut (view_of tb) = false
    /\ float_eq_old node_eq (view_of ta) (view_of tb) = true
    /\ node_eq (view_of tb) (view_of ta) = false
    /\ node_eq (view_of ta) (view_of tb) = false.
Proof.
  exists (tFloat "3.0" tNone), (TN KSum "" 0 "" [] [tPyInt 1; tPyInt 2]).
  repeat split; vm_compute; reflexivity.
Qed.

(** IntLiteral(1, kind=Scalar('jpim')) vs IntLiteral(1, kind='JPIM') *)
Lemma str_kind_witness :
  exists ta tb : tree,
    pair_ok (view_of ta) (view_of tb) = true /\ homog (view_of ta) (view_of tb) = false
    /\ node_eq (view_of ta) (view_of tb) = true /\ hkey_of (view_of ta) <> hkey_of (view_of tb).
Proof.
  exists (tInt 1 (tScalar "jpim")), (tInt 1 (tPyStr "JPIM")).
  repeat split; try (vm_compute; reflexivity).
  vm_compute. discriminate.
Qed.

Lemma dict_lookup a b :
  pair_ok a b = true -> homog a b = true -> node_eq a b = true ->
  hkey_eqb (hkey_of a) (hkey_of b) && node_eq a b = true.
Proof.
  intros P H E. rewrite (node_eq_hash a b P H E), hkey_eqb_refl, E. reflexivity.
Qed.

Lemma vsim_sym a : forall b, vsim a b -> vsim b a.
Proof.
  induction a; intros b H; destruct b; cbn [vsim] in *; try contradiction; auto;
    intuition (auto; congruence).
Qed.

Lemma case_insensitive t u :
  tsim t u ->
  node_eq (view_of t) (view_of u) = true /\ node_eq (view_of u) (view_of t) = true
  /\ hkey_of (view_of t) = hkey_of (view_of u)
  /\ canon (tstr t) = canon (tstr u)
  /\ forall x : view, node_eq (view_of t) x = node_eq (view_of u) x /\ node_eq x (view_of t) = node_eq x (view_of u).
Proof.
  intros H. pose proof (tsim_view _ _ H) as V.
  repeat split.
  - now apply node_eq_vsim.
  - now apply node_eq_vsim, vsim_sym.
  - now apply vsim_hkey.
  - now apply tsim_canon.
  - apply node_eq_cong; [exact V|apply vsim_refl].
  - apply node_eq_cong; [apply vsim_refl|exact V].
Qed.

Lemma class_table_facts :
  (forall a b : cls, psub a b = true -> psub b a = false)
  /\ (forall cb ca : cls, eq_strlike (eq_src ca) = true -> sub_or_eq cb ca = true ->
        hash_strlike (hash_src cb) = true /\ eq_strlike (eq_src cb) = true)
  /\ (forall c c' : cls, eq_strlike (eq_src c) = false -> c <> c' -> psub c c' = false /\ psub c' c = false).
Proof.
  split; [exact psub_asym|split].
  - intros cb ca H1 H2. split; [eapply sub_hash_strlike|eapply sub_eq_strlike]; eauto.
  - exact literal_isolated.
Qed.

(** a(i)%b(1:n, f(x, k=1.0_jprb)) in two spellings, and a neighbour with another subscript *)
Definition ex_t : tree :=
  tMember "b" (tArray "a" [tScalar "i"])
    [tRangeIndex (tInt 1 tNone) (tScalar "n") tNone;
     TN KCall "" 1 "" ["k"] [TN KProcSym "f" 0 "" [] []; tScalar "x"; tFloat "1.0" (tScalar "jprb")]].
Definition ex_u : tree :=
  tMember "B" (tArray "A" [tScalar "I"])
    [tRangeIndex (tInt 1 tNone) (tScalar "N") tNone;
     TN KCall "" 1 "" ["K"] [TN KProcSym "F" 0 "" [] []; tScalar "X"; tFloat "1.0" (tScalar "JPRB")]].
Definition ex_v : tree :=
  tMember "b" (tArray "a" [tScalar "j"])
    [tRangeIndex (tInt 1 tNone) (tScalar "n") tNone;
     TN KCall "" 1 "" ["k"] [TN KProcSym "f" 0 "" [] []; tScalar "x"; tFloat "1.0" (tScalar "jprb")]].

Lemma class_inhabited :
  exists t u v : tree,
    tsim t u /\ pair_ok (view_of t) (view_of u) = true /\ homog (view_of t) (view_of u) = true
    /\ node_eq (view_of t) (view_of u) = true
    /\ pair_ok (view_of t) (view_of v) = true /\ homog (view_of t) (view_of v) = true
    /\ node_eq (view_of t) (view_of v) = false.
Proof.
  exists ex_t, ex_u, ex_v.
  split; [|repeat split; vm_compute; reflexivity].
  unfold ex_t, ex_u, tMember, tArray, tRangeIndex, tInt, tFloat, tScalar, tNone.
  repeat (rewrite tsim_unfold; repeat split; try reflexivity; repeat constructor).
Qed.
