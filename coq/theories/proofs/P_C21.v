(** C21 — proofs, part 1: list/set basics, the worklist invariant of SGraph._populate,
    nodes = reach, edges exact, fuel bound, is_ignored provenance, _break_cycles facts. *)
From Coq Require Import String Ascii List Bool Arith Lia.
From LV Require Import Base.Strings models.M_C21.
Import ListNotations.
Open Scope string_scope.
Open Scope list_scope.

(** * membership *)
Lemma smem_In x l : smem x l = true <-> In x l.
Proof.
  unfold smem. rewrite existsb_exists. split.
  - intros [y [Hy E]]. apply String.eqb_eq in E. now subst.
  - intros H. exists x. split; [assumption|apply String.eqb_refl].
Qed.

Lemma smem_false x l : smem x l = false <-> ~ In x l.
Proof. rewrite <- smem_In. destruct (smem x l); split; intros; congruence. Qed.

Lemma edge_eqb_eq e f : edge_eqb e f = true <-> e = f.
Proof.
  destruct e as [a b], f as [c d]. unfold edge_eqb. cbn.
  rewrite andb_true_iff, !String.eqb_eq. split; [intros [-> ->]; reflexivity|intros H; inversion H; auto].
Qed.

Lemma emem_In e l : emem e l = true <-> In e l.
Proof.
  unfold emem. rewrite existsb_exists. split.
  - intros [y [Hy E]]. apply edge_eqb_eq in E. now subst.
  - intros H. exists e. split; [assumption|now apply edge_eqb_eq].
Qed.

Lemma add_edges_In new : forall es e, In e (add_edges es new) <-> In e es \/ In e new.
Proof.
  induction new as [|f r IH]; intros es e; cbn.
  - tauto.
  - rewrite IH. destruct (emem f es) eqn:E.
    + apply emem_In in E. split; [tauto|]. intros [H|[->|H]]; auto.
    + rewrite in_app_iff. cbn. tauto.
Qed.

Lemma add_nodes_In new : forall ns x, In x (add_nodes ns new) <-> In x ns \/ In x new.
Proof.
  induction new as [|f r IH]; intros ns x; cbn.
  - tauto.
  - rewrite IH. destruct (smem f ns) eqn:E.
    + apply smem_In in E. split; [tauto|]. intros [H|[->|H]]; auto.
    + rewrite in_app_iff. cbn. tauto.
Qed.

Lemma dedup_acc_In l : forall seen x, In x (dedup_acc seen l) <-> In x l /\ ~ In x seen.
Proof.
  induction l as [|a r IH]; intros seen x; cbn.
  - tauto.
  - destruct (smem a seen) eqn:E.
    + apply smem_In in E. rewrite IH. split; [tauto|]. intros [[->|H] N]; [contradiction|tauto].
    + apply smem_false in E. cbn. rewrite IH. cbn. split.
      * intros [->|[H N]]; [tauto|]. split; [tauto|]. intros H'. apply N. now right.
      * intros [[->|H] N]; [now left|]. destruct (String.eqb_spec a x) as [->|D]; [now left|].
        right. split; [assumption|]. intros [H'|H']; [congruence|contradiction].
Qed.

Lemma dedup_acc_NoDup l : forall seen, NoDup (dedup_acc seen l).
Proof.
  induction l as [|a r IH]; intros seen; cbn; [constructor|].
  destruct (smem a seen); [apply IH|]. constructor; [|apply IH].
  rewrite dedup_acc_In. cbn. tauto.
Qed.

Lemma dedup_In l x : In x (dedup l) <-> In x l.
Proof. unfold dedup. rewrite dedup_acc_In. cbn. tauto. Qed.
Lemma dedup_NoDup l : NoDup (dedup l).
Proof. apply dedup_acc_NoDup. Qed.

Lemma NoDup_filter {A} (f : A -> bool) l : NoDup l -> NoDup (filter f l).
Proof.
  induction 1 as [|a l Hn Hd IH]; cbn; [constructor|].
  destruct (f a); [|assumption]. constructor; [|assumption]. rewrite filter_In. tauto.
Qed.

Lemma lookup_In {A} k (t : list (string * A)) v : lookup k t = Some v -> In (k, v) t.
Proof.
  induction t as [|[k' v'] r IH]; cbn; [discriminate|].
  destruct (String.eqb_spec k k') as [->|D].
  - intros H; inversion H; subst. now left.
  - intros H. right. now apply IH.
Qed.

(** * the dependency relation *)
Definition R (inp : input) (x y : string) : Prop := exists l, children inp x = Ok l /\ In y l.

Inductive reach (inp : input) : string -> Prop :=
| reach_seed x : In x (seed_items inp) -> reach inp x
| reach_step x y : reach inp x -> R inp x y -> reach inp y.

Inductive star (inp : input) : string -> string -> Prop :=
| star_refl x : star inp x x
| star_step x y z : star inp x y -> R inp y z -> star inp x z.

(** an ignore-list hit somewhere up the dependency chain *)
Definition ign_just (inp : input) (y : string) : Prop :=
  exists z w, reach inp z /\ R inp z w /\ matchb false true w (cfg_ignore inp z) = true /\ star inp w y.

Definition ign_ok (inp : input) (m : list (string * bool)) : Prop :=
  forall y, get_ign m y = true -> ign_just inp y.

Definition done (inp : input) (s : st) (n : string) : Prop :=
  exists l, children inp n = Ok l /\ incl l (nodes s) /\ (forall y, In y l -> y <> n -> In (n, y) (edges s)).

Record inv (inp : input) (s : st) : Prop := {
  inv_seeds : incl (seed_items inp) (nodes s);
  inv_reach : forall n, In n (nodes s) -> reach inp n;
  inv_queue : incl (queue s) (nodes s);
  inv_done : forall n, In n (nodes s) -> In n (queue s) \/ done inp s n;
  inv_edges : forall x y, In (x, y) (edges s) -> In x (nodes s) /\ R inp x y /\ x <> y;
  inv_ign : ign_ok inp (ign s)
}.

Lemma get_ign_cons m y b z : get_ign ((y, b) :: m) z = if String.eqb z y then b else get_ign m z.
Proof. unfold get_ign. cbn. destruct (String.eqb z y); reflexivity. Qed.

Lemma set_ign_ok inp x l : reach inp x -> (forall y, In y l -> R inp x y) ->
  forall m, ign_ok inp m -> ign_ok inp (set_ign (cfg_ignore inp x) x l m).
Proof.
  intros Hx. induction l as [|y r IH]; intros HR m Hm; cbn; [assumption|].
  apply IH; [intros; apply HR; now right|].
  unfold ign_ok. intros z Hz. rewrite get_ign_cons in Hz.
  destruct (String.eqb_spec z y) as [E|D]; [subst z|now apply Hm].
  apply orb_true_iff in Hz. destruct Hz as [Hz|Hz].
  - destruct (Hm _ Hz) as (z0 & w & Hr & HRzw & Hmt & Hst).
    exists z0, w. repeat split; try assumption. eapply star_step; [exact Hst|]. apply HR. now left.
  - exists x, y. repeat split; try assumption; [apply HR; now left|constructor].
Qed.

Lemma step_inv inp s x q s' :
  inv inp s -> queue s = x :: q ->
  step inp x (mk_st (nodes s) (edges s) q (ign s)) = Ok s' -> inv inp s'.
Proof.
  intros I Hq Hs. unfold step in Hs. cbn [nodes edges queue ign] in Hs.
  destruct (children inp x) as [l| | |] eqn:Hc; try discriminate.
  inversion Hs; subst s'; clear Hs.
  assert (Hxn : In x (nodes s)) by (apply (inv_queue _ _ I); rewrite Hq; now left).
  assert (Hxr : reach inp x) by (now apply (inv_reach _ _ I)).
  assert (HR : forall y, In y l -> R inp x y) by (intros y Hy; exists l; auto).
  assert (Hl : forall y, In y l -> In y (nodes s ++ filter (fun y0 => negb (smem y0 (nodes s))) l)).
  { intros y Hy. rewrite in_app_iff, filter_In.
    destruct (smem y (nodes s)) eqn:E; [left; now apply smem_In|right; auto]. }
  constructor; cbn [nodes edges queue ign].
  - intros n Hn. rewrite in_app_iff. left. now apply (inv_seeds _ _ I).
  - intros n Hn. rewrite in_app_iff, filter_In in Hn. destruct Hn as [Hn|[Hn _]].
    + now apply (inv_reach _ _ I).
    + eapply reach_step; [exact Hxr|now apply HR].
  - intros n Hn. rewrite in_app_iff in Hn. rewrite in_app_iff. destruct Hn as [Hn|Hn].
    + left. apply (inv_queue _ _ I). rewrite Hq. now right.
    + now right.
  - intros n Hn. rewrite in_app_iff in Hn.
    assert (Hdone_x : done inp (mk_st (nodes s ++ filter (fun y => negb (smem y (nodes s))) l)
                 (add_edges (edges s) (map (fun y => (x, y)) (filter (fun y => negb (String.eqb x y)) l)))
                 (q ++ filter (fun y => negb (smem y (nodes s))) l)
                 (set_ign (cfg_ignore inp x) x l (ign s))) x).
    { exists l. split; [assumption|]. split; [exact Hl|]. cbn [edges].
      intros y Hy Hne. apply add_edges_In. right. apply in_map_iff. exists y. split; [reflexivity|].
      apply filter_In. split; [assumption|]. destruct (String.eqb_spec x y); [congruence|reflexivity]. }
    destruct Hn as [Hn|Hn].
    + destruct (inv_done _ _ I n Hn) as [Hin|Hd].
      * rewrite Hq in Hin. destruct Hin as [<-|Hin]; [now right|]. left. rewrite in_app_iff. now left.
      * right. destruct Hd as (l0 & Hc0 & Hi0 & He0). exists l0. split; [assumption|]. cbn [nodes edges]. split.
        -- intros y Hy. rewrite in_app_iff. left. now apply Hi0.
        -- intros y Hy Hne. apply add_edges_In. left. now apply He0.
    + left. rewrite in_app_iff. now right.
  - intros a b Hab. apply add_edges_In in Hab. destruct Hab as [Hab|Hab].
    + destruct (inv_edges _ _ I a b Hab) as (H1 & H2 & H3). rewrite in_app_iff. tauto.
    + apply in_map_iff in Hab. destruct Hab as (y & Hy & Hin). inversion Hy; subst a b.
      apply filter_In in Hin. destruct Hin as [Hin Hne].
      rewrite in_app_iff. split; [now left|]. split; [now apply HR|].
      destruct (String.eqb_spec x y); [discriminate|assumption].
  - apply set_ign_ok; try assumption. apply (inv_ign _ _ I).
Qed.

Lemma run_inv inp : forall fuel s s', inv inp s -> run inp fuel s = Ok s' -> inv inp s' /\ queue s' = [].
Proof.
  induction fuel as [|f IH]; intros s s' I Hr; cbn in Hr.
  - destruct (queue s) eqn:Hq; [|discriminate]. inversion Hr; subst. auto.
  - destruct (queue s) as [|x q] eqn:Hq.
    + inversion Hr; subst. auto.
    + destruct (step inp x (mk_st (nodes s) (edges s) q (ign s))) as [s1| | |] eqn:Hs; try discriminate.
      apply (IH s1 s'); [|assumption]. eapply step_inv; eauto.
Qed.

Lemma init_inv inp ign0 : ign_ok inp ign0 -> inv inp (init_st inp ign0).
Proof.
  intros H0. unfold init_st. constructor; cbn [nodes edges queue ign].
  - intros x Hx. apply add_nodes_In. now right.
  - intros n Hn. apply add_nodes_In in Hn. destruct Hn as [[]|Hn]. now apply reach_seed.
  - intros x Hx. apply add_nodes_In. now right.
  - intros n Hn. apply add_nodes_In in Hn. destruct Hn as [[]|Hn]. now left.
  - intros x y [].
  - assumption.
Qed.

Lemma ign_ok_nil inp : ign_ok inp [].
Proof. intros y H. discriminate. Qed.

Lemma populate_from_inv inp ign0 s : ign_ok inp ign0 -> populate_from inp ign0 = Ok s -> inv inp s /\ queue s = [].
Proof. intros H0 H. eapply run_inv; [apply init_inv; exact H0|exact H]. Qed.

Lemma populate_inv inp s : populate inp = Ok s -> inv inp s /\ queue s = [].
Proof.
  unfold populate. destruct (i_two_pass inp).
  - destruct (populate_from inp []) as [s1| | |] eqn:H1; try discriminate.
    intros H2. eapply populate_from_inv; [|exact H2].
    apply (inv_ign _ _ (proj1 (populate_from_inv _ _ _ (ign_ok_nil inp) H1))).
  - apply populate_from_inv, ign_ok_nil.
Qed.

Lemma children_fun inp x l1 l2 : children inp x = Ok l1 -> children inp x = Ok l2 -> l1 = l2.
Proof. congruence. Qed.

(** nodes of the populated graph = items reachable from the seeds through R (soundness and completeness) *)
Lemma populate_nodes_closure inp s : populate inp = Ok s -> forall x, In x (nodes s) <-> reach inp x.
Proof.
  intros H x. destruct (populate_inv _ _ H) as [I Hq]. split; [apply (inv_reach _ _ I)|].
  induction 1 as [x Hx|x y Hx IH HR].
  - now apply (inv_seeds _ _ I).
  - destruct (inv_done _ _ I x IH) as [Hin|(l & Hc & Hi & _)]; [rewrite Hq in Hin; destruct Hin|].
    destruct HR as (l' & Hc' & Hy). rewrite <- (children_fun _ _ _ _ Hc Hc') in Hy. auto.
Qed.

Lemma populate_edges_exact inp s : populate inp = Ok s ->
  forall x y, In (x, y) (edges s) <-> In x (nodes s) /\ R inp x y /\ x <> y.
Proof.
  intros H x y. destruct (populate_inv _ _ H) as [I Hq]. split; [apply (inv_edges _ _ I)|].
  intros (Hx & (l' & Hc' & Hy) & Hne).
  destruct (inv_done _ _ I x Hx) as [Hin|(l & Hc & _ & He)]; [rewrite Hq in Hin; destruct Hin|].
  rewrite <- (children_fun _ _ _ _ Hc Hc') in Hy. apply He; [assumption|congruence].
Qed.

Lemma populate_ign_ok inp s : populate inp = Ok s -> ign_ok inp (ign s).
Proof. intros H. apply (inv_ign _ _ (proj1 (populate_inv _ _ H))). Qed.

(** * _break_cycles only removes edges; it is the identity without RECURSIVE procedures *)
Lemma remove_edge_incl e es : incl (remove_edge e es) es.
Proof. intros f Hf. unfold remove_edge in Hf. apply filter_In in Hf. tauto. Qed.

Lemma break_from_incl ns src : forall fuel es, incl (break_from fuel ns es src) es.
Proof.
  induction fuel as [|f IH]; intros es; cbn; [apply incl_refl|].
  destruct (find_cycle ns es src); [|apply incl_refl].
  eapply incl_tran; [apply IH|apply remove_edge_incl].
Qed.

Lemma break_cycles_incl inp ns : forall l es,
  incl (fold_left (fun es x => if is_recursive inp x then break_from (S (length es)) ns es x else es) l es) es.
Proof.
  induction l as [|x r IH]; intros es; cbn [fold_left]; [apply incl_refl|].
  eapply incl_tran; [apply IH|]. destruct (is_recursive inp x); [apply break_from_incl|apply incl_refl].
Qed.

Lemma break_cycles_subset inp ns es : incl (break_cycles inp ns es) es.
Proof. apply break_cycles_incl. Qed.

Lemma break_cycles_id inp ns : forall l es, (forall x, In x l -> is_recursive inp x = false) ->
  fold_left (fun es x => if is_recursive inp x then break_from (S (length es)) ns es x else es) l es = es.
Proof.
  induction l as [|x r IH]; intros es H; cbn [fold_left]; [reflexivity|].
  rewrite (H x (or_introl eq_refl)). apply IH. intros; apply H; now right.
Qed.

Lemma break_cycles_no_recursive inp ns es :
  (forall x, In x ns -> is_recursive inp x = false) -> break_cycles inp ns es = es.
Proof. apply break_cycles_id. Qed.

(** * the graph handed to the user *)
Lemma scheduler_graph_inv inp g : scheduler_graph inp = Ok g -> exists s, populate inp = Ok s /\ g = graph_of inp s.
Proof.
  unfold scheduler_graph. destruct (populate inp) as [s| | |]; try discriminate.
  intros H; inversion H. eauto.
Qed.

Lemma graph_nodes_closure inp g : scheduler_graph inp = Ok g -> forall x, In x (g_nodes g) <-> reach inp x.
Proof. intros H. destruct (scheduler_graph_inv _ _ H) as (s & Hp & ->). cbn. now apply populate_nodes_closure. Qed.

Lemma graph_edges_sound inp g : scheduler_graph inp = Ok g ->
  forall x y, In (x, y) (g_edges g) -> In x (g_nodes g) /\ In y (g_nodes g) /\ R inp x y /\ x <> y.
Proof.
  intros H x y Hxy. destruct (scheduler_graph_inv _ _ H) as (s & Hp & ->). cbn in *.
  apply break_cycles_subset in Hxy. apply (populate_edges_exact _ _ Hp) in Hxy.
  destruct Hxy as (Hx & HR & Hne). repeat split; try assumption.
  apply (populate_nodes_closure _ _ Hp). eapply reach_step; [|exact HR]. now apply (populate_nodes_closure _ _ Hp).
Qed.

Lemma graph_edges_exact_no_recursive inp g : scheduler_graph inp = Ok g ->
  (forall x, In x (g_nodes g) -> is_recursive inp x = false) ->
  forall x y, In (x, y) (g_edges g) <-> In x (g_nodes g) /\ R inp x y /\ x <> y.
Proof.
  intros H Hn x y. destruct (scheduler_graph_inv _ _ H) as (s & Hp & ->). cbn in *.
  rewrite break_cycles_no_recursive by assumption. now apply populate_edges_exact.
Qed.

Lemma ignored_propagates inp g : scheduler_graph inp = Ok g -> forall y, In y (g_ignored g) -> ign_just inp y.
Proof.
  intros H y Hy. destruct (scheduler_graph_inv _ _ H) as (s & Hp & ->). cbn in Hy.
  apply filter_In in Hy. destruct Hy as [_ Hy]. now apply (populate_ign_ok _ _ Hp).
Qed.
