(** C14 — [Transformer.rebuilt]: without in-place mode and with scope rebuilding, every node the traversal
    visits is recorded; nodes below a replaced node and nodes spliced away are not visited. *)
From Coq Require Import ZArith List Bool Lia Arith.
From LV Require Import models.M_C14 proofs.P_C14 proofs.P_C14_spec.
Import ListNotations.
Open Scope Z_scope.

Lemma visit_list_rb f : forall L x ms vs ms' lg rb, In x L -> visit_list f L ms = OkL vs ms' lg rb ->
  exists ms1 r1 s1 ms2 lg1 rb1, f x ms1 = Ok r1 s1 ms2 lg1 rb1 /\ incl rb1 rb.
Proof.
  induction L as [|y L IH]; intros x ms vs ms' lg rb Hx; [destruct Hx|]. cbn [visit_list].
  destruct (f y ms) as [r1 s1 ms1 lg1 rb1|e] eqn:E1; [|discriminate].
  destruct (visit_list f L ms1) as [ys ms2 lg2 rb2|e] eqn:E2; [|discriminate].
  intros E. inversion E; subst. destruct Hx as [<-|Hx].
  - do 6 eexists. split; [exact E1|]. apply incl_appl, incl_refl.
  - destruct (IH _ _ _ _ _ _ Hx E2) as (m1 & r & s & m2 & l1 & b1 & F & I).
    do 6 eexists. split; [exact F|]. apply incl_appr. exact I.
Qed.

Section Rebuilt.
  Variable c : cfg.
  Hypothesis Hc : c_cls c = TPlain.
  Hypothesis Hin : c_inplace c = false.
  Hypothesis Hrs : c_rebuild_scopes c = true.
  Let M := c_map c.

  Lemma do_rebuild_new o p ch ms r same ms' lg rb :
    do_rebuild c o p ch ms = Ok r same ms' lg rb -> same = false /\ rb = [].
  Proof.
    unfold do_rebuild. destruct o; try discriminate. rewrite Hin.
    destruct (mk_node _ _ _ _); [|discriminate]. intros H. now inversion H.
  Qed.

  Lemma plain_node_new rec pa o ms r same ms' lg rb :
    h_plain_node c rec pa o ms = Ok r same ms' lg rb -> same = false.
  Proof.
    unfold h_plain_node.
    assert (T : (if kind_scoped (kind_of o) then h_scoped_tail c rec false pa o ms else h_generic c rec pa o ms)
                = Ok r same ms' lg rb -> same = false).
    { destruct (kind_scoped (kind_of o)).
      - unfold h_scoped_tail. rewrite Hrs.
        destruct (do_rebuild c o None (children_of o) ms) as [o1 s1 ms1 lg1 rb1|e] eqn:E1; [|discriminate].
        apply do_rebuild_new in E1 as [-> _]. cbn [andb].
        destruct (visit_list _ _ ms1); [|discriminate]. intros H. now inversion H.
      - unfold h_generic. destruct (visit_list _ _ ms) as [vs ms1 lg1 rb1|e]; [|discriminate].
        destruct (do_rebuild c o None vs ms1) as [r1 s1 ms2 lg2 rb2|e] eqn:E1; [|discriminate].
        apply do_rebuild_new in E1 as [-> _]. intros H. now inversion H. }
    destruct (mfind (c_map c) o) as [[k [|h|hs]]|]; try exact T.
    - intros H. now inversion H.
    - unfold copy_handle. destruct h; try discriminate. destruct (mk_node _ _ _ _); [|discriminate].
      intros H. now inversion H.
    - destruct (mem o hs); [exact T|discriminate].
  Qed.

  Lemma rebuilt_covers_visited : forall t x, reached M t x -> is_nd x = true ->
    forall n pa ms r same ms' lg rb, visit n c pa t ms = Ok r same ms' lg rb -> exists v, In (x, v) rb.
  Proof.
    induction 1 as [t|l x y Hx Hr IH|o x y Hsn Hp Hx Hr IH]; intros Hnd n pa ms r same ms' lg rb.
    - destruct n as [|n]; [discriminate|]. rewrite (visit_plain_S n c pa t ms Hc).
      destruct t; try discriminate.
      destruct (h_plain_node c (visit n c) pa _ ms) as [it s1 ms1 lg1 rb1|e] eqn:E; [|discriminate].
      apply plain_node_new in E as ->. intros H. inversion H; subst. eexists. apply in_or_app. right. now left.
    - destruct n as [|n]; [discriminate|]. rewrite (visit_plain_S n c pa (Tup l) ms Hc).
      destruct (visit_list (visit n c pa) (inject (c_map c) l) ms) as [vs ms1 lg1 rb1|e] eqn:EV; [|discriminate].
      intros H. inversion H; subst.
      destruct (visit_list_rb _ _ _ _ _ _ _ _ Hx EV) as (m1 & r1 & s1 & m2 & l1 & b1 & F & I).
      destruct (IH Hnd _ _ _ _ _ _ _ _ F) as [v Hv]. exists v. apply I, Hv.
    - destruct n as [|n]; [discriminate|]. rewrite (visit_plain_S n c pa o ms Hc).
      destruct o as [| | |i k s p ch]; try discriminate.
      destruct (h_plain_node c (visit n c) pa _ ms) as [it s1 ms1 lg1 rb1|e] eqn:E; [|discriminate].
      intros H.
      assert (G : exists v, In (y, v) rb1);
        [|destruct G as [v Hv]; exists v; destruct s1; inversion H; subst; [exact Hv|apply in_or_app; now left]].
      clear H. unfold h_plain_node in E. unfold passes in Hp. fold M in E.
      assert (T : (if kind_scoped (kind_of (Nd i k s p ch)) then h_scoped_tail c (visit n c) false pa (Nd i k s p ch) ms
                   else h_generic c (visit n c) pa (Nd i k s p ch) ms) = Ok it s1 ms1 lg1 rb1 -> exists v, In (y, v) rb1).
      { cbn [kind_of]. cbn [children_of] in Hx. destruct (kind_scoped k) eqn:Hsc.
        - unfold h_scoped_tail. rewrite Hrs. cbn [children_of]. unfold do_rebuild. rewrite Hin, (zip_children_same ch ch eq_refl).
          destruct (mk_node k (inv_src c s ch) p ch) as [o1|] eqn:Emk; [|discriminate].
          apply mk_node_inv in Emk as (ch' & En & _ & ->).
          assert (ch' = ch).
          { cbn [scoped_norm] in Hsn. rewrite Hsc, En in Hsn. now apply list_ideqb_eq. }
          subst ch'. cbn [children_of andb].
          destruct (visit_list (visit n c pa) ch ms) as [vs m2 l2 b2|e] eqn:EV; [|discriminate].
          intros H. inversion H; subst.
          destruct (visit_list_rb _ _ _ _ _ _ _ _ Hx EV) as (m1 & r1 & s2 & m3 & l1 & b1 & F & I).
          destruct (IH Hnd _ _ _ _ _ _ _ _ F) as [v Hv]. exists v. apply I, Hv.
        - unfold h_generic. cbn [children_of].
          destruct (visit_list (visit n c pa) ch ms) as [vs m2 l2 b2|e] eqn:EV; [|discriminate].
          destruct (do_rebuild c (Nd i k s p ch) None vs m2) as [r2 s2 m3 l3 b3|e] eqn:ED; [|discriminate].
          apply do_rebuild_new in ED as [_ ->]. intros H. inversion H; subst. rewrite app_nil_r.
          destruct (visit_list_rb _ _ _ _ _ _ _ _ Hx EV) as (m1 & r1 & s3 & m4 & l1 & b1 & F & I).
          destruct (IH Hnd _ _ _ _ _ _ _ _ F) as [v Hv]. exists v. apply I, Hv. }
      destruct (mfind M (Nd i k s p ch)) as [[k0 [|h|hs]]|]; try discriminate; [|exact (T E)].
      rewrite Hp in E. exact (T E).
  Qed.
End Rebuilt.

(** nodes that are spliced away by a one-to-many replacement never reach [visit] and are not recorded
    (a node mapped to [None] or to a node is) *)
Definition rb_tree : item := Nd 1 K_Section 0 0 [Tup [Nd 2 K_Comment 0 1 []; Nd 3 K_Comment 0 2 []]].
Definition rb_cfg : cfg :=
  Build_cfg TPlain [(Nd 2 K_Comment 0 1 [], HTup [Nd 4 K_Comment 0 3 []]); (Nd 3 K_Comment 0 2 [], HNone)]
            false true false [] false false.
Lemma rebuilt_not_all_refuted :
  map (fun kv => id_of (fst kv)) (res_reb (visit 10 rb_cfg None rb_tree (init_ms false []))) = [4; 3; 1].
Proof. reflexivity. Qed.
