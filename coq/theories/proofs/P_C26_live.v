(** C26 — proofs, part 5: live sets of nodes outside loops; machine-checked counterexamples. *)
From Coq Require Import ZArith List Bool String Lia.
From LV Require Import Base.Expr Base.MiniF Base.MiniFFacts models.M_C26 proofs.P_C26 proofs.P_C26_def.
Import ListNotations.
Open Scope Z_scope.

Lemma live_before_In sg : forall ss k L x,
  In x (live_before sg L ss k) <-> In x L \/ In x (Db sg (firstn k ss)).
Proof.
  unfold live_before. induction ss as [|st r IH]; intros k L x.
  - destruct k; cbn; tauto.
  - destruct k as [|k]; [cbn; tauto|].
    cbn [firstn fold_left]. rewrite IH. unfold Db. cbn [flat_map]. rewrite !in_app_iff. tauto.
Qed.

Lemma live_before_S sg L st r k : live_before sg L (st :: r) (S k) = live_before sg (L ++ fst (du_stmt sg st)) r k.
Proof. reflexivity. Qed.

Lemma annot_body_cons sg L x r :
  annot_body sg L (x :: r) = annot_stmt sg L x ++ annot_body sg (L ++ fst (du_stmt sg x)) r.
Proof. reflexivity. Qed.

Lemma annot_body_nth sg : forall ss k L st,
  nth_error ss k = Some st -> incl (annot_stmt sg (live_before sg L ss k) st) (annot_body sg L ss).
Proof.
  induction ss as [|x r IH]; intros [|k] L st E; cbn in E; try discriminate.
  - inversion E; subst. rewrite annot_body_cons. apply incl_appl, incl_refl.
  - rewrite annot_body_cons, live_before_S. apply incl_appr. now apply IH.
Qed.

(** the node reached by [at_node] carries exactly that live set in the model's annotation *)
Lemma at_node_annot sg L ss pre lv st :
  at_node sg L ss pre lv st ->
  In (fst (du_stmt sg st), snd (du_stmt sg st), lv) (annot_body sg L ss).
Proof.
  induction 1 as [L ss k st E|L ss j c tb eb br pre lv st E H IH].
  - apply (annot_body_nth sg ss k L st E). destruct st; now left.
  - apply (annot_body_nth sg ss j L _ E). cbn [annot_stmt]. right. fold (annot_body sg).
    apply in_app_iff. destruct br; auto.
Qed.

Lemma forallb_firstn {A} (f : A -> bool) l k : forallb f l = true -> forallb f (firstn k l) = true.
Proof.
  revert k. induction l as [|x r IH]; intros [|k]; cbn; auto.
  rewrite !andb_true_iff. intros [H1 H2]. auto.
Qed.

Lemma forallb_nth {A} (f : A -> bool) l k x : forallb f l = true -> nth_error l k = Some x -> f x = true.
Proof. intros H E. rewrite forallb_forall in H. apply H. eapply nth_error_In; eauto. Qed.

Lemma at_node_dsafe sg L ss pre lv st : at_node sg L ss pre lv st -> dsafe sg ss = true -> dsafe sg pre = true.
Proof.
  induction 1 as [L ss k st E|L ss j c tb eb br pre lv st E H IH]; intros Hs.
  - now apply forallb_firstn.
  - rewrite dsafe_app. apply andb_true_iff. split; [now apply forallb_firstn|]. apply IH.
    pose proof (forallb_nth _ _ _ _ Hs E) as A. cbn [dsafe_stmt] in A. apply andb_true_iff in A.
    destruct br; tauto.
Qed.

Lemma at_node_live sg L ss pre lv st :
  at_node sg L ss pre lv st -> (forall x, In x L -> In x lv) /\ (forall x, In x (Db sg pre) -> In x lv).
Proof.
  induction 1 as [L ss k st E|L ss j c tb eb br pre lv st E H [IH1 IH2]].
  - split; intros x Hx; apply live_before_In; auto.
  - split; intros x Hx.
    + apply IH1. apply live_before_In. auto.
    + rewrite Db_app in Hx. apply in_app_iff in Hx. destruct Hx as [Hx|Hx]; [|auto].
      apply IH1. apply live_before_In. auto.
Qed.

Theorem live_sound_on_class mw ps sg L ss pre lv st f s s' t :
  sigs_ok mw ps sg = true -> dsafe sg ss = true ->
  at_node sg L ss pre lv st ->
  exec_tr ps f pre s = Some (s', t) ->
  (forall x, In x L -> In x lv) /\
  (forall l, In l (fst t) -> In (lname l) lv \/ In (lname l) (dovars pre)).
Proof.
  intros Hok Hs Hn E. destruct (at_node_live _ _ _ _ _ _ Hn) as [A B]. split; [exact A|].
  intros l Hl.
  destruct (defines_sound_aux mw ps sg Hok _ _ _ _ _ E (at_node_dsafe _ _ _ _ _ _ Hn Hs) _ Hl) as [H|H]; auto.
Qed.

(** * Counterexamples (evaluated by the kernel's virtual machine) *)
Lemma run_summary ps f ss s t : option_map snd (exec_tr ps f ss s) = Some t -> exists s', exec_tr ps f ss s = Some (s', t).
Proof.
  destruct (exec_tr ps f ss s) as [[s' t']|]; cbn; [|discriminate]. intros E. inversion E; subst. now exists s'.
Qed.

Definition st0 (sc : list (string * Z)) (cells : list (string * list Z * Z)) : store := init_store sc cells.

(** F9: a definition in one branch is subtracted from the later use *)
Definition wit_cond : list stmt :=
  [SIf (ECmp Cgt (EVar "c") (EInt 0)) [SAssign "x" (EInt 1)] []; SAssign "y" (EVar "x")].

Lemma uses_refuted :
  exists ss s s' t l, exec_tr [] 5 ss s = Some (s', t) /\ In l (snd t) /\ ~ In (lname l) (uses_of [] ss).
Proof.
  destruct (run_summary [] 5 wit_cond (st0 [("c"%string, 0)] []) ([LS "y"], [LS "c"; LS "x"])) as [s' E]; [vm_compute; reflexivity|].
  exists wit_cond, (st0 [("c"%string, 0)] []), s', ([LS "y"], [LS "c"; LS "x"]), (LS "x").
  split; [exact E|]. split; [cbn; auto|]. vm_compute. intros [H|[]]. discriminate.
Qed.

(** F9: a definition in a loop that makes no trip *)
Definition wit_zero : list stmt :=
  [SDo "i" (EInt 1) (EVar "n") None [SAssign "x" (EInt 1)]; SAssign "y" (EVar "x")].

Lemma uses_refuted_zero_trip :
  exists s s' t l, exec_tr [] 5 wit_zero s = Some (s', t) /\ In l (snd t) /\ ~ In (lname l) (uses_of [] wit_zero).
Proof.
  destruct (run_summary [] 5 wit_zero (st0 [("n"%string, 0)] []) ([LS "i"; LS "y"], [LS "n"; LS "x"])) as [s' E]; [vm_compute; reflexivity|].
  exists (st0 [("n"%string, 0)] []), s', ([LS "i"; LS "y"], [LS "n"; LS "x"]), (LS "x").
  split; [exact E|]. split; [cbn; auto|]. vm_compute. intros [H|[]]. discriminate.
Qed.

(** F9: an assignment to one array element hides the later read of another element *)
Definition wit_part : list stmt :=
  [SStore "a" [EInt 1] (EInt 1); SAssign "y" (ECall "a" [EInt 2])].

Lemma uses_refuted_partial_array :
  exists s s' t l, exec_tr [] 5 wit_part s = Some (s', t) /\ In l (snd t) /\ ~ In (lname l) (uses_of [] wit_part).
Proof.
  destruct (run_summary [] 5 wit_part (st0 [] []) ([LA "a" [1]; LS "y"], [LA "a" [2]])) as [s' E]; [vm_compute; reflexivity|].
  exists (st0 [] []), s', ([LA "a" [1]; LS "y"], [LA "a" [2]]), (LA "a" [2]).
  split; [exact E|]. split; [cbn; auto|]. vm_compute. intros [].
Qed.

(** the DO variable read by its own bounds is removed from the loop's uses *)
Definition wit_bounds : list stmt := [SDo "i" (EVar "i") (EInt 3) None [SAssign "y" (EVar "i")]].

Lemma uses_refuted_do_bounds :
  exists s s' t l, exec_tr [] 5 wit_bounds s = Some (s', t) /\ In l (snd t) /\ ~ In (lname l) (uses_of [] wit_bounds).
Proof.
  destruct (run_summary [] 5 wit_bounds (st0 [("i"%string, 2)] []) ([LS "i"; LS "y"; LS "i"; LS "y"; LS "i"], [LS "i"])) as [s' E]; [vm_compute; reflexivity|].
  exists (st0 [("i"%string, 2)] []), s', ([LS "i"; LS "y"; LS "i"; LS "y"; LS "i"], [LS "i"]), (LS "i").
  split; [exact E|]. split; [cbn; auto|]. vm_compute. intros [].
Qed.

(** the DO variable is changed by the loop but is not in its defines *)
Lemma run_obs ps f ss s t (x : string) v :
  option_map (fun r => (snd r, sv (fst r) x)) (exec_tr ps f ss s) = Some (t, v) ->
  exists s', exec_tr ps f ss s = Some (s', t) /\ sv s' x = v.
Proof.
  destruct (exec_tr ps f ss s) as [[s' t']|]; cbn; [|discriminate]. intros E. inversion E; subst. now exists s'.
Qed.

Definition wit_dovar : list stmt := [SDo "i" (EInt 1) (EInt 2) None [SAssign "x" (EVar "i")]].

Lemma defines_refuted_do_variable :
  exists s s' t, exec_tr [] 5 wit_dovar s = Some (s', t) /\ In (LS "i") (fst t) /\
                 ~ In "i"%string (defines_of [] wit_dovar) /\ sv s' "i" <> sv s "i".
Proof.
  destruct (run_obs [] 5 wit_dovar (st0 [] []) ([LS "i"; LS "x"; LS "i"; LS "x"; LS "i"], []) "i" 3) as [s' [E V]];
    [vm_compute; reflexivity|].
  exists (st0 [] []), s', ([LS "i"; LS "x"; LS "i"; LS "x"; LS "i"], []).
  split; [exact E|]. split; [cbn; auto|]. split.
  - vm_compute. intros [H|[]]. discriminate.
  - rewrite V. vm_compute. discriminate.
Qed.

(** an enriched callee with a dummy that has no intent: the actual is neither defined nor used *)
Definition ps_noint : procs :=
  [("sub0"%string, {| p_params := [("p0"%string, false); ("p1"%string, false)];
                      p_body := [SAssign "p1" (ESum false [EVar "p1"; EVar "p0"])] |})].
Definition sg_noint : sigs := [("sub0"%string, [IIn; INone])].
Definition wit_noint : list stmt := [SCall "sub0" [EVar "x"; EVar "y"]].

Lemma call_refuted_no_intent :
  exists s s' t, exec_tr ps_noint 5 wit_noint s = Some (s', t) /\
    In (LS "y") (fst t) /\ ~ In "y"%string (defines_of sg_noint wit_noint) /\ sv s' "y" <> sv s "y" /\
    In (LS "y") (snd t) /\ ~ In "y"%string (uses_of sg_noint wit_noint).
Proof.
  destruct (run_obs ps_noint 5 wit_noint (st0 [("x"%string, 1); ("y"%string, 2)] []) ([LS "y"], [LS "y"; LS "x"]) "y" 3) as [s' [E V]];
    [vm_compute; reflexivity|].
  exists (st0 [("x"%string, 1); ("y"%string, 2)] []), s', ([LS "y"], [LS "y"; LS "x"]).
  split; [exact E|]. split; [cbn; auto|]. split; [vm_compute; intros []|]. split.
  - rewrite V. vm_compute. discriminate.
  - split; [cbn; auto|]. vm_compute. intros [H|[]]. discriminate.
Qed.

(** an intent(out) actual that also is a subscript of another written actual is dropped from the defines *)
Definition ps_subscr : procs :=
  [("sub0"%string, {| p_params := [("p0"%string, false); ("p1"%string, false)]; p_body := [SAssign "p0" (EInt 3)] |})].
Definition sg_subscr : sigs := [("sub0"%string, [IOut; IInOut])].
Definition wit_subscr : list stmt := [SCall "sub0" [EVar "n"; ECall "a" [EVar "n"]]].

Lemma call_refuted_out_actual_in_subscript :
  exists s s' t, exec_tr ps_subscr 5 wit_subscr s = Some (s', t) /\
    In (LS "n") (fst t) /\ ~ In "n"%string (defines_of sg_subscr wit_subscr) /\ sv s' "n" <> sv s "n".
Proof.
  destruct (run_obs ps_subscr 5 wit_subscr (st0 [("n"%string, 1)] []) ([LS "n"], [LS "n"; LA "a" [1]]) "n" 3) as [s' [E V]];
    [vm_compute; reflexivity|].
  exists (st0 [("n"%string, 1)] []), s', ([LS "n"], [LS "n"; LA "a" [1]]).
  split; [exact E|]. split; [cbn; auto|]. split.
  - vm_compute. intros [H|[]]. discriminate.
  - rewrite V. vm_compute. discriminate.
Qed.

(** live: in the second iteration the IF node of the loop body is entered while [x] holds the value
    written by the last statement of the first iteration, but its live set is {i, y} *)
Definition wit_if : stmt := SIf (ECmp Cgt (EVar "i") (EInt 1)) [SAssign "y" (EVar "x")] [].
Definition wit_live : list stmt :=
  [SAssign "y" (EInt 0); SDo "i" (EInt 1) (EInt 2) None [wit_if; SAssign "x" (EVar "i")]].
(** what has been executed when the IF is entered for the second time, and the rest of the run *)
Definition wit_live_pre2 : list stmt :=
  [SAssign "y" (EInt 0); SAssign "i" (EInt 1); wit_if; SAssign "x" (EVar "i"); SAssign "i" (EInt 2)].
Definition wit_live_rest2 : list stmt := [wit_if; SAssign "x" (EVar "i"); SAssign "i" (EInt 3)].

Lemma live_refuted :
  (exists d u lv, nth_error (annot_routine [] [("y"%string, IOut)] wit_live) 3 = Some (d, u, lv) /\
                  d = fst (du_stmt [] wit_if) /\ set_eqb lv ["i"%string; "y"%string] = true /\ ~ In "x"%string lv) /\
  (exists s' t, exec_tr [] 10 wit_live_pre2 (st0 [] []) = Some (s', t) /\ In (LS "x") (fst t)) /\
  run_observe [] 10 (wit_live_pre2 ++ wit_live_rest2) [] [] ["x"%string; "y"%string; "i"%string] [] =
  run_observe [] 10 wit_live [] [] ["x"%string; "y"%string; "i"%string] [] /\
  ~ In "x"%string (dovars wit_live).
Proof.
  split; [|split; [|split]].
  - exists ["y"%string], ["i"%string; "x"%string], ["i"%string; "y"%string].
    split; [vm_compute; reflexivity|]. split; [reflexivity|]. split; [vm_compute; reflexivity|].
    intros [H|[H|[]]]; discriminate.
  - destruct (run_summary [] 10 wit_live_pre2 (st0 [] []) ([LS "y"; LS "i"; LS "x"; LS "i"], [])) as [s' E]; [vm_compute; reflexivity|].
    exists s', ([LS "y"; LS "i"; LS "x"; LS "i"], []). split; [exact E|]. cbn. auto.
  - vm_compute. reflexivity.
  - vm_compute. intros [H|[]]. discriminate.
Qed.

(** the hypotheses of the class theorems are satisfiable by programs with loops, branches and calls *)
Definition ex_ps : procs :=
  [("sub0"%string, {| p_params := [("p0"%string, false); ("p1"%string, false); ("q2"%string, true)];
                      p_body := [SAssign "p1" (ESum false [EVar "p0"; ECall "q2" [EInt 1]]);
                                 SStore "q2" [EInt 2] (EVar "p1")] |})].
Definition ex_sg : sigs := [("sub0"%string, [IIn; IOut; IInOut])].
Definition ex_mw : musts := [("sub0"%string, [false; true; false])].
Definition ex_prog : list stmt :=
  [SAssign "x" (EInt 2);
   SCall "sub0" [ESum false [EVar "x"; EInt 1]; EVar "y"; EVar "a"];
   SDo "i" (EInt 1) (EVar "y") None
     [SIf (ECmp Cgt (ECall "a" [EVar "i"]) (EInt 0)) [SAssign "z" (EVar "y")] [SAssign "z" (EInt 0)];
      SStore "b" [EVar "i"] (EVar "z")];
   SAssign "w" (EVar "z")].

Example class_nonempty :
  sigs_ok ex_mw ex_ps ex_sg = true /\ dsafe ex_sg ex_prog = true /\
  definite ex_mw ex_ps ex_sg (firstn 3 ex_prog) = true /\ definite ex_mw ex_ps ex_sg ex_prog = false /\
  exists s' t, exec_tr ex_ps 10 ex_prog (st0 [] []) = Some (s', t).
Proof.
  repeat split; try (vm_compute; reflexivity).
  destruct (exec_tr ex_ps 10 ex_prog (st0 [] [])) as [[s' t]|] eqn:E; [eauto|].
  exfalso. assert (option_map (fun _ => tt) (exec_tr ex_ps 10 ex_prog (st0 [] [])) = Some tt) as A by (vm_compute; reflexivity).
  rewrite E in A. discriminate.
Qed.
