(** C40 — proofs, part 8: the arithmetic part of C32's model of [simplify] is idempotent wherever it is
    defined on its own output (used to discharge the side condition of dead-code removal with use_simplify). *)
From Coq Require Import ZArith List Bool String Lia.
From LV Require Import Base.Expr Base.MiniF models.M_C32 models.M_C40 proofs.P_C40_base.
Import ListNotations.
Open Scope Z_scope.
Open Scope list_scope.

Definition atom (x : expr) : bool :=
  match x with
  | EVar _ => true
  | ECall f _ => negb (is_intr f)
  | _ => false
  end.

Definition wf (s : sval) : Prop :=
  match s with SA x | SN x => atom x = true | _ => True end.

Notation sm := (simp false []).

Lemma simp_atom x : atom x = true -> sm x = Some (SA x).
Proof.
  destruct x; cbn [atom]; try discriminate; intros H.
  - reflexivity.
  - cbn [simp]. apply negb_true_iff in H. now rewrite H.
Qed.

Lemma simp_lit v : sm (lit v) = Some (SV v).
Proof.
  unfold lit. destruct (v <? 0) eqn:E; [|reflexivity].
  cbn [simp prod2]. f_equal. f_equal. lia.
Qed.

Lemma simp_negx x : atom x = true -> sm (negx x) = Some (SN x).
Proof. intros H. unfold negx. cbn [simp]. rewrite (simp_atom x H). reflexivity. Qed.

(** fixed-point property of a result *)
Definition fixes (s : sval) : Prop := forall s', sm (expr_of s) = Some s' -> s' = s.

Lemma fixes_SV v : fixes (SV v).
Proof. intros s'. cbn [expr_of]. rewrite simp_lit. now intros [= <-]. Qed.
Lemma fixes_SA x : atom x = true -> fixes (SA x).
Proof. intros H s'. cbn [expr_of]. rewrite (simp_atom x H). now intros [= <-]. Qed.
Lemma fixes_SN x : atom x = true -> fixes (SN x).
Proof. intros H s'. cbn [expr_of]. rewrite (simp_negx x H). now intros [= <-]. Qed.

Ltac fin := first [ apply fixes_SV | apply fixes_SA; assumption | apply fixes_SN; assumption ].

Lemma sum2_ok x y s : wf x -> wf y -> sum2 x y = Some s -> wf s /\ fixes s.
Proof.
  intros Wx Wy H. destruct x as [a|a|a|a], y as [b|b|b|b]; cbn [sum2 wf] in *; try discriminate.
  - inversion H; subst. split; [exact I|fin].
  - destruct (a =? 0) eqn:E; inversion H; subst; (split; [cbn [wf]; auto|]); [fin|].
    intros s'. cbn [expr_of simp]. rewrite simp_lit, (simp_atom b Wy). cbn [sum2]. rewrite E. now intros [= <-].
  - destruct (a =? 0) eqn:E; inversion H; subst; (split; [cbn [wf]; auto|]); [fin|].
    intros s'. cbn [expr_of simp]. rewrite simp_lit, (simp_negx b Wy). cbn [sum2]. rewrite E. now intros [= <-].
  - destruct (b =? 0) eqn:E; inversion H; subst; (split; [cbn [wf]; auto|]); [fin|].
    intros s'. cbn [expr_of simp]. rewrite simp_lit, (simp_atom a Wx). cbn [sum2]. rewrite E. now intros [= <-].
  - destruct (expr_eqb a b) eqn:E; inversion H; subst; (split; [exact I|]).
    + intros s'. cbn [expr_of simp]. rewrite (simp_atom a Wx). cbn [prod2 coef Z.eqb Z.ltb Z.compare]. now intros [= <-].
    + intros s'. cbn [expr_of simp]. rewrite (simp_atom a Wx), (simp_atom b Wy). cbn [sum2]. rewrite E. now intros [= <-].
  - destruct (expr_eqb a b) eqn:E.
    + destruct (total_e a); inversion H; subst. split; [exact I|fin].
    + inversion H; subst. split; [exact I|].
      intros s'. cbn [expr_of simp]. rewrite (simp_atom a Wx), (simp_negx b Wy). cbn [sum2]. rewrite E. now intros [= <-].
  - destruct (b =? 0) eqn:E; inversion H; subst; (split; [cbn [wf]; auto|]); [fin|].
    intros s'. cbn [expr_of simp]. rewrite simp_lit, (simp_negx a Wx). cbn [sum2]. rewrite E. now intros [= <-].
  - destruct (expr_eqb a b) eqn:E.
    + destruct (total_e a); inversion H; subst. split; [exact I|fin].
    + inversion H; subst. split; [exact I|].
      intros s'. cbn [expr_of simp]. rewrite (simp_atom b Wy), (simp_negx a Wx). cbn [sum2]. rewrite E. now intros [= <-].
Qed.

Lemma coef_ok c y s : atom y = true -> coef c y = Some s -> wf s /\ fixes s.
Proof.
  intros Hy H. pose proof H as H'. unfold coef in H.
  destruct (c =? 0) eqn:E0.
  { destruct (total_e y); inversion H; subst. split; [exact I|fin]. }
  destruct (c =? 1) eqn:E1.
  { inversion H; subst. split; [exact Hy|fin]. }
  destruct (c =? -1) eqn:E2.
  { inversion H; subst. split; [exact Hy|fin]. }
  destruct (0 <? c) eqn:E3; inversion H; subst; (split; [exact I|]).
  - intros s'. cbn [expr_of simp]. rewrite (simp_atom y Hy). cbn [prod2]. rewrite H'. now intros [= <-].
  - intros s'. cbn [expr_of simp]. rewrite (simp_atom y Hy). cbn [prod2].
    assert (Q : coef (- c) y = Some (SC (EProd false [EInt (- c); y]))).
    { unfold coef. apply Z.eqb_neq in E0. apply Z.eqb_neq in E1. apply Z.eqb_neq in E2. apply Z.ltb_ge in E3.
      assert (A0 : (- c =? 0) = false) by (apply Z.eqb_neq; lia).
      assert (A1 : (- c =? 1) = false) by (apply Z.eqb_neq; lia).
      assert (A2 : (- c =? -1) = false) by (apply Z.eqb_neq; lia).
      assert (A3 : (0 <? - c) = true) by (apply Z.ltb_lt; lia).
      now rewrite A0, A1, A2, A3. }
    rewrite Q. cbn [prod2]. discriminate.
Qed.

Lemma prod2_ok x y s : wf x -> wf y -> prod2 x y = Some s -> wf s /\ fixes s.
Proof.
  intros Wx Wy H. destruct x as [a|a|a|a], y as [b|b|b|b]; cbn [prod2 wf] in *; try discriminate.
  - inversion H; subst. split; [exact I|fin].
  - now apply (coef_ok a b).
  - now apply (coef_ok b a).
  - inversion H; subst. split; [exact I|].
    intros s'. cbn [expr_of simp]. rewrite (simp_atom a Wx), (simp_atom b Wy). cbn [prod2]. now intros [= <-].
Qed.

Lemma quot2_ok x y s : wf x -> wf y -> quot2 false x y = Some s -> wf s /\ fixes s.
Proof.
  intros Wx Wy H. pose proof H as H'.
  destruct x as [a|a|a|a], y as [b|b|b|b]; cbn [quot2 wf] in *; try discriminate.
  - destruct (b =? 0) eqn:E0; [discriminate|]. cbn [andb] in H.
    destruct ((0 <=? a) && (0 <? b)) eqn:E1; [|discriminate].
    destruct (Z.rem a b =? 0) eqn:E2.
    + inversion H; subst. split; [exact I|fin].
    + destruct (Z.gcd a b =? 1) eqn:E3; [|discriminate]. inversion H; subst. split; [exact I|].
      intros s'. cbn [expr_of simp quot2]. rewrite E0, E1, E2, E3. now intros [= <-].
  - destruct (a =? 0) eqn:E0; [discriminate|]. destruct (0 <? a) eqn:E1; inversion H; subst; (split; [exact I|]).
    + intros s'. cbn [expr_of simp]. rewrite (simp_atom b Wy). cbn [quot2]. rewrite E0, E1. now intros [= <-].
    + intros s'. cbn [expr_of]. unfold negx. cbn [simp]. rewrite (simp_atom b Wy). cbn [quot2 prod2].
      apply Z.eqb_neq in E0. apply Z.ltb_ge in E1.
      assert (A0 : (- a =? 0) = false) by (apply Z.eqb_neq; lia).
      assert (A1 : (0 <? - a) = true) by (apply Z.ltb_lt; lia).
      rewrite A0, A1. cbn [prod2]. discriminate.
  - destruct (b =? 1) eqn:E0. { inversion H; subst. split; [exact Wx|fin]. }
    destruct (b =? -1) eqn:E1. { inversion H; subst. split; [exact Wx|fin]. }
    destruct (0 <=? b) eqn:E2; inversion H; subst; (split; [exact I|]).
    + intros s'. cbn [expr_of simp]. rewrite (simp_atom a Wx). cbn [quot2]. rewrite E0, E1, E2. now intros [= <-].
    + intros s'. cbn [expr_of]. unfold negx. cbn [simp]. rewrite (simp_atom a Wx). cbn [quot2 prod2].
      apply Z.eqb_neq in E0. apply Z.eqb_neq in E1. apply Z.leb_gt in E2.
      assert (A0 : (- b =? 1) = false) by (apply Z.eqb_neq; lia).
      assert (A1 : (- b =? -1) = false) by (apply Z.eqb_neq; lia).
      assert (A2 : (0 <=? - b) = true) by (apply Z.leb_le; lia).
      rewrite A0, A1, A2. cbn [prod2]. discriminate.
  - inversion H; subst. split; [exact I|].
    intros s'. cbn [expr_of simp]. rewrite (simp_atom a Wx), (simp_atom b Wy). cbn [quot2]. now intros [= <-].
Qed.

Theorem simp_ok : forall e s, sm e = Some s -> wf s /\ fixes s.
Proof.
  induction e using expr_ind'; intros s Hs; cbn [simp] in Hs; try discriminate.
  - inversion Hs; subst. split; [exact I|fin].
  - inversion Hs; subst. split; [exact I|fin].
  - cbn [M_C32.lookup] in Hs. inversion Hs; subst. split; [reflexivity|]. now apply fixes_SA.
  - destruct cs as [|a [|b [|c r]]]; try discriminate.
    inversion H as [|? ? Ha Hr]; subst. inversion Hr as [|? ? Hb _]; subst.
    destruct (sm a) as [x|] eqn:Ea; [|discriminate]. destruct (sm b) as [y|] eqn:Eb; [|discriminate].
    destruct (Ha x eq_refl) as [Wx _]. destruct (Hb y eq_refl) as [Wy _]. now apply (sum2_ok x y).
  - destruct cs as [|a [|b [|c r]]]; try discriminate.
    inversion H as [|? ? Ha Hr]; subst. inversion Hr as [|? ? Hb _]; subst.
    destruct (sm a) as [x|] eqn:Ea; [|discriminate]. destruct (sm b) as [y|] eqn:Eb; [|discriminate].
    destruct (Ha x eq_refl) as [Wx _]. destruct (Hb y eq_refl) as [Wy _]. now apply (prod2_ok x y).
  - destruct (sm e1) as [x|] eqn:Ea; [|discriminate]. destruct (sm e2) as [y|] eqn:Eb; [|discriminate].
    destruct (IHe1 x eq_refl) as [Wx _]. destruct (IHe2 y eq_refl) as [Wy _]. now apply (quot2_ok x y).
  - destruct (is_intr f) eqn:Ei; [discriminate|]. inversion Hs; subst. split.
    + cbn [wf atom]. now rewrite Ei.
    + apply fixes_SA. cbn [atom]. now rewrite Ei.
Qed.

(** * conditions *)
Notation sc := (simp_cond false []).

Fixpoint sc_list (l : list expr) : option (list expr) :=
  match l with
  | [] => Some []
  | x :: r => match sc x, sc_list r with Some x', Some r' => Some (x' :: r') | _, _ => None end
  end.

Lemma sc_go l :
  (fix go (l : list expr) : option (list expr) :=
     match l with
     | [] => Some []
     | x :: r => match sc x, go r with Some x', Some r' => Some (x' :: r') | _, _ => None end
     end) l = sc_list l.
Proof. induction l as [|x r IH]; [reflexivity|]. cbn [sc_list]. now rewrite <- IH. Qed.

Lemma sc_and cs : sc (EAnd cs) =
  match sc_list cs with
  | Some cs' =>
      if existsb is_false cs' then (if forallb total_c cs' then Some (ELog false) else None)
      else match filter (fun x => negb (is_true x)) cs' with [] => Some (ELog true) | rest => Some (EAnd rest) end
  | None => None
  end.
Proof. cbn [simp_cond]. now rewrite sc_go. Qed.

Lemma sc_or cs : sc (EOr cs) =
  match sc_list cs with
  | Some cs' =>
      if existsb is_true cs' then (if forallb total_c cs' then Some (ELog true) else None)
      else match filter (fun x => negb (is_false x)) cs' with [] => Some (ELog false) | rest => Some (EOr rest) end
  | None => None
  end.
Proof. cbn [simp_cond]. now rewrite sc_go. Qed.

Definition cfix (c' : expr) : Prop := forall c'', sc c' = Some c'' -> c'' = c'.

(** the outputs of a list of conditions, re-simplified, stay the same *)
Lemma sc_list_fix cs : Forall (fun c => forall c', sc c = Some c' -> cfix c') cs ->
  forall cs', sc_list cs = Some cs' -> Forall cfix cs'.
Proof.
  induction 1 as [|c r H _ IH]; intros cs' E; cbn [sc_list] in E.
  - inversion E; subst. constructor.
  - destruct (sc c) as [x|] eqn:Ex; [|discriminate]. destruct (sc_list r) as [r'|] eqn:Er; [|discriminate].
    inversion E; subst. constructor; [now apply H|now apply IH].
Qed.

Lemma sc_list_same l : Forall cfix l -> forall l', sc_list l = Some l' -> l' = l.
Proof.
  induction 1 as [|x r H _ IH]; intros l' E; cbn [sc_list] in E; [now inversion E|].
  destruct (sc x) as [x'|] eqn:Ex; [|discriminate]. destruct (sc_list r) as [r'|] eqn:Er; [|discriminate].
  inversion E; subst. f_equal; [now apply H|now apply IH].
Qed.

Lemma Forall_filter {A} (P : A -> Prop) (f : A -> bool) l : Forall P l -> Forall P (filter f l).
Proof. induction 1 as [|x l H _ IH]; cbn; [constructor|]. destruct (f x); [now constructor|exact IH]. Qed.

Lemma filter_idem {A} (f : A -> bool) l : filter f (filter f l) = filter f l.
Proof. induction l as [|x l IH]; cbn; [reflexivity|]. destruct (f x) eqn:E; cbn; [now rewrite E, IH|exact IH]. Qed.

Lemma existsb_filter_false {A} (g f : A -> bool) l : existsb g l = false -> existsb g (filter f l) = false.
Proof.
  induction l as [|x l IH]; cbn; [reflexivity|]. intros H. apply orb_false_iff in H. destruct H as [H1 H2].
  destruct (f x); cbn; [now rewrite H1, IH|now apply IH].
Qed.

Theorem simp_cond_ok : forall c c', sc c = Some c' -> cfix c'.
Proof.
  induction c using expr_ind'; intros c' Hc; try (cbn [simp_cond] in Hc; discriminate).
  - (* ELog *) cbn [simp_cond] in Hc. inversion Hc; subst. intros c'' E. cbn [simp_cond] in E. now inversion E.
  - (* ECmp *)
    cbn [simp_cond] in Hc.
    destruct (sm c1) as [x|] eqn:Ex; [|discriminate]. destruct (sm c2) as [y|] eqn:Ey; [|destruct x; discriminate].
    destruct (simp_ok c1 x Ex) as [_ Fx]. destruct (simp_ok c2 y Ey) as [_ Fy].
    assert (G : c' = ECmp op (expr_of x) (expr_of y) \/ exists b, c' = ELog b).
    { destruct x, y; inversion Hc; subst; eauto. }
    destruct G as [G|[b G]]; subst c'.
    + intros c'' E. cbn [simp_cond] in E.
      destruct (sm (expr_of x)) as [x'|] eqn:Ex'; [|discriminate].
      destruct (sm (expr_of y)) as [y'|] eqn:Ey'; [|destruct x'; discriminate].
      rewrite (Fx x' Ex') in *. rewrite (Fy y' Ey') in *.
      destruct x, y; inversion Hc; subst; inversion E; subst; reflexivity.
    + intros c'' E. cbn [simp_cond] in E. now inversion E.
  - (* EAnd *)
    rewrite sc_and in Hc. destruct (sc_list cs) as [cs'|] eqn:El; [|discriminate].
    pose proof (sc_list_fix cs H cs' El) as Fc.
    destruct (existsb is_false cs') eqn:Ef.
    + destruct (forallb total_c cs'); inversion Hc; subst. intros c'' E. cbn [simp_cond] in E. now inversion E.
    + destruct (filter (fun x => negb (is_true x)) cs') as [|r0 rest] eqn:Er.
      * inversion Hc; subst. intros c'' E. cbn [simp_cond] in E. now inversion E.
      * inversion Hc; subst. intros c'' E. rewrite sc_and in E.
        destruct (sc_list (r0 :: rest)) as [l'|] eqn:El'; [|discriminate].
        assert (Fr : Forall cfix (r0 :: rest)) by (rewrite <- Er; now apply Forall_filter).
        rewrite (sc_list_same _ Fr l' El') in E.
        assert (X : existsb is_false (r0 :: rest) = false) by (rewrite <- Er; now apply existsb_filter_false).
        rewrite X in E. rewrite <- Er in E. rewrite filter_idem in E. rewrite Er in E. now inversion E.
  - (* EOr *)
    rewrite sc_or in Hc. destruct (sc_list cs) as [cs'|] eqn:El; [|discriminate].
    pose proof (sc_list_fix cs H cs' El) as Fc.
    destruct (existsb is_true cs') eqn:Ef.
    + destruct (forallb total_c cs'); inversion Hc; subst. intros c'' E. cbn [simp_cond] in E. now inversion E.
    + destruct (filter (fun x => negb (is_false x)) cs') as [|r0 rest] eqn:Er.
      * inversion Hc; subst. intros c'' E. cbn [simp_cond] in E. now inversion E.
      * inversion Hc; subst. intros c'' E. rewrite sc_or in E.
        destruct (sc_list (r0 :: rest)) as [l'|] eqn:El'; [|discriminate].
        assert (Fr : Forall cfix (r0 :: rest)) by (rewrite <- Er; now apply Forall_filter).
        rewrite (sc_list_same _ Fr l' El') in E.
        assert (X : existsb is_true (r0 :: rest) = false) by (rewrite <- Er; now apply existsb_filter_false).
        rewrite X in E. rewrite <- Er in E. rewrite filter_idem in E. rewrite Er in E. now inversion E.
  - (* ENot *)
    cbn [simp_cond] in Hc. destruct (sc c) as [x|] eqn:Ex; [|discriminate].
    pose proof (IHc x eq_refl) as Fx.
    assert (G : (exists b, x = ELog b /\ c' = ELog (negb b)) \/ (is_lit x = false /\ c' = ENot x)).
    { destruct x; inversion Hc; subst; eauto. }
    destruct G as [[b [G1 G2]]|[G1 G2]]; subst.
    + intros c'' E. cbn [simp_cond] in E. now inversion E.
    + intros c'' E. cbn [simp_cond] in E. destruct (sc x) as [x'|] eqn:Ex'; [|discriminate].
      rewrite (Fx x' Ex') in E. destruct x; inversion E; subst; try reflexivity. discriminate.
Qed.

(** * from conditions to programs *)
Lemma list_expr_eqb_refl l : Forall (fun x => expr_eqb x x = true) l -> list_expr_eqb l l = true.
Proof. induction 1 as [|x l H _ IH]; cbn; [reflexivity|]. now rewrite H, IH. Qed.

Lemma expr_eqb_refl : forall e, expr_eqb e e = true.
Proof.
  induction e using expr_ind'.
  - cbn. apply Z.eqb_refl.
  - cbn. apply Z.eqb_refl.
  - cbn. apply String.eqb_refl.
  - cbn. now destruct b.
  - change (Bool.eqb p p && list_expr_eqb cs cs = true). rewrite (list_expr_eqb_refl cs H). now destruct p.
  - change (Bool.eqb p p && list_expr_eqb cs cs = true). rewrite (list_expr_eqb_refl cs H). now destruct p.
  - cbn. rewrite IHe1, IHe2. now destruct p.
  - cbn. rewrite IHe1, IHe2. now destruct p.
  - cbn. rewrite IHe1, IHe2. now destruct op.
  - change (list_expr_eqb cs cs = true). now apply list_expr_eqb_refl.
  - change (list_expr_eqb cs cs = true). now apply list_expr_eqb_refl.
  - cbn. exact IHe.
  - change (String.eqb f f && list_expr_eqb args args = true). rewrite String.eqb_refl. now apply list_expr_eqb_refl.
Qed.

(** a property of every IF condition of a program *)
Fixpoint conds_all (P : expr -> Prop) (s : stmt) : Prop :=
  let fix go (l : list stmt) : Prop := match l with [] => True | x :: r => conds_all P x /\ go r end in
  match s with
  | SIf c t e => P c /\ go t /\ go e
  | SDo _ _ _ _ b => go b
  | SWhile _ b => go b
  | _ => True
  end.
Fixpoint conds_all_l (P : expr -> Prop) (l : list stmt) : Prop :=
  match l with [] => True | x :: r => conds_all P x /\ conds_all_l P r end.

Lemma conds_all_go P l :
  (fix go (l : list stmt) : Prop := match l with [] => True | x :: r => conds_all P x /\ go r end) l = conds_all_l P l.
Proof. induction l as [|x r IH]; [reflexivity|]. cbn [conds_all_l]. now rewrite <- IH. Qed.

Lemma conds_all_if P c t e : conds_all P (SIf c t e) = (P c /\ conds_all_l P t /\ conds_all_l P e).
Proof. cbn [conds_all]. now rewrite !conds_all_go. Qed.
Lemma conds_all_do P v lo hi st b : conds_all P (SDo v lo hi st b) = conds_all_l P b.
Proof. cbn [conds_all]. now rewrite conds_all_go. Qed.
Lemma conds_all_while P c b : conds_all P (SWhile c b) = conds_all_l P b.
Proof. cbn [conds_all]. now rewrite conds_all_go. Qed.

Lemma conds_all_app P a b : conds_all_l P (a ++ b) <-> conds_all_l P a /\ conds_all_l P b.
Proof. induction a as [|x a IH]; cbn [app conds_all_l]; [tauto|]. rewrite IH. tauto. Qed.

Definition img (c' : expr) : Prop := exists c, sc c = Some c'.
Definition defd (c : expr) : Prop := exists c2, sc c = Some c2.

From LV Require Import proofs.P_C40_dce.

(** A: with use_simplify every condition of the output is an output of the simplification *)
Lemma dce_img_list l :
  Forall (fun s => forall q, dce1 true s = Some q -> conds_all_l img q) l ->
  forall q, dce true l = Some q -> conds_all_l img q.
Proof.
  induction 1 as [|s r H _ IH]; intros q E; cbn [dce] in E.
  - inversion E; subst. exact I.
  - destruct (dce1 true s) as [a|] eqn:E1; [|discriminate]. destruct (dce true r) as [b|] eqn:E2; [|discriminate].
    inversion E; subst. apply conds_all_app. split; [now apply H|now apply IH].
Qed.

Lemma dce1_img : forall s q, dce1 true s = Some q -> conds_all_l img q.
Proof.
  induction s using stmt_ind'; intros q E.
  - cbn [dce1] in E. inversion E; subst. cbn. tauto.
  - cbn [dce1] in E. inversion E; subst. cbn. tauto.
  - rewrite dce1_do in E. destruct (dce true b) as [b'|] eqn:Eb; [|discriminate]. inversion E; subst.
    cbn [conds_all_l]. rewrite conds_all_do. split; [|exact I]. now apply (dce_img_list b H).
  - rewrite dce1_while in E. destruct (dce true b) as [b'|] eqn:Eb; [|discriminate]. inversion E; subst.
    cbn [conds_all_l]. rewrite conds_all_while. split; [|exact I]. now apply (dce_img_list b H).
  - rewrite dce1_if in E.
    destruct (sc c) as [c'|] eqn:Ec; [|discriminate].
    destruct (dce true t) as [t'|] eqn:Et; [|discriminate].
    destruct (dce true e) as [e'|] eqn:Ee; [|discriminate].
    destruct (lit_cases c') as [L|[L|L]].
    + subst c'. inversion E; subst. now apply (dce_img_list t H).
    + subst c'. inversion E; subst. now apply (dce_img_list e H0).
    + rewrite (not_lit_match c' _ _ _ L) in E. destruct (is_elseif e && is_nil e'); [discriminate|].
      inversion E; subst. cbn [conds_all_l]. rewrite conds_all_if. split; [|exact I].
      split; [now exists c|]. split; [now apply (dce_img_list t H)|now apply (dce_img_list e H0)].
  - cbn [dce1] in E. inversion E; subst. cbn. tauto.
  - cbn [dce1] in E. inversion E; subst. cbn. tauto.
Qed.

Lemma dce_img p q : dce true p = Some q -> conds_all_l img q.
Proof. apply dce_img_list. apply Forall_forall. intros s _. apply dce1_img. Qed.

(** B: if the second application is defined, every condition of its input is simplifiable *)
Lemma dce_defd_list l :
  Forall (fun s => forall q, dce1 true s = Some q -> conds_all defd s) l ->
  forall q, dce true l = Some q -> conds_all_l defd l.
Proof.
  induction 1 as [|s r H _ IH]; intros q E; cbn [dce] in E; [exact I|].
  destruct (dce1 true s) as [a|] eqn:E1; [|discriminate]. destruct (dce true r) as [b|] eqn:E2; [|discriminate].
  cbn [conds_all_l]. split; [now apply (H a)|now apply (IH b)].
Qed.

Lemma dce1_defd : forall s q, dce1 true s = Some q -> conds_all defd s.
Proof.
  induction s using stmt_ind'; intros q E; try exact I.
  - rewrite dce1_do in E. destruct (dce true b) as [b'|] eqn:Eb; [|discriminate].
    rewrite conds_all_do. now apply (dce_defd_list b H b').
  - rewrite dce1_while in E. destruct (dce true b) as [b'|] eqn:Eb; [|discriminate].
    rewrite conds_all_while. now apply (dce_defd_list b H b').
  - rewrite dce1_if in E.
    destruct (sc c) as [c'|] eqn:Ec; [|discriminate].
    destruct (dce true t) as [t'|] eqn:Et; [|discriminate].
    destruct (dce true e) as [e'|] eqn:Ee; [|discriminate].
    rewrite conds_all_if. split; [now exists c'|].
    split; [now apply (dce_defd_list t H t')|now apply (dce_defd_list e H0 e')].
Qed.

Lemma dce_defd q q' : dce true q = Some q' -> conds_all_l defd q.
Proof. apply dce_defd_list. apply Forall_forall. intros s _. apply dce1_defd. Qed.

(** C: outputs of the simplification on which it is defined are fixed points *)
Lemma stable_list l :
  Forall (fun s => conds_all img s -> conds_all defd s -> conds_stable_stmt s = true) l ->
  conds_all_l img l -> conds_all_l defd l -> forallb conds_stable_stmt l = true.
Proof.
  induction 1 as [|s r H _ IH]; intros A B; [reflexivity|].
  cbn [conds_all_l] in A, B. destruct A as [A1 A2]. destruct B as [B1 B2].
  cbn [forallb]. now rewrite (H A1 B1), (IH A2 B2).
Qed.

Lemma stable_stmt : forall s, conds_all img s -> conds_all defd s -> conds_stable_stmt s = true.
Proof.
  induction s using stmt_ind'; intros A B; try reflexivity.
  - rewrite conds_all_do in A, B. cbn [conds_stable_stmt]. now apply stable_list.
  - rewrite conds_all_while in A, B. cbn [conds_stable_stmt]. now apply stable_list.
  - rewrite conds_all_if in A, B. destruct A as [[c0 A0] [A1 A2]]. destruct B as [[c2 B0] [B1 B2]].
    cbn [conds_stable_stmt]. rewrite (stable_list t H A1 B1), (stable_list e H0 A2 B2).
    rewrite !andb_true_r. unfold cond_stable. rewrite B0.
    rewrite (simp_cond_ok c0 c A0 c2 B0). apply expr_eqb_refl.
Qed.

Theorem conds_stable_of_defined p q q' : dce true p = Some q -> dce true q = Some q' -> conds_stable q = true.
Proof.
  intros E1 E2. unfold conds_stable. apply stable_list.
  - apply Forall_forall. intros s _. apply stable_stmt.
  - now apply (dce_img p).
  - now apply (dce_defd q q').
Qed.

(** do_remove_dead_code(use_simplify=True): whenever the model is defined on its own output, the second
    application returns that output unchanged *)
Theorem dce_idem_simplify p q q' : dce true p = Some q -> dce true q = Some q' -> q' = q.
Proof.
  intros E1 E2. pose proof (conds_stable_of_defined p q q' E1 E2) as S.
  pose proof (dce_idem_simplify_partial p q E1 S) as F. rewrite F in E2. now inversion E2.
Qed.
