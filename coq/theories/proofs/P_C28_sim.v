(** C28 — the substitution lemma for statements: executing the substituted body in the caller's store
    simulates, fuel for fuel, the execution of the body in a callee store whose variables alias the caller's. *)
From Coq Require Import ZArith List Bool String Lia.
From LV Require Import Base.Expr Base.MiniF Base.MiniFFacts models.M_C28 proofs.P_C28_norm proofs.P_C28_subst.
Import ListNotations.
Open Scope Z_scope.

Definition orel {A B} (R : A -> B -> Prop) (o1 : option A) (o2 : option B) : Prop :=
  match o1, o2 with
  | Some a, Some b => R a b
  | None, None => True
  | _, _ => False
  end.

Lemma orel_bind {A B A' B'} (R : A -> B -> Prop) (R' : A' -> B' -> Prop) o1 o2 f1 f2 :
  orel R o1 o2 -> (forall a b, R a b -> orel R' (f1 a) (f2 b)) -> orel R' (obind o1 f1) (obind o2 f2).
Proof. destruct o1, o2; cbn; intros H K; try contradiction; auto. Qed.

Lemma orel_impl {A B} (R R' : A -> B -> Prop) o1 o2 :
  orel R o1 o2 -> (forall a b, R a b -> R' a b) -> orel R' o1 o2.
Proof. destruct o1, o2; cbn; auto. Qed.

(** unfolding equations of the nested fixpoints *)
Lemma subst_stmt_do m v lo hi st b :
  subst_stmt m (SDo v lo hi st b) =
  match lhs_of (lk_s m v), subst_stmts m b with
  | LVar y, Some b' => Some (SDo y (subst_e m lo) (subst_e m hi) (option_map (subst_e m) st) b')
  | _, _ => None
  end.
Proof. reflexivity. Qed.
Lemma subst_stmt_while m c b :
  subst_stmt m (SWhile c b) = match subst_stmts m b with Some b' => Some (SWhile (subst_e m c) b') | None => None end.
Proof. reflexivity. Qed.
Lemma subst_stmt_if m c t e :
  subst_stmt m (SIf c t e) =
  match subst_stmts m t, subst_stmts m e with Some t', Some e' => Some (SIf (subst_e m c) t' e') | _, _ => None end.
Proof. reflexivity. Qed.

Lemma da_stmt_do Vall A V v lo hi st b :
  da_stmt Vall A V (SDo v lo hi st b) =
  if e_ok (okv Vall V) (oka A) lo && e_ok (okv Vall V) (oka A) hi && oe_ok (okv Vall V) (oka A) st && mem v Vall
  then match da_stmts Vall A (v :: V) b with Some _ => Some (v :: V) | None => None end
  else None.
Proof. reflexivity. Qed.
Lemma da_stmt_while Vall A V c b :
  da_stmt Vall A V (SWhile c b) =
  if e_ok (okv Vall V) (oka A) c then match da_stmts Vall A V b with Some _ => Some V | None => None end else None.
Proof. reflexivity. Qed.
Lemma da_stmt_if Vall A V c t e :
  da_stmt Vall A V (SIf c t e) =
  if e_ok (okv Vall V) (oka A) c
  then match da_stmts Vall A V t, da_stmts Vall A V e with Some _, Some _ => Some V | _, _ => None end
  else None.
Proof. reflexivity. Qed.

Lemma da_stmt_out Vall A V st V1 : da_stmt Vall A V st = Some V1 -> V1 = V \/ exists x, V1 = x :: V.
Proof.
  destruct st as [x e|a idx e|v lo hi stp body|c body|c tb eb|g args|l].
  - cbn [da_stmt]. destruct (_ && _); [|discriminate]. intros H; inversion H. right; eauto.
  - cbn [da_stmt]. destruct (_ && _); [|discriminate]. intros H; inversion H. now left.
  - rewrite da_stmt_do. destruct (_ && _); [|discriminate]. destruct (da_stmts _ _ _ _); [|discriminate].
    intros H; inversion H. right; eauto.
  - rewrite da_stmt_while. destruct (e_ok _ _ _); [|discriminate]. destruct (da_stmts _ _ _ _); [|discriminate].
    intros H; inversion H. now left.
  - rewrite da_stmt_if. destruct (e_ok _ _ _); [|discriminate].
    destruct (da_stmts _ _ _ tb); [|discriminate]. destruct (da_stmts _ _ _ eb); [|discriminate].
    intros H; inversion H. now left.
  - discriminate.
  - cbn. intros H; inversion H. now left.
Qed.

Section Sim.
  Variables (m : smap) (Vall A : list string) (ps : procs).

  Definition RelS (V : list string) (sc s : store) : Prop :=
    forall y, In y V -> In y Vall -> evalZ (env_st s) (lk_s m y) = Some (sv sc y).
  Definition RelA (sc s : store) : Prop :=
    forall a, In a A -> forall idx, av sc a idx = av s (fst (lk_a m a)) (shiftz (offs_of (snd (lk_a m a))) idx).
  Definition Rel (V : list string) (sc s : store) : Prop := RelS V sc s /\ RelA sc s.

  Hypothesis HA : forall a, In a A ->
    all_off (snd (lk_a m a)) = true /\ intrinsic_name a = false /\ intrinsic_name (fst (lk_a m a)) = false.

  Definition goodS (x : string) : Prop :=
    exists tx, lk_s m x = EVar tx /\
      forall y, In y Vall -> y <> x -> e_ok (fun z => negb (String.eqb z tx)) (fun _ => true) (lk_s m y) = true.
  Definition goodA (a : string) : Prop :=
    (forall b, In b A -> b <> a -> fst (lk_a m b) <> fst (lk_a m a)) /\
    forall y, In y Vall -> e_ok (fun _ => true) (fun b => negb (String.eqb b (fst (lk_a m a)))) (lk_s m y) = true.

  Lemma Rel_mono V V1 sc s : (forall y, In y V -> In y V1) -> Rel V1 sc s -> Rel V sc s.
  Proof. intros Hi [H1 H2]. split; [|exact H2]. intros y Hy Hy'. apply H1; auto. Qed.

  Lemma rel_set_sv V sc s x tx v :
    Rel V sc s -> lk_s m x = EVar tx ->
    (forall y, In y Vall -> y <> x -> e_ok (fun z => negb (String.eqb z tx)) (fun _ => true) (lk_s m y) = true) ->
    Rel (x :: V) (set_sv x v sc) (set_sv tx v s).
  Proof.
    intros [HS HAr] Hx Hg. split.
    - intros y Hy Hyall. destruct (String.eqb y x) eqn:Eyx.
      + apply String.eqb_eq in Eyx. subst y. rewrite Hx. cbn. rewrite !String.eqb_refl. reflexivity.
      + assert (Hne : y <> x) by (apply String.eqb_neq; exact Eyx).
        destruct Hy as [Hy|Hy]; [congruence|].
        cbn [sv set_sv]. rewrite Eyx. rewrite <- (HS y Hy Hyall).
        apply (e_ok_agree _ _ _ _ _ (Hg y Hyall Hne)).
        * intros z Hz. cbn. apply negb_true_iff in Hz. rewrite Hz. reflexivity.
        * intros a _ vs. reflexivity.
    - intros a Ha idx. cbn [av set_sv]. apply HAr; exact Ha.
  Qed.

  Lemma rel_set_av V sc s a i v :
    Rel V sc s -> In a A -> goodA a ->
    Rel V (set_av a i v sc) (set_av (fst (lk_a m a)) (shiftz (offs_of (snd (lk_a m a))) i) v s).
  Proof.
    intros [HS HAr] Ha [Hg1 Hg2]. split.
    - intros y Hy Hyall. cbn [sv set_av]. rewrite <- (HS y Hy Hyall).
      apply (e_ok_agree _ _ _ _ _ (Hg2 y Hyall)).
      + intros z _. reflexivity.
      + intros b Hb vs. cbn. apply negb_true_iff in Hb. rewrite Hb. reflexivity.
    - intros b Hb idx. cbn [av set_av].
      destruct (String.eqb b a) eqn:Eba.
      + apply String.eqb_eq in Eba. subst b. rewrite String.eqb_refl. cbn [andb].
        rewrite shiftz_eqb. destruct (list_z_eqb idx i); [reflexivity|]. apply HAr; exact Ha.
      + assert (Hne : b <> a) by (apply String.eqb_neq; exact Eba).
        assert (Hn2 : String.eqb (fst (lk_a m b)) (fst (lk_a m a)) = false) by (apply String.eqb_neq; apply Hg1; assumption).
        rewrite Hn2. cbn [andb]. apply HAr; exact Hb.
  Qed.

  Lemma rel_eval V sc s e :
    Rel V sc s -> e_ok (okv Vall V) (oka A) e = true ->
    evalZ (env_st s) (subst_e m e) = evalZ (env_st sc) e /\ evalB (env_st s) (subst_e m e) = evalB (env_st sc) e.
  Proof.
    intros [HS HAr] Hok. apply (subst_e_sound m _ _ _ _ _ Hok).
    - intros y Hy. unfold okv in Hy. apply andb_prop in Hy. destruct Hy as [H1 H2].
      apply HS; apply mem_In; assumption.
    - intros a Ha _. unfold oka in Ha. apply mem_In in Ha. destruct (HA a Ha) as [H1 [H2 H3]].
      repeat split; try assumption. intros vs. cbn. f_equal. apply HAr; exact Ha.
  Qed.

  Lemma rel_eval_idx V sc s idx :
    Rel V sc s -> forallb (e_ok (okv Vall V) (oka A)) idx = true ->
    eval_idx s (map (subst_e m) idx) = eval_idx sc idx.
  Proof.
    intros HR Hok. unfold eval_idx. apply omap_list_ext. apply Forall_forall. intros c Hc.
    rewrite forallb_forall in Hok. apply (rel_eval V sc s c HR (Hok c Hc)).
  Qed.

  Lemma do_loop_sim V v tv d (run1 run2 : store -> option store) :
    lk_s m v = EVar tv ->
    (forall y, In y Vall -> y <> v -> e_ok (fun z => negb (String.eqb z tv)) (fun _ => true) (lk_s m y) = true) ->
    (forall sc s, Rel (v :: V) sc s -> orel (Rel (v :: V)) (run1 sc) (run2 s)) ->
    forall n i sc s, Rel V sc s -> orel (Rel (v :: V)) (do_loop run1 v d n i sc) (do_loop run2 tv d n i s).
  Proof.
    intros Hv Hg Hrun. induction n as [|n IH]; intros i sc s HR; cbn [do_loop].
    - cbn. apply rel_set_sv; assumption.
    - apply (orel_bind (Rel (v :: V))).
      + apply Hrun. apply rel_set_sv; assumption.
      + intros sc2 s2 HR2. apply IH. eapply Rel_mono; [|exact HR2]. intros y Hy. now right.
  Qed.

  (** the simulation, by induction on the fuel *)
  Lemma sim : forall f body V V' Q sc s,
    da_stmts Vall A V body = Some V' -> subst_stmts m body = Some Q ->
    (forall x, In x (wrs body) -> goodS x) -> (forall a, In a (wra body) -> goodA a) ->
    Rel V sc s -> orel (Rel V) (exec ps f body sc) (exec ps f Q s).
  Proof.
    induction f as [|f IH]; intros body V V' Q sc s Hda Hsub HgS HgA HR; [exact I|].
    destruct body as [|st rest].
    - cbn in Hsub. inversion Hsub. cbn. exact HR.
    - cbn [da_stmts] in Hda. destruct (da_stmt Vall A V st) as [V1|] eqn:Hd1; [|discriminate].
      cbn [subst_stmts] in Hsub. destruct (subst_stmt m st) as [st'|] eqn:Hs1; [|discriminate].
      destruct (subst_stmts m rest) as [rest'|] eqn:Hs2; [|discriminate]. inversion Hsub. subst Q. clear Hsub.
      rewrite !exec_unfold.
      assert (HgS1 : forall x, In x (wr_s st) -> goodS x).
      { intros x Hx. apply HgS. unfold wrs. cbn [flat_map]. apply in_or_app. now left. }
      assert (HgS2 : forall x, In x (wrs rest) -> goodS x).
      { intros x Hx. apply HgS. unfold wrs. cbn [flat_map]. apply in_or_app. now right. }
      assert (HgA1 : forall a, In a (wr_a st) -> goodA a).
      { intros x Hx. apply HgA. unfold wra. cbn [flat_map]. apply in_or_app. now left. }
      assert (HgA2 : forall a, In a (wra rest) -> goodA a).
      { intros x Hx. apply HgA. unfold wra. cbn [flat_map]. apply in_or_app. now right. }
      assert (Hincl : forall y, In y V -> In y V1).
      { destruct (da_stmt_out _ _ _ _ _ Hd1) as [E|[x E]]; subst V1; intros y Hy; [exact Hy|now right]. }
      assert (Step : orel (Rel V1) (exec1 ps f st sc) (exec1 ps f st' s)).
      { destruct st as [x e|a idx e|v lo hi stp b|c b|c tb eb|g args|l].
        - (* assign *)
          cbn [da_stmt] in Hd1. destruct (e_ok (okv Vall V) (oka A) e && mem x Vall) eqn:Eok; [|discriminate].
          inversion Hd1. subst V1. apply andb_prop in Eok. destruct Eok as [Eok _].
          destruct (HgS1 x (or_introl eq_refl)) as [tx [Hx Hg]].
          cbn [subst_stmt] in Hs1. rewrite Hx in Hs1. cbn in Hs1. inversion Hs1. subst st'.
          cbn [exec1]. rewrite (proj1 (rel_eval V sc s e HR Eok)).
          destruct (evalZ (env_st sc) e) as [v|]; cbn; [|exact I]. apply rel_set_sv; assumption.
        - (* store *)
          cbn [da_stmt] in Hd1.
          destruct (mem a A && forallb (e_ok (okv Vall V) (oka A)) idx && e_ok (okv Vall V) (oka A) e) eqn:Eok; [|discriminate].
          inversion Hd1. subst V1. apply andb_prop in Eok. destruct Eok as [Eok E3].
          apply andb_prop in Eok. destruct Eok as [E1 E2]. apply mem_In in E1.
          cbn [subst_stmt] in Hs1. inversion Hs1. subst st'.
          destruct (HA a E1) as [Hall _].
          cbn [exec1]. unfold eval_idx at 2. rewrite (fill_eval _ _ Hall).
          fold (eval_idx s (map (subst_e m) idx)). rewrite (rel_eval_idx V sc s idx HR E2).
          rewrite (proj1 (rel_eval V sc s e HR E3)).
          destruct (eval_idx sc idx) as [i|]; cbn [option_map obind]; [|exact I].
          destruct (evalZ (env_st sc) e) as [v|]; cbn [obind]; [|exact I].
          cbn. apply rel_set_av; [exact HR|exact E1|]. apply (HgA1 a). cbn. now left.
        - (* do *)
          rewrite da_stmt_do in Hd1.
          destruct (e_ok (okv Vall V) (oka A) lo && e_ok (okv Vall V) (oka A) hi && oe_ok (okv Vall V) (oka A) stp && mem v Vall) eqn:Eok; [|discriminate].
          destruct (da_stmts Vall A (v :: V) b) as [Vb|] eqn:Hdb; [|discriminate]. inversion Hd1. subst V1.
          apply andb_prop in Eok. destruct Eok as [Eok _]. apply andb_prop in Eok. destruct Eok as [Eok E3].
          apply andb_prop in Eok. destruct Eok as [E1 E2].
          destruct (HgS1 v (or_introl eq_refl)) as [tv [Hv Hg]].
          rewrite subst_stmt_do in Hs1. rewrite Hv in Hs1. cbn [lhs_of] in Hs1.
          destruct (subst_stmts m b) as [b'|] eqn:Hsb; [|discriminate]. inversion Hs1. subst st'.
          cbn [exec1].
          rewrite (proj1 (rel_eval V sc s lo HR E1)), (proj1 (rel_eval V sc s hi HR E2)).
          destruct (evalZ (env_st sc) lo) as [a0|]; cbn [obind]; [|exact I].
          destruct (evalZ (env_st sc) hi) as [b0|]; cbn [obind]; [|exact I].
          assert (Est : match option_map (subst_e m) stp with Some e => evalZ (env_st s) e | None => Some 1 end
                        = match stp with Some e => evalZ (env_st sc) e | None => Some 1 end).
          { destruct stp as [e|]; cbn; [|reflexivity]. cbn in E3. apply (rel_eval V sc s e HR E3). }
          rewrite Est. destruct (match stp with Some e => evalZ (env_st sc) e | None => Some 1 end) as [d|]; cbn [obind]; [|exact I].
          destruct (d =? 0); [exact I|].
          apply (do_loop_sim V v tv d _ _ Hv Hg); [|exact HR].
          intros sc1 s1 HR1. apply (IH b (v :: V) Vb b' sc1 s1 Hdb Hsb); [| |exact HR1].
          + intros x Hx. apply HgS1. cbn [wr_s]. right. exact Hx.
          + intros x Hx. apply HgA1. cbn [wr_a]. exact Hx.
        - (* while *)
          rewrite da_stmt_while in Hd1. destruct (e_ok (okv Vall V) (oka A) c) eqn:Eok; [|discriminate].
          destruct (da_stmts Vall A V b) as [Vb|] eqn:Hdb; [|discriminate]. inversion Hd1. subst V1.
          rewrite subst_stmt_while in Hs1. destruct (subst_stmts m b) as [b'|] eqn:Hsb; [|discriminate].
          inversion Hs1. subst st'. cbn [exec1].
          rewrite (proj2 (rel_eval V sc s c HR Eok)).
          destruct (evalB (env_st sc) c) as [[|]|]; cbn [obind]; [|exact HR|exact I].
          apply (orel_bind (Rel V)).
          + apply (IH b V Vb b' sc s Hdb Hsb); [| |exact HR].
            * intros x Hx. apply HgS1. cbn [wr_s]. exact Hx.
            * intros x Hx. apply HgA1. cbn [wr_a]. exact Hx.
          + intros sc1 s1 HR1.
            apply (IH [SWhile c b] V V [SWhile (subst_e m c) b'] sc1 s1).
            * cbn [da_stmts]. rewrite da_stmt_while, Eok, Hdb. reflexivity.
            * cbn [subst_stmts]. rewrite subst_stmt_while, Hsb. reflexivity.
            * intros x Hx. apply HgS1. unfold wrs in Hx. cbn [flat_map] in Hx. rewrite app_nil_r in Hx. exact Hx.
            * intros x Hx. apply HgA1. unfold wra in Hx. cbn [flat_map] in Hx. rewrite app_nil_r in Hx. exact Hx.
            * exact HR1.
        - (* if *)
          rewrite da_stmt_if in Hd1. destruct (e_ok (okv Vall V) (oka A) c) eqn:Eok; [|discriminate].
          destruct (da_stmts Vall A V tb) as [Vt|] eqn:Hdt; [|discriminate].
          destruct (da_stmts Vall A V eb) as [Ve|] eqn:Hde; [|discriminate]. inversion Hd1. subst V1.
          rewrite subst_stmt_if in Hs1. destruct (subst_stmts m tb) as [tb'|] eqn:Hst; [|discriminate].
          destruct (subst_stmts m eb) as [eb'|] eqn:Hse; [|discriminate]. inversion Hs1. subst st'. cbn [exec1].
          rewrite (proj2 (rel_eval V sc s c HR Eok)).
          destruct (evalB (env_st sc) c) as [[|]|]; cbn [obind]; [| |exact I].
          + apply (IH tb V Vt tb' sc s Hdt Hst); [| |exact HR].
            * intros x Hx. apply HgS1. cbn [wr_s]. apply in_or_app. now left.
            * intros x Hx. apply HgA1. cbn [wr_a]. apply in_or_app. now left.
          + apply (IH eb V Ve eb' sc s Hde Hse); [| |exact HR].
            * intros x Hx. apply HgS1. cbn [wr_s]. apply in_or_app. now right.
            * intros x Hx. apply HgA1. cbn [wr_a]. apply in_or_app. now right.
        - discriminate.
        - cbn in Hd1. inversion Hd1. subst V1. cbn in Hs1. inversion Hs1. subst st'. cbn. exact HR. }
      apply (orel_bind (Rel V1)); [exact Step|].
      intros sc1 s1 HR1. eapply orel_impl.
      + apply (IH rest V1 V' rest' sc1 s1 Hda Hs2 HgS2 HgA2 HR1).
      + intros a b Hab. eapply Rel_mono; [exact Hincl|exact Hab].
  Qed.
End Sim.
