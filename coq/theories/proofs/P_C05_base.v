(** C05 — string-level lemmas used by the proofs about the sanitiser model. *)
From Coq Require Import String Ascii List Bool Arith NArith ZArith Lia.
From LV Require Import Base.Strings models.M_C05.
Import ListNotations.
Open Scope string_scope.

Lemma sapp_assoc (a b c : string) : (a ++ b) ++ c = a ++ (b ++ c).
Proof. induction a as [|x a IH]; cbn; [reflexivity|now rewrite IH]. Qed.
Lemma sapp_nil_r (a : string) : a ++ "" = a.
Proof. induction a as [|x a IH]; cbn; [reflexivity|now rewrite IH]. Qed.
Lemma slength_app (a b : string) : String.length (a ++ b) = String.length a + String.length b.
Proof. induction a as [|x a IH]; cbn; [reflexivity|now rewrite IH]. Qed.

Lemma ascii_eqb_true a b : Ascii.eqb a b = true -> a = b.
Proof. apply Ascii.eqb_eq. Qed.

(** ** prefixes *)
Lemma starts_app p s r : starts p s = Some r -> s = p ++ r.
Proof.
  revert s. induction p as [|a p IH]; intros s H; cbn in *.
  - now inversion H.
  - destruct s as [|b s]; [discriminate|].
    destruct (Ascii.eqb a b) eqn:E; [|discriminate].
    apply ascii_eqb_true in E. subst b. now rewrite (IH _ H).
Qed.
Lemma starts_intro p r : starts p (p ++ r) = Some r.
Proof. induction p as [|a p IH]; cbn; [reflexivity|]. now rewrite Ascii.eqb_refl. Qed.

Lemma starts_ci_app p s m r : starts_ci p s = Some (m, r) -> s = m ++ r.
Proof.
  revert s m. induction p as [|a p IH]; intros s m H; cbn in *.
  - inversion H. reflexivity.
  - destruct s as [|b s]; [discriminate|].
    destruct (Ascii.eqb a (lower_ascii b)); [|discriminate].
    destruct (starts_ci p s) as [[m' r']|] eqn:E; [|discriminate].
    inversion H; subst. cbn. now rewrite (IH _ _ E).
Qed.

(** a case-sensitive hit is also a hit of the case-folded keyword *)
Lemma starts_to_ci p s r : starts p s = Some r -> exists m, starts_ci (lower p) s = Some (m, r).
Proof.
  revert s. induction p as [|a p IH]; intros s H; cbn in *.
  - inversion H. now exists "".
  - destruct s as [|b s]; [discriminate|].
    destruct (Ascii.eqb a b) eqn:E; [|discriminate].
    apply ascii_eqb_true in E. subst b. rewrite Ascii.eqb_refl.
    destruct (IH _ H) as [m Hm]. rewrite Hm. now exists (String a m).
Qed.

Lemma starts_mono p a b r : starts p a = Some r -> starts p (a ++ b) = Some (r ++ b).
Proof.
  revert a. induction p as [|x p IH]; intros a H; cbn in *.
  - now inversion H.
  - destruct a as [|y a]; [discriminate|]. cbn.
    destruct (Ascii.eqb x y); [|discriminate]. now apply IH.
Qed.
Lemma starts_ci_mono p a b m r : starts_ci p a = Some (m, r) -> starts_ci p (a ++ b) = Some (m, r ++ b).
Proof.
  revert a m. induction p as [|x p IH]; intros a m H; cbn in *.
  - now inversion H.
  - destruct a as [|y a]; [discriminate|]. cbn.
    destruct (Ascii.eqb x (lower_ascii y)); [|discriminate].
    destruct (starts_ci p a) as [[m' r']|] eqn:E; [|discriminate].
    inversion H; subst. now rewrite (IH _ _ E).
Qed.

Lemma span_app f s a b : span f s = (a, b) -> s = a ++ b.
Proof.
  revert a b. induction s as [|c s IH]; intros a b H; cbn in *.
  - now inversion H.
  - destruct (f c).
    + destruct (span f s) as [a' b'] eqn:E. inversion H; subst. cbn. now rewrite (IH _ _ eq_refl).
    + now inversion H.
Qed.

(** ** containment *)
Lemma contains_app_r p a b : contains p (a ++ b) = false -> contains p b = false.
Proof.
  induction a as [|x a IH]; cbn [append]; [trivial|].
  intro H. cbn [contains] in H. destruct (is_some (starts p (String x (a ++ b)))); [discriminate|]. now apply IH.
Qed.
Lemma contains_app_l p a b : contains p (a ++ b) = false -> contains p a = false.
Proof.
  induction a as [|x a IH]; cbn [append]; intro H.
  - destruct p as [|y p]; cbn in *; [|reflexivity]. destruct b; cbn in H; discriminate.
  - cbn [contains] in *.
    destruct (starts p (String x a)) as [r|] eqn:E.
    + apply (starts_mono _ _ b) in E. cbn [append] in E. rewrite E in H. discriminate.
    + cbn. destruct (is_some (starts p (String x (a ++ b)))); [discriminate|]. now apply IH.
Qed.
Lemma contains_ci_app_r p a b : contains_ci p (a ++ b) = false -> contains_ci p b = false.
Proof.
  induction a as [|x a IH]; cbn [append]; [trivial|].
  intro H. cbn [contains_ci] in H. destruct (is_some (starts_ci p (String x (a ++ b)))); [discriminate|]. now apply IH.
Qed.
Lemma contains_ci_app_l p a b : contains_ci p (a ++ b) = false -> contains_ci p a = false.
Proof.
  induction a as [|x a IH]; cbn [append]; intro H.
  - destruct p as [|y p]; cbn in *; [|reflexivity]. destruct b; cbn in H; discriminate.
  - cbn [contains_ci] in *.
    destruct (starts_ci p (String x a)) as [[m r]|] eqn:E.
    + apply (starts_ci_mono _ _ b) in E. cbn [append] in E. rewrite E in H. discriminate.
    + cbn. destruct (is_some (starts_ci p (String x (a ++ b)))); [discriminate|]. now apply IH.
Qed.
Lemma contains_intro p a r : contains p (a ++ p ++ r) = true.
Proof.
  induction a as [|x a IH]; cbn [append].
  - destruct (p ++ r) eqn:E; cbn [contains]; rewrite <- ?E, starts_intro; reflexivity.
  - cbn [contains]. destruct (is_some (starts p (String x (a ++ p ++ r)))); [reflexivity|exact IH].
Qed.
Lemma contains_ci_intro p a b : is_some (starts_ci p b) = true -> contains_ci p (a ++ b) = true.
Proof.
  intro H. induction a as [|x a IH]; cbn [append].
  - destruct b; cbn [contains_ci]; now rewrite H.
  - cbn [contains_ci]. destruct (is_some (starts_ci p (String x (a ++ b)))); [reflexivity|exact IH].
Qed.
Lemma contains_to_ci p s : contains p s = true -> contains_ci (lower p) s = true.
Proof.
  induction s as [|c s IH]; cbn [contains contains_ci]; intro H.
  - destruct (starts p "") as [r|] eqn:E; [|discriminate].
    destruct (starts_to_ci _ _ _ E) as [m Hm]. now rewrite Hm.
  - destruct (starts p (String c s)) as [r|] eqn:E.
    + destruct (starts_to_ci _ _ _ E) as [m Hm]. now rewrite Hm.
    + cbn in H. destruct (is_some _); [reflexivity|now apply IH].
Qed.
Lemma contains_ci_false_cs p s : contains_ci (lower p) s = false -> contains p s = false.
Proof.
  intro H. destruct (contains p s) eqn:E; [|reflexivity].
  apply contains_to_ci in E. congruence.
Qed.

Lemma contains_sconcat p ls l : contains p (sconcat ls) = false -> In l ls -> contains p l = false.
Proof.
  induction ls as [|a ls IH]; cbn; [tauto|]. intros H [->|Hin].
  - now apply contains_app_l in H.
  - apply contains_app_r in H. now apply IH.
Qed.
Lemma contains_ci_sconcat p ls l : contains_ci p (sconcat ls) = false -> In l ls -> contains_ci p l = false.
Proof.
  induction ls as [|a ls IH]; cbn; [tauto|]. intros H [->|Hin].
  - now apply contains_ci_app_l in H.
  - apply contains_ci_app_r in H. now apply IH.
Qed.

(** ** find_lit / split_nl / split_eol *)
Lemma find_lit_some p s a b : find_lit p s = Some (a, b) -> s = a ++ b /\ exists r, starts p b = Some r.
Proof.
  revert a b. induction s as [|c s IH]; intros a b H; cbn [find_lit] in H.
  - destruct (starts p "") eqn:E; [|discriminate]. inversion H; subst. split; [reflexivity|eauto].
  - destruct (starts p (String c s)) eqn:E.
    + inversion H; subst. split; [reflexivity|eauto].
    + destruct (find_lit p s) as [[a' b']|] eqn:F; [|discriminate]. inversion H; subst.
      destruct (IH _ _ eq_refl) as [-> Hr]. split; [reflexivity|exact Hr].
Qed.
Lemma find_lit_none p s : contains p s = false -> find_lit p s = None.
Proof.
  induction s as [|c s IH]; cbn [contains find_lit]; intro H.
  - destruct (starts p ""); [discriminate|reflexivity].
  - destruct (starts p (String c s)); [discriminate|]. cbn in H. now rewrite (IH H).
Qed.

Lemma split_nl_app s a b : split_nl s = Some (a, b) -> s = a ++ String NL b.
Proof.
  revert a. induction s as [|c s IH]; intros a H; cbn in H; [discriminate|].
  destruct (is_nl c) eqn:E.
  - inversion H; subst. apply ascii_eqb_true in E. now subst c.
  - destruct (split_nl s) as [[a' b']|]; [|discriminate]. inversion H; subst. cbn. now rewrite (IH _ eq_refl).
Qed.
Lemma split_eol_app s a t : split_eol s = Some (a, t) -> s = a ++ t /\ (t = "" \/ t = String NL "").
Proof.
  revert a. induction s as [|c s IH]; intros a H; cbn in H.
  - inversion H; subst. split; [reflexivity|now left].
  - destruct (is_nl c) eqn:E.
    + destruct s; [|discriminate]. inversion H; subst. apply ascii_eqb_true in E. subst c. split; [reflexivity|now right].
    + destruct (split_eol s) as [[a' t']|]; [|discriminate]. inversion H; subst.
      destruct (IH _ eq_refl) as [-> Ht]. split; [reflexivity|exact Ht].
Qed.

(** ** splitlines *)
Lemma sconcat_splitlines s : sconcat (splitlines s) = s.
Proof.
  induction s as [|c s IH]; [reflexivity|].
  cbn [splitlines].
  destruct (is_break c && negb (is_cr c && match s with "" => false | String d _ => is_nl d end)).
  - cbn. now rewrite IH.
  - destruct (splitlines s) as [|l ls]; cbn in *; now rewrite <- IH.
Qed.

(** ** sdrop *)
Lemma sdrop_app a b : sdrop (String.length a) (a ++ b) = b.
Proof. induction a as [|x a IH]; cbn; [reflexivity|exact IH]. Qed.
