(** P_C34_seq.v — sequence association (do_resolve_sequence_association).

    Index level: the element sequence that starts at an array element is, on the length of the section, the
    section the rewrite passes (rank 1; rank 2 with a rank-1 dummy; rank 2 with a rank-2 dummy when the element is
    the first of its column) — and it is NOT for a rank-2 dummy when the element is inside a column.

    Call level: inside [seq_class], whenever the rewritten call can be bound, the original call and the rewritten
    call run alike. *)
From Coq Require Import ZArith List Bool String Ascii Lia.
From LV Require Import Base.Expr Base.MiniF models.M_C34 proofs.P_C34_sim proofs.P_C34_arith.
Import ListNotations.
Open Scope Z_scope.

(* ================================================================================================ *)
(** * 1. index level *)

Theorem seq_assoc_index_correct_1d l h i o : l <= i <= h -> 0 <= o <= h - i ->
  delin [(l, h)] (lin [(l, h)] [i] + o) = fill [ARng i h] (delin (sect_bnd [ARng i h]) o).
Proof.
  intros Hi Ho. cbn [delin lin fill sect_bnd fst snd]. f_equal. lia.
Qed.

Theorem seq_assoc_index_correct_2d_col l1 h1 l2 h2 i j o : l1 <= i <= h1 -> l2 <= j <= h2 -> 0 <= o <= h1 - i ->
  delin [(l1, h1); (l2, h2)] (lin [(l1, h1); (l2, h2)] [i; j] + o) = fill [ARng i h1; AIdx j] (delin (sect_bnd [ARng i h1; AIdx j]) o).
Proof.
  intros Hi Hj Ho. cbn [delin lin fill sect_bnd fst snd].
  assert (E1 : extent (l1, h1) = h1 - l1 + 1) by (apply extent_pos; lia).
  remember (extent (l1, h1)) as n1 eqn:Hn1. clear Hn1.
  replace (i - l1 + n1 * (j - l2 + extent (l2, h2) * 0) + o) with ((i - l1 + o) + (j - l2) * n1) by ring.
  rewrite Z.mod_add by lia. rewrite Z.div_add by lia.
  rewrite Z.mod_small by lia. rewrite Z.div_small by lia.
  f_equal; [lia|]. f_equal. lia.
Qed.

Theorem seq_assoc_index_correct_2d_first l1 h1 l2 h2 j o : l1 <= h1 -> l2 <= j <= h2 -> 0 <= o < (h1 - l1 + 1) * (h2 - j + 1) ->
  delin [(l1, h1); (l2, h2)] (lin [(l1, h1); (l2, h2)] [l1; j] + o) = fill [ARng l1 h1; ARng j h2] (delin (sect_bnd [ARng l1 h1; ARng j h2]) o).
Proof.
  intros H1 Hj Ho. cbn [delin lin fill sect_bnd fst snd].
  assert (E1 : extent (l1, h1) = h1 - l1 + 1) by (apply extent_pos; lia).
  remember (extent (l1, h1)) as n1 eqn:Hn1. clear Hn1.
  replace (l1 - l1 + n1 * (j - l2 + extent (l2, h2) * 0) + o) with (o + (j - l2) * n1) by ring.
  rewrite Z.mod_add by lia. rewrite Z.div_add by lia.
  generalize (o / n1). intros q.
  f_equal. f_equal. lia.
Qed.

Theorem seq_assoc_index_2d_refuted :
  exists l1 h1 l2 h2 i j o, l1 <= i <= h1 /\ l2 <= j <= h2 /\ 0 <= o < (h1 - i + 1) * (h2 - j + 1) /\
    delin [(l1, h1); (l2, h2)] (lin [(l1, h1); (l2, h2)] [i; j] + o) <> fill [ARng i h1; ARng j h2] (delin (sect_bnd [ARng i h1; ARng j h2]) o).
Proof.
  exists 1, 4, 1, 4, 2, 1, 3.
  split; [lia|]. split; [lia|]. split; [lia|].
  vm_compute. intros H. discriminate H.
Qed.

(* ================================================================================================ *)
(** * 2. the rewrite, position by position *)

Definition rw1 (sh : shapes) (k : pkind) (e : expr) : expr :=
  match seq_arg sh k e with Some e' => e' | None => e end.
Definition rwq (sh : shapes) (q : (string * pkind) * expr) : expr := rw1 sh (snd (fst q)) (snd q).
Definition rwpa (sh : shapes) (pa : pargs) : pargs := map (fun q => (fst q, rwq sh q)) pa.

Lemma rwpa_cons sh z k e pa : rwpa sh (((z, k), e) :: pa) = ((z, k), rw1 sh k e) :: rwpa sh pa.
Proof. reflexivity. Qed.

Lemma rw1_scal sh e : rw1 sh PScal e = e.
Proof. reflexivity. Qed.
Lemma rw1_rec sh ty e : rw1 sh (PRec ty) e = e.
Proof. reflexivity. Qed.

Lemma rwq_noop sh : forall params args, List.length args = List.length params ->
  existsb (fun q : (string * pkind) * expr => match seq_arg sh (snd (fst q)) (snd q) with Some _ => true | None => false end)
          (combine params args) = false ->
  map (rwq sh) (combine params args) = args.
Proof.
  induction params as [|x ps IH]; intros [|e args] Hlen E; try discriminate; [reflexivity|].
  cbn [combine existsb map] in *. apply orb_false_iff in E. destruct E as [E1 E2].
  cbn [fst snd] in E1. unfold rwq at 1. unfold rw1. cbn [fst snd].
  destruct (seq_arg sh (snd x) e); [discriminate|].
  f_equal. apply IH; [|assumption]. cbn [List.length] in Hlen. now injection Hlen.
Qed.

Lemma seq_call_eq sh params args : List.length args = List.length params ->
  seq_call sh params args = map (rwq sh) (combine params args).
Proof.
  intros Hlen. unfold seq_call. cbv zeta.
  destruct (existsb _ (combine params args)) eqn:E; [reflexivity|].
  symmetry. now apply rwq_noop.
Qed.

Lemma combine_rw sh : forall params args,
  combine params (map (rwq sh) (combine params args)) = rwpa sh (combine params args).
Proof.
  induction params as [|[z k] ps IH]; intros [|e args]; try reflexivity.
  cbn [combine map]. rewrite rwpa_cons. f_equal. apply IH.
Qed.

Lemma init_scalars_rw sh d fr s : forall pa s0,
  init_scalars d fr s (rwpa sh pa) s0 = init_scalars d fr s pa s0.
Proof.
  induction pa as [|[[z k] e] pa IH]; intros s0; [reflexivity|].
  rewrite rwpa_cons. destruct k.
  - rewrite rw1_scal. cbn [init_scalars]. apply obind_ext; [reflexivity|]. intros o. apply IH.
  - cbn [init_scalars]. apply IH.
  - rewrite rw1_rec. cbn [init_scalars]. destruct (is_var e); [apply IH|reflexivity].
Qed.

Lemma lookup_rw sh z : forall pa,
  lookup_pa z (rwpa sh pa) = option_map (fun ke => (fst ke, rw1 sh (fst ke) (snd ke))) (lookup_pa z pa).
Proof.
  induction pa as [|[[x k] e] pa IH]; [reflexivity|].
  rewrite rwpa_cons. cbn [lookup_pa]. destruct (String.eqb x z); [reflexivity|apply IH].
Qed.

Lemma forward_root_rw sh pa z : forward_root (rwpa sh pa) z = forward_root pa z.
Proof.
  unfold forward_root. destruct (split_pct z) as [[root rest]|]; [|reflexivity].
  rewrite lookup_rw. destruct (lookup_pa root pa) as [[k e]|]; cbn [option_map fst snd]; [|reflexivity].
  destruct k; reflexivity.
Qed.

Lemma callee_fs_rw sh d fr s pa z : callee_fs d fr s (rwpa sh pa) z = callee_fs d fr s pa z.
Proof.
  unfold callee_fs. rewrite lookup_rw, forward_root_rw.
  destruct (lookup_pa z pa) as [[k e]|]; cbn [option_map fst snd]; [|reflexivity].
  destruct k; reflexivity.
Qed.

(* ================================================================================================ *)
(** * 3. helpers on the semantics side *)

Lemma aseq_agree_refl q : aseq_agree q q.
Proof. repeat split. Qed.

Lemma arrays_ok_ext fr s c1 c2 : env_ext c1 c2 -> forall pa, arrays_ok fr s c1 pa = arrays_ok fr s c2 pa.
Proof.
  intros HE. induction pa as [|[[z k] e] pa IH]; [reflexivity|].
  destruct k; cbn [arrays_ok]; try exact IH.
  destruct (actual_seq fr s e) as [sq|]; [|reflexivity].
  rewrite (dummy_bnd_ext c1 c2 sq sq dims HE (aseq_agree_refl sq)). now rewrite IH.
Qed.

Lemma eval_adim_idx rho e : is_range e = false -> eval_adim rho e = obind (evalZ rho e) (fun v => Some (AIdx v)).
Proof.
  destruct e; intros H; try reflexivity.
  destruct args as [|lo [|hi [|x t]]]; try reflexivity.
  cbn [is_range] in H. unfold eval_adim. rewrite H. reflexivity.
Qed.

Lemma eval_adim_rng rho lo hi a b : evalZ rho lo = Some a -> evalZ rho hi = Some b ->
  eval_adim rho (ECall ":" [lo; hi]) = Some (ARng a b).
Proof. intros H1 H2. unfold eval_adim. rewrite String.eqb_refl, H1, H2. reflexivity. Qed.

Lemma omap_adim_idx rho : forall ds i, existsb is_range ds = false ->
  omap_list (evalZ rho) ds = Some i -> omap_list (eval_adim rho) ds = Some (map AIdx i).
Proof.
  induction ds as [|a ds IH]; intros i Hr Hi.
  - cbn [omap_list] in Hi. injection Hi as <-. reflexivity.
  - cbn [existsb] in Hr. apply orb_false_iff in Hr. destruct Hr as [Hr1 Hr2].
    cbn [omap_list] in *. rewrite (eval_adim_idx rho a Hr1).
    destruct (evalZ rho a) as [v|]; cbn [obind] in *; [|discriminate].
    destruct (omap_list (evalZ rho) ds) as [vs|] eqn:E; cbn [obind] in *; [|discriminate].
    injection Hi as <-. rewrite (IH vs Hr2 eq_refl). reflexivity.
Qed.

Lemma all_idx_map i : all_idx (map AIdx i) = Some i.
Proof. induction i as [|x i IH]; cbn [map all_idx]; [reflexivity|]. now rewrite IH. Qed.

Lemma omap_single {A B} (f : A -> option B) d0 ds0 v :
  omap_list f (d0 :: ds0) = Some [v] -> ds0 = [] /\ f d0 = Some v.
Proof.
  cbn [omap_list]. destruct (f d0) as [y|]; cbn [obind]; [|discriminate].
  destruct ds0 as [|d1 ds1]; cbn [omap_list obind].
  - intros H. injection H as ->. now split.
  - destruct (f d1) as [y1|]; cbn [obind]; [|discriminate].
    destruct (omap_list f ds1); cbn [obind]; discriminate.
Qed.

Lemma omap_pair {A B} (f : A -> option B) d0 ds0 v1 v2 :
  omap_list f (d0 :: ds0) = Some [v1; v2] -> exists d1, ds0 = [d1] /\ f d0 = Some v1 /\ f d1 = Some v2.
Proof.
  cbn [omap_list]. destruct (f d0) as [y|]; cbn [obind]; [|discriminate].
  destruct (omap_list f ds0) as [ys|] eqn:E; cbn [obind]; [|discriminate].
  intros H. injection H as -> ->.
  destruct ds0 as [|d1 ds1]; [discriminate|].
  apply omap_single in E. destruct E as [-> E]. exists d1. now repeat split.
Qed.

Lemma actual_seq_elem fr s a ds i bnd : ar_bnd (fa fr a) = bnd -> reserved a = false ->
  existsb is_range ds = false -> omap_list (evalZ (renv fr s)) ds = Some i -> in_bnd bnd i = true ->
  actual_seq fr s (ECall a ds) =
  Some (mk_aseq (ar_loc (fa fr a)) (bsize bnd - lin bnd i)
                (fun o => ar_view (fa fr a) (delin bnd (lin bnd i + o))) []).
Proof.
  intros <- Hr Hrng Hev Hin. unfold actual_seq. rewrite Hr.
  rewrite (omap_adim_idx _ _ _ Hrng Hev). cbn [obind]. rewrite all_idx_map, Hin. reflexivity.
Qed.

Lemma actual_seq_sect fr s a es ads bnd : ar_bnd (fa fr a) = bnd -> reserved a = false ->
  omap_list (eval_adim (renv fr s)) es = Some ads -> all_idx ads = None -> adims_ok bnd ads = true ->
  actual_seq fr s (ECall a es) =
  Some (mk_aseq (ar_loc (fa fr a)) (bsize (sect_bnd ads))
                (fun o => ar_view (fa fr a) (fill ads (delin (sect_bnd ads) o))) (map extent (sect_bnd ads))).
Proof.
  intros <- Hr Hev Hall Hok. unfold actual_seq. rewrite Hr, Hev. cbn [obind]. rewrite Hall, Hok. reflexivity.
Qed.

Lemma expl_bnd_len rho l1 l2 : forall dims a1 a2, forallb is_expl dims = true ->
  expl_bnd rho l1 dims a1 = expl_bnd rho l2 dims a2.
Proof.
  induction dims as [|dm dims IH]; intros a1 a2 H; [reflexivity|].
  destruct dm; cbn [forallb is_expl andb] in H; try discriminate.
  cbn [expl_bnd]. apply obind_ext; [reflexivity|]. intros a. apply obind_ext; [reflexivity|]. intros b.
  now rewrite (IH (a1 * extent (a, b)) (a2 * extent (a, b)) H).
Qed.

Lemma dummy_bnd_expl c q1 q2 dims : forallb is_expl dims = true -> dims <> [] ->
  dummy_bnd c q1 dims = dummy_bnd c q2 dims.
Proof.
  intros H Hne. unfold dummy_bnd. destruct dims as [|dm dims]; [congruence|].
  destruct dm; cbn [forallb is_expl andb] in H; try discriminate.
  cbn [forallb is_shape andb]. apply expl_bnd_len. cbn [forallb is_expl andb]. exact H.
Qed.

(** two sequences over the same root that agree on the shorter one give the same view to a dummy that fits into
    the shorter one *)
Lemma mk_aref_prefix l len1 len2 at1 at2 ext1 ext2 b :
  bsize b <= len2 -> len2 <= len1 -> (forall o, 0 <= o < len2 -> at1 o = at2 o) ->
  aref_agree (mk_aref (mk_aseq l len1 at1 ext1) b) (mk_aref (mk_aseq l len2 at2 ext2) b).
Proof.
  intros H1 H2 H3. unfold aref_agree, mk_aref, mk_aseq; cbn [ar_loc ar_bnd ar_view sq_loc sq_at].
  split; [reflexivity|]. split; [reflexivity|]. intros k.
  destruct (in_bnd b k) eqn:E; [|reflexivity].
  pose proof (lin_range b k E) as Hr.
  assert (A1 : (0 <=? lin b k) && (lin b k <? len1) = true).
  { apply andb_true_iff; split; [apply Z.leb_le|apply Z.ltb_lt]; lia. }
  assert (A2 : (0 <=? lin b k) && (lin b k <? len2) = true).
  { apply andb_true_iff; split; [apply Z.leb_le|apply Z.ltb_lt]; lia. }
  rewrite A1, A2. apply H3. lia.
Qed.

Lemma shape_current_inv rho shape p b : shape_current rho shape (p :: b) ->
  exists lo hi r, shape = DExpl lo hi :: r /\ evalZ rho hi = Some (snd p) /\ shape_current rho r b.
Proof.
  destruct shape as [|[lo hi| |lo] r]; cbn [shape_current]; try contradiction.
  intros [H1 H2]. exists lo, hi, r. now repeat split.
Qed.

Lemma shape_current_nil rho shape : shape_current rho shape [] -> shape = [].
Proof. destruct shape as [|[lo hi| |lo] r]; cbn [shape_current]; try contradiction. reflexivity. Qed.

Lemma leb_true a b : a <= b -> (a <=? b) = true.
Proof. apply Z.leb_le. Qed.

(* ================================================================================================ *)
(** * 4. one rewritten position *)

Lemma seq_pos fr s sh dims e cenv sq' b :
  seq_arg_class fr s sh (PArr dims) e ->
  actual_seq fr s (rw1 sh (PArr dims) e) = Some sq' ->
  dummy_bnd cenv sq' dims = Some b -> bsize b <= sq_len sq' ->
  exists sq, actual_seq fr s e = Some sq /\ dummy_bnd cenv sq dims = Some b /\ sq_len sq' <= sq_len sq /\
             aref_agree (mk_aref sq b) (mk_aref sq' b).
Proof.
  unfold seq_arg_class, rw1. destruct (seq_arg sh (PArr dims) e) as [x|] eqn:Ex.
  2:{ intros _ Hs Hd Hb. exists sq'. repeat split; try assumption; try reflexivity; try lia. }
  destruct e as [| | | | | | | | | | | |a ds]; try (intros Hc; contradiction Hc).
  intros [Hexpl [shape [i [Hsh [Hcur [Hev [Hin Hrank]]]]]]] Hs Hd Hb.
  unfold seq_arg in Ex. destruct (reserved a) eqn:Er; [discriminate|]. rewrite Hsh in Ex.
  destruct ds as [|d0 ds0]; [discriminate|].
  destruct (existsb is_range (d0 :: ds0)) eqn:Erng; [discriminate|].
  injection Ex as <-.
  destruct dims as [|dm dims0].
  { (* rank-0 dummy: nothing is rewritten *)
    cbn [List.length firstn skipn map2 app] in Hs.
    exists sq'. repeat split; try assumption; try reflexivity; try lia. }
  assert (Hdne : dm :: dims0 <> []) by discriminate.
  remember (ar_bnd (fa fr a)) as bnd eqn:Eb. symmetry in Eb.
  destruct bnd as [|[l1 h1] [|[l2 h2] [|p3 bb]]]; try contradiction.
  - (* rank 1 *)
    destruct i as [|i1 [|i2 ii]]; try contradiction.
    apply omap_single in Hev. destruct Hev as [-> Hd0].
    apply shape_current_inv in Hcur. destruct Hcur as [lo1 [hi1 [r [-> [Hh1 Hcur]]]]].
    apply shape_current_nil in Hcur. subst r. cbn [fst snd] in Hh1.
    apply in_bnd_cons in Hin. destruct Hin as [Hi1 _]. cbn [fst snd] in Hi1.
    cbn [List.length firstn skipn] in Hs. rewrite !firstn_nil, !skipn_nil in Hs.
    cbn [map2 seq_dim app] in Hs.
    assert (Hsect : actual_seq fr s (ECall a [ECall ":" [d0; hi1]]) = _) by
      (apply (actual_seq_sect fr s a _ [ARng i1 h1] _ Eb Er);
       [cbn [omap_list]; rewrite (eval_adim_rng _ _ _ _ _ Hd0 Hh1); reflexivity
       |reflexivity
       |cbn [adims_ok fst snd]; rewrite (leb_true l1 i1), (leb_true h1 h1) by lia; now rewrite orb_true_r]).
    rewrite Hsect in Hs. injection Hs as <-.
    cbn [mk_aseq sq_len] in Hb |- *.
    assert (Hcurrent : in_bnd [(l1, h1)] [i1] = true).
    { cbn [in_bnd fst snd]. rewrite (leb_true l1 i1), (leb_true i1 h1) by lia. reflexivity. }
    eexists. split; [apply (actual_seq_elem fr s a [d0] [i1] _ Eb Er Erng); [|exact Hcurrent]|].
    { cbn [omap_list]. rewrite Hd0. reflexivity. }
    assert (Hlen : bsize (sect_bnd [ARng i1 h1]) <= bsize [(l1, h1)] - lin [(l1, h1)] [i1]).
    { cbn [bsize sect_bnd lin fst snd]. rewrite (extent_pos l1 h1), (extent_pos i1 h1) by lia. lia. }
    split; [rewrite <- Hd; now apply dummy_bnd_expl|].
    split; [cbn [mk_aseq sq_len]; exact Hlen|].
    apply mk_aref_prefix; [exact Hb|exact Hlen|].
    intros o Ho. f_equal. apply seq_assoc_index_correct_1d; [lia|].
    cbn [bsize sect_bnd] in Ho. rewrite (extent_pos i1 h1) in Ho by lia. lia.
  - (* rank 2 *)
    destruct i as [|i1 [|i2 [|i3 ii]]]; try contradiction.
    apply omap_pair in Hev. destruct Hev as [d1 [-> [Hd0 Hd1]]].
    apply shape_current_inv in Hcur. destruct Hcur as [lo1 [hi1 [r [-> [Hh1 Hcur]]]]].
    apply shape_current_inv in Hcur. destruct Hcur as [lo2 [hi2 [r2 [-> [Hh2 Hcur]]]]].
    apply shape_current_nil in Hcur. subst r2. cbn [fst snd] in Hh1, Hh2.
    pose proof Hin as Hcurrent.
    apply in_bnd_cons in Hin. destruct Hin as [Hi1 Hin]. cbn [fst snd] in Hi1.
    apply in_bnd_cons in Hin. destruct Hin as [Hi2 _]. cbn [fst snd] in Hi2.
    cbn [existsb] in Erng. apply orb_false_iff in Erng. destruct Erng as [Er0 Er1].
    apply orb_false_iff in Er1. destruct Er1 as [Er1 _].
    assert (Erng : existsb is_range [d0; d1] = false) by (cbn [existsb]; now rewrite Er0, Er1).
    assert (Helem : actual_seq fr s (ECall a [d0; d1]) = _) by
      (apply (actual_seq_elem fr s a [d0; d1] [i1; i2] _ Eb Er Erng); [|exact Hcurrent];
       cbn [omap_list]; rewrite Hd0, Hd1; reflexivity).
    cbn [fst] in Hrank. destruct Hrank as [Hn|[Hn Hfirst]].
    + (* rank-1 dummy: a(i1:h1, i2) *)
      rewrite Hn in Hs. cbn [firstn skipn map2 seq_dim app] in Hs.
      assert (Hsect : actual_seq fr s (ECall a [ECall ":" [d0; hi1]; d1]) = _) by
        (apply (actual_seq_sect fr s a _ [ARng i1 h1; AIdx i2] _ Eb Er);
         [cbn [omap_list]; rewrite (eval_adim_rng _ _ _ _ _ Hd0 Hh1), (eval_adim_idx _ d1 Er1), Hd1; reflexivity
         |reflexivity
         |cbn [adims_ok fst snd];
          rewrite (leb_true l1 i1), (leb_true h1 h1), (leb_true l2 i2), (leb_true i2 h2) by lia;
          now rewrite orb_true_r]).
      rewrite Hsect in Hs. injection Hs as <-.
      cbn [mk_aseq sq_len] in Hb |- *.
      eexists. split; [exact Helem|].
      assert (Hlen : bsize (sect_bnd [ARng i1 h1; AIdx i2]) <= bsize [(l1, h1); (l2, h2)] - lin [(l1, h1); (l2, h2)] [i1; i2]).
      { cbn [bsize sect_bnd lin fst snd].
        rewrite (extent_pos l1 h1), (extent_pos i1 h1), (extent_pos l2 h2) by lia. nia. }
      split; [rewrite <- Hd; now apply dummy_bnd_expl|].
      split; [cbn [mk_aseq sq_len]; exact Hlen|].
      apply mk_aref_prefix; [exact Hb|exact Hlen|].
      intros o Ho. f_equal. apply seq_assoc_index_correct_2d_col; [lia|lia|].
      cbn [bsize sect_bnd] in Ho. rewrite (extent_pos i1 h1) in Ho by lia. lia.
    + (* rank-2 dummy, first element of a column: a(l1:h1, i2:h2) *)
      subst i1.
      rewrite Hn in Hs. cbn [firstn skipn map2 seq_dim app] in Hs.
      assert (Hsect : actual_seq fr s (ECall a [ECall ":" [d0; hi1]; ECall ":" [d1; hi2]]) = _) by
        (apply (actual_seq_sect fr s a _ [ARng l1 h1; ARng i2 h2] _ Eb Er);
         [cbn [omap_list]; rewrite (eval_adim_rng _ _ _ _ _ Hd0 Hh1), (eval_adim_rng _ _ _ _ _ Hd1 Hh2); reflexivity
         |reflexivity
         |cbn [adims_ok fst snd];
          rewrite (leb_true l1 l1), (leb_true h1 h1), (leb_true l2 i2), (leb_true h2 h2) by lia;
          now rewrite !orb_true_r]).
      rewrite Hsect in Hs. injection Hs as <-.
      cbn [mk_aseq sq_len] in Hb |- *.
      eexists. split; [exact Helem|].
      assert (Hlen : bsize (sect_bnd [ARng l1 h1; ARng i2 h2]) <= bsize [(l1, h1); (l2, h2)] - lin [(l1, h1); (l2, h2)] [l1; i2]).
      { cbn [bsize sect_bnd lin fst snd].
        rewrite (extent_pos l1 h1), (extent_pos i2 h2), (extent_pos l2 h2) by lia. nia. }
      split; [rewrite <- Hd; now apply dummy_bnd_expl|].
      split; [cbn [mk_aseq sq_len]; exact Hlen|].
      apply mk_aref_prefix; [exact Hb|exact Hlen|].
      intros o Ho. f_equal. apply seq_assoc_index_correct_2d_first; [lia|lia|].
      cbn [bsize sect_bnd] in Ho. rewrite (extent_pos l1 h1), (extent_pos i2 h2) in Ho by lia. lia.
Qed.

(* ================================================================================================ *)
(** * 5. the whole argument list *)

Lemma seq_class_lookup fr s sh z : forall pa k e, seq_class fr s sh pa ->
  lookup_pa z pa = Some (k, e) -> seq_arg_class fr s sh k e.
Proof.
  induction pa as [|[[x k0] e0] pa IH]; intros k e Hc Hl; [discriminate|].
  cbn [seq_class] in Hc. destruct Hc as [H1 H2]. cbn [lookup_pa] in Hl.
  destruct (String.eqb x z); [|now apply IH].
  injection Hl as <- <-. exact H1.
Qed.

Lemma arrays_ok_lookup fr s c z : forall pa dims e, arrays_ok fr s c pa = true ->
  lookup_pa z pa = Some (PArr dims, e) ->
  exists sq b, actual_seq fr s e = Some sq /\ dummy_bnd c sq dims = Some b /\ bsize b <= sq_len sq.
Proof.
  induction pa as [|[[x k0] e0] pa IH]; intros dims e Ha Hl; [discriminate|].
  cbn [lookup_pa] in Hl. destruct (String.eqb x z).
  - injection Hl as -> ->. cbn [arrays_ok] in Ha.
    destruct (actual_seq fr s e) as [sq|]; [|discriminate].
    destruct (dummy_bnd c sq dims) as [b|] eqn:Ed; [|discriminate].
    apply andb_true_iff in Ha. destruct Ha as [Ha _]. apply Z.leb_le in Ha.
    exists sq, b. now repeat split.
  - apply IH; [|assumption]. destruct k0; cbn [arrays_ok] in Ha; try assumption.
    destruct (actual_seq fr s e0) as [sq|]; [|discriminate].
    destruct (dummy_bnd c sq dims0) as [b|]; [|discriminate].
    apply andb_true_iff in Ha. now destruct Ha.
Qed.

Lemma arrays_ok_rw fr s sh c : forall pa, seq_class fr s sh pa ->
  arrays_ok fr s c (rwpa sh pa) = true -> arrays_ok fr s c pa = true.
Proof.
  induction pa as [|[[x k] e] pa IH]; intros Hc Ha; [reflexivity|].
  rewrite rwpa_cons in Ha. cbn [seq_class] in Hc. destruct Hc as [H1 H2]. destruct k.
  - cbn [arrays_ok] in *. now apply IH.
  - cbn [arrays_ok] in Ha |- *.
    destruct (actual_seq fr s (rw1 sh (PArr dims) e)) as [sq'|] eqn:Es; [|discriminate].
    destruct (dummy_bnd c sq' dims) as [b|] eqn:Ed; [|discriminate].
    apply andb_true_iff in Ha. destruct Ha as [Hb Hr]. apply Z.leb_le in Hb.
    destruct (seq_pos fr s sh dims e c sq' b H1 Es Ed Hb) as [sq [A [B [C D]]]].
    rewrite A, B. apply andb_true_iff. split; [apply Z.leb_le; lia|now apply IH].
  - cbn [arrays_ok] in *. now apply IH.
Qed.

Lemma callee_fa_rw d fr s sh c1 c2 pa arrs z : env_ext c1 c2 -> seq_class fr s sh pa ->
  arrays_ok fr s c2 (rwpa sh pa) = true ->
  aref_agree (callee_fa d fr s c1 pa arrs z) (callee_fa d fr s c2 (rwpa sh pa) arrs z).
Proof.
  intros HE Hc Ha. unfold callee_fa. rewrite lookup_rw, forward_root_rw.
  destruct (lookup_pa z pa) as [[k e]|] eqn:El; cbn [option_map fst snd].
  - destruct k; try apply aref_agree_refl.
    assert (El' : lookup_pa z (rwpa sh pa) = Some (PArr dims, rw1 sh (PArr dims) e)).
    { rewrite lookup_rw, El. reflexivity. }
    destruct (arrays_ok_lookup fr s c2 z _ _ _ Ha El') as [sq' [b [Es [Ed Hb]]]].
    pose proof (seq_class_lookup fr s sh z pa _ _ Hc El) as Hcls.
    pose proof (dummy_bnd_ext c1 c2 sq' sq' dims HE (aseq_agree_refl sq')) as Hd12.
    assert (Ed1 : dummy_bnd c1 sq' dims = Some b) by (now rewrite Hd12).
    destruct (seq_pos fr s sh dims e c1 sq' b Hcls Es Ed1 Hb) as [sq [A [B [C D]]]].
    rewrite A, B, Es, Ed. exact D.
  - destruct (forward_root pa z); [apply aref_agree_refl|].
    rewrite (local_aref_ext d c1 c2 arrs z HE). apply aref_agree_refl.
Qed.

Lemma bind_unfold d fr s p args : List.length args = List.length (rp_params p) ->
  bind d fr s p args =
  obind (init_scalars d fr s (combine (rp_params p) args) (clear_depth d s)) (fun s0 =>
    if arrays_ok fr s (scal_env (callee_fs d fr s (combine (rp_params p) args)) s0) (combine (rp_params p) args)
       && locals_ok (scal_env (callee_fs d fr s (combine (rp_params p) args)) s0) (rp_arrays p)
    then Some ({| fs := callee_fs d fr s (combine (rp_params p) args);
                  fa := callee_fa d fr s (scal_env (callee_fs d fr s (combine (rp_params p) args)) s0)
                                  (combine (rp_params p) args) (rp_arrays p) |}, s0)
    else None).
Proof. intros H. unfold bind. rewrite H, Nat.eqb_refl. reflexivity. Qed.

(* ================================================================================================ *)
(** * 6. call level *)

Theorem seq_assoc_call_preserves ps k p sh args f d fr s :
  (forall g q, find_rproc ps g = Some q -> no_rec q = true) ->
  find_rproc ps k = Some p ->
  List.length args = List.length (rp_params p) ->
  seq_class fr s sh (combine (rp_params p) args) ->
  bind (S d) fr s p (seq_call sh (rp_params p) args) <> None ->
  rexec1 (rexec ps f) ps d fr (SCall k args) s = rexec1 (rexec ps f) ps d fr (SCall k (seq_call sh (rp_params p) args)) s.
Proof.
  intros Hnr Hfind Hlen Hcls Hb.
  rewrite (seq_call_eq sh _ _ Hlen) in Hb |- *.
  unfold rexec1. rewrite Hfind. cbn [obind].
  assert (Hlen' : List.length (map (rwq sh) (combine (rp_params p) args)) = List.length (rp_params p)).
  { rewrite map_length, combine_length, Hlen. apply Nat.min_id. }
  rewrite (bind_unfold _ _ _ _ _ Hlen') in Hb |- *. rewrite (bind_unfold _ _ _ _ _ Hlen).
  rewrite combine_rw in Hb |- *.
  set (pa := combine (rp_params p) args) in *.
  rewrite init_scalars_rw in Hb |- *.
  destruct (init_scalars (S d) fr s pa (clear_depth (S d) s)) as [s0|]; cbn [obind] in Hb |- *; [|congruence].
  set (c1 := scal_env (callee_fs (S d) fr s pa) s0).
  set (c2 := scal_env (callee_fs (S d) fr s (rwpa sh pa)) s0) in *.
  assert (HE : env_ext c1 c2).
  { split; [|reflexivity]. intros x. unfold c1, c2. cbn [scal_env ev_var]. now rewrite callee_fs_rw. }
  destruct (arrays_ok fr s c2 (rwpa sh pa)) eqn:Ea2; cbn [andb] in Hb |- *; [|congruence].
  destruct (locals_ok c2 (rp_arrays p)) eqn:El2; [|congruence].
  rewrite (locals_ok_ext c1 c2 HE), El2.
  assert (Ea1 : arrays_ok fr s c1 pa = true).
  { apply (arrays_ok_rw fr s sh c1 pa Hcls). now rewrite (arrays_ok_ext fr s c1 c2 HE). }
  rewrite Ea1. cbn [andb obind fst snd].
  apply (rexec_agree ps Hnr).
  intros x _. cbn [fs fa]. split.
  - symmetry. apply callee_fs_rw.
  - now apply callee_fa_rw.
Qed.

Print Assumptions seq_assoc_index_correct_1d.
Print Assumptions seq_assoc_index_correct_2d_col.
Print Assumptions seq_assoc_index_correct_2d_first.
Print Assumptions seq_assoc_index_2d_refuted.
Print Assumptions seq_assoc_call_preserves.
