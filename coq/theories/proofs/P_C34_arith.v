(** P_C34_arith.v — arithmetic of array element order: [lin] / [delin] / [in_bnd] / [bsize] of M_C34. *)
From Coq Require Import ZArith List Bool String Ascii Lia.
From LV Require Import Base.Expr Base.MiniF models.M_C34.
Import ListNotations.
Open Scope Z_scope.

Lemma extent_pos l h : l <= h -> extent (l, h) = h - l + 1.
Proof. intros H. unfold extent. cbn [fst snd]. lia. Qed.

Lemma extent_nonneg p : 0 <= extent p.
Proof. unfold extent. lia. Qed.

Lemma bsize_nonneg b : 0 <= bsize b.
Proof.
  induction b as [|p b IH]; cbn [bsize]; [lia|].
  pose proof (extent_nonneg p). nia.
Qed.

Lemma in_bnd_cons p b x k :
  in_bnd (p :: b) (x :: k) = true -> fst p <= x <= snd p /\ in_bnd b k = true.
Proof.
  cbn [in_bnd]. intros H.
  apply andb_true_iff in H. destruct H as [H H3].
  apply andb_true_iff in H. destruct H as [H1 H2].
  apply Z.leb_le in H1. apply Z.leb_le in H2. now split.
Qed.

Lemma in_bnd_cons_eq p b x k :
  in_bnd (p :: b) (x :: k) = (fst p <=? x) && (x <=? snd p) && in_bnd b k.
Proof. reflexivity. Qed.

Lemma in_bnd_nil_l k : in_bnd [] k = true -> k = [].
Proof. destruct k; [reflexivity|discriminate]. Qed.

Lemma in_bnd_length b : forall k, in_bnd b k = true -> List.length k = List.length b.
Proof.
  induction b as [|p b IH]; intros [|x k] H; try discriminate; [reflexivity|].
  apply in_bnd_cons in H. destruct H as [_ H]. cbn [List.length]. now rewrite (IH k H).
Qed.

Lemma lin_range b k : in_bnd b k = true -> 0 <= lin b k < bsize b.
Proof.
  revert k. induction b as [|p b IH]; intros [|x k] H; try discriminate.
  - cbn [lin bsize]. lia.
  - apply in_bnd_cons in H. destruct H as [Hx Hk]. specialize (IH k Hk).
    cbn [lin bsize]. unfold extent.
    set (L := lin b k) in *. set (B := bsize b) in *.
    replace (Z.max 0 (snd p - fst p + 1)) with (snd p - fst p + 1) by lia.
    nia.
Qed.

Lemma delin_lin b k : in_bnd b k = true -> b <> [] -> delin b (lin b k) = k.
Proof.
  revert k. induction b as [|p b IH]; intros [|x k] H Hne; try discriminate; [congruence|].
  apply in_bnd_cons in H. destruct H as [Hx Hk].
  destruct b as [|p2 b].
  - apply in_bnd_nil_l in Hk. subst k. cbn [delin lin]. f_equal. lia.
  - assert (Hne2 : p2 :: b <> []) by discriminate.
    specialize (IH k Hk Hne2).
    change (delin (p :: p2 :: b) (lin (p :: p2 :: b) (x :: k)))
      with ((fst p + lin (p :: p2 :: b) (x :: k) mod extent p)
              :: delin (p2 :: b) (lin (p :: p2 :: b) (x :: k) / extent p)).
    change (lin (p :: p2 :: b) (x :: k)) with ((x - fst p) + extent p * lin (p2 :: b) k).
    set (L := lin (p2 :: b) k) in *.
    assert (En : extent p = snd p - fst p + 1) by (unfold extent; lia).
    assert (Hn : 0 < extent p) by lia.
    rewrite (Z.mul_comm (extent p) L).
    rewrite Z.mod_add by lia. rewrite Z.div_add by lia.
    rewrite Z.mod_small by lia. rewrite Z.div_small by lia.
    rewrite Z.add_0_l, IH. f_equal. lia.
Qed.

Lemma delin_in_bnd b o : b <> [] -> 0 <= o < bsize b -> in_bnd b (delin b o) = true.
Proof.
  revert o. induction b as [|p b IH]; intros o Hne Ho; [congruence|].
  destruct b as [|p2 b].
  - cbn [bsize] in Ho. unfold extent in Ho. cbn [delin in_bnd].
    apply andb_true_iff; split; [|reflexivity].
    apply andb_true_iff; split; apply Z.leb_le; lia.
  - assert (Hne2 : p2 :: b <> []) by discriminate.
    change (bsize (p :: p2 :: b)) with (extent p * bsize (p2 :: b)) in Ho.
    change (delin (p :: p2 :: b) o) with ((fst p + o mod extent p) :: delin (p2 :: b) (o / extent p)).
    set (B := bsize (p2 :: b)) in *.
    pose proof (extent_nonneg p) as Hn0.
    assert (Hn : 0 < extent p).
    { destruct (Z.eq_dec (extent p) 0) as [E|E]; [rewrite E in Ho; lia|lia]. }
    assert (En : extent p = snd p - fst p + 1) by (unfold extent in *; lia).
    pose proof (Z.mod_pos_bound o (extent p) Hn) as Hm.
    rewrite in_bnd_cons_eq.
    apply andb_true_iff; split.
    + apply andb_true_iff; split; apply Z.leb_le; lia.
    + apply IH; [assumption|]. split.
      * apply Z.div_pos; lia.
      * apply Z.div_lt_upper_bound; [lia|]. fold B. lia.
Qed.

Lemma bsize_shape1 b : forallb (fun p => (fst p =? 1) && (0 <=? snd p)) b = true ->
  map (fun n => (1, n)) (map extent b) = b.
Proof.
  induction b as [|[l h] b IH]; intros H; [reflexivity|].
  cbn [forallb fst snd] in H.
  apply andb_true_iff in H. destruct H as [H Hb].
  apply andb_true_iff in H. destruct H as [H1 H2].
  apply Z.eqb_eq in H1. apply Z.leb_le in H2. subst l.
  cbn [map]. rewrite (IH Hb). f_equal. f_equal. unfold extent. cbn [fst snd]. lia.
Qed.
