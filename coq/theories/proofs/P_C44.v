(** C44 — lemmas about the protocol layer: inductive invariant over all reachable states. *)
From Coq Require Import List Bool String Ascii Arith PeanoNat Lia Permutation.
From LV Require Import Base.Strings models.M_C44.
Import ListNotations.
Open Scope list_scope.

(** * list helpers *)
Lemma mem_In x l : mem x l = true <-> In x l.
Proof.
  induction l as [|y r IH]; cbn; [intuition discriminate|].
  rewrite orb_true_iff, IH, String.eqb_eq. intuition congruence.
Qed.

Lemma mem_false x l : mem x l = false <-> ~ In x l.
Proof. rewrite <- mem_In. destruct (mem x l); intuition congruence. Qed.

Lemma remove1_spec x l l' : remove1 x l = Some l' -> exists l1 l2, l = l1 ++ x :: l2 /\ l' = l1 ++ l2.
Proof.
  revert l'; induction l as [|y r IH]; cbn; intros l' H; [discriminate|].
  destruct (String.eqb x y) eqn:E.
  - apply String.eqb_eq in E; subst. inversion H; subst. exists [], l'. auto.
  - destruct (remove1 x r) as [r'|]; [|discriminate]. inversion H; subst.
    destruct (IH r' eq_refl) as (l1 & l2 & -> & ->). exists (y :: l1), l2. auto.
Qed.

Lemma snoc_split {A} (l : list A) e t1 x t2 :
  l ++ [e] = t1 ++ x :: t2 ->
  (t2 = [] /\ x = e /\ t1 = l) \/ (exists t2', t2 = t2' ++ [e] /\ l = t1 ++ x :: t2').
Proof.
  intros H. destruct t2 as [|y r].
  - left. apply app_inj_tail in H. destruct H as [-> ->]. auto.
  - right. destruct (@exists_last _ (y :: r)) as (t2' & b & E); [discriminate|]. rewrite E in *.
    replace (t1 ++ x :: t2' ++ [b]) with ((t1 ++ x :: t2') ++ [b]) in H
      by (rewrite <- app_assoc; reflexivity).
    apply app_inj_tail in H. destruct H as [-> ->]. eauto.
Qed.

Lemma ev_eqb_eq a b : ev_eqb a b = true <-> a = b.
Proof.
  destruct a, b; cbn; try (split; [discriminate|intros H; inversion H]);
    rewrite String.eqb_eq; split; congruence.
Qed.

Lemma ev_eqb_refl a : ev_eqb a a = true.
Proof. now apply ev_eqb_eq. Qed.

Lemma count_ev_snoc e l x : count_ev e (l ++ [x]) = count_ev e l + (if ev_eqb e x then 1 else 0).
Proof. induction l as [|y r IH]; cbn; [lia|]. rewrite IH. lia. Qed.

Lemma count_ev_notin e l : ~ In e l -> count_ev e l = 0.
Proof.
  induction l as [|y r IH]; cbn; intros H; [reflexivity|].
  destruct (ev_eqb e y) eqn:E.
  - apply ev_eqb_eq in E. subst. exfalso. apply H. now left.
  - rewrite IH; [reflexivity|]. intros Hin. apply H. now right.
Qed.

Lemma count_ev_in e l : In e l -> 1 <= count_ev e l.
Proof.
  induction l as [|y r IH]; cbn; intros H; [contradiction|].
  destruct H as [->|H]; [rewrite ev_eqb_refl; lia|]. specialize (IH H). lia.
Qed.

Lemma perm_submit {A} (q : list A) o X : Permutation ((q ++ [o]) ++ X) (o :: q ++ X).
Proof. rewrite <- app_assoc. cbn. symmetry. apply Permutation_middle. Qed.

Lemma perm_start {A} (q1 q2 : list A) o ru d :
  Permutation ((q1 ++ q2) ++ (o :: ru) ++ d) ((q1 ++ o :: q2) ++ ru ++ d).
Proof.
  rewrite <- !app_assoc. apply Permutation_app_head. cbn.
  symmetry. apply (Permutation_middle q2 (ru ++ d) o).
Qed.

Lemma perm_finish {A} (q r1 r2 : list A) o d :
  Permutation (q ++ (r1 ++ r2) ++ o :: d) (q ++ (r1 ++ o :: r2) ++ d).
Proof.
  apply Permutation_app_head. rewrite <- !app_assoc. apply Permutation_app_head. cbn.
  symmetry. apply Permutation_middle.
Qed.

Section ProtoFacts.
  Variable src : node -> bool.
  Variable deps : node -> list node.
  Variable stale : list node.
  Variable N : nat.

  Notation step := (step src deps stale N).
  Notation reach := (reach src deps stale N).
  Notation steps := (steps src deps stale N).
  Notation is_topo_aux := (is_topo_aux src deps).
  Notation submitted := (submitted stale).
  Notation skippable := (skippable src stale).
  Notation can_submit := (can_submit deps stale).
  Notation dep_ready := (dep_ready stale).

  Lemma topo_nodup seen l :
    is_topo_aux seen l = true -> NoDup l /\ forall x, In x l -> ~ In x seen.
  Proof.
    revert seen; induction l as [|o r IH]; intros seen H; cbn in H.
    - split; [constructor|intros x []].
    - apply andb_true_iff in H as [H H3]. apply andb_true_iff in H as [H1 H2].
      apply negb_true_iff, mem_false in H1. destruct (IH _ H3) as [ND Hd]. split.
      + constructor; [|exact ND]. intros Hin. apply (Hd o Hin). now left.
      + intros x [<-|Hx]; [exact H1|]. intros Hs. apply (Hd x Hx). now right.
  Qed.

  (** * the invariant *)
  Record Inv (order : list node) (s : state) : Prop := mkInv {
    inv_pre : exists seen, order = rev seen ++ todo s /\ is_topo_aux seen (todo s) = true
        /\ (forall o, In o (in_flight s) <-> (In o seen /\ src o = true /\ ~ In o stale));
    inv_nodup : NoDup (in_flight s);
    inv_start : forall o, In (EStart o) (log s) <-> In o (running s ++ done s);
    inv_finish : forall o, In (EFinish o) (log s) <-> In o (done s);
    inv_submit : forall o, In (ESubmit o) (log s) <-> In o (in_flight s);
    inv_qdeps : forall o d, In o (queued s) -> In d (deps o) -> src d = true -> ~ In d stale -> In d (done s);
    inv_starts : forall t1 t2 o d, log s = t1 ++ EStart o :: t2 ->
        In d (deps o) -> src d = true -> ~ In d stale -> In (EFinish d) t1;
    inv_submits : forall t1 t2 o d, log s = t1 ++ ESubmit o :: t2 ->
        In d (deps o) -> src d = true -> ~ In d stale -> In (EFinish d) t1;
    inv_once : forall o, count_ev (EStart o) (log s) <= 1;
    inv_cap : List.length (running s) <= N }.

  Lemma Inv_init order : is_topo_aux [] order = true -> Inv order (init order).
  Proof.
    intros Ht. constructor; unfold in_flight; cbn.
    - exists []. cbn. repeat split; try assumption; try tauto.
    - constructor.
    - tauto.
    - tauto.
    - tauto.
    - tauto.
    - intros t1 t2 o d H. destruct t1; discriminate.
    - intros t1 t2 o d H. destruct t1; discriminate.
    - lia.
    - lia.
  Qed.

  Lemma skippable_false s o :
    skippable s o = false -> src o = true /\ ~ In o stale /\ ~ In o (in_flight s).
  Proof.
    unfold M_C44.skippable, M_C44.submitted. intros H.
    apply orb_false_iff in H as [H1 H2]. apply negb_false_iff in H1.
    apply orb_false_iff in H2 as [H2 H3]. apply mem_false in H2, H3. auto.
  Qed.

  Lemma skippable_true s o :
    skippable s o = true -> src o = false \/ In o stale \/ In o (in_flight s).
  Proof.
    unfold M_C44.skippable, M_C44.submitted. intros H.
    apply orb_true_iff in H as [H|H]; [left; now apply negb_true_iff|].
    apply orb_true_iff in H as [H|H]; apply mem_In in H; auto.
  Qed.

  Lemma can_submit_dep s o d :
    can_submit s o = true -> In d (deps o) -> In d (in_flight s) -> ~ In d stale -> In d (done s).
  Proof.
    unfold M_C44.can_submit. intros H Hd Hf Hs. rewrite forallb_forall in H. specialize (H d Hd).
    unfold M_C44.dep_ready, M_C44.submitted in H.
    apply mem_In in Hf. apply mem_false in Hs. rewrite Hf, Hs in H. cbn in H.
    rewrite orb_false_r in H. now apply mem_In.
  Qed.

  Lemma topo_head seen o r d :
    is_topo_aux seen (o :: r) = true -> In d (deps o) -> src d = true -> In d seen.
  Proof.
    cbn. intros H Hd Hs. apply andb_true_iff in H as [H _]. apply andb_true_iff in H as [_ H].
    rewrite forallb_forall in H. specialize (H d Hd). rewrite Hs in H. cbn in H. now apply mem_In.
  Qed.

  Lemma topo_tail seen o r : is_topo_aux seen (o :: r) = true -> is_topo_aux (o :: seen) r = true.
  Proof. cbn. intros H. now apply andb_true_iff in H as [_ H]. Qed.

  Ltac inlog := rewrite ?in_app_iff in *; cbn [In] in *.

  Lemma Inv_step order s s' : Inv order s -> step s s' -> Inv order s'.
  Proof.
    intros [(seen & Ho & Ht & Hin) Hnd Hst Hfi Hsu Hq Hss Hsb Honce Hcap] Hstep.
    assert (Ho' : id (order = rev seen ++ todo s)) by exact Ho. clear Ho. rename Ho' into Ho.
    inversion Hstep as [o r q ru d l Hsk | o r q ru d l Hsk Hcs | o t q1 q2 ru d l Hlen | o t q r1 r2 d l];
      subst; clear Hstep; unfold in_flight, id in *;
      cbn [todo queued running done log] in *.
    - (* skip *)
      constructor; unfold in_flight; cbn [todo queued running done log]; try assumption.
      exists (o :: seen). split; [|split].
      + cbn. rewrite <- app_assoc. exact Ho.
      + now apply topo_tail.
      + intros x. rewrite Hin. split.
        * intros (H1 & H2 & H3). repeat split; auto. now right.
        * intros ([<-|H1] & H2 & H3); [|auto].
          apply skippable_true in Hsk as [H|[H|H]]; [congruence|contradiction|].
          unfold in_flight in H; cbn in H. apply Hin in H. tauto.
    - (* submit *)
      apply skippable_false in Hsk as (Hsrc & Hnst & Hnf). unfold in_flight in Hnf; cbn in Hnf.
      assert (Hdeps : forall dd, In dd (deps o) -> src dd = true -> ~ In dd stale -> In dd d).
      { intros dd Hd Hs Hn. eapply (can_submit_dep _ _ _ Hcs Hd); [|exact Hn].
        unfold in_flight; cbn. apply Hin. repeat split; auto. eapply topo_head; eauto. }
      assert (HP := perm_submit q o (ru ++ d)).
      constructor; unfold in_flight; cbn [todo queued running done log].
      + exists (o :: seen). split; [|split].
        * cbn. rewrite <- app_assoc. exact Ho.
        * now apply topo_tail.
        * intros x. split.
          -- intros Hx. apply (Permutation_in _ HP) in Hx. destruct Hx as [<-|Hx].
             ++ repeat split; auto. now left.
             ++ apply Hin in Hx. destruct Hx as (H1 & H2 & H3). repeat split; auto. now right.
          -- intros ([<-|H1] & H2 & H3); apply (Permutation_in _ (Permutation_sym HP)).
             ++ now left.
             ++ right. apply Hin. auto.
      + apply (Permutation_NoDup (Permutation_sym HP)). constructor; assumption.
      + intros x. rewrite <- Hst. inlog. intuition discriminate.
      + intros x. rewrite <- Hfi. inlog. intuition discriminate.
      + intros x. split.
        * intros Hx. apply (Permutation_in _ (Permutation_sym HP)). inlog.
          destruct Hx as [Hx|[Hx|[]]]; [right; now apply Hsu|left; congruence].
        * intros Hx. apply (Permutation_in _ HP) in Hx. inlog.
          destruct Hx as [<-|Hx]; [auto|left; now apply Hsu].
      + intros x dd Hx. inlog. destruct Hx as [Hx|[<-|[]]]; [now apply Hq|apply Hdeps].
      + intros t1 t2 x dd E. apply snoc_split in E as [(_ & E & _)|(t2' & _ & E)]; [discriminate|].
        eapply Hss; eauto.
      + intros t1 t2 x dd E Hd Hs Hn. apply snoc_split in E as [(_ & E & ->)|(t2' & _ & E)].
        * inversion E; subst. apply Hfi. now apply Hdeps.
        * eapply Hsb; eauto.
      + intros x. rewrite count_ev_snoc. cbn. specialize (Honce x). lia.
      + exact Hcap.
    - (* start *)
      assert (HP := perm_start q1 q2 o ru d).
      assert (Hnew : ~ In (EStart o) l).
      { intros Hc. apply Hst in Hc.
        assert (Hnd' : NoDup (o :: (q1 ++ q2) ++ ru ++ d)).
        { apply (Permutation_NoDup (l := (q1 ++ o :: q2) ++ ru ++ d)); [|exact Hnd].
          rewrite <- !app_assoc. symmetry. apply (Permutation_middle q1 (q2 ++ ru ++ d) o). }
        apply NoDup_cons_iff in Hnd' as [Hni _]. apply Hni. inlog. tauto. }
      constructor; unfold in_flight; cbn [todo queued running done log].
      + exists seen. split; [exact Ho|split; [exact Ht|]].
        intros x. rewrite <- Hin. split; intros Hx.
        * apply (Permutation_in _ HP); exact Hx.
        * apply (Permutation_in _ (Permutation_sym HP)); exact Hx.
      + apply (Permutation_NoDup (Permutation_sym HP)). exact Hnd.
      + intros x. specialize (Hst x). inlog. split.
        * intros [Hx|[Hx|[]]]; [tauto|]. inversion Hx; auto.
        * intros [[<-|Hx]|Hx]; [auto|tauto|tauto].
      + intros x. rewrite <- Hfi. inlog. intuition discriminate.
      + intros x. specialize (Hsu x). split.
        * intros Hx. apply (Permutation_in _ (Permutation_sym HP)). inlog.
          destruct Hx as [Hx|[Hx|[]]]; [tauto|discriminate].
        * intros Hx. apply (Permutation_in _ HP) in Hx. inlog. tauto.
      + intros x d' Hx. apply Hq. inlog. simpl. tauto.
      + intros t1 t2 x d' E Hd Hs Hn. apply snoc_split in E as [(_ & E & ->)|(t2' & _ & E)].
        * inversion E; subst. apply Hfi. eapply Hq; eauto. inlog. simpl. tauto.
        * eapply Hss; eauto.
      + intros t1 t2 x d' E. apply snoc_split in E as [(_ & E & _)|(t2' & _ & E)]; [discriminate|].
        eapply Hsb; eauto.
      + intros x. rewrite count_ev_snoc. cbn. destruct (String.eqb x o) eqn:E.
        * apply String.eqb_eq in E. subst. rewrite (count_ev_notin _ _ Hnew). lia.
        * specialize (Honce x). lia.
      + cbn. lia.
    - (* finish *)
      assert (HP := perm_finish q r1 r2 o d).
      constructor; unfold in_flight; cbn [todo queued running done log].
      + exists seen. split; [exact Ho|split; [exact Ht|]].
        intros x. rewrite <- Hin. split; intros Hx.
        * apply (Permutation_in _ HP); exact Hx.
        * apply (Permutation_in _ (Permutation_sym HP)); exact Hx.
      + apply (Permutation_NoDup (Permutation_sym HP)). exact Hnd.
      + intros x. specialize (Hst x). inlog. split.
        * intros [Hx|[Hx|[]]]; [|discriminate]. simpl. tauto.
        * simpl. tauto.
      + intros x. specialize (Hfi x). inlog. split.
        * intros [Hx|[Hx|[]]]; [tauto|]. inversion Hx; auto.
        * intros [<-|Hx]; [auto|tauto].
      + intros x. specialize (Hsu x). split.
        * intros Hx. apply (Permutation_in _ (Permutation_sym HP)). inlog.
          destruct Hx as [Hx|[Hx|[]]]; [tauto|discriminate].
        * intros Hx. apply (Permutation_in _ HP) in Hx. inlog. tauto.
      + intros x d' Hx Hd Hs Hn. right. eapply Hq; eauto.
      + intros t1 t2 x d' E. apply snoc_split in E as [(_ & E & _)|(t2' & _ & E)]; [discriminate|].
        eapply Hss; eauto.
      + intros t1 t2 x d' E. apply snoc_split in E as [(_ & E & _)|(t2' & _ & E)]; [discriminate|].
        eapply Hsb; eauto.
      + intros x. rewrite count_ev_snoc. cbn. specialize (Honce x). lia.
      + rewrite app_length in *. cbn in Hcap. lia.
  Qed.

  Lemma Inv_reach order s : is_topo_aux [] order = true -> reach order s -> Inv order s.
  Proof. intros Ht H. induction H; [now apply Inv_init|eapply Inv_step; eauto]. Qed.

  (** * consequences *)
  Lemma deps_done_before_start order s t1 t2 o d :
    is_topo_aux [] order = true -> reach order s ->
    log s = t1 ++ EStart o :: t2 -> In d (deps o) -> src d = true -> ~ In d stale ->
    In (EFinish d) t1.
  Proof. intros Ht Hr. apply (inv_starts _ _ (Inv_reach _ _ Ht Hr)). Qed.

  Lemma deps_done_before_submit order s t1 t2 o d :
    is_topo_aux [] order = true -> reach order s ->
    log s = t1 ++ ESubmit o :: t2 -> In d (deps o) -> src d = true -> ~ In d stale ->
    In (EFinish d) t1.
  Proof. intros Ht Hr. apply (inv_submits _ _ (Inv_reach _ _ Ht Hr)). Qed.

  Lemma built_once order s o :
    is_topo_aux [] order = true -> reach order s -> count_ev (EStart o) (log s) <= 1.
  Proof. intros Ht Hr. apply (inv_once _ _ (Inv_reach _ _ Ht Hr)). Qed.

  Lemma pool_bound order s :
    is_topo_aux [] order = true -> reach order s -> List.length (running s) <= N.
  Proof. intros Ht Hr. apply (inv_cap _ _ (Inv_reach _ _ Ht Hr)). Qed.

  Lemma stale_never_started order s o :
    is_topo_aux [] order = true -> reach order s -> In o stale -> ~ In (EStart o) (log s).
  Proof.
    intros Ht Hr Hs Hc. destruct (Inv_reach _ _ Ht Hr) as [(seen & _ & _ & Hin) _ Hst _ _ _ _ _ _ _].
    apply Hst in Hc. assert (In o (in_flight s)) by (unfold in_flight; rewrite !in_app_iff in *; tauto).
    apply Hin in H. tauto.
  Qed.

  Lemma final_done order s :
    is_topo_aux [] order = true -> reach order s -> is_final s = true ->
    Permutation (done s) (par_build src stale order).
  Proof.
    intros Ht Hr Hf. destruct (Inv_reach _ _ Ht Hr) as [(seen & Ho & _ & Hin) Hnd _ _ _ _ _ _ _ _].
    unfold is_final in Hf. unfold in_flight in *.
    destruct (todo s) eqn:E1; [|discriminate]. destruct (queued s) eqn:E2; [|discriminate].
    destruct (running s) eqn:E3; [|discriminate]. cbn in *. rewrite app_nil_r in Ho.
    apply NoDup_Permutation.
    - exact Hnd.
    - unfold par_build. apply NoDup_filter. now apply topo_nodup in Ht.
    - intros x. rewrite Hin. unfold par_build. rewrite filter_In, andb_true_iff, negb_true_iff, mem_false.
      subst order. rewrite <- in_rev. tauto.
  Qed.

  Lemma no_stuck s : 1 <= N -> is_final s = false -> exists s', step s s'.
  Proof.
    intros HN Hf. destruct s as [t q ru d l]. unfold is_final in Hf; cbn in Hf.
    destruct ru as [|o ru'].
    - destruct q as [|o q'].
      + destruct t as [|o r]; [discriminate|].
        destruct (skippable (mkState (o :: r) [] [] d l) o) eqn:E.
        * eexists. now apply step_skip.
        * eexists. apply step_submit; [exact E|].
          unfold M_C44.can_submit. apply forallb_forall. intros x _.
          unfold M_C44.dep_ready, M_C44.submitted, in_flight. cbn.
          destruct (mem x stale), (mem x d); reflexivity.
      + eexists. apply (step_start src deps stale N o t [] q' [] d l). cbn. lia.
    - eexists. apply (step_finish src deps stale N o t q [] ru' d l).
  Qed.

  Lemma step_decreases s s' : step s s' -> work_left s' < work_left s.
  Proof.
    intros H. inversion H; subst; unfold work_left; cbn [todo queued running done log];
      rewrite ?app_length; cbn [List.length]; lia.
  Qed.

  Lemma steps_bounded n s s' : steps n s s' -> n + work_left s' <= work_left s.
  Proof.
    induction 1 as [|n s s' s'' Hs _ IH]; [lia|]. apply step_decreases in Hs. lia.
  Qed.

  Lemma reach_steps order s s' n : reach order s -> steps n s s' -> reach order s'.
  Proof.
    intros Hr Hs. induction Hs as [|n s s' s'' H1 _ IH]; [exact Hr|].
    apply IH. eapply reach_step; eauto.
  Qed.

  (** * the acceptor accepts only runs of the transition system *)
  Lemma skip_until_spec sk o t r :
    skip_until sk o t = Some r -> exists pre, t = pre ++ o :: r /\ forallb sk pre = true /\ sk o = false.
  Proof.
    revert r; induction t as [|x t' IH]; cbn; intros r H; [discriminate|].
    destruct (sk x) eqn:E.
    - destruct (IH _ H) as (pre & -> & H1 & H2). exists (x :: pre). cbn. rewrite E. auto.
    - destruct (String.eqb x o) eqn:E2; [|discriminate]. apply String.eqb_eq in E2. subst.
      inversion H; subst. exists []. auto.
  Qed.

  Lemma skips_reach order pre t q ru d l :
    forallb (skippable (mkState t q ru d l)) pre = true ->
    reach order (mkState (pre ++ t) q ru d l) -> reach order (mkState t q ru d l).
  Proof.
    induction pre as [|x pre IH]; cbn; intros H Hr; [exact Hr|].
    apply andb_true_iff in H as [H1 H2]. apply IH; [exact H2|].
    eapply reach_step; [exact Hr|]. apply step_skip. exact H1.
  Qed.

  Lemma acc_step_reach order s e s' :
    reach order s -> acc_step src deps stale N s e = Some s' -> reach order s' /\ log s' = log s ++ [e].
  Proof.
    intros Hr H. destruct s as [t q ru d l].
    destruct e as [o|o|o]; unfold acc_step in H; cbn [todo queued running done log] in H.
    - destruct (skip_until _ o t) as [r|] eqn:E; [|discriminate].
      destruct (M_C44.can_submit deps stale _ o) eqn:E2; [|discriminate]. inversion H; subst; clear H.
      apply skip_until_spec in E as (pre & -> & H1 & H2). split; [|reflexivity].
      eapply reach_step; [eapply (skips_reach order pre (o :: r)); eauto|].
      apply step_submit; assumption.
    - destruct (remove1 o q) as [q'|] eqn:E; [|discriminate].
      destruct (Nat.ltb (List.length ru) N) eqn:E2; [|discriminate]. inversion H; subst; clear H.
      apply remove1_spec in E as (q1 & q2 & -> & ->). apply Nat.ltb_lt in E2. split; [|reflexivity].
      eapply reach_step; [exact Hr|]. now apply step_start.
    - destruct (remove1 o ru) as [r'|] eqn:E; [|discriminate]. inversion H; subst; clear H.
      apply remove1_spec in E as (r1 & r2 & -> & ->). split; [|reflexivity].
      eapply reach_step; [exact Hr|]. apply step_finish.
  Qed.

  Lemma acc_run_reach order tr : forall s s',
    reach order s -> acc_run src deps stale N s tr = Some s' -> reach order s' /\ log s' = log s ++ tr.
  Proof.
    induction tr as [|e r IH]; cbn; intros s s' Hr H.
    - inversion H; subst. rewrite app_nil_r. auto.
    - destruct (acc_step src deps stale N s e) as [s1|] eqn:E; [|discriminate].
      destruct (acc_step_reach _ _ _ _ Hr E) as [Hr1 Hl1].
      destruct (IH _ _ Hr1 H) as [Hr2 Hl2]. split; [exact Hr2|].
      rewrite Hl2, Hl1, <- app_assoc. reflexivity.
  Qed.

  Lemma accept_sound order tr s :
    accept src deps stale N order tr = Some s ->
    reach order s /\ is_final s = true /\ log s = tr.
  Proof.
    unfold accept. destruct (acc_run src deps stale N (init order) tr) as [s1|] eqn:E; [|intros; discriminate].
    destruct (acc_run_reach order tr _ _ (reach_init src deps stale N order) E) as [Hr Hl].
    destruct s1 as [t q ru d l]. cbn [todo queued running done log] in *.
    destruct (forallb _ t) eqn:E1; cbn; [|intros; discriminate].
    destruct q; cbn; [|intros; discriminate]. destruct ru; cbn; [|intros; discriminate].
    intros H; inversion H; subst; clear H.
    split; [|split; [reflexivity|reflexivity]].
    apply (skips_reach order t []); [exact E1|]. rewrite app_nil_r. exact Hr.
  Qed.
End ProtoFacts.
