(** C23 — proofs: item equality/hash, factory names, suffixing, key matching, and the
    case-equivariance of the C22 processing model. *)
From Coq Require Import String Ascii List Bool Arith Lia.
From LV Require Import Base.Strings models.M_C22 proofs.P_C22 models.M_C23.
Import ListNotations.
Open Scope string_scope.
Open Scope list_scope.

(* ------------------------------------------------------------------------- *)
(** * Strings *)

Lemma lower_sapp a b : lower (a +++ b) = lower a +++ lower b.
Proof. exact (lower_app a b). Qed.

Lemma lower_empty_iff s : lower s = "" <-> s = "".
Proof. destruct s; cbn; split; intros H; try reflexivity; discriminate. Qed.

Lemma eqb_empty_lower s : String.eqb (lower s) "" = String.eqb s "".
Proof.
  destruct (String.eqb s "") eqn:E.
  - apply String.eqb_eq in E. subst. reflexivity.
  - apply String.eqb_neq in E. apply String.eqb_neq. intros H. apply E. now apply lower_empty_iff.
Qed.

Lemma eqb_empty_sim s s' : lower s = lower s' -> String.eqb s "" = String.eqb s' "".
Proof. intros H. now rewrite <- (eqb_empty_lower s), <- (eqb_empty_lower s'), H. Qed.

Lemma is_lower_lower s : is_lower (lower s) = true.
Proof. unfold is_lower. apply String.eqb_eq. apply lower_idem. Qed.

Lemma is_lower_iff s : is_lower s = true <-> lower s = s.
Proof. unfold is_lower. apply String.eqb_eq. Qed.

(* ------------------------------------------------------------------------- *)
(** * (1) equality vs hash *)

(** F8: equal items with different hashes *)
Lemma item_hash_refuted :
  exists a b, item_eqb a b = true /\ item_hash a <> item_hash b.
Proof. exists "Mod#Foo", "mod#foo". split; [vm_compute; reflexivity|discriminate]. Qed.

Lemma item_eq_hash_on_lower a b :
  is_lower a = true -> is_lower b = true -> item_eqb a b = true -> item_hash a = item_hash b.
Proof.
  unfold item_hash, item_eqb. rewrite !is_lower_iff, name_eqb_iff. congruence.
Qed.

Lemma item_hash_folded_consistent a b :
  item_eqb a b = true -> item_hash_folded a = item_hash_folded b.
Proof. unfold item_eqb, item_hash_folded. now rewrite name_eqb_iff. Qed.

(** dict / set / graph membership misses an equal item spelled differently *)
Lemma py_mem_refuted :
  exists x l, mem_name x l = true /\ py_mem x l = false.
Proof. exists "Mod#Foo", ["mod#foo"]. split; vm_compute; reflexivity. Qed.

Lemma py_mem_on_lower x l :
  is_lower x = true -> forallb is_lower l = true -> py_mem x l = mem_name x l.
Proof.
  intros Hx. induction l as [|y r IH]; cbn; [reflexivity|].
  rewrite andb_true_iff. intros [Hy Hr]. rewrite <- IH by exact Hr. f_equal.
  unfold item_hash, item_eqb, name_eqb.
  apply is_lower_iff in Hx, Hy. rewrite Hx, Hy.
  destruct (String.eqb x y); reflexivity.
Qed.

(* ------------------------------------------------------------------------- *)
(** * (2) factory names *)

Lemma factory_names_lower :
  (forall m, is_lower (module_item_name m) = true) /\
  (forall s l, is_lower (scoped_item_name s l) = true) /\
  (forall s t r, is_lower (binding_item_name s t r) = true) /\
  (forall p, is_lower (file_item_name p) = true).
Proof. repeat split; intros; apply is_lower_lower. Qed.

Lemma factory_names_case_invariant s s' l l' :
  lower s = lower s' -> lower l = lower l' ->
  scoped_item_name s l = scoped_item_name s' l' /\ module_item_name s = module_item_name s'.
Proof.
  intros Hs Hl. unfold scoped_item_name, module_item_name.
  rewrite !lower_sapp, Hs, Hl. split; reflexivity.
Qed.

Lemma binding_name_case_invariant s s' t t' r r' :
  lower s = lower s' -> lower t = lower t' -> lower r = lower r' ->
  binding_item_name s t r = binding_item_name s' t' r'.
Proof. intros Hs Ht Hr. unfold binding_item_name. now rewrite !lower_sapp, Hs, Ht, Hr. Qed.

Lemma ci_get_fold {V} k k' (d : list (string * V)) : lower k = lower k' -> ci_get k d = ci_get k' d.
Proof. intros E. induction d as [|[x v] r IH]; cbn; [reflexivity|]. now rewrite E, IH. Qed.

Lemma ci_get_set {V} k k' (v : V) d : lower k = lower k' -> ci_get k (ci_set k' v d) = Some v.
Proof.
  intros E. induction d as [|[x w] r IH]; cbn.
  - now rewrite E, String.eqb_refl.
  - destruct (String.eqb (lower k') x) eqn:F; cbn.
    + now rewrite E, F.
    + rewrite E, F. exact IH.
Qed.

Lemma cache_lookup_case_insensitive (k k' : string) (v : nat) d :
  lower k = lower k' -> ci_get k (ci_set k' v d) = Some v /\ ci_get k d = ci_get k' d.
Proof. intros H. split; [now apply ci_get_set|now apply ci_get_fold]. Qed.

(* ------------------------------------------------------------------------- *)
(** * (3) DuplicateKernel *)

Lemma suffix_commutes_with_lower scope local suffix msuffix :
  match new_item_name scope local suffix msuffix with
  | (s, l, n) => (lower s, lower l, lower n)
  end = new_item_name (lower scope) (lower local) (lower suffix) (lower msuffix).
Proof.
  unfold new_item_name. rewrite eqb_empty_lower.
  destruct (String.eqb scope ""); cbn [lower]; now rewrite !lower_sapp.
Qed.

Lemma new_item_name_case_invariant sc sc' lo lo' su su' ms ms' :
  lower sc = lower sc' -> lower lo = lower lo' -> lower su = lower su' -> lower ms = lower ms' ->
  match new_item_name sc lo su ms, new_item_name sc' lo' su' ms' with
  | (s, l, n), (s', l', n') => lower s = lower s' /\ lower l = lower l' /\ lower n = lower n'
  end.
Proof.
  intros H1 H2 H3 H4.
  pose proof (suffix_commutes_with_lower sc lo su ms) as A.
  pose proof (suffix_commutes_with_lower sc' lo' su' ms') as B.
  rewrite H1, H2, H3, H4 in A. rewrite <- B in A.
  destruct (new_item_name sc lo su ms) as [[s l] n].
  destruct (new_item_name sc' lo' su' ms') as [[s' l'] n'].
  now inversion A.
Qed.

(** F-C23-2: an upper-case suffix makes the clone of a free-standing routine fail *)
Lemma clone_free_refuted :
  exists cached nn nl nn' nl',
    lower nn = lower nn' /\ lower nl = lower nl' /\
    clone_free cached nn nl = None /\ clone_free cached nn' nl' <> None.
Proof.
  exists [], "#fr_DUP", "fr_DUP", "#fr_dup", "fr_dup".
  repeat split; try (vm_compute; reflexivity). vm_compute. discriminate.
Qed.

Lemma clone_free_on_class cached nl :
  is_lower nl = true -> clone_free cached ("#" +++ nl) nl = Some (lower ("#" +++ nl)).
Proof.
  intros H. apply is_lower_iff in H. unfold clone_free, scoped_item_name.
  destruct (mem_name ("#" +++ nl) cached); [reflexivity|].
  cbn. rewrite H. now rewrite String.eqb_refl.
Qed.

Lemma mem_name_sim n n' l : lower n = lower n' -> mem_name n l = mem_name n' l.
Proof. apply mem_name_ext. Qed.

Lemma clone_free_fixed_case_invariant cached nn nn' nl nl' :
  lower nn = lower nn' -> lower nl = lower nl' ->
  clone_free_fixed cached nn nl = clone_free_fixed cached nn' nl'.
Proof.
  intros H1 H2. unfold clone_free_fixed, scoped_item_name.
  rewrite (mem_name_sim _ _ _ H1), H1.
  rewrite !lower_sapp, H2. unfold name_eqb. now rewrite H1.
Qed.

(* ------------------------------------------------------------------------- *)
(** * (4) config keys *)

Lemma Forall2_sim_map_lower l l' : Forall2 sim_name l l' -> map lower l = map lower l'.
Proof. induction 1 as [|a b r r' H _ IH]; cbn; [reflexivity|]. now rewrite H, IH. Qed.

Lemma match_keys_case_invariant s s' l l' keys keys' p :
  lower s = lower s' -> lower l = lower l' -> Forall2 sim_name keys keys' ->
  match_keys s l keys p = match_keys s' l' keys' p.
Proof.
  intros Hs Hl Hk. unfold match_keys, candidates.
  rewrite (Forall2_sim_map_lower _ _ Hk), !lower_sapp, Hs, Hl, (eqb_empty_sim _ _ Hs). reflexivity.
Qed.

(* ------------------------------------------------------------------------- *)
(** * (5) the C22 model only depends on folded names *)

Lemma Forall2_filter {A B} (R : A -> B -> Prop) p q l l' :
  (forall a b, R a b -> p a = q b) -> Forall2 R l l' -> Forall2 R (filter p l) (filter q l').
Proof.
  intros H. induction 1 as [|a b r r' Hab _ IH]; cbn; [constructor|].
  rewrite (H _ _ Hab). destruct (q b); auto.
Qed.

Lemma Forall2_rev' {A B} (R : A -> B -> Prop) l l' : Forall2 R l l' -> Forall2 R (rev l) (rev l').
Proof.
  induction 1 as [|a b r r' Hab _ IH]; cbn; [constructor|].
  apply Forall2_app; auto.
Qed.

Lemma Forall2_flat_map {A B C D} (R : A -> B -> Prop) (S : C -> D -> Prop) f f' l l' :
  (forall a b, R a b -> Forall2 S (f a) (f' b)) -> Forall2 R l l' ->
  Forall2 S (flat_map f l) (flat_map f' l').
Proof.
  intros H. induction 1 as [|a b r r' Hab _ IH]; cbn; [constructor|].
  apply Forall2_app; auto.
Qed.

Lemma Forall2_map {A B C D} (R : A -> B -> Prop) (S : C -> D -> Prop) f f' l l' :
  (forall a b, R a b -> S (f a) (f' b)) -> Forall2 R l l' -> Forall2 S (map f l) (map f' l').
Proof. intros H. induction 1; cbn; constructor; auto. Qed.

Lemma forallb_Forall2 {A B} (R : A -> B -> Prop) p q l l' :
  (forall a b, R a b -> p a = q b) -> Forall2 R l l' -> forallb p l = forallb q l'.
Proof. intros H. induction 1 as [|a b r r' Hab _ IH]; cbn; [reflexivity|]. now rewrite (H _ _ Hab), IH. Qed.

Lemma name_eqb_sim a a' b b' : lower a = lower a' -> lower b = lower b' -> name_eqb a b = name_eqb a' b'.
Proof. unfold name_eqb. now intros -> ->. Qed.

Lemma mem_name_sim2 n n' l l' :
  lower n = lower n' -> Forall2 sim_name l l' -> mem_name n l = mem_name n' l'.
Proof.
  intros E. induction 1 as [|a b r r' H _ IH]; cbn; [reflexivity|].
  now rewrite IH, (name_eqb_sim _ _ _ _ E H).
Qed.

Lemma nodup_names_sim l l' : Forall2 sim_name l l' -> nodup_names l = nodup_names l'.
Proof.
  induction 1 as [|a b r r' H Hr IH]; cbn; [reflexivity|].
  now rewrite IH, (mem_name_sim2 _ _ _ _ H Hr).
Qed.

Lemma index_of_sim n n' l l' :
  lower n = lower n' -> Forall2 sim_name l l' -> index_of n l = index_of n' l'.
Proof.
  intros E. induction 1 as [|a b r r' H _ IH]; cbn; [reflexivity|].
  now rewrite IH, (name_eqb_sim _ _ _ _ E H).
Qed.

Definition sim_oitem (a b : option item) : Prop :=
  match a, b with
  | Some x, Some y => sim_item x y
  | None, None => True
  | _, _ => False
  end.

Lemma find_item_sim n n' l l' :
  lower n = lower n' -> Forall2 sim_item l l' -> sim_oitem (find_item n l) (find_item n' l').
Proof.
  intros E. induction 1 as [|a b r r' H _ IH]; cbn; [exact I|].
  rewrite (name_eqb_sim _ _ _ _ E (si_name _ _ H)).
  destruct (name_eqb n' (iname b)); [exact H|exact IH].
Qed.

Lemma order_items_sim g g' o o' :
  sim_graph g g' -> Forall2 sim_name o o' -> Forall2 sim_item (order_items g o) (order_items g' o').
Proof.
  intros G. unfold order_items. apply Forall2_flat_map. intros a b E.
  pose proof (find_item_sim a b _ _ E (sg_nodes _ _ G)) as F.
  destruct (find_item a (nodes g)), (find_item b (nodes g')); cbn in F; try contradiction; auto.
Qed.

Lemma sel_sim s a b : sim_item a b -> sel s a = sel s b.
Proof.
  intros [_ _ Hk He _ Hi Hm _]. unfold sel, cls_match, mode_exempt.
  now rewrite Hk, He, Hi, Hm.
Qed.

Lemma sfilter_sim g g' o o' s :
  sim_graph g g' -> Forall2 sim_name o o' -> Forall2 sim_item (sfilter g o s) (sfilter g' o' s).
Proof.
  intros G O. unfold sfilter. apply Forall2_filter; [apply sel_sim|].
  destruct (sf_reverse s); [apply Forall2_rev'|]; now apply order_items_sim.
Qed.

Lemma succs_sim g g' n n' :
  sim_graph g g' -> lower n = lower n' -> Forall2 sim_name (succs g n) (succs g' n').
Proof.
  intros G E. unfold succs.
  apply (Forall2_map sim_edge sim_name); [intros a b [_ H]; exact H|].
  apply Forall2_filter; [|apply (sg_edges _ _ G)].
  intros a b [H _]. now apply name_eqb_sim.
Qed.

Lemma dedup_sim l l' : Forall2 sim_name l l' -> Forall2 sim_name (dedup l) (dedup l').
Proof.
  induction 1 as [|a b r r' H _ IH]; cbn; constructor; auto.
  apply Forall2_filter; auto. intros x y E. f_equal. now apply name_eqb_sim.
Qed.

Lemma file_node_sim files files' its its' f f' :
  Forall2 sim_item files files' -> Forall2 sim_item its its' -> lower f = lower f' ->
  sim_item (file_node files its f) (file_node files' its' f').
Proof.
  intros Hf Hi E. unfold file_node.
  assert (Hm : forallb iign (members its f) = forallb iign (members its' f')).
  { apply (forallb_Forall2 sim_item); [intros a b H; apply (si_ign _ _ H)|].
    unfold members. apply Forall2_filter; auto.
    intros a b H. apply name_eqb_sim; auto. apply (si_file _ _ H). }
  pose proof (find_item_sim f f' _ _ E Hf) as F.
  destruct (find_item f files) as [x|], (find_item f' files') as [y|]; cbn in F; try contradiction.
  - destruct F. constructor; cbn; auto.
  - constructor; cbn; auto.
Qed.

Lemma fg_edges_sim g g' its its' :
  sim_graph g g' -> Forall2 sim_item its its' -> Forall2 sim_edge (fg_edges g its) (fg_edges g' its').
Proof.
  intros G Hi. unfold fg_edges.
  apply (Forall2_flat_map sim_item sim_edge); auto. intros a b Hab.
  apply (Forall2_flat_map sim_name sim_edge); [|apply succs_sim; auto; apply (si_name _ _ Hab)].
  intros c c' Ec. pose proof (find_item_sim c c' _ _ Ec Hi) as F.
  destruct (find_item c its) as [x|], (find_item c' its') as [y|]; cbn in F; try contradiction; [|constructor].
  rewrite (name_eqb_sim _ _ _ _ (si_file _ _ F) (si_file _ _ Hab)).
  destruct (name_eqb (ifile y) (ifile b)); constructor; [|constructor].
  split; cbn; [apply (si_file _ _ Hab)|apply (si_file _ _ F)].
Qed.

Lemma filegraph_sim g g' o o' f excl files files' :
  sim_graph g g' -> Forall2 sim_name o o' -> Forall2 sim_item files files' ->
  sim_graph (filegraph g o f excl files) (filegraph g' o' f excl files').
Proof.
  intros G O F.
  assert (I : Forall2 sim_item (fg_items g o f excl) (fg_items g' o' f excl)) by (now apply sfilter_sim).
  unfold filegraph. constructor; cbn.
  - apply (Forall2_map sim_name sim_item).
    + intros a b E. now apply file_node_sim.
    + apply dedup_sim. apply (Forall2_map sim_item sim_name); auto. intros a b H. apply (si_file _ _ H).
  - now apply fg_edges_sim.
Qed.

Lemma visit_sim g g' files files' o o' of of' m strict mode :
  sim_graph g g' -> Forall2 sim_item files files' -> Forall2 sim_name o o' -> Forall2 sim_name of of' ->
  Forall2 sim_item (visit g files o of m strict mode) (visit g' files' o' of' m strict mode).
Proof.
  intros G F O Of. unfold visit. destruct (m_filegraph m).
  - apply sfilter_sim; auto. now apply filegraph_sim.
  - now apply sfilter_sim.
Qed.

Lemma run_sim plan l l' :
  Forall2 sim_item l l' ->
  Forall2 sim_item (fst (run plan l)) (fst (run plan l')) /\ sim_outcome (snd (run plan l)) (snd (run plan l')).
Proof.
  induction 1 as [|a b r r' H _ IH]; cbn; [split; [constructor|exact I]|].
  rewrite (si_ext _ _ H), (si_gen _ _ H).
  destruct (iext b).
  - destruct (plan && igen b); [exact IH|]. cbn. split; [constructor|apply (si_name _ _ H)].
  - destruct (run plan r) as [v o], (run plan r') as [v' o']. cbn in *. destruct IH. split; auto.
Qed.

(** ** the theorem: same result up to letter case *)
Lemma case_equivariance g g' files files' o o' of of' m strict mode plan :
  sim_graph g g' -> Forall2 sim_item files files' -> Forall2 sim_name o o' -> Forall2 sim_name of of' ->
  Forall2 sim_item (fst (process g files o of m strict mode plan)) (fst (process g' files' o' of' m strict mode plan)) /\
  sim_outcome (snd (process g files o of m strict mode plan)) (snd (process g' files' o' of' m strict mode plan)).
Proof. intros G F O Of. unfold process. apply run_sim. now apply visit_sim. Qed.

Lemma is_topo_sim g g' o o' :
  sim_graph g g' -> Forall2 sim_name o o' -> is_topo g o = is_topo g' o'.
Proof.
  intros G O. unfold is_topo.
  assert (N : Forall2 sim_name (map iname (nodes g)) (map iname (nodes g'))).
  { apply (Forall2_map sim_item sim_name); [intros a b H; apply (si_name _ _ H)|apply (sg_nodes _ _ G)]. }
  rewrite (nodup_names_sim _ _ N), (nodup_names_sim _ _ O).
  rewrite (forallb_Forall2 sim_item (fun it => mem_name (iname it) o) (fun it => mem_name (iname it) o') _ _
             (fun a b H => mem_name_sim2 _ _ _ _ (si_name _ _ H) O) (sg_nodes _ _ G)).
  rewrite (forallb_Forall2 sim_name (fun n => mem_name n (map iname (nodes g))) (fun n => mem_name n (map iname (nodes g'))) _ _
             (fun a b H => mem_name_sim2 _ _ _ _ H N) O).
  rewrite (forallb_Forall2 sim_edge (edge_fwd o) (edge_fwd o') (edges g) (edges g')); [reflexivity| |apply (sg_edges _ _ G)].
  intros a b [H1 H2]. unfold edge_fwd. now rewrite (index_of_sim _ _ _ _ H1 O), (index_of_sim _ _ _ _ H2 O).
Qed.

(** folded names of the result *)
Lemma sim_fnames l l' : Forall2 sim_item l l' -> map fname l = map fname l'.
Proof. induction 1 as [|a b r r' H _ IH]; cbn; [reflexivity|]. unfold fname at 1 3. now rewrite (si_name _ _ H), IH. Qed.

(** ** instances: case renamings *)
Lemma rename_item_sim rn rf it : case_renaming rn -> case_renaming rf -> sim_item it (rename_item rn rf it).
Proof. intros Hn Hf. constructor; cbn; auto. Qed.

Lemma rename_graph_sim rn rf ra rb g :
  case_renaming rn -> case_renaming rf -> case_renaming ra -> case_renaming rb ->
  sim_graph g (rename_graph rn rf ra rb g).
Proof.
  intros Hn Hf Ha Hb. constructor; cbn.
  - induction (nodes g); cbn; constructor; auto. now apply rename_item_sim.
  - induction (edges g); cbn; constructor; auto. split; cbn; auto.
Qed.

Lemma rename_names_sim r l : case_renaming r -> Forall2 sim_name l (map r l).
Proof. intros H. induction l; cbn; constructor; auto. unfold sim_name. now rewrite H. Qed.

Lemma rename_items_sim rn rf l : case_renaming rn -> case_renaming rf -> Forall2 sim_item l (map (rename_item rn rf) l).
Proof. intros Hn Hf. induction l; cbn; constructor; auto. now apply rename_item_sim. Qed.

Lemma case_renaming_invariance rn rf ra rb ro rof g files o of m strict mode plan :
  case_renaming rn -> case_renaming rf -> case_renaming ra -> case_renaming rb ->
  case_renaming ro -> case_renaming rof ->
  let p  := process g files o of m strict mode plan in
  let p' := process (rename_graph rn rf ra rb g) (map (rename_item rf rf) files) (map ro o) (map rof of) m strict mode plan in
  map fname (fst p') = map fname (fst p) /\ sim_outcome (snd p) (snd p') /\
  is_topo (rename_graph rn rf ra rb g) (map ro o) = is_topo g o.
Proof.
  intros Hn Hf Ha Hb Ho Hof p p'. subst p p'.
  pose proof (rename_graph_sim rn rf ra rb g Hn Hf Ha Hb) as G.
  destruct (case_equivariance g _ files _ o _ of _ m strict mode plan G
              (rename_items_sim rf rf files Hf Hf) (rename_names_sim ro o Ho) (rename_names_sim rof of Hof)) as [A B].
  repeat split.
  - symmetry. now apply sim_fnames.
  - exact B.
  - symmetry. apply is_topo_sim; auto. now apply rename_names_sim.
Qed.

(** ** reflection of the decidable similarity used by the correspondence run *)
Lemma forall2b_Forall2 {A B} (p : A -> B -> bool) (R : A -> B -> Prop) l l' :
  (forall a b, p a b = true -> R a b) -> forall2b p l l' = true -> Forall2 R l l'.
Proof.
  intros H. revert l'. induction l as [|a r IH]; destruct l' as [|b r']; cbn; try discriminate; [constructor|].
  rewrite andb_true_iff. intros [H1 H2]. constructor; auto.
Qed.

Lemma kind_eqb_eq a b : kind_eqb a b = true -> a = b.
Proof. destruct a, b; cbn; congruence. Qed.

Lemma simb_item_sound a b : simb_item a b = true -> sim_item a b.
Proof.
  unfold simb_item. rewrite !andb_true_iff.
  intros [[[[[[[H1 H2] H3] H4] H5] H6] H7] H8].
  constructor.
  - now apply name_eqb_iff.
  - now apply name_eqb_iff.
  - now apply kind_eqb_eq.
  - now apply Bool.eqb_prop.
  - now apply Bool.eqb_prop.
  - now apply Bool.eqb_prop.
  - now apply String.eqb_eq.
  - now apply String.eqb_eq.
Qed.

Lemma simb_graph_sound g g' : simb_graph g g' = true -> sim_graph g g'.
Proof.
  unfold simb_graph. rewrite andb_true_iff. intros [H1 H2]. constructor.
  - eapply forall2b_Forall2; [|exact H1]. apply simb_item_sound.
  - eapply forall2b_Forall2; [|exact H2]. intros a b. unfold simb_edge. rewrite andb_true_iff.
    intros [E1 E2]. split; now apply name_eqb_iff.
Qed.

Lemma simb_names_sound l l' : simb_names l l' = true -> Forall2 sim_name l l'.
Proof. apply forall2b_Forall2. intros a b. apply name_eqb_iff. Qed.

(** what [chk_variants = true] on two real runs entails *)
Lemma variants_agree g g' files files' o o' of of' m strict mode plan :
  chk_variants g g' o o' = true ->
  Forall2 sim_item files files' -> Forall2 sim_name of of' ->
  map fname (fst (process g files o of m strict mode plan)) =
  map fname (fst (process g' files' o' of' m strict mode plan)).
Proof.
  unfold chk_variants. rewrite !andb_true_iff. intros [[[H1 H2] _] _] F Of.
  apply sim_fnames. apply case_equivariance; auto.
  - now apply simb_graph_sound.
  - now apply simb_names_sound.
Qed.

(** a non-trivial instance of the renaming theorem's hypotheses *)
Example upper_is_case_renaming : case_renaming upper.
Proof. intros n. apply lower_upper. Qed.
