From Coq Require Import ZArith List Bool String Lia.
From LV Require Import Base.Strings models.M_C13.
Import ListNotations.

(** * classification *)
Lemma tier_spec n t d : classify n t d = tier_doc n t d.
Proof.
  unfold classify, tier_doc, dtype_truthy.
  destruct t as [[k sh tg]|]; cbn.
  - destruct k as [|m| |]; cbn; try reflexivity.
  - destruct d; reflexivity.
Qed.

Lemma classify_case_insensitive n n' t d : lower n = lower n' -> classify n t d = classify n' t d.
Proof. intros H. unfold classify. now rewrite H. Qed.

(** * tables *)
Lemma key_fold a b : lower a = lower b -> key a = key b.
Proof. unfold key. now intros ->. Qed.

Lemma tget_tset_same t k v : tget (tset t k v) k = Some v.
Proof.
  induction t as [|[k' v'] r IH]; cbn.
  - now rewrite String.eqb_refl.
  - destruct (String.eqb k' k) eqn:E; cbn.
    + now rewrite String.eqb_refl.
    + now rewrite E.
Qed.

Lemma tget_tset_other t k k' v : k' <> k -> tget (tset t k v) k' = tget t k'.
Proof.
  intros Hne. induction t as [|[k0 v0] r IH]; cbn.
  - destruct (String.eqb k k') eqn:E; [apply String.eqb_eq in E; congruence|reflexivity].
  - destruct (String.eqb k0 k) eqn:E; cbn.
    + apply String.eqb_eq in E. subst k0.
      destruct (String.eqb k k') eqn:E2; [apply String.eqb_eq in E2; congruence|reflexivity].
    + destruct (String.eqb k0 k'); [reflexivity|exact IH].
Qed.

Lemma skipn_update_nth {A} (l : list A) i f :
  (i < List.length l)%nat -> exists t rest, skipn i l = t :: rest /\ skipn i (update_nth l i f) = f t :: rest.
Proof.
  revert i. induction l as [|x r IH]; intros i Hi; cbn in Hi; [lia|].
  destruct i as [|i]; cbn.
  - now exists x, r.
  - apply IH. lia.
Qed.

Lemma skipn_update_nth_after {A} (l : list A) i j f :
  (i < j)%nat -> skipn j (update_nth l i f) = skipn j l.
Proof.
  revert i j. induction l as [|x r IH]; intros i j Hij.
  - destruct i; reflexivity.
  - destruct i as [|i]; destruct j as [|j]; try lia; cbn; [reflexivity|]. apply IH. lia.
Qed.

Lemma length_update_nth {A} (l : list A) i f : List.length (update_nth l i f) = List.length l.
Proof. revert i. induction l as [|x r IH]; intros [|i]; cbn; auto. Qed.

(** a type written into scope [i] is what scope [i] resolves for any spelling of the name *)
Lemma resolve_set_entry_same ss i n n' v :
  (i < List.length ss)%nat -> key n' = key n -> resolve (set_entry ss i n v) i n' = Some v.
Proof.
  intros Hi Hk. unfold resolve, set_entry.
  destruct (skipn_update_nth ss i (fun t => tset t (key n) v) Hi) as [t [rest [E1 E2]]].
  rewrite E2. cbn. rewrite Hk. now rewrite tget_tset_same.
Qed.

(** ... and a different name is not affected, in any scope *)
Lemma resolve_from_ext l1 l2 k :
  Forall2 (fun a b => tget a k = tget b k) l1 l2 -> resolve_from l1 k = resolve_from l2 k.
Proof. induction 1 as [|a b r q Hab _ IH]; cbn; [reflexivity|]. rewrite Hab. destruct (tget b k); [reflexivity|exact IH]. Qed.

Lemma Forall2_refl_tget (l : list table) k : Forall2 (fun a b => tget a k = tget b k) l l.
Proof. induction l; constructor; auto. Qed.

Lemma Forall2_skipn_update (ss : scopes) i j k k0 v :
  k <> k0 -> Forall2 (fun a b => tget a k = tget b k) (skipn j (update_nth ss i (fun t => tset t k0 v))) (skipn j ss).
Proof.
  intros Hne. revert i j. induction ss as [|t r IH]; intros i j.
  - destruct i, j; cbn; constructor.
  - destruct i as [|i], j as [|j]; cbn.
    + constructor; [now apply tget_tset_other|apply Forall2_refl_tget].
    + apply Forall2_refl_tget.
    + constructor; [reflexivity|]. apply (IH i 0%nat).
    + apply IH.
Qed.

Lemma resolve_set_entry_other ss i j n n' v :
  key n' <> key n -> resolve (set_entry ss i n v) j n' = resolve ss j n'.
Proof.
  intros Hk. unfold resolve, set_entry. apply resolve_from_ext. now apply Forall2_skipn_update.
Qed.

(** scopes outside (enclosing) the updated one never see it *)
Lemma resolve_set_entry_outer ss i j n n' v :
  (i < j)%nat -> resolve (set_entry ss i n v) j n' = resolve ss j n'.
Proof. intros Hij. unfold resolve, set_entry. now rewrite skipn_update_nth_after. Qed.

(** * sharing by scope *)
Lemma attached_share ss y1 y2 i :
  s_scope y1 = Some i -> s_scope y2 = Some i -> key (s_name y1) = key (s_name y2) ->
  read_type ss y1 = read_type ss y2.
Proof. intros H1 H2 Hk. unfold read_type. rewrite H1, H2. unfold resolve. now rewrite Hk. Qed.

Lemma attached_sees_table_update st i n t y :
  (i < List.length (st_scopes st))%nat -> In y (st_syms st) -> s_scope y = Some i -> key (s_name y) = key n ->
  read_type (st_scopes (step st (OSetTable i n t))) y = Some t /\ In y (st_syms (step st (OSetTable i n t))).
Proof.
  intros Hi Hin Hs Hk. cbn. split; [|exact Hin].
  unfold read_type. rewrite Hs. now apply resolve_set_entry_same.
Qed.

Lemma nth_error_update_nth_same {A} (l : list A) j f y :
  nth_error l j = Some y -> nth_error (update_nth l j f) j = Some (f y).
Proof. revert j. induction l as [|x r IH]; intros [|j]; cbn; try discriminate; [congruence|apply IH]. Qed.

Lemma nth_error_update_nth_other {A} (l : list A) i j f :
  i <> j -> nth_error (update_nth l i f) j = nth_error l j.
Proof.
  revert i j. induction l as [|x r IH]; intros i j Hne.
  - destruct i; reflexivity.
  - destruct i as [|i], j as [|j]; cbn; try congruence; try reflexivity. apply IH. congruence.
Qed.

(** the setter on one attached symbol is seen by every symbol of that name attached to the same scope *)
Lemma attached_sees_setter st j t yj y i :
  (i < List.length (st_scopes st))%nat -> nth_error (st_syms st) j = Some yj -> s_scope yj = Some i ->
  In y (st_syms st) -> s_scope y = Some i -> key (s_name y) = key (s_name yj) ->
  read_type (st_scopes (step st (OSetType j (Some t)))) y = Some t.
Proof.
  intros Hi Hj Hsj Hin Hs Hk. cbn. unfold set_type. rewrite Hj, Hsj. cbn.
  unfold read_type. rewrite Hs. now apply resolve_set_entry_same.
Qed.

(** * unattached symbols keep their own type *)
Definition not_setter_of (j : nat) (o : op) : Prop := match o with OSetType j' _ => j' <> j | _ => True end.

Lemma nth_error_app_l {A} (l r : list A) j y : nth_error l j = Some y -> nth_error (l ++ r) j = Some y.
Proof. intros H. rewrite nth_error_app1; [exact H|]. apply nth_error_Some. congruence. Qed.

Lemma detached_step st o j y :
  nth_error (st_syms st) j = Some y -> s_scope y = None -> not_setter_of j o ->
  nth_error (st_syms (step st o)) j = Some y.
Proof.
  intros Hj Hs Hns. destruct o as [n sc t dims|i n t|j' t|j' cn csc ct|j' i]; cbn.
  - destruct (create (st_scopes st) n sc t dims) as [ss z]. cbn. now apply nth_error_app_l.
  - exact Hj.
  - cbn in Hns. unfold set_type. destruct (nth_error (st_syms st) j') as [y'|] eqn:E; [|exact Hj].
    destruct (s_scope y'); cbn; [exact Hj|]. now rewrite nth_error_update_nth_other.
  - destruct (nth_error (st_syms st) j') as [y'|]; [|exact Hj].
    destruct (clone (st_scopes st) y' cn csc ct false) as [ss z]. cbn. now apply nth_error_app_l.
  - destruct (nth_error (st_syms st) j') as [y'|]; [|exact Hj].
    destruct (rescope (st_scopes st) y' i (is_array y')) as [ss z]. cbn. now apply nth_error_app_l.
Qed.

Lemma read_detached ss y : s_scope y = None -> read_type ss y = s_local y.
Proof. intros H. unfold read_type. now rewrite H. Qed.

(** whatever happens to any scope or any other symbol, a detached symbol reports the type it holds *)
Lemma detached_keeps_type ops : forall st j y,
  nth_error (st_syms st) j = Some y -> s_scope y = None -> Forall (not_setter_of j) ops ->
  let st' := fold_left step ops st in
  nth_error (st_syms st') j = Some y /\ read_type (st_scopes st') y = s_local y.
Proof.
  induction ops as [|o ops IH]; intros st j y Hj Hs Hall; cbn.
  - split; [exact Hj|now apply read_detached].
  - inversion Hall as [|? ? Ho Hrest]; subst. apply IH; [now apply detached_step|exact Hs|exact Hrest].
Qed.

(** * rescoping does not overwrite what the target scope already resolves *)
Lemma create_attached_resolves ss n i t dims :
  (i < List.length ss)%nat ->
  resolve (fst (create ss n (Some i) (Some t) dims)) i n = Some t.
Proof. intros Hi. cbn. now apply resolve_set_entry_same. Qed.

Lemma rescope_keeps_existing_entry ss y i e d :
  (i < List.length ss)%nat -> read_type ss y <> None -> resolve ss i (s_name y) = Some e ->
  resolve (fst (rescope ss y i d)) i (s_name y) = Some e /\
  read_type (fst (rescope ss y i d)) (snd (rescope ss y i d)) = Some e.
Proof.
  intros Hi Hr He. unfold rescope.
  destruct (read_type ss y) as [ty0|] eqn:E0; [|congruence].
  rewrite He.
  assert (Hc : clone ss y None (Some (Some i)) (Some e) d = create ss (s_name y) (Some i) (Some e) d) by reflexivity.
  destruct (dtype_truthy e); rewrite Hc; cbn; (split; [now apply resolve_set_entry_same|]);
    unfold read_type; cbn; now apply resolve_set_entry_same.
Qed.

(** a symbol rescoped into a scope where its name is unknown brings its own type along *)
Lemma rescope_inserts_when_absent ss y i t d :
  (i < List.length ss)%nat -> read_type ss y = Some t -> resolve ss i (s_name y) = None ->
  read_type (fst (rescope ss y i d)) (snd (rescope ss y i d)) = Some t.
Proof.
  intros Hi Hr He. unfold rescope. rewrite Hr, He.
  unfold clone. cbn [orb].
  assert (Hg : tget (nth i ss []) (key (s_name y)) = None).
  { unfold resolve in He. destruct (skipn_update_nth ss i (fun x => x) Hi) as [t0 [rest [E1 _]]].
    rewrite E1 in He. cbn in He.
    assert (Hn : nth i ss [] = t0).
    { clear -E1. revert i E1. induction ss as [|x r IH]; intros [|i] E; cbn in *; try discriminate; [congruence|now apply IH]. }
    rewrite Hn. destruct (tget t0 (key (s_name y))); [discriminate|reflexivity]. }
  rewrite Hg, Hr. cbn. unfold read_type. cbn. now apply resolve_set_entry_same.
Qed.

(** non-vacuity: a concrete history with nested scopes, an update seen by two attached spellings, a detached copy unaffected *)
Example c13_nonvacuous :
  let t1 := {| dk := DBasic; has_shape := false; tag := 1 |} in
  let t2 := {| dk := DBasic; has_shape := true; tag := 2 |} in
  let st := run 2 [OCreate "x" (Some 0%nat) (Some t1) false; OCreate "X" (Some 0%nat) None false;
                   OClone 0 None (Some None) None; OSetTable 0 "X" t2] in
  map snd (observe_syms st) = [Some t2; Some t2; Some t1].
Proof. vm_compute. reflexivity. Qed.
