(** C42 — proofs about the parallel lint protocol model. *)
From Coq Require Import ZArith List Bool Arith Lia Permutation.
From LV Require Import models.M_C42.
Import ListNotations.

(** * generic list facts *)

Lemma item_eqb_eq : forall a b : item, item_eqb a b = true <-> a = b.
Proof.
  intros [a1 a2] [b1 b2]; unfold item_eqb; simpl. rewrite andb_true_iff, !Z.eqb_eq.
  split; [intros [-> ->]; reflexivity | intros E; inversion E; auto].
Qed.

Lemma items_eqb_eq : forall a b, items_eqb a b = true <-> a = b.
Proof.
  induction a as [|x a IH]; destruct b as [|y b]; simpl; try (split; [discriminate|discriminate]); try tauto.
  rewrite andb_true_iff, item_eqb_eq, IH. split; [intros [-> ->]; reflexivity | intros E; inversion E; auto].
Qed.

Lemma Permutation_filter : forall (A : Type) (p : A -> bool) l1 l2,
  Permutation l1 l2 -> Permutation (filter p l1) (filter p l2).
Proof.
  induction 1; simpl.
  - constructor.
  - destruct (p x); auto.
  - destruct (p x), (p y); auto using perm_swap.
  - eapply perm_trans; eauto.
Qed.

Lemma perm_insert : forall (A B : Type) (g : A -> B) (L : list B) (l1 l2 : list A) (y : A),
  Permutation L (map g (l1 ++ l2)) -> Permutation (L ++ [g y]) (map g (l1 ++ y :: l2)).
Proof.
  intros. eapply perm_trans; [apply Permutation_app_comm|]. simpl.
  eapply perm_trans; [apply perm_skip; exact H|].
  change (g y :: map g (l1 ++ l2)) with (map g (y :: l1 ++ l2)).
  apply Permutation_map. apply Permutation_middle.
Qed.

Lemma all_eq_repeat : forall (A : Type) (x : A) l, (forall y, In y l -> y = x) -> l = repeat x (length l).
Proof.
  induction l as [|a l IH]; simpl; intros; [reflexivity|].
  rewrite (H a) by auto. f_equal. apply IH; auto.
Qed.

Lemma remove1_perm : forall x l l', remove1 x l = Some l' -> Permutation l (x :: l').
Proof.
  induction l as [|y l IH]; simpl; intros l' E; [discriminate|].
  destruct (item_eqb x y) eqn:Exy.
  - apply item_eqb_eq in Exy; subst. inversion E; subst. reflexivity.
  - destruct (remove1 x l) as [r|] eqn:Er; [|discriminate]. inversion E; subst.
    eapply perm_trans; [apply perm_skip; apply IH; reflexivity|]. apply perm_swap.
Qed.

Lemma is_perm_sound : forall a b, is_perm a b = true -> Permutation a b.
Proof.
  induction a as [|x a IH]; simpl; intros b E.
  - destruct b; [constructor|discriminate].
  - destruct (remove1 x b) as [b'|] eqn:Er; [|discriminate].
    apply remove1_perm in Er. eapply perm_trans; [apply perm_skip; apply IH; exact E|]. symmetry; exact Er.
Qed.

Lemma nodup_keys_sound : forall l, nodup_keys l = true -> NoDup (map fst l).
Proof.
  induction l as [|x l IH]; simpl; intros E; [constructor|].
  apply andb_true_iff in E as [E1 E2]. constructor; auto.
  intros Hin. apply in_map_iff in Hin as [y [Ey Hy]].
  apply negb_true_iff in E1. assert (existsb (fun y0 => (fst y0 =? fst x)%Z) l = true); [|congruence].
  apply existsb_exists. exists y; split; auto. apply Z.eqb_eq; auto.
Qed.

(** * the protocol *)
Section Proofs.
  Variable H : nat.
  Variable cont : nat -> file -> Z.
  Variable okf : file -> bool.

  Notation rep := (rep cont).
  Notation step := (step H cont okf).
  Notation steps := (steps H cont okf).
  Notation reachable := (reachable H cont okf).
  Notation serial_list := (serial_list cont).
  Notation count_ok := (count_ok okf).

  Lemma steps_trans : forall N a b c, steps N a b -> steps N b c -> steps N a c.
  Proof. induction 1; intros; auto. econstructor; eauto. Qed.

  Lemma steps_one : forall N a b, step N a b -> steps N a b.
  Proof. intros. econstructor; [eassumption|constructor]. Qed.

  (** files whose report for handler [h] has been appended *)
  Definition appended (s : state) (h : nat) : list file :=
    done s ++ map t_file (filter (fun t => h <? t_prog t) (running s)).

  Record inv (N : nat) (fs : list file) (s : state) : Prop := {
    inv_files : Permutation (done s ++ map t_file (running s) ++ pending s) fs;
    inv_lists : forall h, h < H -> Permutation (lists s h) (map (rep h) (appended s h));
    inv_out   : forall h, H <= h -> lists s h = [];
    inv_prog  : forall t, In t (running s) -> t_prog t <= H;
    inv_count : count s = count_ok (done s);
    inv_bound : length (running s) <= N
  }.

  Lemma inv_init : forall N fs, inv N fs (init fs).
  Proof.
    intros; constructor; simpl; intros; auto; try lia; try contradiction.
  Qed.

  Lemma count_ok_snoc : forall d f, count_ok (d ++ [f]) = count_ok d + b2n (okf f).
  Proof.
    intros. unfold M_C42.count_ok. rewrite filter_app, app_length. simpl. destruct (okf f); simpl; lia.
  Qed.

  Lemma inv_step : forall N fs s s', step N s s' -> inv N fs s -> inv N fs s'.
  Proof.
    intros N fs s s' St [If Il Io Ip Ic Ib]. inversion St; subst; clear St; simpl in *.
    - (* start *)
      constructor; simpl.
      + rewrite map_app. simpl. rewrite <- app_assoc. simpl. exact If.
      + intros h Hh. unfold appended in *; simpl in *. rewrite filter_app. simpl.
        replace (h <? 0) with false by (symmetry; apply Nat.ltb_ge; lia). rewrite app_nil_r. auto.
      + auto.
      + intros t Ht. apply in_app_or in Ht as [Ht|[<-|[]]]; auto. simpl; lia.
      + auto.
      + rewrite app_length. simpl. lia.
    - (* append *)
      constructor; simpl.
      + rewrite map_app in *. simpl in *. exact If.
      + intros h Hh. unfold appended in *; simpl in *. specialize (Il h Hh).
        rewrite filter_app in Il |- *. simpl in Il |- *. unfold upd.
        destruct (Nat.eqb h k) eqn:Ehk.
        * apply Nat.eqb_eq in Ehk; subst h.
          replace (k <? S k) with true by (symmetry; apply Nat.ltb_lt; lia).
          replace (k <? k) with false in Il by (symmetry; apply Nat.ltb_ge; lia).
          rewrite (map_app t_file) in Il |- *. simpl. rewrite (app_assoc d) in Il |- *.
          apply (perm_insert _ _ (rep k)). exact Il.
        * apply Nat.eqb_neq in Ehk.
          destruct (Nat.ltb_spec h (S k)); destruct (Nat.ltb_spec h k);
            try (rewrite (map_app t_file) in Il |- *; simpl in Il |- *; exact Il);
            exfalso; lia.
      + intros h Hh. unfold upd. replace (Nat.eqb h k) with false by (symmetry; apply Nat.eqb_neq; lia). auto.
      + intros t Ht. apply in_app_or in Ht as [Ht|[<-|Ht]].
        * apply Ip; apply in_or_app; auto.
        * simpl; lia.
        * apply Ip; apply in_or_app; right; right; auto.
      + auto.
      + rewrite app_length in *. simpl in *. lia.
    - (* finish *)
      assert (P : forall (m1 m2 q : list file),
                 Permutation ((d ++ [f]) ++ (m1 ++ m2) ++ q) (d ++ (m1 ++ f :: m2) ++ q)).
      { intros. rewrite <- !app_assoc. apply Permutation_app_head. simpl.
        apply (Permutation_middle m1 (m2 ++ q) f). }
      constructor; simpl.
      + rewrite (map_app t_file) in If |- *. simpl in If. eapply perm_trans; [apply P|exact If].
      + intros h Hh. unfold appended in *; simpl in *. specialize (Il h Hh).
        rewrite filter_app in Il |- *. simpl in Il.
        replace (h <? H) with true in Il by (symmetry; apply Nat.ltb_lt; lia).
        eapply perm_trans; [exact Il|]. apply Permutation_map. symmetry.
        rewrite !(map_app t_file). simpl.
        specialize (P (map t_file (filter (fun t => h <? t_prog t) r1))
                      (map t_file (filter (fun t => h <? t_prog t) r2)) []).
        rewrite !app_nil_r in P. exact P.
      + auto.
      + intros t Ht. apply Ip. apply in_app_or in Ht as [Ht|Ht]; apply in_or_app; auto. right; right; auto.
      + rewrite count_ok_snoc. congruence.
      + rewrite app_length in *. simpl in *. lia.
  Qed.

  Lemma inv_steps : forall N fs s s', steps N s s' -> inv N fs s -> inv N fs s'.
  Proof. induction 1; intros; auto. apply IHsteps. eapply inv_step; eauto. Qed.

  Lemma inv_reachable : forall N fs s, reachable N fs s -> inv N fs s.
  Proof. intros. eapply inv_steps; [exact H0|apply inv_init]. Qed.

  Lemma final_done_perm : forall N fs s, reachable N fs s -> final s -> Permutation (done s) fs.
  Proof.
    intros N fs s R [Fp Fr]. destruct (inv_reachable _ _ _ R) as [If _ _ _ _ _].
    rewrite Fp, Fr in If. simpl in If. rewrite app_nil_r in If. exact If.
  Qed.

  (** main theorem: the final shared list of every handler is a permutation of the serial list *)
  Theorem reachable_final_is_perm : forall N fs s h,
    reachable N fs s -> final s -> h < H -> Permutation (lists s h) (serial_list h fs).
  Proof.
    intros N fs s h R F Hh. pose proof (final_done_perm _ _ _ R F) as Pd.
    destruct F as [Fp Fr]. destruct (inv_reachable _ _ _ R) as [_ Il _ _ _ _].
    specialize (Il h Hh). unfold appended in Il. rewrite Fr in Il. simpl in Il. rewrite app_nil_r in Il.
    eapply perm_trans; [exact Il|]. apply Permutation_map. exact Pd.
  Qed.

  Theorem reachable_final_no_other_lists : forall N fs s h,
    reachable N fs s -> H <= h -> lists s h = [].
  Proof. intros. destruct (inv_reachable _ _ _ H0). auto. Qed.

  Theorem running_bounded : forall N fs s, reachable N fs s -> length (running s) <= N.
  Proof. intros. destruct (inv_reachable _ _ _ H0). auto. Qed.

  (** * per-file views *)

  Lemma per_file_serial_length : forall h fs f,
    length (per_file (serial_list h fs) f) = count_occ Z.eq_dec fs f.
  Proof.
    intros h fs f. unfold per_file, M_C42.serial_list. induction fs as [|a fs IH]; simpl; [reflexivity|].
    destruct (Z.eq_dec a f) as [->|Ne].
    - rewrite Z.eqb_refl. simpl. congruence.
    - replace (a =? f)%Z with false by (symmetry; apply Z.eqb_neq; auto). exact IH.
  Qed.

  Lemma per_file_canonical : forall h l fs f,
    Permutation l (serial_list h fs) ->
    per_file l f = repeat (rep h f) (count_occ Z.eq_dec fs f).
  Proof.
    intros h l fs f P.
    assert (L : length (per_file l f) = count_occ Z.eq_dec fs f).
    { rewrite <- (per_file_serial_length h). apply Permutation_length. unfold per_file.
      apply Permutation_filter; exact P. }
    rewrite <- L. apply all_eq_repeat. intros y Hy. unfold per_file in Hy.
    apply filter_In in Hy as [Hin Hk]. apply Z.eqb_eq in Hk.
    eapply Permutation_in in Hin; [|exact P]. unfold M_C42.serial_list in Hin.
    apply in_map_iff in Hin as [f' [<- _]]. unfold M_C42.rep in *. simpl in Hk. subst. reflexivity.
  Qed.

  Theorem each_file_once : forall N fs s h f,
    NoDup fs -> reachable N fs s -> final s -> h < H ->
    (In f fs -> per_file (lists s h) f = [rep h f]) /\ (~ In f fs -> per_file (lists s h) f = []).
  Proof.
    intros N fs s h f ND R F Hh.
    rewrite (per_file_canonical h _ fs f (reachable_final_is_perm _ _ _ _ R F Hh)). split; intros Hf.
    - rewrite (proj1 (NoDup_count_occ' Z.eq_dec fs) ND f Hf). reflexivity.
    - rewrite (proj1 (count_occ_not_In Z.eq_dec fs f) Hf). reflexivity.
  Qed.

  Theorem per_file_view_schedule_independent : forall N1 N2 fs s1 s2 h,
    reachable N1 fs s1 -> final s1 -> reachable N2 fs s2 -> final s2 -> h < H ->
    (forall f, per_file (lists s1 h) f = per_file (lists s2 h) f) /\
    view fs (lists s1 h) = view fs (lists s2 h) /\
    view fs (lists s1 h) = view fs (serial_list h fs).
  Proof.
    intros N1 N2 fs s1 s2 h R1 F1 R2 F2 Hh.
    pose proof (reachable_final_is_perm _ _ _ _ R1 F1 Hh) as P1.
    pose proof (reachable_final_is_perm _ _ _ _ R2 F2 Hh) as P2.
    assert (E : forall l, Permutation l (serial_list h fs) ->
                          forall f, per_file l f = per_file (serial_list h fs) f).
    { intros l P f. rewrite (per_file_canonical h l fs f P).
      rewrite (per_file_canonical h (serial_list h fs) fs f (Permutation_refl _)). reflexivity. }
    split; [|split].
    - intros f. rewrite (E _ P1), (E _ P2). reflexivity.
    - unfold view. apply map_ext. intros f. rewrite (E _ P1), (E _ P2). reflexivity.
    - unfold view. apply map_ext. intros f. apply E; exact P1.
  Qed.

  Theorem visible_schedule_independent : forall N fs s h,
    reachable N fs s -> final s -> h < H -> Permutation (visible (lists s h)) (visible (serial_list h fs)).
  Proof. intros. unfold visible. apply Permutation_filter. eapply reachable_final_is_perm; eauto. Qed.

  Lemma count_ok_perm : forall a b, Permutation a b -> count_ok a = count_ok b.
  Proof. intros. unfold M_C42.count_ok. apply Permutation_length. apply Permutation_filter; auto. Qed.

  Theorem count_eq_files : forall N fs s,
    reachable N fs s -> final s ->
    (forall h, h < H -> length (lists s h) = length fs) /\
    length (done s) = length fs /\ Permutation (done s) fs /\ count s = count_ok fs.
  Proof.
    intros N fs s R F. pose proof (final_done_perm _ _ _ R F) as Pd. split; [|split; [|split]].
    - intros h Hh. rewrite (Permutation_length (reachable_final_is_perm _ _ _ _ R F Hh)).
      unfold M_C42.serial_list. apply map_length.
    - apply Permutation_length; exact Pd.
    - exact Pd.
    - destruct (inv_reachable _ _ _ R) as [_ _ _ _ Ic _]. rewrite Ic. apply count_ok_perm; exact Pd.
  Qed.

  (** * the serial loop is the 1-worker execution of the model *)

  Lemma do_appends : forall N p f d c m k ls,
    k + m = H ->
    exists ls', steps N (St p [Task f k] ls d c) (St p [Task f H] ls' d c) /\
                (forall h, k <= h < H -> ls' h = ls h ++ [rep h f]) /\
                (forall h, ~ (k <= h < H) -> ls' h = ls h).
  Proof.
    intros N p f d c. induction m as [|m IH]; intros k ls E.
    - assert (k = H) by lia. subst k. exists ls. split; [constructor|]. split; intros; [lia|reflexivity].
    - assert (Hk : k < H) by lia.
      destruct (IH (S k) (upd ls k (rep k f)) ltac:(lia)) as [ls' [S1 [A1 A2]]].
      exists ls'. split; [|split].
      + eapply steps_cons; [|exact S1]. exact (st_append H cont okf N p [] f k [] ls d c Hk).
      + intros h Hh. destruct (Nat.eq_dec h k) as [->|Ne].
        * rewrite A2 by lia. unfold upd. rewrite Nat.eqb_refl. reflexivity.
        * rewrite A1 by lia. unfold upd. replace (Nat.eqb h k) with false by (symmetry; apply Nat.eqb_neq; auto).
          reflexivity.
      + intros h Hh. rewrite A2 by lia. unfold upd.
        replace (Nat.eqb h k) with false by (symmetry; apply Nat.eqb_neq; lia). reflexivity.
  Qed.

  Lemma serial_from : forall fs ls d c,
    exists s, steps 1 (St fs [] ls d c) s /\ pending s = [] /\ running s = [] /\
              (forall h, h < H -> lists s h = ls h ++ serial_list h fs) /\
              (forall h, H <= h -> lists s h = ls h) /\
              done s = d ++ fs /\ count s = c + count_ok fs.
  Proof.
    induction fs as [|f fs IH]; intros ls d c.
    - exists (St [] [] ls d c). simpl. repeat split; auto; try constructor; intros;
        unfold M_C42.serial_list, M_C42.count_ok; simpl; rewrite ?app_nil_r; auto.
    - destruct (do_appends 1 fs f d c H 0 ls eq_refl) as [ls' [S1 [A1 A2]]].
      destruct (IH ls' (d ++ [f]) (c + b2n (okf f))) as [s [S2 [Ep [Er [El [Eo [Ed Ec]]]]]]].
      exists s. split; [|repeat split; auto].
      + eapply steps_cons.
        { exact (st_start H cont okf 1 f fs [] ls d c (Nat.lt_0_succ 0)). }
        simpl. eapply steps_trans; [exact S1|].
        eapply steps_cons; [|exact S2].
        exact (st_finish H cont okf 1 fs [] f [] ls' d c).
      + intros h Hh. rewrite El by auto. rewrite A1 by lia. unfold M_C42.serial_list. simpl.
        rewrite <- app_assoc. reflexivity.
      + intros h Hh. rewrite Eo by auto. apply A2. lia.
      + rewrite Ed, <- app_assoc. reflexivity.
      + rewrite Ec. unfold M_C42.count_ok. simpl. destruct (okf f); simpl; lia.
  Qed.

  Theorem serial_is_execution : forall fs,
    exists s, reachable 1 fs s /\ final s /\
              (forall h, h < H -> lists s h = serial_list h fs) /\ done s = fs /\ count s = count_ok fs.
  Proof.
    intros fs. destruct (serial_from fs (fun _ => []) [] 0) as [s [S [Ep [Er [El [_ [Ed Ec]]]]]]].
    exists s. split; [exact S|]. split; [split; auto|]. split; [|split]; auto.
  Qed.

  (** with one worker every execution is the serial one: the order is fixed *)
  Record inv1 (fs : list file) (s : state) : Prop := {
    inv1_bound : length (running s) <= 1;
    inv1_files : done s ++ map t_file (running s) ++ pending s = fs;
    inv1_lists : forall h, h < H -> lists s h = map (rep h) (appended s h)
  }.

  Lemma inv1_step : forall fs s s', step 1 s s' -> inv1 fs s -> inv1 fs s'.
  Proof.
    intros fs s s' St [Ib If Il]. inversion St; subst; clear St; simpl in *.
    - destruct r; [|simpl in *; lia]. constructor; simpl; auto.
    - destruct r1; [|simpl in Ib; rewrite app_length in Ib; simpl in Ib; lia].
      destruct r2; [|simpl in Ib; lia]. simpl in *. constructor; simpl; auto.
      intros h Hh. specialize (Il h Hh). unfold appended, upd in *; simpl in *.
      destruct (Nat.eqb h k) eqn:Ehk.
      + apply Nat.eqb_eq in Ehk; subst h.
        replace (k <? S k) with true by (symmetry; apply Nat.ltb_lt; lia).
        replace (k <? k) with false in Il by (symmetry; apply Nat.ltb_ge; lia).
        simpl in *. rewrite Il, app_nil_r, map_app. reflexivity.
      + apply Nat.eqb_neq in Ehk.
        destruct (Nat.ltb_spec h (S k)); destruct (Nat.ltb_spec h k); auto; exfalso; lia.
    - destruct r1; [|simpl in Ib; rewrite app_length in Ib; simpl in Ib; lia].
      destruct r2; [|simpl in Ib; lia]. simpl in *. constructor; simpl; auto.
      + rewrite <- app_assoc. reflexivity.
      + intros h Hh. specialize (Il h Hh). unfold appended in *; simpl in *.
        replace (h <? H) with true in Il by (symmetry; apply Nat.ltb_lt; lia). simpl in Il.
        rewrite app_nil_r. exact Il.
  Qed.

  Theorem one_worker_is_serial : forall fs s h,
    reachable 1 fs s -> final s -> h < H -> lists s h = serial_list h fs /\ done s = fs.
  Proof.
    intros fs s h R [Fp Fr] Hh.
    assert (I : inv1 fs s).
    { unfold M_C42.reachable in R. remember (init fs) as s0.
      assert (I0 : inv1 fs s0) by (subst; constructor; simpl; auto).
      clear Heqs0. induction R; auto. apply IHR; auto. eapply inv1_step; eauto. }
    destruct I as [_ If Il]. specialize (Il h Hh). unfold appended in Il.
    rewrite Fp, Fr in *. simpl in *. rewrite app_nil_r in *. subst. auto.
  Qed.

  (** * executable semantics is sound for the step relation *)

  Lemma pick_spec : forall f r a t b, pick f r = Some (a, t, b) -> r = a ++ t :: b.
  Proof.
    induction r as [|x r IH]; simpl; intros a t b E; [discriminate|].
    destruct (t_file x =? f)%Z.
    - inversion E; subst. reflexivity.
    - destruct (pick f r) as [[[a' t'] b']|]; [|discriminate]. inversion E; subst.
      simpl. f_equal. apply IH. reflexivity.
  Qed.

  Lemma do_ev_sound : forall N s e s', do_ev H cont okf N s e = Some s' -> step N s s'.
  Proof.
    intros N [p r ls d c] e s' E. destruct e; simpl in E.
    - destruct p as [|f p]; [discriminate|]. destruct (length r <? N) eqn:L; [|discriminate].
      inversion E; subst. apply st_start. apply Nat.ltb_lt; auto.
    - destruct (pick f r) as [[[a t] b]|] eqn:Pk; [|discriminate].
      destruct (t_prog t <? H) eqn:L; [|discriminate]. inversion E; subst.
      apply pick_spec in Pk; subst. destruct t as [tf tk]; simpl in *.
      apply st_append. apply Nat.ltb_lt; auto.
    - destruct (pick f r) as [[[a t] b]|] eqn:Pk; [|discriminate].
      destruct (t_prog t =? H) eqn:L; [|discriminate]. inversion E; subst.
      apply pick_spec in Pk; subst. destruct t as [tf tk]; simpl in *.
      apply Nat.eqb_eq in L; subst. apply st_finish.
  Qed.

  Lemma run_sound : forall N evs s s', run H cont okf N s evs = Some s' -> steps N s s'.
  Proof.
    induction evs as [|e evs IH]; simpl; intros s s' E.
    - inversion E; subst. constructor.
    - destruct (do_ev H cont okf N s e) as [s1|] eqn:D; [|discriminate].
      econstructor; [eapply do_ev_sound; eauto|apply IH; auto].
  Qed.

  Lemma finalb_final : forall s, finalb s = true -> final s.
  Proof. intros [p r ls d c]. unfold finalb, final; simpl. destruct p, r; try discriminate. auto. Qed.

  Theorem chk_trace_sound : forall N fs sched obs cnt,
    chk_trace H cont okf N fs sched obs cnt = true ->
    exists s, reachable N fs s /\ final s /\ (forall h l, In (h, l) obs -> lists s h = l) /\ count s = cnt.
  Proof.
    intros N fs sched obs cnt E. unfold chk_trace in E.
    destruct (run H cont okf N (init fs) sched) as [s|] eqn:R; [|discriminate].
    apply andb_true_iff in E as [E Ec]. apply andb_true_iff in E as [Ef Eo].
    exists s. split; [apply run_sound in R; exact R|]. split; [apply finalb_final; auto|]. split.
    - intros h l Hin. unfold obs_ok in Eo. rewrite forallb_forall in Eo. specialize (Eo _ Hin). simpl in Eo.
      apply items_eqb_eq; auto.
    - apply Nat.eqb_eq; auto.
  Qed.

  (** an accepted observation is, by the main theorem, a permutation of the serial lists with the serial count *)
  Corollary chk_trace_observation_is_perm : forall N fs sched obs cnt,
    chk_trace H cont okf N fs sched obs cnt = true ->
    (forall h l, In (h, l) obs -> h < H -> Permutation l (serial_list h fs)) /\ cnt = count_ok fs.
  Proof.
    intros N fs sched obs cnt E. destruct (chk_trace_sound _ _ _ _ _ E) as [s [R [F [Eo Ec]]]]. split.
    - intros h l Hin Hh. rewrite <- (Eo _ _ Hin). eapply reachable_final_is_perm; eauto.
    - rewrite <- Ec. apply (count_eq_files _ _ _ R F).
  Qed.

  (** * the sink: what reaches the output file (after 89a45c7: everything, in every path) *)
  Theorem sink_complete : forall N fs s h par g,
    reachable N fs s -> final s -> h < H ->
    view fs (sink par g (lists s h)) = view fs (serial_list h fs).
  Proof.
    intros N fs s h par g R F Hh. unfold sink.
    destruct (serial_is_execution fs) as [s0 [R0 [F0 [E0 _]]]].
    destruct (per_file_view_schedule_independent _ _ _ _ _ h R F R0 F0 Hh) as [_ [_ V]]. exact V.
  Qed.
End Proofs.

(** * witnesses: order IS schedule dependent; handlers may disagree on the order; the two findings *)

Definition ex_cont (h : nat) (f : file) : Z := (10 * Z.of_nat h + f + 1)%Z.
Definition ex_ok (f : file) : bool := negb (f =? 2)%Z.

(* two workers, two handlers, files 0 1 2: task 1 overtakes task 0 on handler 0 but not on handler 1 *)
Definition ex_sched : list (ev) :=
  [EStart; EStart; EApp 1; EApp 0; EApp 0; EApp 1; EFin 0; EStart; EFin 1; EApp 2; EApp 2; EFin 2]%Z.

Lemma ex_run : exists s, run 2 ex_cont ex_ok 2 (init [0; 1; 2]%Z) ex_sched = Some s /\ finalb s = true /\
  lists s 0 = [(1, 2); (0, 1); (2, 3)]%Z /\ lists s 1 = [(0, 11); (1, 12); (2, 13)]%Z /\ count s = 2 /\ done s = [0; 1; 2]%Z.
Proof. eexists. split; [vm_compute; reflexivity|]. vm_compute. repeat split; reflexivity. Qed.

Theorem order_is_schedule_dependent :
  exists fs s1 s2, reachable 2 ex_cont ex_ok 2 fs s1 /\ final s1 /\ reachable 2 ex_cont ex_ok 1 fs s2 /\ final s2 /\
                   lists s1 0 <> lists s2 0 /\ view fs (lists s1 0) = view fs (lists s2 0).
Proof.
  destruct ex_run as [s1 [R1 [F1 [L0 _]]]].
  destruct (serial_is_execution 2 ex_cont ex_ok [0; 1; 2]%Z) as [s2 [R2 [F2 [L2 _]]]].
  exists [0; 1; 2]%Z, s1, s2.
  assert (R1' : reachable 2 ex_cont ex_ok 2 [0; 1; 2]%Z s1) by (apply run_sound in R1; exact R1).
  assert (F1' : final s1) by (apply finalb_final; auto).
  repeat split; auto; try apply F1'; try apply F2.
  - rewrite L0, (L2 0) by lia. vm_compute. discriminate.
  - apply (per_file_view_schedule_independent 2 ex_cont ex_ok 2 1 _ s1 s2 0 R1' F1' R2 F2). lia.
Qed.

Theorem handlers_may_disagree_on_order :
  exists fs s, reachable 2 ex_cont ex_ok 2 fs s /\ final s /\ map fst (lists s 0) <> map fst (lists s 1).
Proof.
  destruct ex_run as [s [R [F [L0 [L1 _]]]]]. exists [0; 1; 2]%Z, s.
  split; [apply run_sound in R; exact R|]. split; [apply finalb_final; auto|].
  rewrite L0, L1. vm_compute. discriminate.
Qed.

(** F-C42-1 (fixed by 89a45c7), OLD behaviour: in the parallel path the text of a handler could never reach its file *)
Theorem file_output_old_refuted :
  exists fs s h, reachable 2 ex_cont ex_ok 2 fs s /\ final s /\ h < 2 /\
    view fs (sink_old true false (lists s h)) <> view fs (sink_old false false (serial_list ex_cont h fs)).
Proof.
  destruct ex_run as [s [R [F [L0 _]]]]. exists [0; 1; 2]%Z, s, 0.
  split; [apply run_sound in R; exact R|]. split; [apply finalb_final; auto|]. split; [lia|].
  unfold sink_old. simpl. vm_compute. discriminate.
Qed.

(** F-C42-2 (fixed by 230fb41), OLD behaviour: logger handlers at odd positions survived in the worker and saw every message twice *)
Lemma survives_old_odd : forall j, survives_old j = Nat.odd j.
Proof.
  fix IH 1. intros [|[|j]]; try reflexivity. simpl survives_old. rewrite IH. reflexivity.
Qed.

Theorem log_copies_old_refuted : log_copies_old true 1 = 2 /\ log_copies_old false 1 = 1.
Proof. split; reflexivity. Qed.

Theorem survivors_old_none_iff : forall (A : Type) (l : list A), survivors_old l = [] <-> length l <= 1.
Proof.
  intros A [|x [|y l]]; simpl; split; intros; auto; try lia; try discriminate.
Qed.

(** now: every logger handler of the parent sees each message once, whatever the number of handlers and workers *)
Theorem log_copies_independent : forall j, log_copies true j = log_copies false j /\ log_copies true j = 1.
Proof. intros j. split; reflexivity. Qed.
