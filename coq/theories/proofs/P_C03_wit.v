(** C03 — concrete witnesses (defects of the unchanged code as reproduced by the model) and non-vacuity examples. *)
From Coq Require Import ZArith List Bool String Ascii.
From LV Require Import Base.Strings models.M_C03.
Import ListNotations.
Open Scope list_scope.
Open Scope string_scope.
Open Scope Z_scope.

Definition lfv (u l0 l1 : Z) (txt : text) : tree := T KLeaf u None (Some (mkSrc l0 l1 txt VALID)) TN 0 [[]] [] [].
Definition sec (u l0 l1 : Z) (txt : text) (kids : list tree) : tree :=
  T KSection u None (Some (mkSrc l0 l1 txt VALID)) TN 0 [[]; []] [] [kids].
Definition nomap : mapper := fun _ => None.

(** ** two statements on one line: both statements own the whole line *)
Definition w_multi : tree :=
  sec 1 1 2 ["  a = 1 ; b = a"; "  c = 3"]
      [lfv 2 1 1 ["  a = 1 ; b = a"]; lfv 3 1 1 ["  a = 1 ; b = a"]; lfv 4 2 2 ["  c = 3"]].

Lemma identity_pass_refuted :
  exists t, all_valid t = true /\ cp false t = text_of t /\
            cp false (trn nomap t) = Some ["  a = 1 ; b = a"; "  a = 1 ; b = a"; "  c = 3"].
Proof. exists w_multi. repeat split; vm_compute; reflexivity. Qed.

(** ** a labelled statement that is still VALID gets its label twice *)
Definition w_label : tree :=
  sec 1 1 2 ["20 a = 1"; "   b = 2"]
      [T KLeaf 2 (Some "20") (Some (mkSrc 1 1 ["20 a = 1"] VALID)) TN 0 [[]] [] []; lfv 3 2 2 ["   b = 2"]].

Lemma label_duplicated :
  all_valid w_label = true /\ cp false (trn nomap w_label) = Some ["20 20 a = 1"; "   b = 2"].
Proof. split; vm_compute; reflexivity. Qed.

(** ** a VALID statement of a class without conservative handler is regenerated *)
Definition w_other : tree :=
  sec 1 1 2 ["  implicit none"; "  integer :: i"]
      [T KOther 2 None (Some (mkSrc 1 1 ["  implicit none"] VALID)) TN 0 [["  IMPLICIT NONE"]] [] [];
       lfv 3 2 2 ["  integer :: i"]].

Lemma valid_other_regenerated :
  all_valid w_other = true /\ cp false (trn nomap w_other) = Some ["  IMPLICIT NONE"; "  integer :: i"].
Proof. split; vm_compute; reflexivity. Qed.

(** ** IF / ELSE IF / ELSE IF: the is_elseif keyword is passed twice (TypeError) after ANY Transformer pass *)
Definition cnd (k : kind) (u l0 l1 : Z) (txt : text) (lits alt : list text) (a b : list tree) : tree :=
  T k u None (Some (mkSrc l0 l1 txt VALID)) TN 0 lits alt [a; b].
Definition w_chain : tree :=
  sec 1 1 7 ["if (a) then"; "  x = 1"; "else if (b) then"; "  x = 2"; "else if (c) then"; "  x = 3"; "end if"]
    [cnd KCondEI 2 1 7 ["if (a) then"; "  x = 1"; "else if (b) then"; "  x = 2"; "else if (c) then"; "  x = 3"; "end if"]
         [["IF (a) THEN"]; []; []] [["ELSE IF (a) THEN"]; []; []]
         [lfv 3 2 2 ["  x = 1"]]
         [cnd KCondEI 4 3 7 ["else if (b) then"; "  x = 2"; "else if (c) then"; "  x = 3"; "end if"]
              [["IF (b) THEN"]; []; []] [["ELSE IF (b) THEN"]; []; []]
              [lfv 5 4 4 ["  x = 2"]]
              [cnd KCond 6 5 7 ["else if (c) then"; "  x = 3"; "end if"]
                   [["IF (c) THEN"]; []; ["END IF"]] [["ELSE IF (c) THEN"]; []; ["END IF"]]
                   [lfv 7 6 6 ["  x = 3"]] []]]].

Lemma elseif_chain_crash :
  all_valid w_chain = true /\ cp false w_chain = text_of w_chain /\ cp false (trn nomap w_chain) = None.
Proof. repeat split; vm_compute; reflexivity. Qed.

(** ** a regenerated IF inside an ELSE IF branch is printed with an ELSE IF header *)
Definition w_leak_inner : tree :=
  T KCond 8 None None TN 0 [["    IF (d) THEN"]; []; ["    END IF"]] [["    ELSE IF (d) THEN"]; []; ["    END IF"]]
    [[lfv 7 4 4 ["      x = 3"]]; []].
Definition w_leak : tree :=
  sec 1 1 7 ["if (a) then"; "  x = 1"; "else if (b) then"; "    if (d) then"; "      x = 3"; "    end if"; "end if"]
    [cnd KCondEI 2 1 7 ["if (a) then"; "  x = 1"; "else if (b) then"; "    if (d) then"; "      x = 3"; "    end if"; "end if"]
         [["IF (a) THEN"]; []; []] [["ELSE IF (a) THEN"]; []; []]
         [lfv 3 2 2 ["  x = 1"]]
         [cnd KCond 4 3 7 ["else if (b) then"; "    if (d) then"; "      x = 3"; "    end if"; "end if"]
              [["IF (b) THEN"]; []; ["END IF"]] [["ELSE IF (b) THEN"]; []; ["END IF"]]
              [cnd KCond 6 4 6 ["    if (d) then"; "      x = 3"; "    end if"]
                   [["    IF (d) THEN"]; []; ["    END IF"]] [["    ELSE IF (d) THEN"]; []; ["    END IF"]]
                   [lfv 7 5 5 ["      x = 3"]] []] []]].
Definition m_leak : mapper := lookup [(6, AOne w_leak_inner)].

Lemma elseif_kwarg_leak :
  cp false (trn m_leak w_leak) =
  Some ["if (a) then"; "  x = 1"; "else if (b) then"; "    ELSE IF (d) THEN"; "      x = 3"; "    END IF"; "end if"].
Proof. vm_compute. reflexivity. Qed.

(** ** deleting the only statement of a block leaves the block VALID: the deleted statement is still printed *)
Definition w_loop : tree :=
  T KLoop 2 None (Some (mkSrc 1 3 ["do i = 1, n"; "  a(i) = 0"; "end do"] VALID)) TN 0 [["DO i=1,n"]; ["END DO"]] []
    [[lfv 3 2 2 ["  a(i) = 0"]]].
Definition m_del : mapper := lookup [(3, ADrop)].

Lemma invalidation_refuted :
  touched m_del w_loop = true /\
  option_map s_st (src_of (trn m_del w_loop)) = Some VALID /\
  slots_of (trn m_del w_loop) = [[]] /\
  cp false (trn m_del w_loop) = Some ["do i = 1, n"; "  a(i) = 0"; "end do"].
Proof. repeat split; vm_compute; reflexivity. Qed.

(** ** a module without specification part: o.spec is None (AttributeError) once the module is INVALID_CHILDREN *)
Definition w_mod : tree :=
  T KMod 1 None (Some (mkSrc 1 5 ["module m"; "contains"; "subroutine s"; "end subroutine s"; "end module m"] INVALID_CHILDREN))
    TP 0 [["MODULE m"]; []; []; ["END MODULE m"]] []
    [[]; [];
     [T KSection 2 None (Some (mkSrc 2 4 ["contains"; "subroutine s"; "end subroutine s"] VALID)) TP 0 [[]; []] [] [[]]]].

Lemma module_without_spec_crash : cp false w_mod = None.
Proof. vm_compute. reflexivity. Qed.

(** ** non-vacuity: an in-class tree, an edit, and what is printed *)
Definition w_ok : tree :=
  sec 1 1 6 ["  x = 1"; "  do i = 1, n"; "    a(i) = x   ! set"; "    b(i) = 2"; "  end do"; "  y = 2"]
    [lfv 2 1 1 ["  x = 1"];
     T KLoop 3 None (Some (mkSrc 2 5 ["  do i = 1, n"; "    a(i) = x   ! set"; "    b(i) = 2"; "  end do"] VALID)) TN 0
       [["  DO i=1,n"]; ["  END DO"]] []
       [[lfv 4 3 3 ["    a(i) = x   ! set"]; lfv 5 4 4 ["    b(i) = 2"]]];
     lfv 6 6 6 ["  y = 2"]].
Definition w_new : tree := T KLeaf 10 None None TN 0 [["    b(i) = 2 + 0"]] [] [].
Definition w_cmt : tree := T KComment 11 None None TN 0 [["  ! inserted"]] [] [].
Definition m_ok : mapper := lookup [(5, AOne w_new); (6, AMany [w_cmt; lfv 6 6 6 ["  y = 2"]])].

Example c03_nonvacuous :
  tiled w_ok = true /\ all_valid w_ok = true /\ nt true m_ok false w_ok = true /\ touched m_ok w_ok = true /\
  cp false (trn m_ok w_ok) =
    Some ["  x = 1"; "  do i = 1, n"; "    a(i) = x   ! set"; "    b(i) = 2 + 0"; "  end do"; "  ! inserted"; "  y = 2"] /\
  spl true m_ok false w_ok = cp false (trn m_ok w_ok).
Proof. repeat split; vm_compute; reflexivity. Qed.
