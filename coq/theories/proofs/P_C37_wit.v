(** C37 — proofs, part 6: concrete witnesses (by [vm_compute]): a non-trivial instance the validator accepts, and two
    pairs with identical column programs whose results differ — the class conditions of [V] cannot be dropped. *)
From Coq Require Import ZArith List Bool String Lia.
From LV Require Import Base.Expr Base.MiniF Base.MiniFFacts models.M_C37
     proofs.P_C37_base proofs.P_C37_in proofs.P_C37_out proofs.P_C37_dem proofs.P_C37.
Import ListNotations.
Open Scope Z_scope.
Open Scope string_scope.

Definition run (p : list stmt) (s : store) : store := match exec [] 60 p s with Some t => t | None => s end.

Lemma exec_run p s : is_some (exec [] 60 p s) = true -> runs [] p s (run p s).
Proof. unfold run. intros H. exists 60%nat. destruct (exec [] 60 p s); [reflexivity|discriminate]. Qed.

Definition jl := EVar "jl".
Definition plus (a b : expr) := ESum false [a; b].
Definition hloop (b : list stmt) := SDo "jl" (EVar "start") (EVar "end") None b.

(** * an accepted, non-trivial pair: two horizontal loops and a vertical loop around one of them become one horizontal
    loop with the vertical loop inside; the temporary t(nlon) becomes a scalar *)
Definition ex_p : list stmt :=
  [ hloop [ SStore "t" [jl] (plus (ECall "c" [jl]) (EInt 1));
            SAssign "s" (EProd false [ECall "t" [jl]; EInt 2]);
            SStore "c" [jl] (plus (EVar "s") (ECall "a" [jl; EInt 1])) ];
    SDo "jk" (EInt 2) (EVar "nz") None
      [ hloop [ SStore "a" [jl; EVar "jk"] (plus (ECall "a" [jl; plus (EVar "jk") (EInt (-1))]) (ECall "c" [jl])) ] ] ].

Definition ex_p' : list stmt :=
  [ hloop [ SAssign "t" (plus (ECall "c" [jl]) (EInt 1));
            SAssign "s" (EProd false [EVar "t"; EInt 2]);
            SStore "c" [jl] (plus (EVar "s") (ECall "a" [jl; EInt 1]));
            SDo "jk" (EInt 2) (EVar "nz") None
              [ SStore "a" [jl; EVar "jk"] (plus (ECall "a" [jl; plus (EVar "jk") (EInt (-1))]) (ECall "c" [jl])) ] ] ].

Definition ex_s : store :=
  init_store [("start", 1); ("end", 3); ("nz", 3)]
             [("a", [1; 1], 1); ("a", [2; 1], 2); ("a", [3; 1], 3); ("c", [1], 4); ("c", [2], 5); ("c", [3], 6)].

Lemma ex_V : V false false [] "jl" "start" "end" ["a"; "c"; "t"] ["t"] ex_p ex_p' = true.
Proof. vm_compute. reflexivity. Qed.

Lemma ex_runs : runs [] ex_p ex_s (run ex_p ex_s) /\ runs [] ex_p' ex_s (run ex_p' ex_s) /\
                av (run ex_p ex_s) "a" [2; 3] = 30 /\ av (run ex_p' ex_s) "a" [2; 3] = 30.
Proof. repeat split; try (apply exec_run; vm_compute; reflexivity); vm_compute; reflexivity. Qed.

(** * a counter that is initialised outside the re-created horizontal loop (what trim_vector_sections=True, or a CALL
    between initialisation and use, produce): identical column programs, different results; [V] rejects *)
Definition w1_p : list stmt :=
  [ SAssign "zk" (EInt 0);
    SDo "jk" (EInt 1) (EVar "nz") None
      [ SAssign "zk" (plus (EVar "zk") (EInt 1)); hloop [ SStore "a" [jl; EVar "jk"] (EVar "zk") ] ] ].

Definition w1_p' : list stmt :=
  [ SAssign "zk" (EInt 0);
    hloop [ SDo "jk" (EInt 1) (EVar "nz") None
              [ SAssign "zk" (plus (EVar "zk") (EInt 1)); SStore "a" [jl; EVar "jk"] (EVar "zk") ] ] ].

Definition w1_s : store := init_store [("start", 1); ("end", 2); ("nz", 2)] [].

Lemma w1_facts :
  project "jl" w1_p = project "jl" w1_p' /\
  in_class (mk_ctx "jl" "start" "end" ["a"] (locals "jl" w1_p)) false w1_p = true /\
  V false false [] "jl" "start" "end" ["a"] [] w1_p w1_p' = false /\
  runs [] w1_p w1_s (run w1_p w1_s) /\ runs [] w1_p' w1_s (run w1_p' w1_s) /\
  av (run w1_p w1_s) "a" [2; 1] = 1 /\ av (run w1_p' w1_s) "a" [2; 1] = 3.
Proof. repeat split; try (apply exec_run; vm_compute; reflexivity); vm_compute; reflexivity. Qed.

(** * demotion of a temporary that carries a value between iterations of a vertical loop that stays outside the
    horizontal loop (in the code: because the vertical loop contains a CALL): the demoted program is exactly
    [demote] of the original column program, the results differ; [V] rejects (the scalar is read before it is written) *)
Definition w2_body (rd : expr) (wr : expr -> stmt) : list stmt :=
  [ SDo "jk" (EInt 1) (EVar "nz") None
      [ hloop [ SIf (ECmp Cgt (EVar "jk") (EInt 1)) [ SStore "a" [jl; EVar "jk"] rd ] [];
                wr (plus (ECall "a" [jl; EVar "jk"]) (ECall "c" [jl])) ] ] ].

Definition w2_p : list stmt := w2_body (ECall "t" [jl]) (SStore "t" [jl]).
Definition w2_p' : list stmt := w2_body (EVar "t") (SAssign "t").

Definition w2_s : store := init_store [("start", 1); ("end", 2); ("nz", 2)] [("c", [1], 10); ("c", [2], 20)].

Lemma w2_facts :
  demote "jl" ["t"] (project "jl" w2_p) = project "jl" w2_p' /\
  in_class (mk_ctx "jl" "start" "end" ["a"; "c"; "t"] (locals "jl" w2_p)) false w2_p = true /\
  V false false [] "jl" "start" "end" ["a"; "c"; "t"] ["t"] w2_p w2_p' = false /\
  runs [] w2_p w2_s (run w2_p w2_s) /\ runs [] w2_p' w2_s (run w2_p' w2_s) /\
  av (run w2_p w2_s) "a" [1; 2] = 10 /\ av (run w2_p' w2_s) "a" [1; 2] = 20.
Proof. repeat split; try (apply exec_run; vm_compute; reflexivity); vm_compute; reflexivity. Qed.
