(** C31 — fusion / fission / interchange under commutation hypotheses, and the soundness of the
    name-level independence check. *)
From Coq Require Import ZArith List Bool String Lia Permutation.
From LV Require Import Base.Expr Base.MiniF Base.MiniFFacts models.M_C31 proofs.P_C31_base proofs.P_C31_unroll.
From LV Require models.M_C10 proofs.P_C10.
Import ListNotations.
Open Scope Z_scope.

(** * sequences of iterations: (values of the DO variables to set, body) *)
Definition iter : Type := (list (string * Z) * list stmt)%type.

(** [sets [(j,y);(i,x)] s]: i := x first, then j := y *)
Fixpoint sets (l : list (string * Z)) (s : store) : store :=
  match l with
  | [] => s
  | (x, v) :: r => set_sv x v (sets r s)
  end.

Inductive seq_runs (ps : procs) : list iter -> store -> store -> Prop :=
| SR0 s : seq_runs ps [] s s
| SRS l B r s s1 s' : runs ps B (sets l s) s1 -> seq_runs ps r s1 s' -> seq_runs ps ((l, B) :: r) s s'.

Definition seq_sim (ps : procs) (D : string -> bool) (L L' : list iter) : Prop :=
  forall s t s1, sim D dnone s t -> seq_runs ps L s s1 -> exists t1, seq_runs ps L' t t1 /\ sim D dnone s1 t1.

Lemma seq_runs_app ps L1 L2 s s1 s2 : seq_runs ps L1 s s1 -> seq_runs ps L2 s1 s2 -> seq_runs ps (L1 ++ L2) s s2.
Proof. induction 1; cbn; [auto|]. intros HH. econstructor; eauto. Qed.

Lemma seq_runs_app_inv ps L1 L2 : forall s s2, seq_runs ps (L1 ++ L2) s s2 ->
  exists s1, seq_runs ps L1 s s1 /\ seq_runs ps L2 s1 s2.
Proof.
  induction L1 as [|x L1 IH]; intros s s2 H; cbn in H.
  - exists s. split; [constructor|exact H].
  - inversion H as [|l B r s0 s3 s4 Hb Hr]; subst. destruct (IH _ _ Hr) as [s5 [H1 H2]].
    exists s5. split; [econstructor; eauto|exact H2].
Qed.

Lemma seq_sim_app ps D L1 L1' L2 L2' :
  seq_sim ps D L1 L1' -> seq_sim ps D L2 L2' -> seq_sim ps D (L1 ++ L2) (L1' ++ L2').
Proof.
  intros H1 H2 s t s2 Hs R. apply seq_runs_app_inv in R. destruct R as [s1 [R1 R2]].
  destruct (H1 _ _ _ Hs R1) as [t1 [T1 S1]]. destruct (H2 _ _ _ S1 R2) as [t2 [T2 S2]].
  exists t2. split; [eapply seq_runs_app; eauto|exact S2].
Qed.

Lemma seq_sim_trans ps D L1 L2 L3 : seq_sim ps D L1 L2 -> seq_sim ps D L2 L3 -> seq_sim ps D L1 L3.
Proof.
  intros H1 H2 s t s1 Hs R. destruct (H1 _ _ _ Hs R) as [t1 [T1 S1]].
  destruct (H2 t t t1 (sim_refl _ _ _) T1) as [t2 [T2 S2]]. exists t2. split; [exact T2|eapply sim_trans; eauto].
Qed.

(** the DO variables set by every iteration of [L] are in [D] *)
Definition sets_in (D : string -> bool) (l : list (string * Z)) : Prop := forall x v, In (x, v) l -> D x = true.

(** setting all variables of [D]... we only need: related stores stay related after the same sets *)
Lemma sim_sets_both D l s t : sim D dnone s t -> sim D dnone (sets l s) (sets l t).
Proof.
  intros H. induction l as [|[x v] r IH]; cbn; [exact H|].
  destruct IH as [H1 H2]. split; [|exact H2]. intros y Hy. cbn. destruct (String.eqb y x); [reflexivity|auto].
Qed.

Lemma av_sets l u : av (sets l u) = av u.
Proof. induction l as [|[x w] r IH]; [reflexivity|]. cbn [sets]. unfold set_sv. cbn [av]. exact IH. Qed.

Lemma no_call_nreads s : forall D A, no_call s = true -> (forall x, In x (sreads s) -> D x = false /\ A x = false) ->
  nreads D A s = true.
Proof.
  assert (E : forall e D A, (forall x, In x (ereads e) -> D x = false /\ A x = false) -> efree D A e = true).
  { induction e using expr_ind'; intros D A Hx; cbn in *; try reflexivity.
    - destruct (Hx x (or_introl eq_refl)) as [H1 _]. now rewrite H1.
    - apply forallb_Forall. rewrite Forall_forall in *. intros q Hq. apply H; [exact Hq|].
      intros y Hy. apply Hx. apply in_flat_map. eauto.
    - apply forallb_Forall. rewrite Forall_forall in *. intros q Hq. apply H; [exact Hq|].
      intros y Hy. apply Hx. apply in_flat_map. eauto.
    - rewrite IHe1, IHe2; [reflexivity| |]; intros y Hy; apply Hx; apply in_or_app; auto.
    - rewrite IHe1, IHe2; [reflexivity| |]; intros y Hy; apply Hx; apply in_or_app; auto.
    - rewrite IHe1, IHe2; [reflexivity| |]; intros y Hy; apply Hx; apply in_or_app; auto.
    - apply forallb_Forall. rewrite Forall_forall in *. intros q Hq. apply H; [exact Hq|].
      intros y Hy. apply Hx. apply in_flat_map. eauto.
    - apply forallb_Forall. rewrite Forall_forall in *. intros q Hq. apply H; [exact Hq|].
      intros y Hy. apply Hx. apply in_flat_map. eauto.
    - now apply IHe.
    - destruct (Hx f (or_introl eq_refl)) as [_ H2]. rewrite H2. cbn.
      apply forallb_Forall. rewrite Forall_forall in *. intros q Hq. apply H; [exact Hq|].
      intros y Hy. apply Hx. right. apply in_flat_map. eauto. }
  assert (EL : forall l D A, (forall x, In x (flat_map ereads l) -> D x = false /\ A x = false) -> forallb (efree D A) l = true).
  { intros l D A Hx. apply forallb_forall. intros q Hq. apply E. intros y Hy. apply Hx. apply in_flat_map. eauto. }
  induction s using stmt_ind'; intros D A Hnc Hx; cbn in *; try reflexivity; try discriminate.
  - now apply E.
  - rewrite EL, E; [reflexivity| |]; intros y Hy; apply Hx; apply in_or_app; auto.
  - assert (Elo : efree D A lo = true) by (apply E; intros y Hy; apply Hx; apply in_or_app; left; exact Hy).
    assert (Ehi : efree D A hi = true)
      by (apply E; intros y Hy; apply Hx; apply in_or_app; right; apply in_or_app; left; exact Hy).
    assert (Eo : oefree D A st = true).
    { destruct st as [e|]; cbn; [|reflexivity]. apply E. intros y Hy. apply Hx.
      apply in_or_app; right. apply in_or_app; right. apply in_or_app; left. exact Hy. }
    rewrite Elo, Ehi, Eo. cbn. apply forallb_Forall. apply forallb_Forall in Hnc. rewrite Forall_forall in *. intros q Hq.
    apply H; [exact Hq|now apply Hnc|]. intros y Hy.
    assert (Hy' : D y = false /\ A y = false).
    { apply Hx. apply in_or_app; right. apply in_or_app; right. apply in_or_app; right. apply in_flat_map. eauto. }
    unfold dminus. destruct Hy' as [-> ->]. auto.
  - rewrite E by (intros y Hy; apply Hx; apply in_or_app; auto). cbn.
    apply forallb_Forall. apply forallb_Forall in Hnc. rewrite Forall_forall in *. intros q Hq.
    apply H; [exact Hq|now apply Hnc|]. intros y Hy. apply Hx. apply in_or_app; right. apply in_flat_map. eauto.
  - apply andb_true_iff in Hnc. destruct Hnc as [N1 N2].
    rewrite E by (intros y Hy; apply Hx; apply in_or_app; auto). cbn. apply andb_true_iff. split.
    + apply forallb_Forall. apply forallb_Forall in N1. rewrite Forall_forall in *. intros q Hq.
      apply H; [exact Hq|now apply N1|]. intros y Hy. apply Hx. apply in_or_app; right. apply in_or_app; left. apply in_flat_map. eauto.
    + apply forallb_Forall. apply forallb_Forall in N2. rewrite Forall_forall in *. intros q Hq.
      apply H0; [exact Hq|now apply N2|]. intros y Hy. apply Hx. apply in_or_app; right. apply in_or_app; right. apply in_flat_map. eauto.
Qed.

Lemma no_call_nreads_none l : forallb no_call l = true -> forallb (nreads dnone dnone) l = true.
Proof.
  intros H. apply forallb_Forall. apply forallb_Forall in H. eapply Forall_impl; [|exact H].
  intros s Hs. apply no_call_nreads; [exact Hs|]. intros; split; reflexivity.
Qed.

(** a call-free body maps extensionally equal stores to extensionally equal stores *)
Lemma runs_ext ps B s t s1 :
  forallb no_call B = true -> sim dnone dnone s t -> runs ps B s s1 -> exists t1, runs ps B t t1 /\ sim dnone dnone s1 t1.
Proof. intros Hn Hs R. eapply runs_sim; eauto. now apply no_call_nreads_none. Qed.

Definition all_vars_in (D : string -> bool) (L : list iter) : Prop :=
  forall l B, In (l, B) L -> forallb no_call B = true /\
     (forall x, D x = true -> exists v, In (x, v) l).

(** when every iteration sets all variables of [D] itself, running from [D]-related stores gives equal results *)
Lemma sets_cover D l s t : (forall x, D x = true -> exists v, In (x, v) l) -> sim D dnone s t -> sim dnone dnone (sets l s) (sets l t).
Proof.
  intros Hc [H1 H2]. split.
  - intros y _. destruct (D y) eqn:Ey; [|].
    + destruct (Hc _ Ey) as [v Hv]. clear Hc Ey. induction l as [|[x w] r IH]; [destruct Hv|].
      cbn. destruct (String.eqb y x) eqn:E; [reflexivity|].
      destruct Hv as [Hv|Hv]; [inversion Hv; subst; rewrite String.eqb_refl in E; discriminate|now apply IH].
    + clear Hc. induction l as [|[x w] r IH]; cbn; [now apply H1|]. destruct (String.eqb y x); [reflexivity|exact IH].
  - intros a i _. rewrite !av_sets. now apply H2.
Qed.

Lemma seq_sim_refl ps D L : all_vars_in D L -> seq_sim ps D L L.
Proof.
  intros HL s t s1 Hs R. revert t Hs. induction R; intros t Hs.
  - exists t. split; [constructor|exact Hs].
  - destruct (HL l B (or_introl eq_refl)) as [Hn Hc].
    destruct (runs_ext ps B _ (sets l t) _ Hn (sets_cover D l s t Hc Hs) H) as [t1 [T1 S1]].
    destruct (IHR (fun l' B' Hin => HL l' B' (or_intror Hin)) t1) as [t2 [T2 S2]].
    + eapply sim_weaken; [| |exact S1]; intros; discriminate.
    + exists t2. split; [econstructor; eauto|exact S2].
Qed.

Lemma seq_sim_cons ps D x L L' : all_vars_in D [x] -> seq_sim ps D L L' -> seq_sim ps D (x :: L) (x :: L').
Proof.
  intros Hx H. change (x :: L) with ([x] ++ L). change (x :: L') with ([x] ++ L').
  apply seq_sim_app; [now apply seq_sim_refl|exact H].
Qed.

Lemma seq_sim_app_r ps D L L' R : all_vars_in D R -> seq_sim ps D L L' -> seq_sim ps D (L ++ R) (L' ++ R).
Proof. intros HR H. apply seq_sim_app; [exact H|now apply seq_sim_refl]. Qed.

(** * moving one iteration across a block of iterations that commute with it *)
Lemma move_left ps D x L :
  all_vars_in D (x :: L) ->
  (forall y, In y L -> seq_sim ps D [y; x] [x; y]) -> seq_sim ps D (L ++ [x]) (x :: L).
Proof.
  intros Hv. induction L as [|y L IH]; intros Hc; [apply seq_sim_refl; exact Hv|].
  cbn [app].
  assert (Hv' : all_vars_in D (x :: L)).
  { intros l B Hin. apply Hv. destruct Hin as [Hin|Hin]; [now left|right; now right]. }
  eapply seq_sim_trans.
  - change (y :: L ++ [x]) with ([y] ++ (L ++ [x])). apply seq_sim_app.
    + apply seq_sim_refl. intros l B Hin. apply Hv. destruct Hin as [Hin|[]]. right; now left.
    + apply IH; [exact Hv'|]. intros z Hz. apply Hc. now right.
  - change ([y] ++ x :: L) with ([y; x] ++ L). change (x :: y :: L) with ([x; y] ++ L). apply seq_sim_app.
    + apply Hc. now left.
    + apply seq_sim_refl. intros l B Hin. apply Hv. right; now right.
Qed.

Lemma move_right ps D x L :
  all_vars_in D (x :: L) ->
  (forall y, In y L -> seq_sim ps D [x; y] [y; x]) -> seq_sim ps D (x :: L) (L ++ [x]).
Proof.
  intros Hv. induction L as [|y L IH]; intros Hc; [apply seq_sim_refl; exact Hv|].
  cbn [app].
  assert (Hv' : all_vars_in D (x :: L)).
  { intros l B Hin. apply Hv. destruct Hin as [Hin|Hin]; [now left|right; now right]. }
  eapply seq_sim_trans.
  - change (x :: y :: L) with ([x; y] ++ L). change ([x; y] ++ L) with ([x; y] ++ L). apply seq_sim_app.
    + apply Hc. now left.
    + apply seq_sim_refl. intros l B Hin. apply Hv. right; now right.
  - change ([y; x] ++ L) with ([y] ++ (x :: L)). change (y :: L ++ [x]) with ([y] ++ (L ++ [x])). apply seq_sim_app.
    + apply seq_sim_refl. intros l B Hin. apply Hv. destruct Hin as [Hin|[]]. right; now left.
    + apply IH; [exact Hv'|]. intros z Hz. apply Hc. now right.
Qed.

(** * loops over one DO variable as sequences of iterations *)
Definition it1 (v : string) (B : list stmt) (i : Z) : iter := ([(v, i)], B).

Lemma all_vars_it1 v (L : list iter) :
  (forall x, In x L -> exists B i, x = it1 v B i /\ forallb no_call B = true) -> all_vars_in (single v) L.
Proof.
  intros H l B Hin. destruct (H _ Hin) as [B' [i [E Hn]]]. inversion E; subst. split; [exact Hn|].
  intros x Hx. unfold single in Hx. apply String.eqb_eq in Hx. subst. exists i. now left.
Qed.

Lemma loop_to_seq ps B v d : forall n a s s',
  loop_runs ps B v d n a s s' ->
  exists s0, seq_runs ps (map (it1 v B) (M_C10.iota_steps n a d)) s s0 /\ s' = set_sv v (a + Z.of_nat n * d) s0.
Proof.
  induction n as [|n IH]; intros a s s' R; inversion R; subst.
  - exists s. split; [constructor|]. f_equal. lia.
  - match goal with H1 : runs _ _ _ _, H2 : loop_runs _ _ _ _ _ _ _ _ |- _ =>
      destruct (IH _ _ _ H2) as [s0 [Q E]]; exists s0; split;
      [cbn [M_C10.iota_steps map]; econstructor; [exact H1|exact Q]|] end.
    rewrite E. f_equal. lia.
Qed.

Lemma seq_to_loop ps B v d : forall n a s s0,
  seq_runs ps (map (it1 v B) (M_C10.iota_steps n a d)) s s0 ->
  loop_runs ps B v d n a s (set_sv v (a + Z.of_nat n * d) s0).
Proof.
  induction n as [|n IH]; intros a s s0 R; cbn [M_C10.iota_steps map] in R; inversion R; subst.
  - replace (a + Z.of_nat 0 * d) with a by lia. constructor.
  - econstructor; [eassumption|]. replace (a + Z.of_nat (S n) * d) with ((a + d) + Z.of_nat n * d) by lia. now apply IH.
Qed.

Lemma iota_in n d : forall a j, In j (M_C10.iota_steps n a d) -> exists k, 0 <= k /\ j = a + k * d.
Proof.
  induction n as [|n IH]; intros a j H; [destruct H|]. destruct H as [H|H].
  - exists 0. split; lia.
  - destruct (IH _ _ H) as [k [Hk E]]. exists (k + 1). split; lia.
Qed.

Lemma iota_nodup n d : d <> 0 -> forall a, NoDup (M_C10.iota_steps n a d).
Proof.
  intros Hd. induction n as [|n IH]; intros a; cbn; constructor; [|apply IH].
  intros H. destruct (iota_in _ _ _ _ H) as [k [Hk E]]. nia.
Qed.

Definition commute_cross (ps : procs) (v : string) (A B : list stmt) : Prop :=
  forall i j, i <> j ->
    seq_sim ps (single v) [it1 v A j; it1 v B i] [it1 v B i; it1 v A j] /\
    seq_sim ps (single v) [it1 v B i; it1 v A j] [it1 v A j; it1 v B i].

Definition interleaved (v : string) (A B : list stmt) (is : list Z) : list iter :=
  flat_map (fun i => [it1 v A i; it1 v B i]) is.

Section FuseSeq.
  Variables (ps : procs) (v : string) (A B : list stmt).
  Hypothesis HnA : forallb no_call A = true.
  Hypothesis HnB : forallb no_call B = true.
  Hypothesis Hc : commute_cross ps v A B.

  Lemma av_ok (L : list iter) :
    (forall x, In x L -> exists i, x = it1 v A i \/ x = it1 v B i) -> all_vars_in (single v) L.
  Proof.
    intros H. apply all_vars_it1. intros x Hx. destruct (H _ Hx) as [i [E|E]]; eauto.
  Qed.

  Lemma okA i : all_vars_in (single v) [it1 v A i].
  Proof. apply av_ok. intros x [<-|[]]. eauto. Qed.
  Lemma okB i : all_vars_in (single v) [it1 v B i].
  Proof. apply av_ok. intros x [<-|[]]. eauto. Qed.
  Lemma okmapA r : all_vars_in (single v) (map (it1 v A) r).
  Proof. apply av_ok. intros x Hx. apply in_map_iff in Hx. destruct Hx as [j [<- _]]. eauto. Qed.
  Lemma okmapB r : all_vars_in (single v) (map (it1 v B) r).
  Proof. apply av_ok. intros x Hx. apply in_map_iff in Hx. destruct Hx as [j [<- _]]. eauto. Qed.
  Lemma okBA i r : all_vars_in (single v) (it1 v B i :: map (it1 v A) r).
  Proof. apply av_ok. intros x [<-|Hx]; [eauto|]. apply in_map_iff in Hx. destruct Hx as [j [<- _]]. eauto. Qed.

  Lemma separate_to_interleaved : forall is, NoDup is ->
    seq_sim ps (single v) (map (it1 v A) is ++ map (it1 v B) is) (interleaved v A B is).
  Proof.
    induction is as [|i r IH]; intros Hnd.
    - apply seq_sim_refl. intros l X [].
    - inversion Hnd; subst. cbn [map app interleaved flat_map].
      apply seq_sim_cons; [apply okA|].
      apply seq_sim_trans with (L2 := it1 v B i :: (map (it1 v A) r ++ map (it1 v B) r)).
      + replace (map (it1 v A) r ++ it1 v B i :: map (it1 v B) r)
          with ((map (it1 v A) r ++ [it1 v B i]) ++ map (it1 v B) r) by (now rewrite <- app_assoc).
        change (it1 v B i :: map (it1 v A) r ++ map (it1 v B) r) with ((it1 v B i :: map (it1 v A) r) ++ map (it1 v B) r).
        apply seq_sim_app_r; [apply okmapB|].
        apply move_left; [apply okBA|].
        intros y Hy. apply in_map_iff in Hy. destruct Hy as [j [<- Hj]]. apply Hc. intros ->. contradiction.
      + apply seq_sim_cons; [apply okB|]. now apply IH.
  Qed.

  Lemma interleaved_to_separate : forall is, NoDup is ->
    seq_sim ps (single v) (interleaved v A B is) (map (it1 v A) is ++ map (it1 v B) is).
  Proof.
    induction is as [|i r IH]; intros Hnd.
    - apply seq_sim_refl. intros l X [].
    - inversion Hnd; subst. cbn [map app interleaved flat_map].
      apply seq_sim_cons; [apply okA|].
      apply seq_sim_trans with (L2 := it1 v B i :: (map (it1 v A) r ++ map (it1 v B) r)).
      + apply seq_sim_cons; [apply okB|]. now apply IH.
      + replace (map (it1 v A) r ++ it1 v B i :: map (it1 v B) r)
          with ((map (it1 v A) r ++ [it1 v B i]) ++ map (it1 v B) r) by (now rewrite <- app_assoc).
        change (it1 v B i :: map (it1 v A) r ++ map (it1 v B) r) with ((it1 v B i :: map (it1 v A) r) ++ map (it1 v B) r).
        apply seq_sim_app_r; [apply okmapB|].
        apply move_right; [apply okBA|].
        intros y Hy. apply in_map_iff in Hy. destruct Hy as [j [<- Hj]]. apply Hc. intros ->. contradiction.
  Qed.

  Hypothesis HwA : forallb (nwrites (single v) dnone) A = true.

  Lemma ext_weaken s t : sim dnone dnone s t -> sim (single v) dnone s t.
  Proof. apply sim_weaken; intros; discriminate. Qed.

  Lemma set_same i m : sv m v = i -> sim dnone dnone m (set_sv v i m).
  Proof.
    intros E. split; [|auto]. intros x _. cbn. destruct (String.eqb x v) eqn:Ex; [|reflexivity].
    apply String.eqb_eq in Ex. now subst.
  Qed.

  Lemma A_keeps_v i s m : runs ps A (set_sv v i s) m -> sv m v = i.
  Proof.
    intros R. destruct (runs_frame ps (single v) dnone A _ _ HwA R) as [F _].
    rewrite (F v) by (unfold single; apply String.eqb_refl). cbn. now rewrite String.eqb_refl.
  Qed.

  Lemma fused_to_interleaved : forall is,
    seq_sim ps (single v) (map (it1 v (A ++ B)) is) (interleaved v A B is).
  Proof.
    induction is as [|i r IH]; [apply seq_sim_refl; intros l X []|].
    cbn [map interleaved flat_map].
    change (it1 v (A ++ B) i :: map (it1 v (A ++ B)) r) with ([it1 v (A ++ B) i] ++ map (it1 v (A ++ B)) r).
    change (it1 v A i :: it1 v B i :: flat_map (fun i0 => [it1 v A i0; it1 v B i0]) r)
      with ([it1 v A i; it1 v B i] ++ interleaved v A B r).
    apply seq_sim_app; [|exact IH].
    intros s t s1 Hs R. inversion R as [|l X r0 s0 s2 s3 Hb Hr]; subst. inversion Hr; subst.
    cbn [sets] in Hb. apply runs_app_inv in Hb. destruct Hb as [m [RA RB]].
    assert (Hst : sim dnone dnone (set_sv v i s) (set_sv v i t)).
    { apply (sets_cover (single v) [(v, i)] s t); [|exact Hs]. intros x Hx. unfold single in Hx.
      apply String.eqb_eq in Hx. subst. exists i. now left. }
    destruct (runs_ext ps A _ _ _ HnA Hst RA) as [m' [RA' Sm]].
    assert (Sm2 : sim dnone dnone m (set_sv v i m')).
    { eapply sim_trans; [exact Sm|]. apply set_same. eapply A_keeps_v; eauto. }
    destruct (runs_ext ps B _ _ _ HnB Sm2 RB) as [t1 [RB' S1]].
    exists t1. split; [|now apply ext_weaken].
    econstructor; [exact RA'|]. econstructor; [exact RB'|constructor].
  Qed.

  Lemma interleaved_to_fused : forall is,
    seq_sim ps (single v) (interleaved v A B is) (map (it1 v (A ++ B)) is).
  Proof.
    induction is as [|i r IH]; [apply seq_sim_refl; intros l X []|].
    cbn [map interleaved flat_map].
    change (it1 v (A ++ B) i :: map (it1 v (A ++ B)) r) with ([it1 v (A ++ B) i] ++ map (it1 v (A ++ B)) r).
    change (it1 v A i :: it1 v B i :: flat_map (fun i0 => [it1 v A i0; it1 v B i0]) r)
      with ([it1 v A i; it1 v B i] ++ interleaved v A B r).
    apply seq_sim_app; [|exact IH].
    intros s t s1 Hs R. inversion R as [|l X r0 s0 m s3 RA Hr]; subst.
    inversion Hr as [|l' X' r1 s4 s5 s6 RB Hr']; subst. inversion Hr'; subst. cbn [sets] in RA, RB.
    assert (Hst : sim dnone dnone (set_sv v i s) (set_sv v i t)).
    { apply (sets_cover (single v) [(v, i)] s t); [|exact Hs]. intros x Hx. unfold single in Hx.
      apply String.eqb_eq in Hx. subst. exists i. now left. }
    destruct (runs_ext ps A _ _ _ HnA Hst RA) as [m' [RA' Sm]].
    assert (Sm2 : sim dnone dnone (set_sv v i m) m').
    { eapply sim_trans; [|exact Sm]. apply sim_sym. apply set_same. eapply A_keeps_v; eauto. }
    destruct (runs_ext ps B _ _ _ HnB Sm2 RB) as [t1 [RB' S1]].
    exists t1. split; [|now apply ext_weaken].
    econstructor; [|constructor]. cbn [sets]. eapply runs_app; eauto.
  Qed.
End FuseSeq.

(** side conditions shared by fusion and fission: call-free bodies that do not assign the DO variable, and a range
    that does not depend on anything the loops write ([M]/[MA] = scalars/arrays the bodies may write, incl. [v]) *)
Definition neg (M : string -> bool) : string -> bool := fun x => negb (M x).

Record fuse_side (v : string) (M MA : string -> bool) (lo hi : expr) (st : option expr) (A B : list stmt) : Prop := {
  fs_ncA : forallb no_call A = true;
  fs_ncB : forallb no_call B = true;
  fs_wvA : forallb (nwrites (single v) dnone) A = true;
  fs_wvB : forallb (nwrites (single v) dnone) B = true;
  fs_Mv : M v = true;
  fs_MA : forallb (nwrites (neg M) (neg MA)) A = true;
  fs_MB : forallb (nwrites (neg M) (neg MA)) B = true;
  fs_lo : efree M MA lo = true;
  fs_hi : efree M MA hi = true;
  fs_st : oefree M MA st = true
}.

Lemma loop_frame_sim ps v M MA lo hi st body s s' :
  M v = true -> forallb (nwrites (neg M) (neg MA)) body = true ->
  runs1 ps (SDo v lo hi st body) s s' -> sim M MA s s'.
Proof.
  intros Hv Hb R. apply runs_single in R.
  assert (Hw : forallb (nwrites (neg M) (neg MA)) [SDo v lo hi st body] = true).
  { cbn. unfold neg at 1. rewrite Hv. cbn. now rewrite Hb. }
  destruct (runs_frame ps _ _ _ _ _ Hw R) as [F1 F2]. split.
  - intros x Hx. symmetry. apply F1. unfold neg. now rewrite Hx.
  - intros a i Ha. symmetry. apply F2. unfold neg. now rewrite Ha.
Qed.

Lemma bounds_same M MA lo hi st s s' a b d :
  sim M MA s s' -> efree M MA lo = true -> efree M MA hi = true -> oefree M MA st = true ->
  evalZ (env_st s) lo = Some a -> evalZ (env_st s) hi = Some b ->
  (match st with None => Some 1 | Some e => evalZ (env_st s) e end) = Some d ->
  evalZ (env_st s') lo = Some a /\ evalZ (env_st s') hi = Some b /\
  (match st with None => Some 1 | Some e => evalZ (env_st s') e end) = Some d.
Proof.
  intros Hs Hlo Hhi Hst Ea Eb Ed.
  rewrite <- (evalZ_sim M MA s s' lo Hs Hlo), <- (evalZ_sim M MA s s' hi Hs Hhi). repeat split; try assumption.
  destruct st as [e|]; [|exact Ed]. cbn in Hst. now rewrite <- (evalZ_sim M MA s s' e Hs Hst).
Qed.

Lemma sim_set_v v i s : sim (single v) dnone (set_sv v i s) s.
Proof. apply sim_set_left; [unfold single; apply String.eqb_refl|apply sim_refl]. Qed.

(** fusion: two adjacent loops with the same range become one loop over the concatenated bodies *)
Theorem fusion_preserves ps v M MA lo hi st A B s s1 :
  fuse_side v M MA lo hi st A B -> commute_cross ps v A B ->
  runs ps [SDo v lo hi st A; SDo v lo hi st B] s s1 ->
  exists s2, runs ps [SDo v lo hi st (A ++ B)] s s2 /\ sim (single v) dnone s1 s2.
Proof.
  intros [HnA HnB HwA HwB HMv HMA HMB Hlo Hhi Hst] Hc R.
  apply runs_cons_inv in R. destruct R as [sA [R1 R2]]. apply runs_single in R2.
  pose proof (loop_frame_sim ps v M MA lo hi st A s sA HMv HMA R1) as HsA.
  apply runs1_do in R1. destruct R1 as [a [b [d [Ea [Eb [Ed [Hd L1]]]]]]].
  apply runs1_do in R2. destruct R2 as [a' [b' [d' [Ea' [Eb' [Ed' [Hd' L2]]]]]]].
  destruct (bounds_same M MA lo hi st s sA a b d HsA Hlo Hhi Hst Ea Eb Ed) as [Ea2 [Eb2 Ed2]].
  assert (a' = a) by congruence. assert (b' = b) by congruence. assert (d' = d) by congruence. subst a' b' d'.
  set (n := Z.to_nat (trip_count a b d)) in *. set (is := M_C10.iota_steps n a d).
  destruct (loop_to_seq ps A v d n a s sA L1) as [s0 [Q1 E1]].
  destruct (loop_to_seq ps B v d n a sA s1 L2) as [s0' [Q2 E2]].
  assert (HavB : all_vars_in (single v) (map (it1 v B) is)).
  { apply all_vars_it1. intros x Hx. apply in_map_iff in Hx. destruct Hx as [j [<- _]]. eauto. }
  assert (S0 : sim (single v) dnone sA s0) by (rewrite E1; apply sim_set_v).
  destruct (seq_sim_refl ps (single v) _ HavB sA s0 s0' S0 Q2) as [u1 [Q2' Su1]].
  pose proof (seq_runs_app ps _ _ _ _ _ Q1 Q2') as Q12.
  destruct (separate_to_interleaved ps v A B HnA HnB Hc is (iota_nodup n d Hd a) s s u1 (sim_refl _ _ _) Q12) as [u2 [Q3 Su2]].
  destruct (interleaved_to_fused ps v A B HnA HnB HwA is s s u2 (sim_refl _ _ _) Q3) as [u3 [Q4 Su3]].
  exists (set_sv v (a + Z.of_nat n * d) u3). split.
  - apply runs_single. apply runs1_do. exists a, b, d. repeat split; try assumption. now apply seq_to_loop.
  - rewrite E2. eapply sim_trans; [apply sim_set_v|]. eapply sim_trans; [exact Su1|].
    eapply sim_trans; [exact Su2|]. eapply sim_trans; [exact Su3|]. apply sim_sym. apply sim_set_v.
Qed.

(** fission: the reverse direction *)
Theorem fission_preserves ps v M MA lo hi st A B s s1 :
  fuse_side v M MA lo hi st A B -> commute_cross ps v A B ->
  runs ps [SDo v lo hi st (A ++ B)] s s1 ->
  exists s2, runs ps [SDo v lo hi st A; SDo v lo hi st B] s s2 /\ sim (single v) dnone s1 s2.
Proof.
  intros [HnA HnB HwA HwB HMv HMA HMB Hlo Hhi Hst] Hc R.
  apply runs_single in R. apply runs1_do in R. destruct R as [a [b [d [Ea [Eb [Ed [Hd L]]]]]]].
  set (n := Z.to_nat (trip_count a b d)) in *. set (is := M_C10.iota_steps n a d).
  destruct (loop_to_seq ps (A ++ B) v d n a s s1 L) as [s0 [Q E]].
  destruct (fused_to_interleaved ps v A B HnA HnB HwA is s s s0 (sim_refl _ _ _) Q) as [u1 [Q1 Su1]].
  destruct (interleaved_to_separate ps v A B HnA HnB Hc is (iota_nodup n d Hd a) s s u1 (sim_refl _ _ _) Q1) as [u2 [Q2 Su2]].
  apply seq_runs_app_inv in Q2. destruct Q2 as [m [QA QB]].
  set (sA := set_sv v (a + Z.of_nat n * d) m).
  assert (RA : runs1 ps (SDo v lo hi st A) s sA).
  { apply runs1_do. exists a, b, d. repeat split; try assumption. now apply seq_to_loop. }
  pose proof (loop_frame_sim ps v M MA lo hi st A s sA HMv HMA RA) as HsA.
  destruct (bounds_same M MA lo hi st s sA a b d HsA Hlo Hhi Hst Ea Eb Ed) as [Ea2 [Eb2 Ed2]].
  assert (HavB : all_vars_in (single v) (map (it1 v B) is)).
  { apply all_vars_it1. intros x Hx. apply in_map_iff in Hx. destruct Hx as [j [<- _]]. eauto. }
  assert (Sm : sim (single v) dnone m sA) by (apply sim_sym; apply sim_set_v).
  destruct (seq_sim_refl ps (single v) _ HavB m sA u2 Sm QB) as [u3 [QB' Su3]].
  exists (set_sv v (a + Z.of_nat n * d) u3). split.
  - eapply runs_cons; [exact RA|]. apply runs_single. apply runs1_do. exists a, b, d.
    repeat split; try assumption. now apply seq_to_loop.
  - rewrite E. eapply sim_trans; [apply sim_set_v|]. eapply sim_trans; [exact Su1|].
    eapply sim_trans; [exact Su2|]. eapply sim_trans; [exact Su3|]. apply sim_sym. apply sim_set_v.
Qed.

(** * soundness of the name-level independence check *)
Lemma mem_s_in x l : mem_s x l = true <-> In x l.
Proof.
  unfold mem_s. rewrite existsb_exists. split.
  - intros [y [Hy E]]. apply String.eqb_eq in E. now subst.
  - intros H. exists x. split; [exact H|apply String.eqb_refl].
Qed.

Lemma disjoint_s_spec a b x : disjoint_s a b = true -> In x a -> mem_s x b = false.
Proof.
  unfold disjoint_s. rewrite forallb_forall. intros H Hx. specialize (H _ Hx). now apply negb_true_iff in H.
Qed.

Definition inl (L : list string) : string -> bool := fun x => mem_s x L.

(** a call-free statement writes only names in [swrites] *)
Lemma writes_only s : forall L, no_call s = true -> (forall x, In x (swrites s) -> In x L) ->
  nwrites (neg (inl L)) (neg (inl L)) s = true.
Proof.
  assert (K : forall L x, In x L -> negb (neg (inl L) x) = true).
  { intros L x Hx. unfold neg, inl. apply (proj2 (mem_s_in x L)) in Hx. now rewrite Hx. }
  induction s using stmt_ind'; intros L Hn Hw; cbn in *; try reflexivity; try discriminate.
  - apply K. apply Hw. now left.
  - apply K. apply Hw. now left.
  - rewrite K by (apply Hw; now left). cbn.
    apply forallb_Forall. apply forallb_Forall in Hn. rewrite Forall_forall in *. intros q Hq.
    apply H; [exact Hq|now apply Hn|]. intros y Hy. apply Hw. right. apply in_flat_map. eauto.
  - apply forallb_Forall. apply forallb_Forall in Hn. rewrite Forall_forall in *. intros q Hq.
    apply H; [exact Hq|now apply Hn|]. intros y Hy. apply Hw. apply in_flat_map. eauto.
  - apply andb_true_iff in Hn. destruct Hn as [N1 N2]. apply andb_true_iff. split.
    + apply forallb_Forall. apply forallb_Forall in N1. rewrite Forall_forall in *. intros q Hq.
      apply H; [exact Hq|now apply N1|]. intros y Hy. apply Hw. apply in_or_app. left. apply in_flat_map. eauto.
    + apply forallb_Forall. apply forallb_Forall in N2. rewrite Forall_forall in *. intros q Hq.
      apply H0; [exact Hq|now apply N2|]. intros y Hy. apply Hw. apply in_or_app. right. apply in_flat_map. eauto.
Qed.

Lemma writes_only_l P : forallb no_call P = true ->
  forallb (nwrites (neg (inl (flat_map swrites P))) (neg (inl (flat_map swrites P)))) P = true.
Proof.
  intros Hn. apply forallb_forall. intros q Hq. rewrite forallb_forall in Hn.
  apply writes_only; [now apply Hn|]. intros y Hy. apply in_flat_map. eauto.
Qed.

(** what a call-free body does not write is unchanged *)
Lemma frame_sim ps P s s' : forallb no_call P = true -> runs ps P s s' ->
  sim (inl (flat_map swrites P)) (inl (flat_map swrites P)) s s'.
Proof.
  intros Hn R. destruct (runs_frame ps _ _ P s s' (writes_only_l P Hn) R) as [F1 F2]. split.
  - intros x Hx. symmetry. apply F1. unfold neg. now rewrite Hx.
  - intros a i Ha. symmetry. apply F2. unfold neg. now rewrite Ha.
Qed.

Lemma reads_free P L : forallb no_call P = true -> disjoint_s L (flat_map sreads P) = true ->
  forallb (nreads (inl L) (inl L)) P = true.
Proof.
  intros Hn Hd. apply forallb_forall. intros q Hq. rewrite forallb_forall in Hn.
  apply no_call_nreads; [now apply Hn|]. intros x Hx.
  assert (E : inl L x = false).
  { unfold inl. destruct (mem_s x L) eqn:E; [|reflexivity]. apply mem_s_in in E.
    pose proof (disjoint_s_spec _ _ _ Hd E) as Hm.
    assert (Hin : In x (flat_map sreads P)) by (apply in_flat_map; eauto).
    apply mem_s_in in Hin. congruence. }
  now rewrite E.
Qed.

Lemma swap_indep ps v P Q p q :
  forallb no_call P = true -> forallb no_call Q = true ->
  disjoint_s (flat_map swrites P) (flat_map sreads Q) = true ->
  disjoint_s (flat_map swrites P) (flat_map swrites Q) = true ->
  disjoint_s (flat_map swrites Q) (flat_map sreads P) = true ->
  seq_sim ps (single v) [it1 v P p; it1 v Q q] [it1 v Q q; it1 v P p].
Proof.
  intros HnP HnQ Hpq Hww Hqp s t s2 Hst R.
  inversion R as [|l X r0 s0 s1 s3 RP Hr]; subst. inversion Hr as [|l' X' r1 s4 s5 s6 RQ Hr']; subst.
  inversion Hr'; subst. cbn [sets] in RP, RQ.
  set (WP := flat_map swrites P) in *. set (WQ := flat_map swrites Q) in *.
  destruct Hst as [Hst1 Hst2].
  assert (Hneq : forall x, x <> v -> sv s x = sv t x).
  { intros x Hx. apply Hst1. unfold single. now apply String.eqb_neq. }
  pose proof (frame_sim ps P _ _ HnP RP) as [FP1 FP2]. fold WP in FP1, FP2.
  (* Q from (set q t) *)
  assert (S2 : sim (inl WP) (inl WP) (set_sv v q s1) (set_sv v q t)).
  { split.
    - intros x Hx. cbn. destruct (String.eqb x v) eqn:E; [reflexivity|].
      rewrite <- (FP1 x Hx). cbn. rewrite E. apply Hneq. now apply String.eqb_neq.
    - intros a i Ha. cbn. rewrite <- (FP2 a i Ha). cbn. now apply Hst2. }
  destruct (runs_sim ps (inl WP) (inl WP) Q _ _ _ S2 (reads_free Q WP HnQ Hpq) HnQ RQ) as [t1 [TQ [SQ1 SQ2]]].
  pose proof (frame_sim ps Q _ _ HnQ RQ) as [FQ1 FQ2]. fold WQ in FQ1, FQ2.
  pose proof (frame_sim ps Q _ _ HnQ TQ) as [GQ1 GQ2]. fold WQ in GQ1, GQ2.
  (* P from (set p t1) *)
  assert (S4 : sim (inl WQ) (inl WQ) (set_sv v p s) (set_sv v p t1)).
  { split.
    - intros x Hx. cbn. destruct (String.eqb x v) eqn:E; [reflexivity|].
      rewrite <- (GQ1 x Hx). cbn. rewrite E. apply Hneq. now apply String.eqb_neq.
    - intros a i Ha. cbn. rewrite <- (GQ2 a i Ha). cbn. now apply Hst2. }
  destruct (runs_sim ps (inl WQ) (inl WQ) P _ _ _ S4 (reads_free P WQ HnP Hqp) HnP RP) as [t2 [TP [SP1 SP2]]].
  pose proof (frame_sim ps P _ _ HnP TP) as [GP1 GP2]. fold WP in GP1, GP2.
  exists t2. split; [econstructor; [exact TQ|econstructor; [exact TP|constructor]]|].
  assert (Hex : forall x, inl WP x = true -> inl WQ x = false).
  { intros x Hx. unfold inl in *. apply mem_s_in in Hx. exact (disjoint_s_spec _ _ _ Hww Hx). }
  split.
  - intros x Hx. unfold single in Hx. assert (Hxv : String.eqb x v = false) by exact Hx.
    destruct (inl WP x) eqn:EP.
    + pose proof (Hex _ EP) as EQ. rewrite <- (FQ1 x EQ). cbn. rewrite Hxv. now apply SP1.
    + destruct (inl WQ x) eqn:EQ.
      * rewrite (SQ1 x EP). rewrite <- (GP1 x EP). cbn. now rewrite Hxv.
      * rewrite <- (FQ1 x EQ). cbn. rewrite Hxv. rewrite <- (FP1 x EP). cbn. rewrite Hxv.
        rewrite <- (GP1 x EP). cbn. rewrite Hxv. rewrite <- (GQ1 x EQ). cbn. rewrite Hxv.
        apply Hneq. now apply String.eqb_neq.
  - intros a i _.
    destruct (inl WP a) eqn:EP.
    + pose proof (Hex _ EP) as EQ. rewrite <- (FQ2 a i EQ). cbn. now apply SP2.
    + destruct (inl WQ a) eqn:EQ.
      * rewrite (SQ2 a i EP). rewrite <- (GP2 a i EP). reflexivity.
      * rewrite <- (FQ2 a i EQ). cbn. rewrite <- (FP2 a i EP). cbn.
        rewrite <- (GP2 a i EP). cbn. rewrite <- (GQ2 a i EQ). cbn. now apply Hst2.
Qed.

Lemma disjoint_s_app_r a b c : disjoint_s a (b ++ c) = true -> disjoint_s a b = true /\ disjoint_s a c = true.
Proof.
  unfold disjoint_s. rewrite !forallb_forall. intros H. split; intros x Hx; specialize (H x Hx);
    apply negb_true_iff in H; apply negb_true_iff; unfold mem_s in *; rewrite existsb_app in H;
    apply orb_false_iff in H; tauto.
Qed.

Lemma disjoint_s_sym a b : disjoint_s a b = true -> disjoint_s b a = true.
Proof.
  unfold disjoint_s. rewrite !forallb_forall. intros H x Hx. apply negb_true_iff.
  destruct (mem_s x a) eqn:E; [|reflexivity]. apply mem_s_in in E. specialize (H x E).
  apply negb_true_iff in H. apply mem_s_in in Hx. congruence.
Qed.

(** [indep_names A B]: neither body writes what the other reads or writes: iterations of A and B commute *)
Theorem indep_check_sound ps v A B : indep_names A B = true -> commute_cross ps v A B.
Proof.
  unfold indep_names. intros H. repeat (apply andb_true_iff in H; destruct H as [H ?]).
  rename H into HnA, H2 into HnB, H1 into HAB, H0 into HBA.
  apply disjoint_s_app_r in HAB. destruct HAB as [HArB HAwB].
  intros i j _. split.
  - apply swap_indep; try assumption.
  - apply swap_indep; try assumption. now apply disjoint_s_sym.
Qed.

(** * reordering a sequence of pairwise commuting iterations *)
Lemma perm_seq_sim {K} (F : K -> iter) ps D : forall l l', Permutation l l' ->
  NoDup l -> (forall k, In k l -> all_vars_in D [F k]) ->
  (forall a b, In a l -> In b l -> a <> b -> seq_sim ps D [F a; F b] [F b; F a]) ->
  seq_sim ps D (map F l) (map F l').
Proof.
  assert (AV : forall l, (forall k, In k l -> all_vars_in D [F k]) -> all_vars_in D (map F l)).
  { intros l H x B Hin. apply in_map_iff in Hin. destruct Hin as [k [E Hk]]. apply (H k Hk). left. exact E. }
  induction 1 as [|x l l' HP IH|x y l|l1 l2 l3 HP1 IH1 HP2 IH2]; intros Hnd Hav Hc.
  - apply seq_sim_refl. intros ? ? [].
  - inversion Hnd; subst. cbn [map]. apply seq_sim_cons; [apply Hav; now left|].
    apply IH; [assumption|intros k Hk; apply Hav; now right|].
    intros a b Ha Hb. apply Hc; now right.
  - cbn [map]. change (F y :: F x :: map F l) with ([F y; F x] ++ map F l).
    change (F x :: F y :: map F l) with ([F x; F y] ++ map F l).
    apply seq_sim_app_r; [apply AV; intros k Hk; apply Hav; right; now right|].
    apply Hc; [now left|right; now left|].
    inversion Hnd as [|? ? Hn _]; subst. intros ->. apply Hn. now left.
  - eapply seq_sim_trans; [apply IH1; assumption|].
    apply IH2.
    + eapply Permutation_NoDup; eauto.
    + intros k Hk. apply Hav. eapply Permutation_in; [apply Permutation_sym; exact HP1|exact Hk].
    + intros a b Ha Hb. apply Hc; eapply Permutation_in; try (apply Permutation_sym; exact HP1); assumption.
Qed.

(** row-major and column-major enumerations of a rectangle *)
Definition row_major (Is Js : list Z) : list (Z * Z) := flat_map (fun x => map (pair x) Js) Is.
Definition col_major (Is Js : list Z) : list (Z * Z) := flat_map (fun y => map (fun x => (x, y)) Is) Js.

Lemma perm_flat_cons {A B} (f : A -> B) (g : A -> list B) l :
  Permutation (flat_map (fun y => f y :: g y) l) (map f l ++ flat_map g l).
Proof.
  induction l as [|y l IH]; cbn; [constructor|]. constructor.
  eapply Permutation_trans; [apply Permutation_app_head; exact IH|]. apply Permutation_app_swap_app.
Qed.

Lemma row_col_perm Is Js : Permutation (row_major Is Js) (col_major Is Js).
Proof.
  induction Is as [|x Is IH]; cbn.
  - unfold col_major. induction Js; cbn; [constructor|assumption].
  - unfold col_major. cbn [map]. eapply Permutation_trans; [|apply Permutation_sym; apply perm_flat_cons].
    apply Permutation_app_head. exact IH.
Qed.

Lemma NoDup_app_intro {A} (a b : list A) :
  NoDup a -> NoDup b -> (forall z, In z a -> ~ In z b) -> NoDup (a ++ b).
Proof.
  induction 1 as [|x a Hx Ha IH]; intros Hb Hd; cbn; [exact Hb|]. constructor.
  - intros Hin. apply in_app_or in Hin. destruct Hin as [Hin|Hin]; [contradiction|]. apply (Hd x); [now left|exact Hin].
  - apply IH; [exact Hb|]. intros z Hz. apply Hd. now right.
Qed.

Lemma row_major_nodup Is Js : NoDup Is -> NoDup Js -> NoDup (row_major Is Js).
Proof.
  intros HI HJ. induction HI as [|x Is Hx HI IH]; cbn; [constructor|].
  apply NoDup_app_intro; [|exact IH|].
  - clear -HJ. induction HJ as [|y Js Hy HJ IH]; cbn; constructor; [|exact IH].
    intros Hin. apply in_map_iff in Hin. destruct Hin as [y' [E Hy']]. inversion E; subst. contradiction.
  - intros z Hz Hz'. apply in_map_iff in Hz. destruct Hz as [y [<- _]].
    unfold row_major in Hz'. apply in_flat_map in Hz'. destruct Hz' as [x' [Hx' Hin]].
    apply in_map_iff in Hin. destruct Hin as [y' [E _]]. inversion E; subst. contradiction.
Qed.

(** one iteration of a 2-nest: i := x, then j := y, then the body *)
Definition it2 (i j : string) (body : list stmt) (xy : Z * Z) : iter := ([(j, snd xy); (i, fst xy)], body).
Definition d2 (i j : string) : string -> bool := fun x => String.eqb x i || String.eqb x j.

Definition iterations_commute (ps : procs) (i j : string) (body : list stmt) : Prop :=
  forall p q : Z * Z, p <> q ->
    seq_sim ps (d2 i j) [it2 i j body p; it2 i j body q] [it2 i j body q; it2 i j body p].

(** interchange at the level of iteration sequences: if distinct iterations of the body commute (modulo the two
    DO variables) the column-major order computes what the row-major order computes.
    PARTIAL: what is missing for the statement about the two DO nests is the link between [runs] of the nested
    SDo statements and these sequences (the inner range is re-evaluated at every outer trip and must be invariant;
    final values of i and j differ and are excluded by [d2]). *)
Theorem interchange_preserves_partial ps i j body Is Js :
  forallb no_call body = true -> NoDup Is -> NoDup Js -> iterations_commute ps i j body ->
  seq_sim ps (d2 i j) (map (it2 i j body) (row_major Is Js)) (map (it2 i j body) (col_major Is Js)).
Proof.
  intros Hn HI HJ Hc. apply perm_seq_sim.
  - apply row_col_perm.
  - now apply row_major_nodup.
  - intros k _ l B [E|[]]. inversion E; subst. split; [exact Hn|].
    intros x Hx. unfold d2 in Hx. apply orb_true_iff in Hx. destruct Hx as [Hx|Hx]; apply String.eqb_eq in Hx; subst.
    + exists (fst k). right. now left.
    + exists (snd k). now left.
  - intros a b _ _ Hab. now apply Hc.
Qed.
