(** C43 — concrete witnesses: the unconditional statements are false for the mechanism as it is; every witness
    is a small statement tree evaluated by the model (the corresponding Fortran files are replayed against the real
    code as known findings by the harness). *)
From Coq Require Import List String Ascii Bool Arith ZArith.
From LV Require Import Base.Strings Base.Expr models.M_C43 proofs.P_C43.
Import ListNotations.
Open Scope string_scope.
Open Scope list_scope.

Definition rt (kids : list node) : item :=
  IRoutine {| r_hsrc := ["SUBROUTINE foo (n, m, flag)"]; r_hregen := ["SUBROUTINE foo (n, m, flag)"];
              r_kids := kids; r_fsrc := ["END SUBROUTINE foo"]; r_fregen := ["END SUBROUTINE foo"] |}.

(** a file of the class: a reported block IF around an unreported DO loop, a reported assignment, comments,
    a string literal containing an F77 spelling *)
Definition ex_ok : list item :=
  [IText ["! old style .gt. here"];
   rt [L LRegen ANone ["  IMPLICIT NONE"] ["  IMPLICIT NONE"];
       L LVerb ANone ["  msg = 'a .gt. b'   ! .lt."] ["  msg = 'a .gt. b'  ! .lt."];
       B BCond ASelf ["  if (n .GT. 3 .and. m.le.2) then"] ["  IF (n > 3 .and. m <= 2) THEN"] ["  IF (n > 3 .and. m <= 2) THEN"]
         ["  end if"] ["  END IF"] false false
         [B BLoop ANone ["    do i = 1, n"] ["    DO i=1,n"] ["    DO i=1,n"] ["    enddo"] ["    END DO"] false false
            [L LVerb ANone ["      m = m   +  1"] ["      m = m + 1"]];
          L LSep ANone ["  else"] ["  ELSE"];
          L LVerb ASelf ["    flag = m .eq. n"] ["    flag = m == n"]];
       L LVerb ANone ["  ! done"] ["  ! done"]]].

Example class_inhabited :
  file_in_class RF90 ex_ok = true /\ file_act ex_ok = true /\ file_forall only_self ex_ok = true
  /\ file_forall (toks_ok false) ex_ok = true /\ file_forall (reports_complete false) ex_ok = true
  /\ file_frame_clean ex_ok = true /\ file_forall inline_ok ex_ok = true
  /\ fix_file RF90 ex_ok = Some
       ["! old style .gt. here"; "SUBROUTINE foo (n, m, flag)"; "  IMPLICIT NONE"; "  msg = 'a .gt. b'   ! .lt.";
        "  IF (n > 3 .and. m <= 2) THEN"; "    do i = 1, n"; "      m = m   +  1"; "    enddo"; "  ELSE";
        "    flag = m == n"; "  END IF"; "  ! done"; "END SUBROUTINE foo"].
Proof. vm_compute. repeat split; reflexivity. Qed.

(** F-C43-4: an unreported in-line IF next to a fixed statement is printed as IF (c) + its own source line *)
Definition ex_inline : list item :=
  [rt [L LVerb ASelf ["  flag = n .gt. 3"] ["  flag = n > 3"];
       B BInline ANone ["  if (m > 3)   m = 1"] ["  IF (m > 3) "] ["  IF (m > 3) "] [] [] false false
         [L LVerb ANone ["  if (m > 3)   m = 1"] ["m = 1"]]]].

Theorem fix_other_nodes_verbatim_refuted :
  exists f out l, fix_file RF90 f = Some out /\ In (false, [l]) (file_groups f) /\ In l (orig f) /\ ~ In l out.
Proof.
  exists ex_inline. eexists. exists "  if (m > 3)   m = 1". split; [vm_compute; reflexivity|].
  split; [vm_compute; auto|]. split; [vm_compute; auto|].
  intros H. cbn in H. repeat (destruct H as [H|H]; [discriminate H|]). exact H.
Qed.

Example ex_inline_output :
  fix_file RF90 ex_inline = Some ["SUBROUTINE foo (n, m, flag)"; "  flag = n > 3"; "  IF (m > 3) if (m > 3)   m = 1"; "END SUBROUTINE foo"].
Proof. vm_compute. reflexivity. Qed.

(** F-C43-9: the mapper look-up finds a reported block, its unreported child loop stays VALID and is printed
    verbatim: the reported statement inside it is not fixed although every statement with an F77 operator is
    reported and every structural print has the right tokens *)
Definition ex_unfixed : list item :=
  [rt [B BCond ASelf ["  if (n .gt. 3) then"] ["  IF (n > 3) THEN"] ["  IF (n > 3) THEN"] ["  end if"] ["  END IF"] false false
         [B BLoop ANone ["    do i = 1, n"] ["    DO i=1,n"] ["    DO i=1,n"] ["    end do"] ["    END DO"] false false
            [L LVerb ASelf ["      flag = i .gt. 2"] ["      flag = i > 2"]]]]].

Theorem fix_clears_rule_refuted :
  exists f out, file_forall only_self f = true /\ file_forall (toks_ok false) f = true
                /\ file_forall (reports_complete false) f = true /\ file_frame_clean f = true
                /\ fix_file RF90 f = Some out /\ f77_free out = false.
Proof. exists ex_unfixed. eexists. vm_compute. repeat split; reflexivity. Qed.

(** the same tree when the look-up misses (AVisit): everything is fixed *)
Definition ex_visited : list item :=
  [rt [B BCond AVisit ["  if (n .gt. 3) then"] ["  IF (n > 3) THEN"] ["  IF (n > 3) THEN"] ["  end if"] ["  END IF"] false false
         [B BLoop ANone ["    do i = 1, n"] ["    DO i=1,n"] ["    DO i=1,n"] ["    end do"] ["    END DO"] false false
            [L LVerb ASelf ["      flag = i .gt. 2"] ["      flag = i > 2"]]]]].

Example ex_visited_fixed :
  file_in_class RF90 ex_visited = true /\
  fix_file RF90 ex_visited = Some ["SUBROUTINE foo (n, m, flag)"; "  IF (n > 3) THEN"; "    do i = 1, n"; "      flag = i > 2";
                                   "    end do"; "  END IF"; "END SUBROUTINE foo"].
Proof. vm_compute. split; reflexivity. Qed.

(** F-C43-10: a reported block IF inside an unreported ELSE IF branch comes out as ELSE IF *)
Definition ex_elseif : list item :=
  [rt [B BCond ANone ["  if (flag) then"] ["  IF (flag) THEN"] ["  ELSE IF (flag) THEN"] [] [] true false
         [L LVerb ANone ["    m = 1"] ["    m = 1"];
          B BCond ANone ["  else if (n > 3) then"] ["  ELSE IF (n > 3) THEN"] ["  IF (n > 3) THEN"] ["  end if"] ["  END IF"] false true
            [B BCond ASelf ["    if (m .gt. 2) then"] ["    IF (m > 2) THEN"] ["    ELSE IF (m > 2) THEN"] ["    end if"] ["    END IF"] false false
               [L LVerb ANone ["      m = 2"] ["      m = 2"]]]]]].

Theorem elseif_leak :
  exists f out, fix_file RF90 f = Some out /\ In "    ELSE IF (m > 2) THEN" out /\ ~ In "    IF (m > 2) THEN" out.
Proof.
  exists ex_elseif. eexists. split; [vm_compute; reflexivity|]. split; [cbn; tauto|].
  intros H. cbn in H. repeat (destruct H as [H|H]; [discriminate H|]). exact H.
Qed.

(** F-C43-11: an unreported IF / ELSE IF / ELSE IF chain next to a fixed statement: TypeError, nothing is written *)
Definition ex_chain : list item :=
  [rt [L LVerb ASelf ["  flag = n .gt. 3"] ["  flag = n > 3"];
       B BCond ANone ["  if (flag) then"] ["  IF (flag) THEN"] ["  ELSE IF (flag) THEN"] [] [] true false
         [L LVerb ANone ["    m = 1"] ["    m = 1"];
          B BCond ANone ["  else if (n > 3) then"] ["  ELSE IF (n > 3) THEN"] ["  IF (n > 3) THEN"] [] [] true true
            [L LVerb ANone ["    m = 2"] ["    m = 2"];
             B BCond ANone ["  else if (n > 5) then"] ["  ELSE IF (n > 5) THEN"] ["  IF (n > 5) THEN"] ["  end if"] ["  END IF"] false true
               [L LVerb ANone ["    m = 3"] ["    m = 3"]]]]]].

Theorem writer_raises : exists f, file_act f = true /\ fix_file RF90 f = None.
Proof. exists ex_chain. vm_compute. split; reflexivity. Qed.

(** the lexer on the spellings the generator uses *)
Example lex_examples :
  lex_line "  IF (a(i).GT.b .and. x .le. 1.5E0 .or. s == 'it''s .eq. x') THEN  ! c .ne. d"
  = ["IF"; "("; "a"; "("; "i"; ")"; ".GT."; "b"; ".and."; "x"; ".le."; "1"; "."; "5E0"; ".or."; "s"; "=="; "'it'"; "'s .eq. x'"; ")"; "THEN"]
  /\ toks_match ["  if (a(i).GT.b .and. x .le. 1.5E0) then"] ["  IF (a(i) > b .and. x <= 1.5E0) THEN"] = true
  /\ toks_match ["  flag = (n .gt. 3)"] ["  flag = n > 3"] = false
  /\ f77_free ["  msg = 'a .gt. b'   ! x .lt. y"] = true.
Proof. vm_compute. repeat split; reflexivity. Qed.
