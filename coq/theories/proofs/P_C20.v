(** C20 — all lemmas (see P_C20_*.v). *)
From LV Require Export proofs.P_C20_base proofs.P_C20_span proofs.P_C20_find proofs.P_C20_join
  proofs.P_C20_reader proofs.P_C20_sub proofs.P_C20_scan proofs.P_C20_exact proofs.P_C20_wit.
