(** C32 — proofs, part 5: outside the class the transformer (without the class conditions) changes behaviour.
    Every witness below is also a known finding replayed against the real code on each run. *)
From Coq Require Import ZArith List Bool String Lia.
From LV Require Import Base.Expr Base.MiniF Base.MiniFFacts models.M_C32 proofs.P_C32.
Import ListNotations.
Open Scope Z_scope.
Open Scope string_scope.

Lemma list_z_eqb_refl l : list_z_eqb l l = true.
Proof. induction l as [|x r IH]; [reflexivity|]. cbn. now rewrite Z.eqb_refl. Qed.

Lemma differs_not_equiv ps fuel p p' sc os : differs ps fuel p p' sc os = true -> ~ equiv ps p' p.
Proof.
  unfold differs, run_observe. intros D Q.
  destruct (exec ps fuel p (init_store sc [])) as [s1|] eqn:E1; [|discriminate].
  destruct (exec ps fuel p' (init_store sc [])) as [s2|] eqn:E2; [|discriminate].
  assert (R1 : runs ps p' (init_store sc []) s1) by (apply Q; now exists fuel).
  assert (R2 : runs ps p' (init_store sc []) s2) by (now exists fuel).
  rewrite (runs_det _ _ _ _ _ R1 R2) in D. now rewrite list_z_eqb_refl in D.
Qed.

(** F1: an "increment" in a loop with constant bounds leaves the stale entry: [y = c] becomes [y = 0] *)
Definition W_incr : list stmt :=
  [SAssign "c" (EInt 0);
   SDo "i" (EInt 1) (EInt 3) None [SAssign "c" (ESum false [EVar "c"; EInt 2])];
   SAssign "y" (EVar "c")].

(** F2: an assignment that depends on the DO variable leaves the stale entry (program of Loki's own test) *)
Definition W_loopdep : list stmt :=
  [SAssign "d" (EInt 0);
   SDo "i" (EInt 1) (EInt 5) None [SAssign "d" (EProd false [EInt 5; EVar "i"])];
   SAssign "d" (EProd false [EVar "d"; EInt 2])].

(** F3: the body of a zero-trip loop with constant bounds updates the map *)
Definition W_zerotrip : list stmt :=
  [SAssign "x" (EInt 1);
   SDo "i" (EInt 5) (EInt 1) None [SAssign "x" (EInt 2)];
   SAssign "y" (EVar "x")].

(** F4: the incoming map is used inside a loop body that overwrites the variable later *)
Definition W_carried : list stmt :=
  [SAssign "x" (EInt 1);
   SDo "i" (EInt 1) (EVar "n") None [SAssign "y" (EVar "x"); SAssign "x" (EInt 5)]].

(** F5: DO WHILE bodies are treated as straight-line code *)
Definition W_while : list stmt :=
  [SAssign "x" (EInt 1);
   SWhile (ECmp Clt (EVar "k") (EInt 1)) [SAssign "x" (EInt 2); SAssign "k" (ESum false [EVar "k"; EInt 1])];
   SAssign "y" (EVar "x")].

(** F6: calls do not invalidate their arguments *)
Definition setv : proc := {| p_params := [("p", false); ("q", false)]; p_body := [SAssign "p" (ESum false [EVar "q"; EInt 1])] |}.
Definition W_call : list stmt :=
  [SAssign "x" (EInt 1); SCall "setv" [EVar "x"; EInt 5]; SAssign "y" (EVar "x")].

Definition refuted_b (ps : procs) (p : list stmt) (sc : list (string * Z)) (os : list string) : bool :=
  match constprop_raw 30 p with Some p' => differs ps 60 p p' sc os | None => false end.

Definition refuted (ps : procs) (p : list stmt) (sc : list (string * Z)) (os : list string) : Prop :=
  exists p', constprop_raw 30 p = Some p' /\ differs ps 60 p p' sc os = true.

Lemma refuted_b_spec ps p sc os : refuted_b ps p sc os = true -> refuted ps p sc os.
Proof.
  unfold refuted_b, refuted. destruct (constprop_raw 30 p) as [p'|]; [|discriminate].
  intros D. exists p'. now split.
Qed.

Lemma refuted_incr : refuted [] W_incr [] ["y"].
Proof. apply refuted_b_spec. vm_compute. reflexivity. Qed.
Lemma refuted_loopdep : refuted [] W_loopdep [] ["d"].
Proof. apply refuted_b_spec. vm_compute. reflexivity. Qed.
Lemma refuted_zerotrip : refuted [] W_zerotrip [] ["y"].
Proof. apply refuted_b_spec. vm_compute. reflexivity. Qed.
Lemma refuted_carried : refuted [] W_carried [("n", 2)] ["y"].
Proof. apply refuted_b_spec. vm_compute. reflexivity. Qed.
Lemma refuted_while : refuted [] W_while [("k", 5)] ["y"].
Proof. apply refuted_b_spec. vm_compute. reflexivity. Qed.
Lemma refuted_call : refuted [("setv", setv)] W_call [] ["y"].
Proof. apply refuted_b_spec. vm_compute. reflexivity. Qed.

(** none of them is in the class *)
Lemma witnesses_outside_class :
  constprop 30 W_incr = None /\ constprop 30 W_loopdep = None /\ constprop 30 W_zerotrip = None /\
  constprop 30 W_carried = None /\ constprop 30 W_while = None /\ constprop 30 W_call = None.
Proof. repeat split; vm_compute; reflexivity. Qed.

Theorem constprop_unconditional_refuted :
  exists ps p p', constprop_raw 30 p = Some p' /\ ~ equiv ps p' p.
Proof.
  destruct refuted_incr as [p' [E D]]. exists [], W_incr, p'. split; [exact E|].
  eapply differs_not_equiv; exact D.
Qed.

(** F7 (unroll_loops=True): the second pass starts from the FINAL map of the first pass *)
Definition W_stale : list stmt := [SAssign "y" (EVar "x"); SAssign "x" (EInt 5)].

Definition second_pass_b : bool :=
  match cp true 30 false [] W_stale with
  | Some (p1, m1) =>
      match cp true 30 false m1 p1 with
      | Some (p3, _) => differs [] 60 W_stale p3 [("x", 7)] ["y"]
      | None => false
      end
  | None => false
  end.

Theorem second_pass_refuted :
  exists p1 m1 p3 m3,
    cp true 30 false [] W_stale = Some (p1, m1) /\ cp true 30 false m1 p1 = Some (p3, m3) /\
    differs [] 60 W_stale p3 [("x", 7)] ["y"] = true.
Proof.
  assert (H : second_pass_b = true) by (vm_compute; reflexivity).
  unfold second_pass_b in H.
  destruct (cp true 30 false [] W_stale) as [[p1 m1]|]; [|discriminate].
  destruct (cp true 30 false m1 p1) as [[p3 m3]|] eqn:E; [|discriminate].
  exists p1, m1, p3, m3. now repeat split.
Qed.

(** a non-trivial member of the class: constants reach through a conditional and a constant-bounds loop *)
Definition P_example : list stmt :=
  [SAssign "k" (EInt 7);
   SAssign "x" (EQuot false (EVar "k") (EInt 2));
   SIf (ECmp Cgt (EVar "n") (EInt 0)) [SAssign "y" (EInt 1)] [SAssign "y" (EInt 1)];
   SAssign "z" (EVar "n");
   SDo "i" (EInt 1) (EVar "x") None [SAssign "z" (EInt 15); SStore "arr" [EVar "i"] (ESum false [EVar "y"; EVar "i"])];
   SAssign "z" (EProd false [EVar "z"; EInt 2])].

Example class_inhabited :
  constprop 30 P_example =
  Some [SAssign "k" (EInt 7);
        SAssign "x" (EInt 3);
        SIf (ECmp Cgt (EVar "n") (EInt 0)) [SAssign "y" (EInt 1)] [SAssign "y" (EInt 1)];
        SAssign "z" (EVar "n");
        SDo "i" (EInt 1) (EInt 3) None [SAssign "z" (EInt 15); SStore "arr" [EVar "i"] (ESum false [EInt 1; EVar "i"])];
        SAssign "z" (EInt 30)].
Proof. vm_compute. reflexivity. Qed.
