(** C36 — main statements: preservation against the canonical Python environment [shift_env], refutations with
    concrete witnesses, the index shift, SIGN. *)
From Coq Require Import ZArith QArith List Bool String Lia ZifyBool.
From LV Require Import Base.Expr Base.MiniF models.M_C10 models.M_C36 proofs.P_C36_base proofs.P_C36_sem proofs.P_C36_range.
Import ListNotations.
Open Scope Z_scope.

(** * [shift_env] is related to the Fortran environment *)
Lemma assoc_s_In {A} (l : list (string * A)) a v : assoc_s l a = Some v -> In (a, v) l.
Proof.
  induction l as [|[k w] r IH]; cbn [assoc_s]; [discriminate|].
  destruct (String.eqb k a) eqn:E.
  - apply String.eqb_eq in E. subst. intros [= <-]. left. reflexivity.
  - intros H. right. apply IH, H.
Qed.

Lemma In_assoc_s {A} (l : list (string * A)) a v : NoDup (map fst l) -> In (a, v) l -> assoc_s l a = Some v.
Proof.
  induction l as [|[k w] r IH]; cbn [map fst assoc_s]; intros Hnd Hin; [contradiction|].
  inversion Hnd as [|? ? Hni Hnd']; subst.
  destruct Hin as [[= -> ->]|Hin].
  - rewrite String.eqb_refl. reflexivity.
  - destruct (String.eqb k a) eqn:E; [|apply IH; assumption].
    apply String.eqb_eq in E. subst. exfalso. apply Hni. apply (in_map fst) in Hin. exact Hin.
Qed.

Lemma is_arr_assoc {A} (l : list (string * A)) a : is_arr (map fst l) a = true -> exists v, assoc_s l a = Some v.
Proof.
  unfold is_arr. induction l as [|[k w] r IH]; cbn [map fst existsb assoc_s]; [discriminate|].
  rewrite String.eqb_sym. destruct (String.eqb k a) eqn:E; [eexists; reflexivity|]. cbn [orb]. exact IH.
Qed.

Lemma pos_roundtrip bs idx : in_box bs idx ->
  map (fun bp : (Z * Z) * Z => fst (fst bp) + snd bp) (combine bs (pos_of bs idx)) = idx.
Proof.
  unfold in_box, pos_of. induction 1 as [|b k bs idx _ _ IH]; [reflexivity|].
  cbn [combine map fst snd]. rewrite IH. f_equal. lia.
Qed.

Lemma shift_env_rel decl rho : NoDup (map fst decl) -> rho_ok decl rho -> env_rel decl rho (shift_env decl rho).
Proof.
  intros Hnd Hok. repeat split.
  - intros a bs Hin. cbn. rewrite (In_assoc_s decl a bs Hnd Hin). reflexivity.
  - intros a idx v Ha Hv. destruct (is_arr_assoc decl a Ha) as (bs & Hbs).
    exists bs. split; [apply assoc_s_In, Hbs|]. pose proof (Hok a bs idx v Hbs Hv) as Hbox.
    split; [exact Hbox|]. cbn. rewrite Hbs, (pos_roundtrip bs idx Hbox). exact Hv.
Qed.

Theorem pyexpr_preserves_on_class decl rho e v :
  NoDup (map fst decl) -> lower_one decl -> arrs_ok (map fst decl) = true -> rho_ok decl rho ->
  py_class (map fst decl) e = true -> evalZ rho e = Some v ->
  evalPy (shift_env decl rho) (pygen_model (map fst decl) e) = POk (VInt v).
Proof.
  intros Hnd Hlb Hok Hr Hc Hv.
  exact (pyexpr_preserves decl rho _ (shift_env_rel decl rho Hnd Hr) Hlb Hok e v Hc Hv).
Qed.

Theorem pycond_preserves_on_class decl rho e b :
  NoDup (map fst decl) -> lower_one decl -> arrs_ok (map fst decl) = true -> rho_ok decl rho ->
  py_class_b (map fst decl) e = true -> evalB rho e = Some b ->
  evalPy (shift_env decl rho) (pygen_model (map fst decl) e) = POk (VBool b).
Proof.
  intros Hnd Hlb Hok Hr Hc Hv.
  exact (pycond_preserves decl rho _ (shift_env_rel decl rho Hnd Hr) Hlb Hok e b Hc Hv).
Qed.

(** the index shift on its own: reading [a(i1,..,in)] in Fortran = reading [a[i1-1,..,in-1]] in Python *)
Theorem index_shift_correct decl rho a idx ks v :
  NoDup (map fst decl) -> lower_one decl -> arrs_ok (map fst decl) = true -> rho_ok decl rho ->
  is_arr (map fst decl) a = true ->
  forallb (py_class (map fst decl)) idx = true -> forallb (no_arr (map fst decl)) idx = true ->
  omap_list (evalZ rho) idx = Some ks -> ev_fun rho a ks = Some v ->
  evalPy (shift_env decl rho) (pygen_model (map fst decl) (ECall a idx)) = POk (VInt v).
Proof.
  intros Hnd Hlb Hok Hr Ha Hc Hn Hk Hv.
  apply pyexpr_preserves_on_class; try assumption.
  - cbn [py_class]. rewrite Hc, Ha, Hn. reflexivity.
  - rewrite evalZ_call, Hk. cbn [obind].
    rewrite (not_intrinsic decl Hok a Ha). exact Hv.
Qed.

(** * The class is inhabited by a non-trivial instance *)
Definition ex_decl : list (string * list (Z * Z)) := [("a"%string, [(1, 4)]); ("b"%string, [(1, 4); (1, 3)])].
Definition ex_rho : env :=
  fenv_of [("n"%string, 3); ("m"%string, -2); ("i"%string, 2)]
          [("a"%string, [([1], 10); ([2], 20); ([3], 30); ([4], 40)]);
           ("b"%string, [([1; 1], 1); ([2; 1], 2); ([3; 1], 3); ([4; 1], 4); ([1; 2], 5); ([2; 2], 6); ([3; 2], 7); ([4; 2], 8);
                 ([1; 3], 9); ([2; 3], 10); ([3; 3], 11); ([4; 3], 12)])].
(** a(i + 1) - b(min(max(n, 1), 4), 2) * abs(m) ** 2 + (-n) *)
Definition ex_expr : expr :=
  ESum false [ECall "a" [ESum false [EVar "i"; EInt 1]];
              EProd false [EPy (-1); EProd false [ECall "b" [ECall "min" [ECall "max" [EVar "n"; EInt 1]; EInt 4]; EInt 2];
                                                  EPow false (ECall "abs" [EVar "m"]) (EInt 2)]];
              EProd true [EPy (-1); EVar "n"]].

(** [rho_ok] for environments given by association lists is decidable *)
Fixpoint in_box_b (bs : list (Z * Z)) (idx : list Z) : bool :=
  match bs, idx with
  | [], [] => true
  | b :: r, k :: q => (fst b <=? k) && (k <=? snd b) && in_box_b r q
  | _, _ => false
  end.

Definition cells_ok (decl : list (string * list (Z * Z))) (cells : list (string * list (list Z * Z))) : bool :=
  forallb (fun al : string * list (list Z * Z) =>
             match assoc_s decl (fst al) with
             | Some bs => forallb (fun iv : list Z * Z => in_box_b bs (fst iv)) (snd al)
             | None => true
             end) cells.

Lemma in_box_b_ok bs idx : in_box_b bs idx = true -> in_box bs idx.
Proof.
  unfold in_box. revert idx. induction bs as [|b r IH]; intros [|k q] H; cbn [in_box_b] in H; try discriminate.
  - constructor.
  - apply andb_prop in H. destruct H as [H1 H2]. constructor; [lia | apply IH, H2].
Qed.

Lemma list_z_eqb_eq a b : list_z_eqb a b = true -> a = b.
Proof.
  revert b. induction a as [|x r IH]; intros [|y q] H; cbn [list_z_eqb] in H; try discriminate; [reflexivity|].
  apply andb_prop in H. destruct H as [H1 H2]. f_equal; [lia | apply IH, H2].
Qed.

Lemma assoc_zs_In l k v : assoc_zs l k = Some v -> In (k, v) l.
Proof.
  induction l as [|[k' w] r IH]; cbn [assoc_zs]; [discriminate|].
  destruct (list_z_eqb k' k) eqn:E.
  - apply list_z_eqb_eq in E. subst. intros [= <-]. left. reflexivity.
  - intros H. right. apply IH, H.
Qed.

Lemma fenv_rho_ok decl sc cells : cells_ok decl cells = true -> rho_ok decl (fenv_of sc cells).
Proof.
  intros H a bs idx v Hbs Hv. cbn in Hv.
  destruct (assoc_s cells a) as [l|] eqn:El; [|discriminate].
  apply assoc_s_In in El. apply assoc_zs_In in Hv.
  unfold cells_ok in H. rewrite forallb_forall in H. specialize (H _ El). cbn [fst snd] in H. rewrite Hbs in H.
  rewrite forallb_forall in H. specialize (H _ Hv). cbn [fst] in H. apply in_box_b_ok, H.
Qed.

Lemma ex_rho_ok : rho_ok ex_decl ex_rho.
Proof. apply fenv_rho_ok. reflexivity. Qed.

Lemma class_inhabited :
  NoDup (map fst ex_decl) /\ lower_one ex_decl /\ arrs_ok (map fst ex_decl) = true /\ rho_ok ex_decl ex_rho /\
  py_class (map fst ex_decl) ex_expr = true /\ evalZ ex_rho ex_expr = Some (-1) /\
  evalPy (shift_env ex_decl ex_rho) (pygen_model (map fst ex_decl) ex_expr) = POk (VInt (-1)).
Proof.
  split; [|split; [|split; [|split; [|split; [|split]]]]]; try reflexivity.
  - cbn. repeat constructor; cbn; intuition discriminate.
  - intros a bs [[= <- <-]|[[= <- <-]|[]]]; repeat constructor.
  - apply ex_rho_ok.
Qed.

(** * Refutations of the unconditional statement (each with the value CPython computes for the generated text) *)
Definition rho_nm (n m : Z) : env := fenv_of [("n"%string, n); ("m"%string, m)] [].

(** F12: integer division becomes true division *)
Lemma py_int_division_refuted :
  exists rho e v, evalZ rho e = Some v /\
    evalPy (shift_env [] rho) (pygen_model [] e) = POk (VFloat (7 # 2)) /\ v = 3.
Proof. exists (rho_nm 7 2), (EQuot false (EVar "n") (EVar "m")), 3. repeat split. Qed.

(** ... and the damage is not repaired by converting the final result back to an integer: (n/m)*m *)
Lemma py_int_division_refuted_2 :
  exists rho e, evalZ rho e = Some 6 /\ evalPy (shift_env [] rho) (pygen_model [] e) = POk (VFloat (7 # 1)).
Proof. exists (rho_nm 7 2), (EProd false [EQuot true (EVar "n") (EVar "m"); EVar "m"]). split; reflexivity. Qed.

(** mod is emitted verbatim: an undefined name *)
Lemma py_mod_refuted :
  exists rho e v, evalZ rho e = Some v /\ evalPy (shift_env [] rho) (pygen_model [] e) = PErr (ENameError "mod").
Proof. exists (rho_nm 7 2), (ECall "mod" [EVar "n"; EVar "m"]), 1. split; reflexivity. Qed.

(** a negative exponent: Fortran's integer 2**(-1) = 0, Python's 0.5 *)
Lemma py_neg_exponent_refuted :
  exists rho e, evalZ rho e = Some 0 /\ evalPy (shift_env [] rho) (pygen_model [] e) = POk (VFloat (1 # 2)).
Proof. exists (rho_nm 0 0), (EPow false (EInt 2) (EProd true [EPy (-1); EInt 1])). split; reflexivity. Qed.

(** a subscript inside a subscript is not shifted: a(b(n)) becomes a[b[n] - 1] *)
Definition nest_decl : list (string * list (Z * Z)) := [("a"%string, [(1, 4)]); ("b"%string, [(1, 4)])].
Definition nest_rho : env :=
  fenv_of [("n"%string, 1)]
          [("a"%string, [([1], 10); ([2], 20); ([3], 30); ([4], 40)]); ("b"%string, [([1], 2); ([2], 3); ([3], 4); ([4], 1)])].
Lemma py_nested_index_refuted :
  exists e, evalZ nest_rho e = Some 20 /\
    evalPy (shift_env nest_decl nest_rho) (pygen_model (map fst nest_decl) e) = POk (VInt 30).
Proof. exists (ECall "a" [ECall "b" [EVar "n"]]). split; reflexivity. Qed.

(** the declared lower bound is ignored: c(0:3), c(0) becomes c[-1], the LAST element *)
Definition lb_decl : list (string * list (Z * Z)) := [("c"%string, [(0, 3)])].
Definition lb_rho : env := fenv_of [] [("c"%string, [([0], 5); ([1], 6); ([2], 7); ([3], 8)])].
Lemma py_lower_bound_refuted :
  exists e, evalZ lb_rho e = Some 5 /\
    evalPy (shift_env lb_decl lb_rho) (pygen_model (map fst lb_decl) e) = POk (VInt 8).
Proof. exists (ECall "c" [EInt 0]). split; reflexivity. Qed.

(** SIGN(a, b) becomes a * np.sign(b): right for a >= 0 and b <> 0 only *)
Lemma py_sign_value rho x y :
  evalPy (shift_env [] rho) (pygen_model [] (ECall "sign" [EVar x; EVar y]))
  = POk (VInt (ev_var rho x * Z.sgn (ev_var rho y))).
Proof. reflexivity. Qed.

Lemma py_sign_on_class rho x y : 0 <= ev_var rho x -> ev_var rho y <> 0 ->
  evalPy (shift_env [] rho) (pygen_model [] (ECall "sign" [EVar x; EVar y]))
  = POk (VInt (fortran_sign (ev_var rho x) (ev_var rho y))).
Proof.
  intros Hx Hy. rewrite py_sign_value. unfold fortran_sign. do 2 f_equal.
  destruct (0 <=? ev_var rho y) eqn:E; lia.
Qed.

Lemma py_sign_refuted :
  exists rho, evalPy (shift_env [] rho) (pygen_model [] (ECall "sign" [EVar "n"; EVar "m"])) = POk (VInt (-3)) /\
              fortran_sign (ev_var rho "n") (ev_var rho "m") = 3.
Proof. exists (rho_nm (-3) 2). split; reflexivity. Qed.

Lemma py_sign_zero_refuted :
  exists rho, evalPy (shift_env [] rho) (pygen_model [] (ECall "sign" [EVar "n"; EVar "m"])) = POk (VInt 0) /\
              fortran_sign (ev_var rho "n") (ev_var rho "m") = 3.
Proof. exists (rho_nm 3 0). split; reflexivity. Qed.
