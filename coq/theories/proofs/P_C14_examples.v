(** C14 — the hypotheses of the theorems are satisfiable by non-trivial instances. *)
From Coq Require Import ZArith List Bool Lia Arith.
From LV Require Import models.M_C14 proofs.P_C14_inject proofs.P_C14_spec.
Import ListNotations.
Open Scope Z_scope.

(** Section[ c1, Loop[c2, c3], Associate[c4] ] with  c2 -> (new5, c2),  c3 -> None,  Loop... unmapped,
    c4 -> new6, c1 -> (new7, new8)  — inside [spec_class]; the result is the spliced tree. *)
Definition ex_c2 := Nd 3 K_Comment 0 2 [].
Definition ex_tree : item :=
  Nd 1 K_Section 0 0 [Tup [Nd 2 K_Comment 0 1 [];
                           Nd 5 K_Loop 1 0 [Obj 0; Obj 1; Tup [ex_c2; Nd 4 K_Comment 0 3 []]];
                           Nd 6 K_Associate 0 0 [Tup [Nd 7 K_Comment 0 4 []]; Tup [Tup [Obj 2; Obj 3]]]]].
Definition ex_map : mapper :=
  [(ex_c2, HTup [Nd 8 K_Comment 0 5 []; ex_c2]); (Nd 4 K_Comment 0 3 [], HNone);
   (Nd 7 K_Comment 0 4 [], HNode (Nd 9 K_Pragma 0 6 [])); (Nd 2 K_Comment 0 1 [], HTup [Nd 10 K_Comment 0 7 []; Nd 11 K_Comment 0 8 []])].
Definition ex_cfg : cfg := Build_cfg TPlain ex_map false true true [] false false.

Example ex_in_class : spec_class ex_map ex_tree = true.
Proof. reflexivity. Qed.

Example ex_result :
  res_item (visit 20 ex_cfg None ex_tree (init_ms false [])) =
  Some (Nd 0 K_Section 0 0 [Tup [Nd 0 K_Comment 0 7 []; Nd 0 K_Comment 0 8 [];
                                 Nd 0 K_Loop 3 0 [Obj 0; Obj 1; Tup [Nd 0 K_Comment 0 5 []; Nd 0 K_Comment 0 2 []]];
                                 Nd 0 K_Associate 0 0 [Tup [Nd 0 K_Pragma 0 6 []]; Tup [Tup [Obj 2; Obj 3]]]]]).
Proof. reflexivity. Qed.

Example ex_spec_agrees : spec ex_cfg ex_tree = res_item (visit 20 ex_cfg None ex_tree (init_ms false [])).
Proof. reflexivity. Qed.

(** masked: Section[c1, Loop[c2, c3], c4] with start = {c2}, stop = {c4}: the loop is dropped, c2 and c3 stay *)
Definition ex_mtree : item :=
  Nd 1 K_Section 0 0 [Tup [Nd 2 K_Comment 0 1 [];
                           Nd 5 K_Loop 0 0 [Obj 0; Obj 1; Tup [Nd 3 K_Comment 0 2 []; Nd 4 K_Comment 0 3 []]];
                           Nd 6 K_Comment 0 4 []]].
Definition ex_mcfg : cfg := Build_cfg TMasked [] false true true [Nd 6 K_Comment 0 4 []] false false.
Example ex_masked :
  option_map preorder (res_item (visit 20 ex_mcfg None ex_mtree (init_ms false [Nd 3 K_Comment 0 2 []]))) =
  Some [(K_Comment, 2); (K_Comment, 3)] /\
  selected (fst (scan ex_mcfg ex_mtree (init_ms false [Nd 3 K_Comment 0 2 []]))) = [(K_Comment, 2); (K_Comment, 3)].
Proof. split; reflexivity. Qed.
