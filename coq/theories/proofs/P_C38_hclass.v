(** C38 — hoisting: on proper call trees (every kernel has pairwise distinct callees, all hoisted names of the
    unfolded tree are distinct, shapes/actuals closed over the kernel's dummies) the shapes the driver declares
    evaluate EXACTLY to what every activation needs. *)
From Coq Require Import ZArith List Bool String Lia.
From LV Require Import Base.Expr models.M_C38 proofs.P_C38_expr proofs.P_C38.
Import ListNotations.
Open Scope string_scope.
Open Scope list_scope.
Open Scope Z_scope.

Scheme kernel_mut := Induction for kernel Sort Prop
with calls_mut := Induction for calls Sort Prop.
Combined Scheme kernel_calls_ind from kernel_mut, calls_mut.

Fixpoint hnames (k : kernel) : list string :=
  match k with Kern nm ps ts cs => map fst (own_hoist nm ts) ++ hnames_cs cs end
with hnames_cs (cs : calls) : list string :=
  match cs with CNil => [] | CCons _ k rest => hnames k ++ hnames_cs rest end.

Fixpoint hclosed (k : kernel) : bool :=
  match k with
  | Kern nm ps ts cs => forallb (fun t => forallb (closedb ps) (t_dims t)) ts && hclosed_cs ps cs
  end
with hclosed_cs (ps : list string) (cs : calls) : bool :=
  match cs with
  | CNil => true
  | CCons acts k rest => forallb (closedb ps) acts && hclosed k && hclosed_cs ps rest
  end.

Fixpoint uniq_callees (k : kernel) : Prop :=
  match k with Kern _ _ _ cs => NoDup (call_names cs) /\ uniq_cs cs end
with uniq_cs (cs : calls) : Prop :=
  match cs with CNil => True | CCons _ k rest => uniq_callees k /\ uniq_cs rest end.

Definition evalhv (rho : env) (v : string * list expr) : option (string * Z) :=
  match omap_list (evalZ rho) (snd v) with Some ds => Some (fst v, prodz ds) | None => None end.

Definition substdims (s : list (string * expr)) (v : string * list expr) : string * list expr := (fst v, map (subst s) (snd v)).

Lemma omap_list_app {A B} (f : A -> option B) a b :
  omap_list f (a ++ b) = obind (omap_list f a) (fun x => obind (omap_list f b) (fun y => Some (x ++ y))).
Proof.
  induction a as [|x r IH]; cbn [app omap_list obind].
  - destruct (omap_list f b); reflexivity.
  - destruct (f x); cbn [obind]; [|reflexivity]. rewrite IH.
    destruct (omap_list f r); cbn [obind]; [|reflexivity].
    destruct (omap_list f b); reflexivity.
Qed.

Lemma filter_all {A} (f : A -> bool) l : (forall x, In x l -> f x = true) -> filter f l = l.
Proof.
  induction l as [|x r IH]; intro H; [reflexivity|]. cbn. rewrite (H x (or_introl eq_refl)).
  f_equal. apply IH. intros y Hy. apply H. right. exact Hy.
Qed.

Lemma evalhv_names rho (l : list (string * list expr)) n : omap_list (evalhv rho) l = Some n -> map fst n = map fst l.
Proof.
  revert n. induction l as [|v r IH]; intros n H; cbn [omap_list] in H.
  - inversion H. reflexivity.
  - unfold evalhv at 1 in H. destruct (omap_list (evalZ rho) (snd v)); cbn [obind] in H; [|discriminate].
    destruct (omap_list (evalhv rho) r) eqn:E; cbn [obind] in H; [|discriminate].
    inversion H. cbn. f_equal. apply IH. reflexivity.
Qed.

Lemma evalhv_subst rho ps acts vs (l : list (string * list expr)) :
  List.length ps = List.length acts -> omap_list (evalZ rho) acts = Some vs ->
  omap_list (evalhv rho) (map (substdims (combine ps acts)) l) = omap_list (evalhv (upd rho ps vs)) l.
Proof.
  intros HL HE. rewrite omap_list_map. apply omap_list_ext. rewrite Forall_forall. intros v _.
  unfold evalhv, substdims. cbn [fst snd]. rewrite omap_list_map.
  assert (E : omap_list (fun x => evalZ rho (subst (combine ps acts) x)) (snd v) = omap_list (evalZ (upd rho ps vs)) (snd v)).
  { apply omap_list_ext. rewrite Forall_forall. intros e _. apply subst_eval; assumption. }
  rewrite E. reflexivity.
Qed.

Lemma mem_false x l : ~ In x l -> mem x l = false.
Proof.
  intro H. destruct (mem x l) eqn:E; [|reflexivity]. apply mem_In in E. contradiction.
Qed.

Lemma NoDup_app_inv {A} (a b : list A) :
  NoDup (a ++ b) -> NoDup a /\ NoDup b /\ (forall x, In x a -> ~ In x b).
Proof.
  induction a as [|x r IH]; cbn; intro H.
  - repeat split; [constructor|exact H|intros x []].
  - inversion H as [|? ? Hx Hr]; subst. destruct (IH Hr) as [Na [Nb D]]. repeat split.
    + constructor; [|exact Na]. intro I. apply Hx. apply in_or_app. left. exact I.
    + exact Nb.
    + intros y [Hy|Hy] Hb; [subst; apply Hx; apply in_or_app; right; exact Hb|exact (D y Hy Hb)].
Qed.

Lemma map_fst_substdims s (l : list (string * list expr)) : map fst (map (substdims s) l) = map fst l.
Proof. induction l as [|v r IH]; cbn; [reflexivity|]. rewrite IH. reflexivity. Qed.

Lemma hoist_class_gen :
  (forall k, hclosed k = true -> uniq_callees k -> NoDup (hnames k) ->
     map fst (hoist k) = hnames k /\
     forall g rho N, needs g k rho = Some N -> funeq rho g ->
       forall rho', agree (kparams_c k) rho' rho -> omap_list (evalhv rho') (hoist k) = Some N) /\
  (forall cs ps, hclosed_cs ps cs = true -> uniq_cs cs -> NoDup (call_names cs) -> NoDup (hnames_cs cs) ->
     exists contrib,
       (forall acc, (forall x, In x (hnames_cs cs) -> ~ In x (map fst acc)) -> hoist_cs cs acc = acc ++ contrib) /\
       map fst contrib = hnames_cs cs /\
       forall g rho N, needs_cs g cs rho = Some N -> funeq rho g ->
         forall rho', agree ps rho' rho -> omap_list (evalhv rho') contrib = Some N).
Proof.
  unfold hvar. apply kernel_calls_ind.
  - (* kernel *)
    intros nm ps ts cs IHcs C U ND. unfold hvar in *.
    cbn [hclosed] in C. apply andb_prop in C. destruct C as [Ct Cc].
    cbn [uniq_callees] in U. destruct U as [Un Uc].
    cbn [hnames] in ND. destruct (NoDup_app_inv _ _ ND) as [_ [Nc Dj]].
    destruct (IHcs ps Cc Uc Un Nc) as [contrib [Hacc [Hn He]]].
    assert (Hh : hoist (Kern nm ps ts cs) = own_hoist nm ts ++ contrib).
    { cbn [hoist]. apply Hacc. intros x Hx Ho. exact (Dj x Ho Hx). }
    split.
    + rewrite Hh, map_app. cbn [hnames]. f_equal. exact Hn.
    + intros g rho N Hneeds Fg rho' A. rewrite Hh. cbn [needs] in Hneeds.
      match type of Hneeds with context [omap_list ?f (filter hoistable ts)] => set (F := f) in * end.
      destruct (omap_list F (filter hoistable ts)) as [own|] eqn:Eo; [|discriminate].
      destruct (needs_cs g cs rho) as [r|] eqn:Er; [|discriminate]. inversion Hneeds; subst N.
      rewrite omap_list_app.
      assert (Eown : omap_list (evalhv rho') (own_hoist nm ts) = Some own).
      { unfold own_hoist. rewrite omap_list_map. rewrite <- Eo. apply omap_list_ext. rewrite Forall_forall.
        intros t Ht. unfold evalhv, F. cbn [fst snd].
        apply filter_In in Ht. destruct Ht as [Ht _]. rewrite forallb_forall in Ct. specialize (Ct t Ht).
        cbn [kparams_c] in A. rewrite (omap_closed ps rho' rho (t_dims t) Ct A). reflexivity. }
      rewrite Eown. cbn [obind]. cbn [kparams_c] in A. rewrite (He g rho r Er Fg rho' A). reflexivity.
  - (* no calls *)
    intros ps C U Nn Nh. unfold hvar in *. exists []. repeat split.
    + intros acc _. cbn. rewrite app_nil_r. reflexivity.
    + intros g rho N H _ rho' _. cbn in H. inversion H. reflexivity.
  - (* a call *)
    intros acts k IHk rest IHrest ps C U Nn Nh. unfold hvar in *.
    cbn [hclosed_cs] in C. apply andb_prop in C. destruct C as [C Cr]. apply andb_prop in C. destruct C as [Ca Ck].
    cbn [uniq_cs] in U. destruct U as [Uk Ur].
    cbn [call_names] in Nn. inversion Nn as [|? ? Hnot Nr]; subst.
    cbn [hnames_cs] in Nh. destruct (NoDup_app_inv _ _ Nh) as [Nk [Nrs Dj]].
    destruct (IHk Ck Uk Nk) as [Hnames Hev].
    destruct (IHrest ps Cr Ur Nr Nrs) as [cr [Hacc [Hn He]]].
    set (s := combine (kparams_c k) acts).
    exists (map (substdims s) (hoist k) ++ cr). repeat split.
    + intros acc Hd. cbn [hoist_cs]. rewrite (mem_false _ _ Hnot). fold s.
      assert (Fl : filter (fun v => negb (mem (fst v) (map fst acc))) (hoist k) = hoist k).
      { apply filter_all. intros v Hv. apply Bool.negb_true_iff. apply mem_false.
        apply Hd. cbn [hnames_cs]. apply in_or_app. left. rewrite <- Hnames. apply in_map. exact Hv. }
      rewrite Fl.
      change (map (fun v => (fst v, map (subst s) (snd v))) (hoist k)) with (map (substdims s) (hoist k)).
      rewrite Hacc.
      * rewrite app_assoc. reflexivity.
      * intros x Hx. rewrite map_app, map_fst_substdims, Hnames. intro I. apply in_app_or in I. destruct I as [I|I].
        -- apply (Hd x); [cbn [hnames_cs]; apply in_or_app; right; exact Hx|exact I].
        -- exact (Dj x I Hx).
    + rewrite map_app, map_fst_substdims, Hnames, Hn. reflexivity.
    + intros g rho N H Fg rho' A. cbn [needs_cs] in H.
      destruct (call_env g rho (kparams_c k) acts) as [rc|] eqn:CE; [|discriminate].
      unfold call_env in CE. destruct (Nat.eqb (List.length (kparams_c k)) (List.length acts)) eqn:HL; [|discriminate].
      apply Nat.eqb_eq in HL. destruct (omap_list (evalZ rho) acts) as [vs|] eqn:EA; [|discriminate].
      inversion CE; subst rc. clear CE.
      destruct (needs g k (bind g (kparams_c k) vs)) as [a|] eqn:Na; [|discriminate].
      destruct (needs_cs g rest rho) as [b|] eqn:Nb; [|discriminate]. inversion H; subst N.
      assert (EA' : omap_list (evalZ rho') acts = Some vs) by (rewrite (omap_closed ps rho' rho acts Ca A); exact EA).
      rewrite omap_list_app. unfold s. rewrite (evalhv_subst rho' _ _ vs _ HL EA').
      assert (HLv : List.length (kparams_c k) = List.length vs) by (rewrite (omap_list_length _ _ _ EA); exact HL).
      assert (Fb : funeq (bind g (kparams_c k) vs) g) by (intros f x; reflexivity).
      assert (Fr' : funeq rho' g) by (intros f x; destruct A as [_ Af]; rewrite Af; apply Fg).
      rewrite (Hev g _ a Na Fb (upd rho' (kparams_c k) vs) (agree_bind _ _ _ _ HLv Fr')).
      cbn [obind]. rewrite (He g rho b Nb Fg rho' A). reflexivity.
Qed.

Lemma assoc_zs_nodup n x v : NoDup (map fst n) -> In (x, v) n -> assoc_zs n x = Some v.
Proof.
  induction n as [|[k w] r IH]; intros ND I; [destruct I|].
  cbn [map fst] in ND. inversion ND as [|? ? Hk Hr]; subst. cbn [assoc_zs].
  destruct I as [I|I].
  - inversion I; subst. rewrite String.eqb_refl. reflexivity.
  - destruct (String.eqb k x) eqn:E.
    + apply String.eqb_eq in E. subst. exfalso. apply Hk. change x with (fst (x, v)). apply in_map. exact I.
    + apply IH; assumption.
Qed.

Theorem hoist_enough_on_class g nm ps ts cs rho d n :
  hclosed_cs ps cs = true -> uniq_cs cs -> NoDup (call_names cs) -> NoDup (hnames_cs cs) -> funeq rho g ->
  hoist_decl (Kern nm ps ts cs) rho = Some d -> needs_cs g cs rho = Some n ->
  d = n /\ hoist_enough g (Kern nm ps ts cs) rho = Some true.
Proof.
  intros C U Nn Nh F Hd Hn.
  destruct hoist_class_gen as [_ Q]. destruct (Q cs ps C U Nn Nh) as [contrib [Hacc [Hnm He]]].
  assert (Hdr : hoist_driver (Kern nm ps ts cs) = contrib).
  { cbn [hoist_driver]. apply (Hacc []). intros x _ []. }
  assert (E : omap_list (evalhv rho) contrib = Some n) by (apply (He g rho n Hn F rho (agree_refl _ _))).
  assert (Edn : d = n).
  { unfold hoist_decl in Hd. rewrite Hdr in Hd. change (omap_list (evalhv rho) contrib = Some d) in Hd.
    rewrite E in Hd. inversion Hd. reflexivity. }
  split; [exact Edn|]. unfold hoist_enough. rewrite Hd, Hn. subst d. f_equal.
  apply forallb_forall. intros [x v] I.
  assert (ND : NoDup (map fst n)) by (rewrite (evalhv_names _ _ _ E), Hnm; exact Nh).
  cbn [fst snd]. rewrite (assoc_zs_nodup n x v ND I). apply Z.leb_refl.
Qed.

(** the class is inhabited by a non-trivial tree: driver -> k0 {t(nlon,m)} -> k1 {w(nlon,p)} with p = m+1 *)
Definition c_k1 : kernel := Kern "k1" ["nlon"; "p"] [{| t_name := "w"; t_cls := 0; t_bytes := 4; t_dims := [EVar "nlon"; EVar "p"] |}] CNil.
Definition c_k0 : kernel := Kern "k0" ["nlon"; "m"] [{| t_name := "t"; t_cls := 0; t_bytes := 4; t_dims := [EVar "nlon"; EVar "m"] |}]
  (CCons [EVar "nlon"; ESum false [EVar "m"; EInt 1]] c_k1 CNil).
Definition c_cs : calls := CCons [EVar "nlon"; EVar "nz"] c_k0 CNil.

Example hoist_class_nonvacuous :
  hclosed_cs ["nlon"; "nz"; "nb"] c_cs = true /\ uniq_cs c_cs /\ NoDup (call_names c_cs) /\ NoDup (hnames_cs c_cs) /\
  hoist_decl (Kern "driver" ["nlon"; "nz"; "nb"] [] c_cs) (cenv [("nlon", 3); ("nz", 2)]) = Some [("k0_t", 6); ("k1_w", 9)].
Proof.
  split; [vm_compute; reflexivity|]. split.
  - cbn. repeat split; repeat constructor; cbn; intuition discriminate.
  - split; [cbn; repeat constructor; cbn; intuition|]. split.
    + vm_compute. repeat constructor; cbn; intuition discriminate.
    + vm_compute. reflexivity.
Qed.
