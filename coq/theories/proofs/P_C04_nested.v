(** C04 — content preservation for the shape that format_line + join_items builds:
    a list whose items are strings or lists of strings, all with the same width and continuation. *)
From Coq Require Import ZArith List Bool Ascii Lia ZifyBool.
From Coq Require String.
From LV Require Import models.M_C04 proofs.P_C04 proofs.P_C04_wit.
Import ListNotations.
Open Scope Z_scope.

Definition uniform (p q : P) : Prop := width q = width p /\ c0 q = c0 p /\ c1 q = c1 p.
Definition nonempty (s : str) : Prop := s <> [].

(** an item of the outer list as [_add_item_to_line] sees it *)
Definition d1_item (p : P) (it : item) : Prop :=
  match it with
  | IStr s => s <> []
  | IJ q its => uniform p q /\ exists ss, its = map IStr ss /\ ss <> [] /\ Forall nonempty ss
  end.
(** an item of the outer list as given (empty strings are skipped by [_to_str]) *)
Definition d1_top (p : P) (it : item) : Prop :=
  match it with IStr _ => True | IJ _ _ => d1_item p it end.

Lemma fits_uniform p q x : uniform p q -> fits q x = fits p x.
Proof. intros (Hw & H0 & _). unfold fits. now rewrite Hw, H0. Qed.

Lemma Brk_uniform p q s t : uniform p q -> Brk q s t -> Brk p s t.
Proof.
  intros (_ & H0 & H1). induction 1; [constructor | constructor; assumption |].
  rewrite H0, H1. constructor. assumption.
Qed.

Lemma Brk_nonempty p s t : Brk p s t -> s <> [] -> t <> [].
Proof.
  induction 1; intros Hs; [congruence | discriminate |].
  intros E. apply app_eq_nil in E. destruct E as [_ E]. apply app_eq_nil in E. destruct E as [_ E]. now apply IHBrk.
Qed.

Lemma fits_shorter p x y : fits p y = true -> len x <= len y -> fits p x = true.
Proof. unfold fits. lia. Qed.

(** ** flat text of lists of strings *)
Lemma flatsk_strs q ss : flatsk (IJ q (map IStr ss)) = flat_skip q ss.
Proof.
  cbn [flatsk]. unfold flat_skip. induction ss as [|s rest IH]; cbn [map flatsk_list pieces concat]; [reflexivity|].
  cbn [flatsk]. destruct s as [|c s']; [exact IH|].
  cbn [concat]. rewrite IH.
  assert (E : match map IStr rest with [] => [] | _ :: _ => sep q end = match rest with [] => [] | _ :: _ => sep q end)
    by (destruct rest; reflexivity).
  rewrite E, <- app_assoc. reflexivity.
Qed.

Lemma flat_skip_nonempty q ss : ss <> [] -> Forall nonempty ss -> flat_skip q ss <> [].
Proof.
  intros Hn Hf. destruct ss as [|s rest]; [congruence|]. inversion Hf; subst.
  unfold flat_skip. cbn [pieces]. destruct s as [|c s']; [unfold nonempty in *; congruence|]. cbn. discriminate.
Qed.

Lemma flat_skip_app q ss1 ss2 :
  Forall nonempty ss1 -> ss2 <> [] ->
  flat_skip q (ss1 ++ ss2) = concat (map (fun s => s ++ sep q) ss1) ++ flat_skip q ss2.
Proof.
  intros Hf Hn. unfold flat_skip. induction Hf as [|s rest Hs _ IH]; cbn [app map concat pieces]; [reflexivity|].
  destruct s as [|c s']; [unfold nonempty in Hs; congruence|].
  cbn [concat]. rewrite IH.
  destruct (rest ++ ss2) eqn:E; [apply app_eq_nil in E; destruct E; congruence|].
  rewrite <- !app_assoc. reflexivity.
Qed.

(** everything fits: nothing is wrapped *)
Lemma wrap_lines_fit q ss : forall line,
  fits q (line ++ flat_skip q ss) = true -> wrap_lines q ss line = ([], line ++ flat_skip q ss).
Proof.
  unfold flat_skip. induction ss as [|s rest IH]; intros line Hf; cbn [wrap_lines pieces concat].
  - now rewrite app_nil_r.
  - destruct s as [|c s']; [apply IH; exact Hf|].
    cbn [pieces concat] in Hf. set (sp := match rest with [] => [] | _ => sep q end) in *.
    unfold add_str.
    assert (F : fits q (line ++ (c :: s') ++ sp) = true).
    { eapply fits_shorter; [exact Hf|]. rewrite !len_app. pose proof (len_nonneg (concat (pieces q rest))). lia. }
    rewrite F. rewrite IH.
    + cbn [app]. rewrite <- !app_assoc. reflexivity.
    + rewrite <- !app_assoc. rewrite <- !app_assoc in Hf. exact Hf.
Qed.

(** ** [item + sep] on a list of strings *)
Fixpoint app_last (ss : list str) (sp : str) : list str :=
  match ss with
  | [] => [sp]
  | s :: t => match t with [] => [s ++ sp] | _ => s :: app_last t sp end
  end.

Lemma add_sfx_strs q ss sp : add_sfx (IJ q (map IStr ss)) sp = IJ q (map IStr (app_last ss sp)).
Proof.
  cbn [add_sfx]. f_equal. induction ss as [|s t IH]; [reflexivity|].
  cbn [map app_last]. destruct t as [|s2 t']; [reflexivity|].
  cbn [map] in *. rewrite IH. reflexivity.
Qed.

Lemma app_last_nonempty ss sp : ss <> [] -> Forall nonempty ss -> app_last ss sp <> [] /\ Forall nonempty (app_last ss sp).
Proof.
  intros Hn Hf. induction Hf as [|s t Hs Ht IH]; [congruence|].
  cbn [app_last]. destruct t as [|s2 t'].
  - split; [discriminate|]. constructor; [|constructor]. unfold nonempty in *. destruct s; [congruence | discriminate].
  - destruct IH as [_ IH]; [discriminate|]. split; [discriminate | constructor; assumption].
Qed.

Lemma flat_skip_app_last q ss sp :
  ss <> [] -> Forall nonempty ss -> flat_skip q (app_last ss sp) = flat_skip q ss ++ sp.
Proof.
  intros Hn Hf. unfold flat_skip. induction Hf as [|s t Hs Ht IH]; [congruence|].
  cbn [app_last]. destruct s as [|c s']; [unfold nonempty in Hs; congruence|].
  destruct t as [|s2 t'].
  - cbn. rewrite !app_nil_r. reflexivity.
  - cbn [pieces concat]. rewrite IH; [|discriminate].
    assert (E : app_last (s2 :: t') sp <> []) by (cbn; destruct t'; discriminate).
    destruct (app_last (s2 :: t') sp) eqn:E2; [congruence|].
    rewrite <- !app_assoc. reflexivity.
Qed.

Lemma join_res_strs f sp ss : join_res (str_of f) sp (map IStr ss) = Ok (join sp ss).
Proof.
  induction ss as [|s t IH]; [reflexivity|].
  cbn [map join_res join]. rewrite str_of_IStr. destruct t as [|s2 t']; [reflexivity|].
  cbn [map] in *. rewrite IH. reflexivity.
Qed.

(** ** break marks that emit no line are all [false] *)
Lemma renderb_no_lines p m : forall line,
  fst (renderb p line m) = [] -> snd (renderb p line m) = line ++ concat (map snd m).
Proof.
  induction m as [|[b a] r IH]; intros line H; cbn [renderb map snd concat] in *.
  - now rewrite app_nil_r.
  - destruct b.
    + destruct (renderb p (c1 p ++ a) r). discriminate.
    + rewrite IH; [now rewrite <- app_assoc | exact H].
Qed.

Lemma add_str_no_lines p line s l : s <> [] -> add_str p line s = (l, []) -> l = line ++ s.
Proof.
  intros Hs E. destruct (add_str_marks p line s Hs) as (m & Hm & Hr).
  rewrite E in Hr. unfold swap in Hr; cbn [fst snd] in Hr.
  pose proof (renderb_no_lines p m line) as H. rewrite <- Hr in H. cbn [fst snd] in H.
  rewrite H, Hm, chunk_list_concat; reflexivity.
Qed.

Lemma add_str_brk p line s :
  s <> [] -> exists t, concat (snd (add_str p line s)) ++ fst (add_str p line s) = line ++ t /\ Brk p s t.
Proof.
  intros Hs. destruct (add_str_marks p line s Hs) as (m & Hm & Hr).
  destruct (renderb_brk p m line) as (t & Ht & Hb).
  exists t. rewrite <- Hr in Ht. unfold text_of, swap in Ht. cbn [fst snd] in Ht.
  split; [exact Ht|]. rewrite Hm, chunk_list_concat in Hb. exact Hb.
Qed.

Lemma pieces_cons q s rest :
  s <> [] -> pieces q (s :: rest) = (s ++ match rest with [] => [] | _ => sep q end) :: pieces q rest.
Proof. destruct s; [congruence | reflexivity]. Qed.

(** ** the re-entry [_to_str(line, stop_on_continuation=True)] on a list of strings *)
Lemma stop_loop f q ss : Forall nonempty ss -> forall line r,
  to_str_loop (add_item f q) (str_of f) (sep q) true (map IStr ss) line [] = Ok r ->
  r = (line ++ flat_skip q ss, None) \/
  exists ss1 ss2, ss = ss1 ++ ss2 /\ ss2 <> [] /\ Forall nonempty ss1 /\
                  r = (line ++ concat (map (fun s => s ++ sep q) ss1), Some (map IStr ss2)).
Proof.
  induction 1 as [|s rest Hs Hrest IH]; intros line r; cbn [map to_str_loop].
  - intros [= <-]. left. unfold flat_skip. cbn. rewrite app_nil_r. reflexivity.
  - rewrite str_of_IStr.
    assert (Hn : is_nil s = false) by (destruct s; [unfold nonempty in Hs; congruence | reflexivity]). rewrite Hn.
    cbn [add_sfx]. rewrite add_item_IStr.
    assert (E : match map IStr rest with [] => [] | _ :: _ => sep q end = match rest with [] => [] | _ :: _ => sep q end)
      by (destruct rest; reflexivity).
    rewrite E. set (sp := match rest with [] => [] | _ :: _ => sep q end).
    assert (Hsp : s ++ sp <> []) by (destruct s; [unfold nonempty in Hs; congruence | discriminate]).
    destruct (add_str q line (s ++ sp)) as [line' ls] eqn:A.
    destruct ls as [|l0 ls']; cbn [is_nil negb andb app].
    + apply add_str_no_lines in A; [|exact Hsp]. subst line'.
      intros Hr. apply IH in Hr. destruct Hr as [-> | (ss1 & ss2 & -> & Hn2 & Hf1 & ->)].
      * left. unfold flat_skip. rewrite pieces_cons by exact Hs. cbn [concat]. fold sp.
        rewrite <- !app_assoc. reflexivity.
      * right. exists (s :: ss1), ss2. repeat split; auto.
        cbn [map concat]. unfold sp. destruct (ss1 ++ ss2) eqn:E2; [apply app_eq_nil in E2; destruct E2; congruence|].
        rewrite <- !app_assoc. reflexivity.
    + intros [= <-]. right. exists [], (s :: rest). cbn. rewrite app_nil_r. repeat split; auto. discriminate.
Qed.

(** ** [_add_item_to_line] on a string or a list of strings *)
Lemma add_item_S f p line q qits :
  add_item (S f) p line (IJ q qits) =
  match str_of f (IJ q qits) with
  | Err e => Err e
  | Ok s =>
    if fits p (line ++ s) then Ok (line ++ s, []) else
    let itfits := fits p (c1 p ++ s) in
    let fall (_ : unit) : res (str * list str) :=
      if itfits then Ok (c1 p ++ s, [line ++ c0 p])
      else match join_res (str_of f) (sep q) qits with
           | Err e => Err e
           | Ok istr => Ok (chunk_path p line istr)
           end in
    if (separable q || negb itfits) && (1 <? Z.of_nat (List.length qits)) then
      match to_str f q qits line true with
      | Err e => Err e
      | Ok (_, None) => Err EAttr
      | Ok (line_, Some rest) =>
        if (List.length rest <? List.length qits)%nat then
          match add_item f p (c1 p) (IJ q rest) with
          | Err e => Err e
          | Ok (nl, ls) => Ok (nl, (line_ ++ c0 p) :: ls)
          end
        else fall tt
      end
    else fall tt
  end.
Proof. reflexivity. Qed.

Lemma to_str_S_strs f q ss line stop :
  ss <> [] ->
  to_str (S f) q (map IStr ss) line stop = to_str_loop (add_item f q) (str_of f) (sep q) stop (map IStr ss) line [].
Proof. destruct ss; [congruence | reflexivity]. Qed.

Lemma add_item_d1 : forall f p line it nl ls,
  d1_item p it -> add_item f p line it = Ok (nl, ls) ->
  exists t, concat ls ++ nl = line ++ t /\ Brk p (flatsk it) t.
Proof.
  assert (Hstr : forall f p line s nl ls, s <> [] -> add_item f p line (IStr s) = Ok (nl, ls) ->
                 exists t, concat ls ++ nl = line ++ t /\ Brk p s t).
  { intros f p line s nl ls Hs H. rewrite add_item_IStr in H. inversion H as [E].
    destruct (add_str_brk p line s Hs) as (t & Ht & Hb). rewrite E in Ht. cbn [fst snd] in Ht. exists t. split; assumption. }
  induction f as [|f IH]; intros p line it nl ls Hd H.
  { destruct it as [s|q its]; [apply (Hstr _ _ _ _ _ _ Hd H) | discriminate]. }
  destruct it as [s|q its]; [apply (Hstr _ _ _ _ _ _ Hd H)|].
  destruct Hd as (Hu & ss & -> & Hne & Hf).
  rewrite flatsk_strs. rewrite add_item_S in H.
  destruct (str_of f (IJ q (map IStr ss))) as [S0|e] eqn:ES; [|discriminate].
  pose proof (str_of_flat _ _ _ _ ES) as HS0.
  assert (HB : Brk p (flat_skip q ss) S0) by (apply (Brk_uniform p q); [exact Hu | eapply content_preserved; exact ES]).
  pose proof (flat_skip_nonempty q ss Hne Hf) as HFne.
  destruct (fits p (line ++ S0)) eqn:F1.
  { injection H as <- <-. exists S0. split; [reflexivity | exact HB]. }
  cbv beta zeta in H.
  (* a prefix that does not fit with the wrapped text does not fit with the flat text either *)
  assert (Hnofit : forall pre, fits p (pre ++ S0) = false -> fits p (pre ++ flat_skip q ss) = false).
  { intros pre X. destruct (fits p (pre ++ flat_skip q ss)) eqn:Y; [|reflexivity]. exfalso.
    assert (Z0 : fits q ([] ++ flat_skip q ss) = true).
    { rewrite (fits_uniform p q _ Hu). eapply fits_shorter; [exact Y|]. cbn [app]. rewrite len_app. pose proof (len_nonneg pre). lia. }
    apply wrap_lines_fit in Z0. rewrite Z0 in HS0. unfold text_of in HS0. cbn in HS0. subst S0. congruence. }
  assert (Hfall : forall nl ls,
    (if fits p (c1 p ++ S0) then Ok (c1 p ++ S0, [line ++ c0 p])
     else match join_res (str_of f) (sep q) (map IStr ss) with
          | Err e => Err e
          | Ok istr => Ok (chunk_path p line istr)
          end) = Ok (nl, ls) ->
    exists t, concat ls ++ nl = line ++ t /\ Brk p (flat_skip q ss) t).
  { intros nl0 ls0. destruct (fits p (c1 p ++ S0)) eqn:F2.
    - intros [= <- <-]. exists (c0 p ++ c1 p ++ S0). split.
      + cbn [concat]. rewrite app_nil_r, <- !app_assoc. reflexivity.
      + apply Brk_cont. exact HB.
    - rewrite join_res_strs, <- (flat_skip_join q ss Hf). intros [= Hc].
      assert (Ha : add_str p line (flat_skip q ss) = chunk_path p line (flat_skip q ss)).
      { unfold add_str. rewrite (Hnofit line F1), (Hnofit (c1 p) F2). reflexivity. }
      destruct (add_str_brk p line (flat_skip q ss) HFne) as (t & Ht & Hb).
      rewrite Ha, Hc in Ht. cbn [fst snd] in Ht. exists t. split; assumption. }
  destruct ((separable q || negb (fits p (c1 p ++ S0))) && (1 <? Z.of_nat (Datatypes.length (map IStr ss)))) eqn:EC;
    [|apply Hfall; exact H].
  destruct f as [|f']; [discriminate|].
  rewrite to_str_S_strs in H by exact Hne.
  destruct (to_str_loop (add_item f' q) (str_of f') (sep q) true (map IStr ss) line []) as [[line_ [rest|]]|e] eqn:ET;
    try discriminate.
  apply stop_loop in ET; [|exact Hf].
  destruct ET as [ET | (ss1 & ss2 & Hss & Hn2 & Hf1 & ET)]; [discriminate|].
  inversion ET; subst line_ rest. clear ET.
  destruct (Datatypes.length (map IStr ss2) <? Datatypes.length (map IStr ss))%nat eqn:EL; [|apply Hfall; exact H].
  destruct (add_item (S f') p (c1 p) (IJ q (map IStr ss2))) as [[nl' ls']|e] eqn:EA; [|discriminate].
  inversion H; subst nl ls. clear H.
  assert (Hf2 : Forall nonempty ss2).
  { rewrite Hss in Hf. apply Forall_app in Hf. apply Hf. }
  destruct (IH p (c1 p) (IJ q (map IStr ss2)) nl' ls') as (t' & Ht' & Hb'); [|exact EA|].
  { split; [exact Hu|]. exists ss2. repeat split; assumption. }
  rewrite flatsk_strs in Hb'.
  exists (concat (map (fun s => s ++ sep q) ss1) ++ c0 p ++ c1 p ++ t'). split.
  - cbn [concat]. rewrite <- !app_assoc. rewrite Ht'. rewrite <- ?app_assoc. reflexivity.
  - rewrite Hss, (flat_skip_app q ss1 ss2 Hf1 Hn2). apply Brk_app; [apply Brk_refl|]. apply Brk_cont. exact Hb'.
Qed.

(** ** the outer list *)
Lemma d1_add_sfx p it sp :
  d1_item p it -> d1_item p (add_sfx it sp) /\ flatsk (add_sfx it sp) = flatsk it ++ sp.
Proof.
  destruct it as [s|q its]; cbn [d1_item].
  - intros Hs. cbn [add_sfx flatsk d1_item]. split; [|reflexivity]. destruct s; [congruence | discriminate].
  - intros (Hu & ss & -> & Hne & Hf). rewrite add_sfx_strs. cbn [d1_item].
    destruct (app_last_nonempty ss sp Hne Hf) as [H1 H2]. split.
    + split; [exact Hu|]. exists (app_last ss sp). repeat split; assumption.
    + rewrite !flatsk_strs. apply flat_skip_app_last; assumption.
Qed.

Lemma loop_d1 f q its : Forall (d1_top q) its -> forall line lines r,
  to_str_loop (add_item f q) (str_of f) (sep q) false its line lines = Ok r ->
  exists t, r = (concat lines ++ line ++ t, None) /\ Brk q (flatsk_list flatsk (sep q) its) t.
Proof.
  induction 1 as [|it rest Hit Hrest IH]; intros line lines r; cbn [to_str_loop flatsk_list].
  - intros [= <-]. exists []. split; [now rewrite app_nil_r | constructor].
  - destruct (str_of f it) as [s|e] eqn:ES; [|discriminate].
    (* either the item is an empty string and is skipped, or it is a proper item *)
    assert (Hcase : (is_nil s = true /\ flatsk it = []) \/ (is_nil s = false /\ d1_item q it /\ flatsk it <> [])).
    { destruct it as [x|q' its'].
      - rewrite str_of_IStr in ES. injection ES as <-. cbn [flatsk d1_item]. destruct x; [left | right]; repeat split; discriminate.
      - right. cbn [d1_top] in Hit. destruct Hit as (Hu & ss & -> & Hne & Hf).
        pose proof (flat_skip_nonempty q' ss Hne Hf) as HF.
        assert (HB : Brk q' (flat_skip q' ss) s) by (eapply content_preserved; exact ES).
        pose proof (Brk_nonempty _ _ _ HB HF) as Hs.
        split; [destruct s; [congruence | reflexivity]|]. split.
        + split; [exact Hu|]. exists ss. repeat split; assumption.
        + rewrite flatsk_strs. exact HF. }
    destruct Hcase as [[Hn HF] | (Hn & Hd & HF)]; rewrite Hn.
    + rewrite HF. apply IH.
    + set (sp := match rest with [] => [] | _ :: _ => sep q end).
      destruct (d1_add_sfx q it sp Hd) as [Hd' HF'].
      destruct (add_item f q line (add_sfx it sp)) as [[line' ls]|e] eqn:EA; [|discriminate].
      destruct (add_item_d1 _ _ _ _ _ _ Hd' EA) as (t1 & Ht1 & Hb1).
      cbn [andb]. intros Hr. apply IH in Hr. destruct Hr as (t2 & -> & Hb2).
      exists (t1 ++ t2). split.
      * rewrite concat_app, <- !app_assoc. f_equal. f_equal. rewrite app_assoc, Ht1, <- app_assoc. reflexivity.
      * rewrite HF' in Hb1. destruct (flatsk it) as [|c fx] eqn:EF; [congruence|].
        fold sp. rewrite app_assoc. apply Brk_app; assumption.
Qed.

Lemma content_nested_d1 fuel q its text :
  Forall (d1_top q) its -> str_of fuel (IJ q its) = Ok text -> Brk q (flatsk (IJ q its)) text.
Proof.
  intros Hd. destruct fuel as [|[|f]]; cbn [str_of to_str]; try discriminate.
  destruct its as [|it rest].
  - intros [= <-]. cbn. constructor.
  - destruct (to_str_loop (add_item f q) (str_of f) (sep q) false (it :: rest) [] []) as [[t o]|e] eqn:E; [|discriminate].
    intros [= <-]. apply (loop_d1 _ _ _ Hd) in E. destruct E as (t' & [= -> ->] & Hb). exact Hb.
Qed.

(** the class is inhabited by the usual shape of a call statement (and the model wraps it) *)
Import String.
Local Open Scope list_scope.
Definition ex_call : list item :=
  [IStr (rep " " 4); IStr (L "CALL "); IStr (L "physics_driver"); IStr (L "(");
   IJ (mkP (L ", ") 60 fcont0 (fcont1 4) true)
      [IStr (L "temperature(jl, jk)"); IStr (L "humidity(jl, jk)"); IStr (L "pressure_half(jl, jk + 1)");
       IStr (L "'units: K'"); IStr (L "state%field(jk)%ptr"); IStr (L "kflag=.true.")];
   IStr (L ")")].
Example ex_call_in_class : Forall (d1_top (fstyle 60 4)) ex_call.
Proof.
  unfold ex_call. repeat constructor.
  exists [L "temperature(jl, jk)"; L "humidity(jl, jk)"; L "pressure_half(jl, jk + 1)"; L "'units: K'"; L "state%field(jk)%ptr"; L "kflag=.true."].
  repeat split; try discriminate. repeat constructor; discriminate.
Qed.
Example ex_call_wraps : exists text, str_of 40 (IJ (fstyle 60 4) ex_call) = Ok text /\ 60 < len text.
Proof. eexists. split; vm_compute; reflexivity. Qed.
