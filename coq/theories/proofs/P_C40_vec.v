(** C40 — proofs, part 3: resolve_vector_notation, add/remove_explicit_array_dimensions and
    normalize_range_indexing are idempotent. *)
From Coq Require Import ZArith List Bool String Lia.
From LV Require Import Base.Expr Base.MiniF models.M_C30 models.M_C40 proofs.P_C40_base.
Import ListNotations.
Open Scope Z_scope.
Open Scope list_scope.

(** induction principle for section statements through the nested lists *)
Section vstmt_ind'.
  Variable P : vstmt -> Prop.
  Hypothesis HP : forall s, P (VPlain s).
  Hypothesis HA : forall a i r, P (VAssign a i r).
  Hypothesis HD : forall v lo hi st b, Forall P b -> P (VDo v lo hi st b).
  Hypothesis HI : forall c t e, Forall P t -> Forall P e -> P (VIf c t e).
  Hypothesis HW : forall c b e, Forall P b -> Forall P e -> P (VWhere c b e).
  Fixpoint vstmt_ind' (s : vstmt) : P s :=
    let fix go (l : list vstmt) : Forall P l :=
      match l with [] => Forall_nil P | x :: r => Forall_cons x (vstmt_ind' x) (go r) end in
    match s with
    | VPlain s => HP s
    | VAssign a i r => HA a i r
    | VDo v lo hi st b => HD v lo hi st b (go b)
    | VIf c t e => HI c t e (go t) (go e)
    | VWhere c b e => HW c b e (go b) (go e)
    end.
End vstmt_ind'.

(** * vector-notation resolution *)

(** the local recursion of [resolve_stmt] over a body is [resolve_body] *)
Lemma rs_do lm ds v lo hi st body :
  resolve_stmt lm ds (VDo v lo hi st body) = option_map (fun b => [SDo v lo hi st b]) (resolve_body lm ds body).
Proof.
  cbn [resolve_stmt]. f_equal.
  induction body as [|x r IH]; [reflexivity|]. cbn [resolve_body]. now rewrite <- IH.
Qed.

Lemma rs_if lm ds c tb eb :
  resolve_stmt lm ds (VIf c tb eb) =
  obind (resolve_body lm ds tb) (fun t => obind (resolve_body lm ds eb) (fun e => Some [SIf c t e])).
Proof.
  cbn [resolve_stmt].
  assert (G : forall l, (fix go (l : list vstmt) : option (list stmt) :=
                           match l with
                           | [] => Some []
                           | x :: r => obind (resolve_stmt lm ds x) (fun a => obind (go r) (fun b => Some (a ++ b)))
                           end) l = resolve_body lm ds l).
  { induction l as [|x r IH]; [reflexivity|]. cbn [resolve_body]. now rewrite <- IH. }
  now rewrite !G.
Qed.

(** normal form: on section-free programs the transformer returns the program itself *)
Lemma resolve_body_fix_list lm ds b :
  Forall (fun s => sec_free_stmt s = true -> resolve_stmt lm ds s = Some [vflat_stmt s]) b ->
  forallb sec_free_stmt b = true -> resolve_body lm ds b = Some (vflat b).
Proof.
  induction 1 as [|s r H _ IH]; intros Hc; [reflexivity|].
  cbn [forallb] in Hc. apply andb_true_iff in Hc. destruct Hc as [H1 H2].
  cbn [resolve_body]. rewrite (H H1). cbn [obind]. rewrite (IH H2). reflexivity.
Qed.

Lemma resolve_stmt_fix lm ds : forall s, sec_free_stmt s = true -> resolve_stmt lm ds s = Some [vflat_stmt s].
Proof.
  induction s using vstmt_ind'; intros Hc.
  - reflexivity.
  - discriminate.
  - cbn [sec_free_stmt] in Hc. rewrite rs_do, (resolve_body_fix_list lm ds b H Hc). reflexivity.
  - cbn [sec_free_stmt] in Hc. apply andb_true_iff in Hc. destruct Hc as [H1 H2].
    rewrite rs_if, (resolve_body_fix_list lm ds t H H1). cbn [obind].
    rewrite (resolve_body_fix_list lm ds e H0 H2). reflexivity.
  - discriminate.
Qed.

Lemma resolve_body_fix lm ds b : sec_free b = true -> resolve_body lm ds b = Some (vflat b).
Proof.
  intros H. apply resolve_body_fix_list; [|exact H]. apply Forall_forall. intros s _. apply resolve_stmt_fix.
Qed.

(** reading a MiniF program back as a section program gives a section-free program denoting itself *)
Lemma vembed_ok : forall s, sec_free_stmt (vembed_stmt s) = true /\ vflat_stmt (vembed_stmt s) = s.
Proof.
  induction s using stmt_ind'; cbn [vembed_stmt sec_free_stmt vflat_stmt]; try (split; reflexivity).
  - split.
    + apply forallb_F. apply Forall_map. eapply Forall_impl; [|exact H]. intros a [Ha _]. exact Ha.
    + f_equal. rewrite map_map. apply map_id_F. eapply Forall_impl; [|exact H]. intros a [_ Ha]. exact Ha.
  - split.
    + apply andb_true_iff. split; apply forallb_F; apply Forall_map.
      * eapply Forall_impl; [|exact H]. intros a [Ha _]. exact Ha.
      * eapply Forall_impl; [|exact H0]. intros a [Ha _]. exact Ha.
    + f_equal; rewrite map_map; apply map_id_F.
      * eapply Forall_impl; [|exact H]. intros a [_ Ha]. exact Ha.
      * eapply Forall_impl; [|exact H0]. intros a [_ Ha]. exact Ha.
Qed.

Lemma sec_free_vembed q : sec_free (vembed q) = true.
Proof. unfold sec_free, vembed. apply forallb_F. apply Forall_map. apply Forall_forall. intros s _. apply vembed_ok. Qed.

Lemma vflat_vembed q : vflat (vembed q) = q.
Proof. unfold vflat, vembed. rewrite map_map. apply map_id_F. apply Forall_forall. intros s _. apply vembed_ok. Qed.

(** after resolution no section statement remains: the second application is the identity *)
Theorem resolve_prog_idem ds b q : resolve_prog ds b = Some q -> resolve_prog ds (vembed q) = Some q.
Proof. intros _. unfold resolve_prog. rewrite resolve_body_fix by apply sec_free_vembed. now rewrite vflat_vembed. Qed.

Theorem T_vec_idem ds b b1 : T_vec ds b = Some b1 -> T_vec ds b1 = Some b1 /\ sec_free b1 = true.
Proof.
  unfold T_vec. destruct (resolve_prog ds b) as [q|] eqn:E; [|discriminate].
  cbn [option_map]. intros X. inversion X; subst. split; [|apply sec_free_vembed].
  now rewrite (resolve_prog_idem ds b q E).
Qed.

(** * add / remove explicit array dimensions *)

Lemma add_idx_idem ds a idx : add_idx ds a (add_idx ds a idx) = add_idx ds a idx.
Proof.
  unfold add_idx. destruct idx as [|d r]; [|reflexivity].
  destruct (lookup_decl ds a) as [[|s sh]|]; reflexivity.
Qed.

Lemma remove_idx_idem idx : remove_idx (remove_idx idx) = remove_idx idx.
Proof. unfold remove_idx. destruct (forallb is_colon idx) eqn:E; [reflexivity|]. now rewrite E. Qed.

Section map_refs_idem.
  Variable F : string -> list vindex -> list vindex.
  Hypothesis HF : forall a idx, F a (F a idx) = F a idx.

  Lemma map_refs_vexpr_idem : forall e, map_refs_vexpr F (map_refs_vexpr F e) = map_refs_vexpr F e.
  Proof.
    induction e using vexpr_ind'; cbn [map_refs_vexpr]; try reflexivity.
    - now rewrite HF.
    - f_equal. rewrite map_map. now apply map_ext_F.
    - f_equal. rewrite map_map. now apply map_ext_F.
    - now rewrite IHe1, IHe2.
    - f_equal. rewrite map_map. now apply map_ext_F.
  Qed.

  Lemma map_refs_stmt_idem : forall s, map_refs_stmt F (map_refs_stmt F s) = map_refs_stmt F s.
  Proof.
    induction s using vstmt_ind'; cbn [map_refs_stmt]; try reflexivity.
    - now rewrite HF, map_refs_vexpr_idem.
    - f_equal. rewrite map_map. now apply map_ext_F.
    - f_equal; rewrite map_map; now apply map_ext_F.
    - cbn [vc_op vc_l vc_r]. rewrite !map_refs_vexpr_idem. f_equal; rewrite map_map; now apply map_ext_F.
  Qed.
End map_refs_idem.

Theorem add_explicit_idem ds b : add_explicit ds (add_explicit ds b) = add_explicit ds b.
Proof.
  unfold add_explicit. rewrite map_map. apply map_ext_F. apply Forall_forall. intros s _.
  apply map_refs_stmt_idem. apply add_idx_idem.
Qed.

Theorem remove_explicit_idem b : remove_explicit (remove_explicit b) = remove_explicit b.
Proof.
  unfold remove_explicit. rewrite map_map. apply map_ext_F. apply Forall_forall. intros s _.
  apply (map_refs_stmt_idem (fun _ => remove_idx)). intros _ idx. apply remove_idx_idem.
Qed.

(** * normalize_range_indexing (declarations only) *)
Lemma normrange_shape_idem d : normrange_shape (normrange_shape d) = normrange_shape d.
Proof.
  destruct d as [e|lo hi]; cbn [normrange_shape]; [reflexivity|].
  destruct (is_one lo) eqn:E; cbn [normrange_shape]; [reflexivity|now rewrite E].
Qed.

Theorem normrange_decls_idem ds : normrange_decls (normrange_decls ds) = normrange_decls ds.
Proof.
  unfold normrange_decls. rewrite map_map. apply map_ext_F. apply Forall_forall. intros [a sh] _.
  cbn [fst snd]. f_equal. rewrite map_map. apply map_ext_F. apply Forall_forall. intros d _. apply normrange_shape_idem.
Qed.
