(** Shared model of Loki's expression trees (pymbolic-based) with the Fortran integer (Z),
    exact real (Q) and logical (bool) semantics used by C06-C09 and the MiniF-based properties.

    The tree mirrors what Loki really builds:
    - n-ary [ESum]/[EProd] whose children may be the *bare Python int* ([EPy], e.g. the [-1] that
      encodes unary minus / subtraction) as opposed to [EInt] (an IntLiteral node);
    - [paren = true] marks the Parenthesised{Add,Mul,Div,Pow} subclasses created by the frontend
      for explicit parentheses in the source. *)
From Coq Require Import ZArith QArith List Bool String.
Import ListNotations.
Open Scope Z_scope.

Inductive cmpop := Ceq | Cne | Clt | Cle | Cgt | Cge.

Inductive expr : Type :=
| EInt  (v : Z)                              (* IntLiteral(v)   *)
| EPy   (v : Z)                              (* bare python int *)
| EVar  (x : string)                         (* scalar variable, name already case-folded by the bridge *)
| ELog  (b : bool)                           (* LogicLiteral *)
| ESum  (paren : bool) (cs : list expr)
| EProd (paren : bool) (cs : list expr)
| EQuot (paren : bool) (n d : expr)
| EPow  (paren : bool) (b e : expr)
| ECmp  (op : cmpop) (l r : expr)
| EAnd  (cs : list expr)
| EOr   (cs : list expr)
| ENot  (e : expr)
| ECall (f : string) (args : list expr).     (* InlineCall of an intrinsic / function; also array element reads *)

(** induction principle that goes through the nested lists *)
Section expr_ind'.
  Variable P : expr -> Prop.
  Hypothesis HInt : forall v, P (EInt v).
  Hypothesis HPy : forall v, P (EPy v).
  Hypothesis HVar : forall x, P (EVar x).
  Hypothesis HLog : forall b, P (ELog b).
  Hypothesis HSum : forall p cs, Forall P cs -> P (ESum p cs).
  Hypothesis HProd : forall p cs, Forall P cs -> P (EProd p cs).
  Hypothesis HQuot : forall p n d, P n -> P d -> P (EQuot p n d).
  Hypothesis HPow : forall p b e, P b -> P e -> P (EPow p b e).
  Hypothesis HCmp : forall op l r, P l -> P r -> P (ECmp op l r).
  Hypothesis HAnd : forall cs, Forall P cs -> P (EAnd cs).
  Hypothesis HOr : forall cs, Forall P cs -> P (EOr cs).
  Hypothesis HNot : forall e, P e -> P (ENot e).
  Hypothesis HCall : forall f args, Forall P args -> P (ECall f args).

  Fixpoint expr_ind' (e : expr) : P e :=
    let fix go (l : list expr) : Forall P l :=
      match l with
      | [] => Forall_nil P
      | x :: r => Forall_cons x (expr_ind' x) (go r)
      end in
    match e with
    | EInt v => HInt v
    | EPy v => HPy v
    | EVar x => HVar x
    | ELog b => HLog b
    | ESum p cs => HSum p cs (go cs)
    | EProd p cs => HProd p cs (go cs)
    | EQuot p n d => HQuot p n d (expr_ind' n) (expr_ind' d)
    | EPow p b x => HPow p b x (expr_ind' b) (expr_ind' x)
    | ECmp op l r => HCmp op l r (expr_ind' l) (expr_ind' r)
    | EAnd cs => HAnd cs (go cs)
    | EOr cs => HOr cs (go cs)
    | ENot x => HNot x (expr_ind' x)
    | ECall f args => HCall f args (go args)
    end.
End expr_ind'.

Fixpoint esize (e : expr) : nat :=
  match e with
  | EInt _ | EPy _ | EVar _ | ELog _ => 1
  | ESum _ cs | EProd _ cs | EAnd cs | EOr cs | ECall _ cs => S (fold_right (fun c a => esize c + a)%nat O cs)
  | EQuot _ a b | EPow _ a b | ECmp _ a b => S (esize a + esize b)
  | ENot a => S (esize a)
  end.

(** * Semantics *)

(** environments: scalar variables and (uninterpreted or array-read) functions *)
Record env := { ev_var : string -> Z; ev_fun : string -> list Z -> option Z }.

Definition cmp_z (op : cmpop) (a b : Z) : bool :=
  match op with
  | Ceq => a =? b | Cne => negb (a =? b)
  | Clt => a <? b | Cle => a <=? b | Cgt => b <? a | Cge => b <=? a
  end.

(** Fortran integer power: negative exponents are 1/(x**n) in integer arithmetic *)
Definition pow_z (x n : Z) : option Z :=
  if 0 <=? n then Some (Z.pow x n)
  else if x =? 0 then None else Some (Z.quot 1 (Z.pow x (- n))).

Definition div_z (a b : Z) : option Z := if b =? 0 then None else Some (Z.quot a b).

Definition obind {A B} (o : option A) (f : A -> option B) : option B :=
  match o with Some a => f a | None => None end.

Fixpoint omap_list {A B} (f : A -> option B) (l : list A) : option (list B) :=
  match l with
  | [] => Some []
  | x :: r => obind (f x) (fun y => obind (omap_list f r) (fun ys => Some (y :: ys)))
  end.

Definition intrinsic (f : string) (args : list Z) : option (option Z) :=
  if String.eqb f "mod" then
    match args with [a; b] => Some (if b =? 0 then None else Some (Z.rem a b)) | _ => Some None end
  else if String.eqb f "modulo" then
    match args with [a; b] => Some (if b =? 0 then None else Some (Z.modulo a b)) | _ => Some None end
  else if String.eqb f "abs" then
    match args with [a] => Some (Some (Z.abs a)) | _ => Some None end
  else if String.eqb f "min" then
    match args with a :: r => Some (Some (fold_left Z.min r a)) | _ => Some None end
  else if String.eqb f "max" then
    match args with a :: r => Some (Some (fold_left Z.max r a)) | _ => Some None end
  else None.

(** integer value; [None] = undefined (division by zero, 0**negative, a logical where an integer is needed) *)
Fixpoint evalZ (rho : env) (e : expr) : option Z :=
  match e with
  | EInt v | EPy v => Some v
  | EVar x => Some (ev_var rho x)
  | ELog _ | ECmp _ _ _ | EAnd _ | EOr _ | ENot _ => None
  | ESum _ cs => fold_right (fun c acc => obind (evalZ rho c) (fun v => obind acc (fun a => Some (v + a)))) (Some 0) cs
  | EProd _ cs => fold_right (fun c acc => obind (evalZ rho c) (fun v => obind acc (fun a => Some (v * a)))) (Some 1) cs
  | EQuot _ n d => obind (evalZ rho n) (fun a => obind (evalZ rho d) (fun b => div_z a b))
  | EPow _ b x => obind (evalZ rho b) (fun a => obind (evalZ rho x) (fun n => pow_z a n))
  | ECall f args =>
      obind ((fix go (l : list expr) : option (list Z) :=
                match l with
                | [] => Some []
                | a :: r => obind (evalZ rho a) (fun v => obind (go r) (fun vs => Some (v :: vs)))
                end) args)
            (fun vs => match intrinsic f vs with Some r => r | None => ev_fun rho f vs end)
  end.

(** logical value *)
Fixpoint evalB (rho : env) (e : expr) : option bool :=
  match e with
  | ELog b => Some b
  | ECmp op l r => obind (evalZ rho l) (fun a => obind (evalZ rho r) (fun b => Some (cmp_z op a b)))
  | EAnd cs => fold_right (fun c acc => obind (evalB rho c) (fun v => obind acc (fun a => Some (v && a)))) (Some true) cs
  | EOr cs => fold_right (fun c acc => obind (evalB rho c) (fun v => obind acc (fun a => Some (v || a)))) (Some false) cs
  | ENot x => obind (evalB rho x) (fun v => Some (negb v))
  | _ => None
  end.

(** * Exact real semantics (REAL variables as rationals; no rounding) *)
Record qenv := { qv_var : string -> Q }.

Fixpoint qpow_pos (x : Q) (n : nat) : Q := match n with O => 1%Q | S k => (x * qpow_pos x k)%Q end.

Definition is_zero_q (q : Q) : bool := (Qnum q =? 0).

Definition div_q (a b : Q) : option Q := if is_zero_q b then None else Some (a / b)%Q.

(** exponent must be an integer literal expression (evaluated in Z with a variable-free env) *)
Definition env0 : env := {| ev_var := fun _ => 0; ev_fun := fun _ _ => None |}.

Fixpoint closedZ (e : expr) : bool :=
  match e with
  | EInt _ | EPy _ => true
  | ESum _ cs | EProd _ cs => forallb closedZ cs
  | EQuot _ a b | EPow _ a b => closedZ a && closedZ b
  | _ => false
  end.

Fixpoint evalQ (rho : qenv) (e : expr) : option Q :=
  match e with
  | EInt v | EPy v => Some (inject_Z v)
  | EVar x => Some (qv_var rho x)
  | ESum _ cs => fold_right (fun c acc => obind (evalQ rho c) (fun v => obind acc (fun a => Some (v + a)%Q))) (Some 0%Q) cs
  | EProd _ cs => fold_right (fun c acc => obind (evalQ rho c) (fun v => obind acc (fun a => Some (v * a)%Q))) (Some 1%Q) cs
  | EQuot _ n d => obind (evalQ rho n) (fun a => obind (evalQ rho d) (fun b => div_q a b))
  | EPow _ b x =>
      if closedZ x then
        obind (evalZ env0 x) (fun n =>
          obind (evalQ rho b) (fun a =>
            if 0 <=? n then Some (qpow_pos a (Z.to_nat n))
            else if is_zero_q a then None else Some (/ qpow_pos a (Z.to_nat (- n)))%Q))
      else None
  | _ => None
  end.

(** helpers shared by several models *)
Definition is_py_m1 (e : expr) : bool := match e with EPy v => v =? -1 | _ => false end.

Fixpoint expr_eqb (a b : expr) : bool :=
  let fix leqb (l1 l2 : list expr) : bool :=
    match l1, l2 with
    | [], [] => true
    | x :: r1, y :: r2 => expr_eqb x y && leqb r1 r2
    | _, _ => false
    end in
  match a, b with
  | EInt x, EInt y => x =? y
  | EPy x, EPy y => x =? y
  | EVar x, EVar y => String.eqb x y
  | ELog x, ELog y => Bool.eqb x y
  | ESum p cs, ESum q ds => Bool.eqb p q && leqb cs ds
  | EProd p cs, EProd q ds => Bool.eqb p q && leqb cs ds
  | EQuot p n d, EQuot q n' d' => Bool.eqb p q && expr_eqb n n' && expr_eqb d d'
  | EPow p n d, EPow q n' d' => Bool.eqb p q && expr_eqb n n' && expr_eqb d d'
  | ECmp o l r, ECmp o' l' r' =>
      (match o, o' with Ceq, Ceq | Cne, Cne | Clt, Clt | Cle, Cle | Cgt, Cgt | Cge, Cge => true | _, _ => false end)
      && expr_eqb l l' && expr_eqb r r'
  | EAnd cs, EAnd ds => leqb cs ds
  | EOr cs, EOr ds => leqb cs ds
  | ENot x, ENot y => expr_eqb x y
  | ECall f cs, ECall g ds => String.eqb f g && leqb cs ds
  | _, _ => false
  end.

(** a test environment built from an association list (used by the correspondence cases) *)
Fixpoint assoc_z (l : list (string * Z)) (x : string) : Z :=
  match l with
  | [] => 0
  | (k, v) :: r => if String.eqb k x then v else assoc_z r x
  end.
Definition env_of (l : list (string * Z)) : env := {| ev_var := assoc_z l; ev_fun := fun _ _ => None |}.

Definition opt_z_eqb (a b : option Z) : bool :=
  match a, b with Some x, Some y => x =? y | None, None => true | _, _ => false end.
Definition opt_b_eqb (a b : option bool) : bool :=
  match a, b with Some x, Some y => Bool.eqb x y | None, None => true | _, _ => false end.
