(** Shared string helpers: ASCII case folding as Python's str.lower() on ASCII text,
    and the "cut at first '('" used by SymbolTable.format_lookup_name. *)
From Coq Require Import String Ascii Bool List Arith.
Import ListNotations.
Open Scope string_scope.

Definition is_upper (c : ascii) : bool :=
  let n := nat_of_ascii c in ((65 <=? n) && (n <=? 90))%nat.

Definition lower_ascii (c : ascii) : ascii :=
  if is_upper c then ascii_of_nat (nat_of_ascii c + 32) else c.

Fixpoint lower (s : string) : string :=
  match s with
  | EmptyString => EmptyString
  | String c r => String (lower_ascii c) (lower r)
  end.

Definition is_lower_c (c : ascii) : bool :=
  let n := nat_of_ascii c in ((97 <=? n) && (n <=? 122))%nat.
Definition upper_ascii (c : ascii) : ascii :=
  if is_lower_c c then ascii_of_nat (nat_of_ascii c - 32) else c.
Fixpoint upper (s : string) : string :=
  match s with
  | EmptyString => EmptyString
  | String c r => String (upper_ascii c) (upper r)
  end.

(** s.partition('(')[0] *)
Fixpoint cut_paren (s : string) : string :=
  match s with
  | EmptyString => EmptyString
  | String c r => if Ascii.eqb c "("%char then EmptyString else String c (cut_paren r)
  end.

(** remove blanks: str.replace(' ', '') *)
Fixpoint strip_blanks (s : string) : string :=
  match s with
  | EmptyString => EmptyString
  | String c r => if Ascii.eqb c " "%char then strip_blanks r else String c (strip_blanks r)
  end.

Lemma lower_ascii_idem c : lower_ascii (lower_ascii c) = lower_ascii c.
Proof. destruct c as [[] [] [] [] [] [] [] []]; reflexivity. Qed.

Lemma lower_idem s : lower (lower s) = lower s.
Proof. induction s as [|c r IH]; cbn; [reflexivity|]. now rewrite lower_ascii_idem, IH. Qed.

Lemma lower_upper_ascii c : lower_ascii (upper_ascii c) = lower_ascii c.
Proof. destruct c as [[] [] [] [] [] [] [] []]; reflexivity. Qed.

Lemma lower_upper s : lower (upper s) = lower s.
Proof. induction s as [|c r IH]; cbn; [reflexivity|]. now rewrite lower_upper_ascii, IH. Qed.

Lemma lower_app a b : lower (a ++ b) = lower a ++ lower b.
Proof. induction a as [|c r IH]; cbn; [reflexivity|]. now rewrite IH. Qed.

Lemma lower_ascii_paren c : Ascii.eqb (lower_ascii c) "("%char = Ascii.eqb c "("%char.
Proof. destruct c as [[] [] [] [] [] [] [] []]; reflexivity. Qed.

Lemma cut_paren_lower s : cut_paren (lower s) = lower (cut_paren s).
Proof.
  induction s as [|c r IH]; cbn; [reflexivity|].
  rewrite lower_ascii_paren. destruct (Ascii.eqb c "("); cbn; [reflexivity|now rewrite IH].
Qed.

Lemma cut_paren_idem s : cut_paren (cut_paren s) = cut_paren s.
Proof.
  induction s as [|c r IH]; cbn; [reflexivity|].
  destruct (Ascii.eqb c "(") eqn:E; cbn; [reflexivity|]. now rewrite E, IH.
Qed.

(** two spellings that differ only in letter case *)
Definition same_fold (a b : string) : Prop := lower a = lower b.

Lemma same_fold_refl a : same_fold a a. Proof. reflexivity. Qed.
Lemma same_fold_sym a b : same_fold a b -> same_fold b a. Proof. unfold same_fold; congruence. Qed.
Lemma same_fold_lower a : same_fold (lower a) a. Proof. unfold same_fold. apply lower_idem. Qed.
Lemma same_fold_upper a : same_fold (upper a) a. Proof. unfold same_fold. apply lower_upper. Qed.
