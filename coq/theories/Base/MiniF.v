(** MiniF: a deep embedding of the integer statement subset of Fortran on which Loki's
    transformations are exercised, with a fuelled big-step interpreter.

    - scalars are Z-valued, arrays are total functions from index lists to Z (bounds are the
      generator's business: generated programs stay in bounds, which gfortran -fcheck=bounds
      confirms in the thorough tier);
    - DO loops follow the Fortran rule: bounds and step evaluated once, trip count
      MAX(0,(hi-lo+st)/st), the DO variable keeps lo + n*st after the loop;
    - CALL is by copy-in/copy-out of variable actuals (equal to by-reference when the actuals
      that the callee writes are distinct variables: that restriction is a class predicate of the
      theorems that use calls);
    - run-time errors (division by zero, zero step, unknown procedure) and out-of-fuel are [None]
      and are excluded by the hypotheses of the theorems (CompCert's pattern). *)
From Coq Require Import ZArith List Bool String.
From LV Require Import Base.Expr.
Import ListNotations.
Open Scope Z_scope.

Inductive stmt : Type :=
| SAssign (x : string) (e : expr)                           (* x = e *)
| SStore  (a : string) (idx : list expr) (e : expr)         (* a(idx) = e *)
| SDo     (v : string) (lo hi : expr) (st : option expr) (body : list stmt)
| SWhile  (c : expr) (body : list stmt)
| SIf     (c : expr) (tb eb : list stmt)
| SCall   (f : string) (args : list expr)
| SSkip   (label : string).                                 (* comment / pragma / no-op marker *)

Section stmt_ind'.
  Variable P : stmt -> Prop.
  Hypothesis HA : forall x e, P (SAssign x e).
  Hypothesis HS : forall a i e, P (SStore a i e).
  Hypothesis HD : forall v lo hi st b, Forall P b -> P (SDo v lo hi st b).
  Hypothesis HW : forall c b, Forall P b -> P (SWhile c b).
  Hypothesis HI : forall c t e, Forall P t -> Forall P e -> P (SIf c t e).
  Hypothesis HC : forall f a, P (SCall f a).
  Hypothesis HK : forall l, P (SSkip l).
  Fixpoint stmt_ind' (s : stmt) : P s :=
    let fix go (l : list stmt) : Forall P l :=
      match l with [] => Forall_nil P | x :: r => Forall_cons x (stmt_ind' x) (go r) end in
    match s with
    | SAssign x e => HA x e
    | SStore a i e => HS a i e
    | SDo v lo hi st b => HD v lo hi st b (go b)
    | SWhile c b => HW c b (go b)
    | SIf c t e => HI c t e (go t) (go e)
    | SCall f a => HC f a
    | SSkip l => HK l
    end.
End stmt_ind'.

Record store := { sv : string -> Z; av : string -> list Z -> Z }.

Definition empty_store : store := {| sv := fun _ => 0; av := fun _ _ => 0 |}.

Definition set_sv (x : string) (v : Z) (s : store) : store :=
  {| sv := fun y => if String.eqb y x then v else sv s y; av := av s |}.

Fixpoint list_z_eqb (a b : list Z) : bool :=
  match a, b with
  | [], [] => true
  | x :: r, y :: q => (x =? y) && list_z_eqb r q
  | _, _ => false
  end.

Definition set_av (a : string) (i : list Z) (v : Z) (s : store) : store :=
  {| sv := sv s;
     av := fun b j => if String.eqb b a && list_z_eqb j i then v else av s b j |}.

Definition set_arr (a : string) (f : list Z -> Z) (s : store) : store :=
  {| sv := sv s; av := fun b j => if String.eqb b a then f j else av s b j |}.

(** expression environment of a store: arrays are read through [ECall name idx]
    (intrinsics are resolved first by [Expr.evalZ]) *)
Definition env_st (s : store) : env := {| ev_var := sv s; ev_fun := fun f a => Some (av s f a) |}.

Definition trip_count (a b s : Z) : Z := Z.max 0 (Z.quot (b - a + s) s).

(** procedures: dummy names with an "is array" flag, and a body *)
Record proc := { p_params : list (string * bool); p_body : list stmt }.
Definition procs := list (string * proc).

Fixpoint find_proc (ps : procs) (f : string) : option proc :=
  match ps with
  | [] => None
  | (g, p) :: r => if String.eqb g f then Some p else find_proc r f
  end.

(** copy-in: bind each dummy in a fresh callee store *)
Fixpoint copy_in (caller : store) (params : list (string * bool)) (args : list expr) (callee : store) : option store :=
  match params, args with
  | [], [] => Some callee
  | (d, true) :: ps, EVar a :: r => copy_in caller ps r (set_arr d (av caller a) callee)
  | (d, false) :: ps, e :: r =>
      match evalZ (env_st caller) e with
      | Some v => copy_in caller ps r (set_sv d v callee)
      | None => None
      end
  | _, _ => None
  end.

(** copy-out: variable actuals receive the final dummy values, in argument order *)
Fixpoint copy_out (callee : store) (params : list (string * bool)) (args : list expr) (caller : store) : store :=
  match params, args with
  | (d, true) :: ps, EVar a :: r => copy_out callee ps r (set_arr a (av callee d) caller)
  | (d, false) :: ps, EVar x :: r => copy_out callee ps r (set_sv x (sv callee d) caller)
  | _ :: ps, _ :: r => copy_out callee ps r caller
  | _, _ => caller
  end.

Definition eval_idx (s : store) (idx : list expr) : option (list Z) := omap_list (evalZ (env_st s)) idx.

(** [n] iterations of a DO body; the DO variable is set before each iteration and once more at exit *)
Fixpoint do_loop (run : store -> option store) (v : string) (d : Z) (n : nat) (i : Z) (s : store) : option store :=
  match n with
  | O => Some (set_sv v i s)
  | S k => obind (run (set_sv v i s)) (fun s2 => do_loop run v d k (i + d) s2)
  end.

Fixpoint exec (ps : procs) (fuel : nat) (ss : list stmt) (s : store) {struct fuel} : option store :=
  match fuel with
  | O => None
  | S f =>
    match ss with
    | [] => Some s
    | st :: rest =>
      obind
        (match st with
         | SAssign x e => obind (evalZ (env_st s) e) (fun v => Some (set_sv x v s))
         | SStore a idx e =>
             obind (eval_idx s idx) (fun i => obind (evalZ (env_st s) e) (fun v => Some (set_av a i v s)))
         | SDo v lo hi stp body =>
             obind (evalZ (env_st s) lo) (fun a =>
             obind (evalZ (env_st s) hi) (fun b =>
             obind (match stp with None => Some 1 | Some e => evalZ (env_st s) e end) (fun d =>
               if d =? 0 then None else
               do_loop (exec ps f body) v d (Z.to_nat (trip_count a b d)) a s)))
         | SWhile c body =>
             obind (evalB (env_st s) c) (fun b =>
               if b then obind (exec ps f body s) (fun s1 => exec ps f [SWhile c body] s1)
               else Some s)
         | SIf c tb eb =>
             obind (evalB (env_st s) c) (fun b => exec ps f (if b then tb else eb) s)
         | SCall g args =>
             obind (find_proc ps g) (fun p =>
             obind (copy_in s (p_params p) args empty_store) (fun s0 =>
             obind (exec ps f (p_body p) s0) (fun s1 =>
               Some (copy_out s1 (p_params p) args s))))
         | SSkip _ => Some s
         end)
        (fun s' => exec ps f rest s')
    end
  end.

(** observation of a final store on a finite set of scalars and array cells *)
Definition observe (s : store) (scalars : list string) (cells : list (string * list Z)) : list Z :=
  map (sv s) scalars ++ map (fun c => av s (fst c) (snd c)) cells.

Fixpoint init_cells (cells : list (string * list Z * Z)) : store :=
  match cells with
  | [] => empty_store
  | (a, i, v) :: r => set_av a i v (init_cells r)
  end.

Fixpoint init_store (scalars : list (string * Z)) (cells : list (string * list Z * Z)) : store :=
  match scalars with
  | (x, v) :: r => set_sv x v (init_store r cells)
  | [] => init_cells cells
  end.

(** structural equality of statements (for comparing a model's output with Loki's output) *)
Fixpoint list_expr_eqb (a b : list expr) : bool :=
  match a, b with
  | [], [] => true
  | x :: r, y :: q => expr_eqb x y && list_expr_eqb r q
  | _, _ => false
  end.

Definition oexpr_eqb (a b : option expr) : bool :=
  match a, b with Some x, Some y => expr_eqb x y | None, None => true | _, _ => false end.

Fixpoint stmt_eqb (a b : stmt) : bool :=
  let fix leqb (l1 l2 : list stmt) : bool :=
    match l1, l2 with
    | [], [] => true
    | x :: r1, y :: r2 => stmt_eqb x y && leqb r1 r2
    | _, _ => false
    end in
  match a, b with
  | SAssign x e, SAssign y e' => String.eqb x y && expr_eqb e e'
  | SStore x i e, SStore y j e' => String.eqb x y && list_expr_eqb i j && expr_eqb e e'
  | SDo v lo hi st b1, SDo w lo' hi' st' b2 =>
      String.eqb v w && expr_eqb lo lo' && expr_eqb hi hi' && oexpr_eqb st st' && leqb b1 b2
  | SWhile c b1, SWhile c' b2 => expr_eqb c c' && leqb b1 b2
  | SIf c t e, SIf c' t' e' => expr_eqb c c' && leqb t t' && leqb e e'
  | SCall f x, SCall g y => String.eqb f g && list_expr_eqb x y
  | SSkip l, SSkip m => String.eqb l m
  | _, _ => false
  end.

Fixpoint stmts_eqb (l1 l2 : list stmt) : bool :=
  match l1, l2 with
  | [], [] => true
  | x :: r1, y :: r2 => stmt_eqb x y && stmts_eqb r1 r2
  | _, _ => false
  end.

(** correspondence helper: run a program from an initial store and observe *)
Definition run_observe (ps : procs) (fuel : nat) (prog : list stmt)
           (scal0 : list (string * Z)) (cells0 : list (string * list Z * Z))
           (oscal : list string) (ocells : list (string * list Z)) : option (list Z) :=
  match exec ps fuel prog (init_store scal0 cells0) with
  | Some s => Some (observe s oscal ocells)
  | None => None
  end.

Definition olist_z_eqb (a b : option (list Z)) : bool :=
  match a, b with Some x, Some y => list_z_eqb x y | None, None => true | _, _ => false end.

(** one statement with sub-fuel [f] (the unfolding of [exec] on a cons) *)
Definition exec1 (ps : procs) (f : nat) (st : stmt) (s : store) : option store :=
  match st with
  | SAssign x e => obind (evalZ (env_st s) e) (fun v => Some (set_sv x v s))
  | SStore a idx e =>
      obind (eval_idx s idx) (fun i => obind (evalZ (env_st s) e) (fun v => Some (set_av a i v s)))
  | SDo v lo hi stp body =>
      obind (evalZ (env_st s) lo) (fun a =>
      obind (evalZ (env_st s) hi) (fun b =>
      obind (match stp with None => Some 1 | Some e => evalZ (env_st s) e end) (fun d =>
        if d =? 0 then None else
        do_loop (exec ps f body) v d (Z.to_nat (trip_count a b d)) a s)))
  | SWhile c body =>
      obind (evalB (env_st s) c) (fun b =>
        if b then obind (exec ps f body s) (fun s1 => exec ps f [SWhile c body] s1)
        else Some s)
  | SIf c tb eb =>
      obind (evalB (env_st s) c) (fun b => exec ps f (if b then tb else eb) s)
  | SCall g args =>
      obind (find_proc ps g) (fun p =>
      obind (copy_in s (p_params p) args empty_store) (fun s0 =>
      obind (exec ps f (p_body p) s0) (fun s1 =>
        Some (copy_out s1 (p_params p) args s))))
  | SSkip _ => Some s
  end.

Lemma exec_unfold ps f st rest s :
  exec ps (S f) (st :: rest) s = obind (exec1 ps f st s) (fun s' => exec ps f rest s').
Proof. reflexivity. Qed.
