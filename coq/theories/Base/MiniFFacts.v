(** Basic facts about the MiniF interpreter: fuel monotonicity, determinism, sequencing. *)
From Coq Require Import ZArith List Bool String Lia.
From LV Require Import Base.Expr Base.MiniF.
Import ListNotations.
Open Scope Z_scope.

Lemma obind_some {A B} (o : option A) (f : A -> option B) b :
  obind o f = Some b -> exists a, o = Some a /\ f a = Some b.
Proof. destruct o as [a|]; cbn; [eauto|discriminate]. Qed.

Lemma do_loop_mono (run1 run2 : store -> option store) v d n :
  (forall s s', run1 s = Some s' -> run2 s = Some s') ->
  forall i s r, do_loop run1 v d n i s = Some r -> do_loop run2 v d n i s = Some r.
Proof.
  intros H. induction n as [|n IH]; intros i s r; cbn; [auto|].
  intros E. apply obind_some in E. destruct E as [s2 [E1 E2]].
  rewrite (H _ _ E1). cbn. now apply IH.
Qed.

Lemma exec_nil ps f s s' : exec ps f [] s = Some s' -> s' = s.
Proof. destruct f; cbn; [discriminate|congruence]. Qed.

Lemma exec_nil_S ps f s : exec ps (S f) [] s = Some s.
Proof. reflexivity. Qed.

Lemma exec1_mono ps f :
  (forall ss s s', exec ps f ss s = Some s' -> exec ps (S f) ss s = Some s') ->
  forall st s s', exec1 ps f st s = Some s' -> exec1 ps (S f) st s = Some s'.
Proof.
  intros IH st s s' E.
  destruct st as [x e|a idx e|v lo hi stp body|c body|c tb eb|g args|l]; try exact E.
  - unfold exec1 in *.
    apply obind_some in E. destruct E as [a [Ea E]]. rewrite Ea. cbn [obind].
    apply obind_some in E. destruct E as [b [Eb E]]. rewrite Eb. cbn [obind].
    apply obind_some in E. destruct E as [d [Ed E]]. rewrite Ed. cbn [obind].
    destruct (d =? 0); [discriminate|].
    eapply do_loop_mono; [|exact E]. intros; now apply IH.
  - unfold exec1 in *.
    apply obind_some in E. destruct E as [b [Eb E]]. rewrite Eb. cbn [obind].
    destruct b; [|exact E].
    apply obind_some in E. destruct E as [s2 [E2 E3]].
    rewrite (IH _ _ _ E2). cbn [obind]. now apply IH.
  - unfold exec1 in *.
    apply obind_some in E. destruct E as [b [Eb E]]. rewrite Eb. cbn [obind]. now apply IH.
  - unfold exec1 in *.
    apply obind_some in E. destruct E as [p [Ep E]]. rewrite Ep. cbn [obind].
    apply obind_some in E. destruct E as [s0 [E0 E]]. rewrite E0. cbn [obind].
    apply obind_some in E. destruct E as [s2 [E2 E3]].
    rewrite (IH _ _ _ E2). exact E3.
Qed.

Lemma exec_fuel_S ps f : forall ss s s', exec ps f ss s = Some s' -> exec ps (S f) ss s = Some s'.
Proof.
  induction f as [|f IH]; intros ss s s' E; [discriminate|].
  destruct ss as [|st rest]; [exact E|].
  rewrite exec_unfold in *. apply obind_some in E. destruct E as [s1 [E1 E2]].
  rewrite (exec1_mono ps f IH _ _ _ E1). cbn [obind]. now apply IH.
Qed.

Lemma exec_fuel_mono ps f f' ss s s' :
  exec ps f ss s = Some s' -> (f <= f')%nat -> exec ps f' ss s = Some s'.
Proof.
  intros E Hle. induction Hle as [|m Hle IH]; [exact E|]. now apply exec_fuel_S.
Qed.

Lemma exec1_fuel_mono ps f f' st s s' :
  exec1 ps f st s = Some s' -> (f <= f')%nat -> exec1 ps f' st s = Some s'.
Proof.
  intros E Hle. induction Hle as [|m Hle IH]; [exact E|].
  apply exec1_mono; [|exact IH]. intros; now apply exec_fuel_S.
Qed.

(** termination-insensitive big-step relations *)
Definition runs (ps : procs) (ss : list stmt) (s s' : store) : Prop := exists f, exec ps f ss s = Some s'.
Definition runs1 (ps : procs) (st : stmt) (s s' : store) : Prop := exists f, exec1 ps f st s = Some s'.

Lemma runs_det ps ss s s1 s2 : runs ps ss s s1 -> runs ps ss s s2 -> s1 = s2.
Proof.
  intros [f1 E1] [f2 E2].
  pose proof (exec_fuel_mono ps f1 (Nat.max f1 f2) ss s s1 E1 (Nat.le_max_l _ _)) as A.
  pose proof (exec_fuel_mono ps f2 (Nat.max f1 f2) ss s s2 E2 (Nat.le_max_r _ _)) as B.
  congruence.
Qed.

Lemma runs1_det ps st s s1 s2 : runs1 ps st s s1 -> runs1 ps st s s2 -> s1 = s2.
Proof.
  intros [f1 E1] [f2 E2].
  pose proof (exec1_fuel_mono ps f1 (Nat.max f1 f2) st s s1 E1 (Nat.le_max_l _ _)) as A.
  pose proof (exec1_fuel_mono ps f2 (Nat.max f1 f2) st s s2 E2 (Nat.le_max_r _ _)) as B.
  congruence.
Qed.

Lemma runs_nil ps s : runs ps [] s s.
Proof. now exists 1%nat. Qed.

Lemma runs_nil_inv ps s s' : runs ps [] s s' -> s' = s.
Proof. intros [f E]. now apply exec_nil in E. Qed.

Lemma runs_cons ps st rest s s1 s' :
  runs1 ps st s s1 -> runs ps rest s1 s' -> runs ps (st :: rest) s s'.
Proof.
  intros [f1 E1] [f2 E2]. exists (S (Nat.max f1 f2)).
  rewrite exec_unfold.
  rewrite (exec1_fuel_mono ps f1 _ st s s1 E1 (Nat.le_max_l _ _)). cbn [obind].
  apply (exec_fuel_mono ps f2); [exact E2|apply Nat.le_max_r].
Qed.

Lemma runs_cons_inv ps st rest s s' :
  runs ps (st :: rest) s s' -> exists s1, runs1 ps st s s1 /\ runs ps rest s1 s'.
Proof.
  intros [f E]. destruct f as [|f]; [discriminate|].
  rewrite exec_unfold in E. apply obind_some in E. destruct E as [s1 [E1 E2]].
  exists s1. split; [now exists f|now exists f].
Qed.

Lemma runs_app ps a b s s1 s' : runs ps a s s1 -> runs ps b s1 s' -> runs ps (a ++ b) s s'.
Proof.
  revert s. induction a as [|st a IH]; intros s Ha Hb; cbn.
  - apply runs_nil_inv in Ha. now subst.
  - apply runs_cons_inv in Ha. destruct Ha as [s2 [H1 H2]].
    eapply runs_cons; [exact H1|]. now apply IH.
Qed.

Lemma runs_app_inv ps a b s s' : runs ps (a ++ b) s s' -> exists s1, runs ps a s s1 /\ runs ps b s1 s'.
Proof.
  revert s. induction a as [|st a IH]; intros s H; cbn in H.
  - exists s. split; [apply runs_nil|exact H].
  - apply runs_cons_inv in H. destruct H as [s2 [H1 H2]].
    apply IH in H2. destruct H2 as [s1 [Ha Hb]].
    exists s1. split; [eapply runs_cons; eassumption|exact Hb].
Qed.

Lemma runs_single ps st s s' : runs ps [st] s s' <-> runs1 ps st s s'.
Proof.
  split.
  - intros H. apply runs_cons_inv in H. destruct H as [s1 [H1 H2]]. apply runs_nil_inv in H2. now subst.
  - intros H. eapply runs_cons; [exact H|apply runs_nil].
Qed.

(** program equivalence: same final store whenever either terminates without error *)
Definition equiv (ps : procs) (p q : list stmt) : Prop :=
  forall s s', runs ps p s s' <-> runs ps q s s'.

Lemma equiv_refl ps p : equiv ps p p. Proof. intros s s'; tauto. Qed.
Lemma equiv_sym ps p q : equiv ps p q -> equiv ps q p. Proof. intros H s s'; symmetry; apply H. Qed.
Lemma equiv_trans ps p q r : equiv ps p q -> equiv ps q r -> equiv ps p r.
Proof. intros H1 H2 s s'. rewrite (H1 s s'). apply H2. Qed.

Lemma equiv_app ps p p' q q' : equiv ps p p' -> equiv ps q q' -> equiv ps (p ++ q) (p' ++ q').
Proof.
  intros Hp Hq s s'. split; intros H; apply runs_app_inv in H; destruct H as [s1 [A B]].
  - eapply runs_app; [apply Hp; exact A|apply Hq; exact B].
  - eapply runs_app; [apply Hp; exact A|apply Hq; exact B].
Qed.

(** the DO loop as a relation, convenient for induction over the trip count *)
Lemma runs1_skip ps l s : runs1 ps (SSkip l) s s.
Proof. exists 0%nat. reflexivity. Qed.

Lemma runs1_assign ps x e s v : evalZ (env_st s) e = Some v -> runs1 ps (SAssign x e) s (set_sv x v s).
Proof. intros E. exists 0%nat. cbn. now rewrite E. Qed.

Lemma runs1_assign_inv ps x e s s' :
  runs1 ps (SAssign x e) s s' -> exists v, evalZ (env_st s) e = Some v /\ s' = set_sv x v s.
Proof.
  intros [f E]. cbn in E. apply obind_some in E. destruct E as [v [Ev E]]. exists v. split; [exact Ev|congruence].
Qed.

Lemma runs1_if ps c tb eb s s' b :
  evalB (env_st s) c = Some b -> (runs1 ps (SIf c tb eb) s s' <-> runs ps (if b then tb else eb) s s').
Proof.
  intros Ec. split.
  - intros [f E]. cbn in E. rewrite Ec in E. cbn in E. now exists f.
  - intros [f E]. exists f. cbn. rewrite Ec. exact E.
Qed.

Inductive loop_runs (ps : procs) (body : list stmt) (v : string) (d : Z) : nat -> Z -> store -> store -> Prop :=
| LR0 i s : loop_runs ps body v d 0 i s (set_sv v i s)
| LRS n i s s1 s' : runs ps body (set_sv v i s) s1 -> loop_runs ps body v d n (i + d) s1 s' ->
                    loop_runs ps body v d (S n) i s s'.

Lemma do_loop_loop_runs ps f body v d n : forall i s s',
  do_loop (exec ps f body) v d n i s = Some s' -> loop_runs ps body v d n i s s'.
Proof.
  induction n as [|n IH]; intros i s s' E; cbn in E.
  - inversion E. constructor.
  - apply obind_some in E. destruct E as [s1 [E1 E2]].
    econstructor; [exists f; exact E1|apply IH; exact E2].
Qed.

Lemma loop_runs_do_loop ps body v d n : forall i s s',
  loop_runs ps body v d n i s s' -> exists f, do_loop (exec ps f body) v d n i s = Some s'.
Proof.
  induction n as [|n IH]; intros i s s' H; inversion H; subst.
  - exists 0%nat. reflexivity.
  - match goal with H1 : runs _ _ _ _, H2 : loop_runs _ _ _ _ _ _ _ _ |- _ =>
      destruct H1 as [f1 E1]; apply IH in H2; destruct H2 as [f2 E2] end.
    exists (Nat.max f1 f2). cbn.
    rewrite (exec_fuel_mono ps f1 _ _ _ _ E1 (Nat.le_max_l _ _)). cbn [obind].
    eapply do_loop_mono; [|exact E2]. intros; eapply exec_fuel_mono; [eassumption|apply Nat.le_max_r].
Qed.

Lemma runs1_do ps v lo hi stp body s s' :
  runs1 ps (SDo v lo hi stp body) s s' <->
  exists a b d, evalZ (env_st s) lo = Some a /\ evalZ (env_st s) hi = Some b /\
                (match stp with None => Some 1 | Some e => evalZ (env_st s) e end) = Some d /\
                d <> 0 /\ loop_runs ps body v d (Z.to_nat (trip_count a b d)) a s s'.
Proof.
  split.
  - intros [f E]. cbn in E.
    apply obind_some in E. destruct E as [a [Ea E]].
    apply obind_some in E. destruct E as [b [Eb E]].
    apply obind_some in E. destruct E as [d [Ed E]].
    destruct (d =? 0) eqn:Ez; [discriminate|].
    exists a, b, d. repeat split; try assumption; [apply Z.eqb_neq; exact Ez|].
    eapply do_loop_loop_runs; exact E.
  - intros [a [b [d [Ea [Eb [Ed [Hd H]]]]]]].
    apply loop_runs_do_loop in H. destruct H as [f E].
    exists f. cbn. rewrite Ea, Eb. cbn [obind]. rewrite Ed. cbn [obind].
    apply Z.eqb_neq in Hd. rewrite Hd. exact E.
Qed.
