(** C43 — lint auto-fix changes only what the fixed rules target.

    Model of what loki/lint/utils.py (Fixer), loki/ir/transformer.py (Transformer with source invalidation),
    loki/backend/fgencon.py (conservative backend), Sourcefile.write and the two fixable rules DO.

    A file is a list of top-level items; a routine is a header, a list of statement nodes, a footer.
    A statement node carries its own source lines, the action the rule's fix attaches to it
    (none / mapped to itself with source=None / dropped / replaced) and the text the structural printer
    produces for it in isolation (supplied: the printer itself is the subject of C04/C06).

    Definitions only; proofs are in proofs/P_C43*.v. *)
From Coq Require Import List String Ascii Bool Arith ZArith.
From LV Require Import Base.Strings Base.Expr Base.MiniF.
Import ListNotations.
Open Scope string_scope.

Definition line := string.

(* ------------------------------------------------------------------------------------------------ *)
(** * Characters, lines *)
Definition is_blank (c : ascii) : bool :=
  let n := nat_of_ascii c in ((n =? 32) || ((9 <=? n) && (n <=? 13)))%nat.

Fixpoint lstrip (s : string) : string :=
  match s with
  | EmptyString => EmptyString
  | String c r => if is_blank c then lstrip r else s
  end.

Fixpoint rstrip (s : string) : string :=
  match s with
  | EmptyString => EmptyString
  | String c r =>
      let r' := rstrip r in
      if is_blank c && (match r' with EmptyString => true | _ => false end) then EmptyString else String c r'
  end.

Definition strip (s : string) : string := lstrip (rstrip s).

Fixpoint lines_eqb (a b : list line) : bool :=
  match a, b with
  | [], [] => true
  | x :: a', y :: b' => String.eqb x y && lines_eqb a' b'
  | _, _ => false
  end.

Fixpoint last_opt {A} (l : list A) : option A :=
  match l with
  | [] => None
  | [x] => Some x
  | _ :: r => last_opt r
  end.

Definition olist {A} (o : option A) : list A := match o with Some x => [x] | None => [] end.

(* ------------------------------------------------------------------------------------------------ *)
(** * Tokens of a Fortran source line (free form): words, punctuation, string literals; comments and
      continuation markers dropped; [.xx.] operators and the two-character relational operators fused *)
Definition is_word (c : ascii) : bool :=
  let n := nat_of_ascii c in
  (((48 <=? n) && (n <=? 57)) || ((65 <=? n) && (n <=? 90)) || ((97 <=? n) && (n <=? 122)) || (n =? 95))%nat.

Definition is_quote (c : ascii) : bool := Ascii.eqb c "'"%char || Ascii.eqb c """"%char.

Inductive lexst := LxCode | LxStr (d : ascii).

Definition flush (cur : string) : list string := match cur with EmptyString => [] | _ => [cur] end.

Definition snoc (s : string) (c : ascii) : string := s ++ String c EmptyString.

Fixpoint lex_raw (s : string) (st : lexst) (cur : string) : list string :=
  match s with
  | EmptyString => flush cur
  | String c r =>
      match st with
      | LxStr d => if Ascii.eqb c d then snoc cur c :: lex_raw r LxCode EmptyString
                   else lex_raw r (LxStr d) (snoc cur c)
      | LxCode =>
          if is_word c then lex_raw r LxCode (snoc cur c)
          else flush cur ++
               (if is_quote c then lex_raw r (LxStr c) (String c EmptyString)
                else if Ascii.eqb c "!"%char then []
                else if is_blank c || Ascii.eqb c "&"%char then lex_raw r LxCode EmptyString
                else String c EmptyString :: lex_raw r LxCode EmptyString)
      end
  end.

Definition dotted (w : string) : bool :=
  let l := lower w in
  existsb (String.eqb l) ["eq"; "ne"; "lt"; "le"; "gt"; "ge"; "and"; "or"; "not"; "eqv"; "neqv"; "true"; "false"].

Fixpoint fuse (l : list string) : list string :=
  match l with
  | [] => []
  | a :: l1 =>
      match l1 with
      | [] => [a]
      | b :: l2 =>
          if (a =? "=") && (b =? "=") then "==" :: fuse l2
          else if (a =? "/") && (b =? "=") then "/=" :: fuse l2
          else if (a =? "<") && (b =? "=") then "<=" :: fuse l2
          else if (a =? ">") && (b =? "=") then ">=" :: fuse l2
          else match l2 with
               | c :: l3 => if (a =? ".") && dotted b && (c =? ".") then ("." ++ b ++ ".") :: fuse l3
                            else a :: fuse l1
               | [] => a :: fuse l1
               end
      end
  end.

Definition lex_line (s : line) : list string := fuse (lex_raw s LxCode EmptyString).
Definition lex_lines (ls : list line) : list string := flat_map lex_line ls.

Definition is_str_tok (t : string) : bool := match t with String c _ => is_quote c | EmptyString => false end.

(** the operator-spelling function: the six relational operators, case-insensitive *)
Definition f90_spelling (t : string) : string :=
  let l := lower t in
  if l =? ".eq." then "==" else if l =? ".ne." then "/=" else if l =? ".lt." then "<"
  else if l =? ".le." then "<=" else if l =? ".gt." then ">" else if l =? ".ge." then ">=" else t.

Definition f77_lower (l : string) : bool :=
  (l =? ".eq.") || (l =? ".ne.") || (l =? ".lt.") || (l =? ".le.") || (l =? ".gt.") || (l =? ".ge.").
Definition is_f77 (t : string) : bool := f77_lower (lower t).

(** what a comparison token denotes *)
Definition denote (t : string) : option cmpop :=
  let l := lower t in
  if (l =? ".eq.") || (l =? "==") then Some Ceq else if (l =? ".ne.") || (l =? "/=") then Some Cne
  else if (l =? ".lt.") || (l =? "<") then Some Clt else if (l =? ".le.") || (l =? "<=") then Some Cle
  else if (l =? ".gt.") || (l =? ">") then Some Cgt else if (l =? ".ge.") || (l =? ">=") then Some Cge else None.

(** letter case is irrelevant outside string literals *)
Definition foldt (t : string) : string := if is_str_tok t then t else lower t.

(** "same tokens modulo operator spelling, blanks and letter case" *)
Definition toks_match (orig regen : list line) : bool :=
  lines_eqb (map foldt (lex_lines regen)) (map foldt (map f90_spelling (lex_lines orig))).

(** the rule's check as a predicate on text: an F77 spelling occurs in a code token *)
Definition f77_free (ls : list line) : bool := forallb (fun t => negb (is_f77 t)) (lex_lines ls).

(* ------------------------------------------------------------------------------------------------ *)
(** * Statement trees *)
Inductive lkind :=
| LVerb      (* Assignment, CallStatement, Comment(Block), VariableDeclaration, Import: source text if VALID *)
| LRegen     (* every other leaf (Intrinsic, inline WHERE, ...): always printed structurally *)
| LSep       (* an own line of the parent between two sections: ELSE / ELSEWHERE / CASE *)
| LInline.   (* in-line comment node (no own line) / the empty-Section string: always printed as supplied *)

Inductive bkind :=
| BLoop      (* DO loop: conservative handler keeps first and last source line *)
| BCond      (* block IF *)
| BInline    (* IF (c) stmt *)
| BOther.    (* DO WHILE, WHERE, SELECT CASE ...: frame always printed structurally *)

Inductive action :=
| ANone
| ASelf      (* mapped to itself with source=None, and FOUND by the Transformer's mapper look-up *)
| AVisit     (* mapped to itself with source=None, but the look-up MISSES: the key was hashed before the sources of
                nodes reported later (its descendants) were set to None, and CPython's dict only finds such a key
                when the stale and the new hash fall into the same slot; which of the two happens is an input *)
| ADrop      (* mapped to None *)
| ARepl.     (* replaced by new statements (regen = their text) *)
Inductive status := VALID | INV_NODE | INV_CHILDREN | NOSRC.

(** own lines of a block: header / footer in the source (hs, fs), as the structural printer gives them (rh, rf),
    the header in the OTHER syntactic role (rhx: IF vs ELSE IF), has_elseif (ei), "is the ELSE IF child" (eik) *)
Record frame := { hs : list line; rh : list line; rhx : list line; fs : list line; rf : list line; ei : bool; eik : bool }.

Inductive node :=
| Leaf (k : lkind) (st : status) (a : action) (src regen : list line)
| Blk (k : bkind) (st : status) (a : action) (fr : frame) (kids : list node).

(** literals written by the harness: a freshly parsed file has VALID sources only *)
Definition L k a src regen := Leaf k VALID a src regen.
Definition B k a h r x f g e ek kids := Blk k VALID a {| hs := h; rh := r; rhx := x; fs := f; rf := g; ei := e; eik := ek |} kids.

Definition is_act (a : action) : bool := match a with ANone => false | _ => true end.
Definition is_drop (a : action) : bool := match a with ADrop => true | _ => false end.
Definition is_found (a : action) : bool := match a with ANone | AVisit => false | _ => true end.
Definition status_valid (s : status) : bool := match s with VALID => true | _ => false end.

(** the node is a key of the rule's mapper *)
Definition leaf_mapped (k : lkind) (a : action) : bool :=
  match k with LVerb | LRegen => is_act a | _ => false end.

Fixpoint has_action (n : node) : bool :=
  match n with
  | Leaf k _ a _ _ => leaf_mapped k a
  | Blk _ _ a _ kids => is_act a || existsb has_action kids
  end.

(** no action flag at all below (in-line comments included) *)
Fixpoint no_act (n : node) : bool :=
  match n with
  | Leaf _ _ a _ _ => negb (is_act a)
  | Blk _ _ a _ kids => negb (is_act a) && forallb no_act kids
  end.

Definition is_sep (n : node) : bool := match n with Leaf LSep _ _ _ _ => true | _ => false end.
Definition has_node_kid (kids : list node) : bool := existsb (fun c => negb (is_sep c)) kids.

(** source text of a node = its own lines around the text of its children *)
Fixpoint src_of (n : node) : list line :=
  match n with
  | Leaf _ _ _ src _ => src
  | Blk k _ _ fr kids =>
      match k with
      | BInline => hs fr
      | _ => hs fr ++ flat_map src_of kids ++ fs fr
      end
  end.

(* ------------------------------------------------------------------------------------------------ *)
(** * The fix: mapper, Transformer, conservative printer *)

(** [rule.fix_subroutine]: every reported node gets [source = None] IN PLACE (visible everywhere) *)
Fixpoint mark (n : node) : node :=
  match n with
  | Leaf k _ a src regen => Leaf k (if leaf_mapped k a then NOSRC else VALID) a src regen
  | Blk k _ a fr kids => Blk k (if is_act a then NOSRC else VALID) a fr (map mark kids)
  end.

(** [Transformer(mapper).visit]: a node found in the mapper is replaced by its handle (children not
    visited); every other node is rebuilt from its visited children and gets INVALID_CHILDREN as soon as
    it has ANY child node ([is_source_valid] is applied to the child node, not to its source). *)
Fixpoint transform (n : node) : node :=
  match n with
  | Leaf _ _ _ _ _ => n
  | Blk k st a fr kids =>
      if is_found a then n
      else Blk k (if status_valid st && has_node_kid kids then INV_CHILDREN else st) a fr (map transform kids)
  end.

(** how the parent prints its separator lines *)
Inductive sepmode := SRegen | SElse (l : list line).

(** [elseline[-1]]: the last source line that is exactly ELSE *)
Definition is_else_line (s : line) : bool := String.eqb (upper (strip s)) "ELSE".
Definition last_else (src : list line) : list line := olist (last_opt (filter is_else_line src)).

(** fgen's inline IF: [format_line('IF (cond) ' + ''.join(body.lstrip().split('&\n&')))]; one-line bodies *)
Definition inline_regen (pre : list line) (body : list line) : list line :=
  match pre, body with
  | [p], [b] => [rstrip (p ++ lstrip b)]
  | _, _ => pre ++ body
  end.

(** the children of a block, each with the [is_elseif] keyword argument it is visited with: [own] for all of
    them, except that the ELSE IF child (the last one when has_elseif) always gets [True] *)
Definition emit_kids (f : bool -> node -> list line) (own : bool) (e : bool) : list node -> list line :=
  fix go (kids : list node) : list line :=
    match kids with
    | [] => []
    | c :: r => match r with [] => f (own || e) c | _ => (f own c ++ go r)%list end
    end.

(** [ise]: the visitor's kwargs contain [is_elseif=True].  fgencon's handlers never pop it, so below an ELSE IF
    conditional printed by the conservative handler EVERY structurally printed block IF comes out as ELSE IF. *)
Fixpoint emit (sm : sepmode) (ise : bool) (n : node) : list line :=
  match n with
  | Leaf k st a src regen =>
      match k with
      | LSep => match sm with SRegen => regen | SElse l => l end
      | LInline => regen
      | LRegen => if is_drop a then [] else regen
      | LVerb => if is_drop a then [] else if status_valid st then src else regen
      end
  | Blk k st a fr kids =>
      if is_drop a then [] else
      match k with
      | BOther => rh fr ++ flat_map (emit SRegen ise) kids ++ rf fr
      | BInline => if status_valid st then hs fr else inline_regen (rh fr) (flat_map (emit SRegen ise) kids)
      | BLoop =>
          match st with
          | VALID => src_of n
          | INV_CHILDREN => firstn 1 (src_of n) ++ flat_map (emit SRegen ise) kids ++ olist (last_opt (src_of n))
          | _ => rh fr ++ flat_map (emit SRegen ise) kids ++ rf fr
          end
      | BCond =>
          match st with
          | VALID => src_of n
          | INV_CHILDREN => firstn 1 (src_of n) ++ emit_kids (emit (SElse (last_else (src_of n)))) ise (ei fr) kids
                            ++ (if ei fr then [] else olist (last_opt (src_of n)))
          | _ => (if Bool.eqb ise (eik fr) then rh fr else rhx fr) ++ emit_kids (emit SRegen) false (ei fr) kids ++ rf fr
          end
      end
  end.

Definition ok_kids (f : bool -> node -> bool) (own : bool) (e : bool) : list node -> bool :=
  fix go (kids : list node) : bool :=
    match kids with
    | [] => true
    | c :: r => match r with [] => f (own || e) c | _ => f own c && go r end
    end.

(** exceptions of the conservative printer: [elseline[-1]] raises IndexError when an ELSE branch exists but no
    source line is exactly ELSE; a has_elseif conditional visited with [is_elseif] in the kwargs passes the
    keyword twice (TypeError) *)
Fixpoint emit_ok (ise : bool) (n : node) : bool :=
  match n with
  | Leaf _ _ _ _ _ => true
  | Blk k st a fr kids =>
      is_drop a ||
      match k with
      | BCond =>
          match st with
          | VALID => true
          | INV_CHILDREN =>
              negb (ise && ei fr) && ok_kids emit_ok ise (ei fr) kids
              && (negb (existsb is_sep kids) || ei fr || match last_else (src_of n) with [] => false | _ => true end)
          | _ => ok_kids emit_ok false (ei fr) kids
          end
      | BLoop => match st with VALID => true | _ => forallb (emit_ok ise) kids end
      | BInline => status_valid st || forallb (emit_ok ise) kids
      | BOther => forallb (emit_ok ise) kids
      end
  end.

(* ------------------------------------------------------------------------------------------------ *)
(** * Files *)
Record routine := { r_hsrc : list line; r_hregen : list line; r_kids : list node; r_fsrc : list line; r_fregen : list line }.

Inductive item :=
| IText (l : list line)                    (* comments between program units *)
| IOpaque (rep : bool) (src regen : list line)   (* module / function: printed as one unit (not modelled further);
                                                   rep: the rule reports something inside it *)
| IRoutine (r : routine).

Inductive rulekind := RF90 | RUbound.

Definition routine_src (r : routine) : list line := r_hsrc r ++ flat_map src_of (r_kids r) ++ r_fsrc r.
Definition item_src (it : item) : list line :=
  match it with IText l => l | IOpaque _ s _ => s | IRoutine r => routine_src r end.
Definition orig (f : list item) : list line := flat_map item_src f.

Definition routine_act (r : routine) : bool := existsb has_action (r_kids r).
Definition file_act (f : list item) : bool :=
  existsb (fun it => match it with IRoutine r => routine_act r | IOpaque rp _ _ => rp | IText _ => false end) f.

(** [Fixer.fix_subroutine]: Fortran90OperatorsRule maps ALL reported nodes of the file in every call (so every
    routine is touched as soon as the file has one report); DynamicUboundCheckRule maps per routine.  A touched
    routine gets [source.invalidate()] = INVALID_NODE: header and footer are printed structurally. *)
Definition touched (rk : rulekind) (fa : bool) (r : routine) : bool :=
  match rk with RF90 => fa | RUbound => routine_act r end.

Definition fix_kid (n : node) : node := transform (mark n).

Definition emit_routine (rk : rulekind) (fa : bool) (r : routine) : list line :=
  if touched rk fa r then
    r_hregen r ++ flat_map (fun n => emit SRegen false (fix_kid n)) (r_kids r) ++ r_fregen r
  else routine_src r.

Definition routine_ok (rk : rulekind) (fa : bool) (r : routine) : bool :=
  negb (touched rk fa r) || forallb (fun n => emit_ok false (fix_kid n)) (r_kids r).

Definition emit_item (rk : rulekind) (fa : bool) (it : item) : list line :=
  match it with
  | IText l => l
  | IOpaque _ _ g => g
  | IRoutine x => emit_routine rk fa x
  end.
Definition emit_items (rk : rulekind) (fa : bool) (f : list item) : list line := flat_map (emit_item rk fa) f.

Definition items_ok (rk : rulekind) (fa : bool) (f : list item) : bool :=
  forallb (fun it => match it with IRoutine x => routine_ok rk fa x | _ => true end) f.

(** [Sourcefile.to_file]: a newline is appended only when the text does not end with one *)
Definition write_lines (ls : list line) : list line :=
  match last_opt ls with
  | Some EmptyString => removelast ls
  | _ => ls
  end.

(** [Linter.fix] + [Sourcefile.write(conservative=True)]: [Some text] = the file after the fix,
    [None] = an exception escaped (check_and_fix_file turns it into a file error; the file is left alone) *)
Definition fix_file (rk : rulekind) (f : list item) : option (list line) :=
  if negb (file_act f) then Some (orig f)                       (* no fixable report: nothing is written *)
  else if items_ok rk true f then Some (write_lines (emit_items rk true f))
  else None.

(** the SHIPPED Fortran90OperatorsRule.fix_subroutine calls [Node.update_metadata], which does not exist *)
Definition fix_file_shipped_f90 (f : list item) : option (list line) :=
  if file_act f then None else Some (orig f).

(* ------------------------------------------------------------------------------------------------ *)
(** * Specification of the fix, statement by statement *)

(** own-line groups of the original text, in source order, flagged "belongs to a reported statement" *)
Fixpoint groups (prep : bool) (n : node) : list (bool * list line) :=
  match n with
  | Leaf k _ a src _ => [(match k with LSep => prep | _ => is_act a end, src)]
  | Blk k _ a fr kids =>
      if is_drop a then [(true, src_of n)]
      else match k with
           | BInline => [(is_act a || existsb has_action kids, hs fr)]
           | _ => (is_act a, hs fr) :: flat_map (groups (is_act a)) kids ++ [(is_act a, fs fr)]
           end
  end.

(** what each group should become: unreported text unchanged, reported text = structural print *)
Fixpoint spec_g (prep : bool) (n : node) : list (list line) :=
  match n with
  | Leaf k _ a src regen =>
      [match k with
       | LSep => if prep then regen else src
       | LInline => if is_act a then regen else src
       | _ => match a with ANone => src | ADrop => [] | _ => regen end
       end]
  | Blk k _ a fr kids =>
      if is_drop a then [[]]
      else match k with
           | BInline => [if is_act a || existsb has_action kids
                         then inline_regen (rh fr) (List.concat (flat_map (spec_g (is_act a)) kids)) else hs fr]
           | _ => (if is_act a then rh fr else hs fr) :: flat_map (spec_g (is_act a)) kids
                  ++ [if is_act a then rf fr else fs fr]
           end
  end.

Definition routine_groups (r : routine) : list (bool * list line) :=
  (false, r_hsrc r) :: flat_map (groups false) (r_kids r) ++ [(false, r_fsrc r)].
Definition routine_spec (r : routine) : list (list line) :=
  r_hsrc r :: flat_map (spec_g false) (r_kids r) ++ [r_fsrc r].

Definition item_groups (it : item) : list (bool * list line) :=
  match it with
  | IText l => [(false, l)]
  | IOpaque _ s _ => [(false, s)]
  | IRoutine r => routine_groups r
  end.
Definition item_spec (it : item) : list (list line) :=
  match it with
  | IText l => [l]
  | IOpaque _ _ g => [g]
  | IRoutine r => routine_spec r
  end.
Definition file_groups (f : list item) : list (bool * list line) := flat_map item_groups f.
Definition file_spec (f : list item) : list (list line) := flat_map item_spec f.

(* ------------------------------------------------------------------------------------------------ *)
(** * The class on which the mechanism is right (decidable, structural) *)
Inductive tmode := MVisit | MUntouched.

Definition sep_emit (sm : sepmode) (regen : list line) : list line :=
  match sm with SRegen => regen | SElse l => l end.

Definition one_line (l : list line) : bool := match l with [_] => true | _ => false end.
Definition no_line (l : list line) : bool := match l with [] => true | _ => false end.

Definition class_kids := ok_kids.

Fixpoint in_class (m : tmode) (prep : bool) (sm : sepmode) (ise : bool) (n : node) : bool :=
  match n with
  | Leaf k _ a src regen =>
      match k with
      | LVerb => true
      | LRegen => is_act a || lines_eqb regen src
      | LInline => is_act a || lines_eqb regen src
      | LSep => lines_eqb (sep_emit sm regen) (if prep then regen else src)
      end
  | Blk k _ a fr kids =>
      is_drop a ||
      (let km := match m with MUntouched => MUntouched | MVisit => if is_found a then MUntouched else MVisit end in
       if is_act a then
         (* printed structurally around the children *)
         match k with
         | BInline => false
         | BCond => Bool.eqb ise (eik fr) && class_kids (in_class km true SRegen) false (ei fr) kids
         | _ => forallb (in_class km true SRegen ise) kids
         end
       else
         match k with
         | BOther => lines_eqb (rh fr) (hs fr) && lines_eqb (rf fr) (fs fr) && forallb (in_class km false SRegen ise) kids
         | BInline => match m with MUntouched => forallb no_act kids | _ => false end
         | BLoop =>
             if match m with MUntouched => false | _ => has_node_kid kids end then
               one_line (hs fr) && one_line (fs fr) && forallb (in_class km false SRegen ise) kids
             else forallb no_act kids
         | BCond =>
             if match m with MUntouched => false | _ => has_node_kid kids end then
               one_line (hs fr) && (if ei fr then no_line (fs fr) else one_line (fs fr))
               && negb (ise && ei fr)
               && (negb (existsb is_sep kids) || ei fr || negb (no_line (last_else (src_of n))))
               && class_kids (in_class km false (SElse (last_else (src_of n)))) ise (ei fr) kids
             else forallb no_act kids
         end)
  end.

(** routine header / footer are only kept when the routine is not touched or already in the printer's form *)
Definition routine_in_class (rk : rulekind) (fa : bool) (r : routine) : bool :=
  if touched rk fa r then
    lines_eqb (r_hregen r) (r_hsrc r) && lines_eqb (r_fregen r) (r_fsrc r)
    && forallb (in_class MVisit false SRegen false) (r_kids r)
  else forallb no_act (r_kids r).

Definition item_in_class (rk : rulekind) (fa : bool) (it : item) : bool :=
  match it with
  | IText _ => true
  | IOpaque _ s g => lines_eqb g s
  | IRoutine x => routine_in_class rk fa x
  end.

Definition file_in_class (rk : rulekind) (f : list item) : bool := forallb (item_in_class rk (file_act f)) f.

(** the structural print of every reported statement has the original tokens with F90 operator spellings *)
Fixpoint toks_ok (prep : bool) (n : node) : bool :=
  match n with
  | Leaf k _ a src regen =>
      match k with
      | LSep => negb prep || toks_match src regen
      | LInline => negb (is_act a) || toks_match src regen
      | _ => match a with ASelf | AVisit => toks_match src regen | _ => true end
      end
  | Blk k _ a fr kids =>
      is_drop a ||
      ((negb (is_act a) || (toks_match (hs fr) (rh fr) && toks_match (fs fr) (rf fr))) && forallb (toks_ok (is_act a)) kids)
  end.

(** every statement with an F77 spelling in a code token is reported (the rule's check, as a predicate) *)
Fixpoint reports_complete (prep : bool) (n : node) : bool :=
  match n with
  | Leaf k _ a src _ =>
      match k with
      | LSep => prep || f77_free src
      | _ => is_act a || f77_free src
      end
  | Blk k _ a fr kids =>
      is_drop a ||
      match k with
      | BInline => is_act a || existsb has_action kids || f77_free (hs fr)
      | _ => (is_act a || (f77_free (hs fr) && f77_free (fs fr))) && forallb (reports_complete (is_act a)) kids
      end
  end.

(** only "mapped to itself" actions, and in-line IFs untouched (Fortran90OperatorsRule on its class) *)
Fixpoint only_self (n : node) : bool :=
  match n with
  | Leaf _ _ a _ _ => match a with ANone | ASelf | AVisit => true | _ => false end
  | Blk k _ a _ kids =>
      match a with ANone | ASelf | AVisit => true | _ => false end
      && match k with BInline => negb (is_act a || existsb has_action kids) | _ => true end
      && forallb only_self kids
  end.

(** an in-line IF is either dropped or left alone *)
Fixpoint inline_ok (n : node) : bool :=
  match n with
  | Leaf _ _ _ _ _ => true
  | Blk k _ a _ kids =>
      is_drop a ||
      (match k with BInline => negb (is_act a || existsb has_action kids) | _ => true end && forallb inline_ok kids)
  end.

(** text outside the statement trees (comments between units, routine headers/footers) has no F77 operator *)
Definition file_frame_clean (f : list item) : bool :=
  forallb (fun it => match it with
                     | IText l => f77_free l
                     | IOpaque _ _ g => f77_free g
                     | IRoutine r => f77_free (r_hsrc r) && f77_free (r_fsrc r)
                     end) f.

Definition file_forall (p : node -> bool) (f : list item) : bool :=
  forallb (fun it => match it with IRoutine r => forallb p (r_kids r) | _ => true end) f.

(** the file as the parser would see the fixed text: same tree, sources := specified text, no reports *)
Fixpoint reparse (prep : bool) (n : node) : node :=
  match n with
  | Leaf k _ a src regen =>
      Leaf k VALID ANone (match k with
                          | LSep => if prep then regen else src
                          | LInline => if is_act a then regen else src
                          | _ => match a with ANone => src | ADrop => [] | _ => regen end
                          end) regen
  | Blk k _ a fr kids =>
      if is_drop a then Leaf LVerb VALID ANone [] [] else
      Blk k VALID ANone {| hs := if is_act a then rh fr else hs fr; rh := rh fr; rhx := rhx fr;
                           fs := if is_act a then rf fr else fs fr; rf := rf fr; ei := ei fr; eik := eik fr |}
          (map (reparse (is_act a)) kids)
  end.

Definition reparse_file (f : list item) : list item :=
  map (fun it => match it with
                 | IRoutine r => IRoutine {| r_hsrc := r_hsrc r; r_hregen := r_hregen r;
                                             r_kids := map (reparse false) (r_kids r);
                                             r_fsrc := r_fsrc r; r_fregen := r_fregen r |}
                 | IOpaque _ _ g => IOpaque false g g
                 | x => x
                 end) f.

(* ------------------------------------------------------------------------------------------------ *)
(** * Correspondence terms *)
Definition opt_lines_eqb (o : option (list line)) (raised : bool) (fixed : list line) (original : list line) : bool :=
  match o with
  | Some l => negb raised && lines_eqb l fixed
  | None => raised && lines_eqb original fixed
  end.

(** the model reproduces the whole rewritten file (or the exception), the extracted tree tiles the original
    text, and wherever the class predicates hold the direct oracle on the real output passed *)
Definition chk_output (rk : rulekind) (f : list item) (original fixed : list line) (raised oracle_ok : bool) : bool :=
  lines_eqb (orig f) original
  && opt_lines_eqb (fix_file rk f) raised fixed original
  && (negb (file_in_class rk f && file_forall (toks_ok false) f && file_forall (reports_complete false) f
            && file_frame_clean f) || oracle_ok).

Definition chk_shipped (f : list item) (original fixed : list line) (raised : bool) : bool :=
  lines_eqb (orig f) original && opt_lines_eqb (fix_file_shipped_f90 f) raised fixed original.

Definition class_flags (rk : rulekind) (f : list item) : bool * bool * bool :=
  (file_in_class rk f, file_forall (toks_ok false) f, file_forall (reports_complete false) f).

(* ------------------------------------------------------------------------------------------------ *)
(** * DynamicUboundCheckRule on the shared MiniF level
      The fix (a) rewrites the declarations of the fully checked assumed-shape dummies to explicit shapes - no
      effect on MiniF, where arrays are total functions - and (b) maps every conditional whose condition holds one of
      the collected calls to [None].  A routine body is a list of items: a removed conditional [IF (c) THEN body],
      or any other statement (the array extent is read through the uninterpreted function "ubound"). *)
Inductive ustmt :=
| UCheck (c : expr) (body : list stmt)     (* a conditional the fix removes *)
| UStmt (s : stmt).

Definition to_minif (u : ustmt) : stmt := match u with UCheck c b => SIf c b [] | UStmt s => s end.
Definition ub_prog (p : list ustmt) : list stmt := map to_minif p.
Definition ub_fix (p : list ustmt) : list ustmt :=
  filter (fun u => match u with UCheck _ _ => false | UStmt _ => true end) p.

(** no removed check fires along the run that starts in store [s] *)
Fixpoint quiet (run1 : stmt -> store -> store -> Prop) (p : list ustmt) (s : store) : Prop :=
  match p with
  | [] => True
  | UCheck c _ :: r => evalB (env_st s) c = Some false /\ quiet run1 r s
  | UStmt st :: r => forall s1, run1 st s s1 -> quiet run1 r s1
  end.

(** ** Which bound becomes the new extent
    [fix_subroutine] collects, per fully checked dummy [a] and dimension [d], the LAST call (conditionals in source
    order) that has [a] and the literal [d] among its arguments, takes the conditional holding it, and in that
    conditional the FIRST [<]/[>] comparison that mentions [a] and the literal [d]; the side without [ubound] is the
    extent.  A comparison is abstracted to (array, dimension, bound text); names are case-insensitive. *)
Record ubcmp := { uc_arr : string; uc_dim : nat; uc_bound : string }.

Definition ub_match (a : string) (d : nat) (c : ubcmp) : bool :=
  String.eqb (lower (uc_arr c)) (lower a) && Nat.eqb (uc_dim c) d.

Definition ub_cond (conds : list (list ubcmp)) (a : string) (d : nat) : option (list ubcmp) :=
  last_opt (filter (existsb (ub_match a d)) conds).

Definition ub_pick (conds : list (list ubcmp)) (a : string) (d : nat) : option string :=
  match ub_cond conds a d with
  | Some cs => match find (ub_match a d) cs with Some c => Some (uc_bound c) | None => None end
  | None => None
  end.

Definition ub_shape (conds : list (list ubcmp)) (a : string) (rank : nat) : list (option string) :=
  map (ub_pick conds a) (seq 1 rank).

Fixpoint ostr_eqb (x y : list (option string)) : bool :=
  match x, y with
  | [], [] => true
  | Some p :: x', Some q :: y' => String.eqb p q && ostr_eqb x' y'
  | None :: x', None :: y' => ostr_eqb x' y'
  | _, _ => false
  end.

(** the declared extents of the rewritten dummies (blank-free, lower case) are the selected bounds *)
Definition chk_ub_shapes (conds : list (list ubcmp)) (decl : list (prod string (list string))) : bool :=
  forallb (fun ad => ostr_eqb (ub_shape conds (fst ad) (List.length (snd ad))) (map Some (snd ad))) decl.
