(** C30 — model of Loki's array-notation resolution and index normalisation
    (loki/transformations/array_indexing/vector_notation.py and array_indices.py).

    Part A: source-level array-section statements (the shared MiniF core has none), their Fortran
            array-assignment semantics [vexec] (right-hand side evaluated for ALL section elements
            before any element is stored) and the model [resolve_*] of
            ResolveVectorNotationTransformer (visit_Assignment / visit_MaskedStatement);
            add/remove_explicit_array_dimensions.
    Part B: a linear normal form for index expressions: the tie compares Loki's [simplify]-ed
            index expressions with the unsimplified ones of the model modulo this normal form
            (soundness is proved in P_C30_lin.v).
    Part C: shift_to_zero_indexing, invert_array_indices, flatten_arrays, normalize_range_indexing,
            normalize_array_shape_and_access as transformations of MiniF programs and declarations,
            and the re-indexing maps / store relations they are proved against.

    Definitions only; all proofs are in proofs/P_C30*.v. *)
From Coq Require Import ZArith List Bool String Ascii.
From LV Require Import Base.Expr Base.MiniF.
Import ListNotations.
Open Scope Z_scope.

(* ------------------------------------------------------------------------------------------ *)
(** * Part A.1  syntax of section statements *)

Inductive vindex : Type :=
| IScalar (e : expr)
| IRange (lo hi st : option expr).          (* RangeIndex((lo, hi, st)); [IRange None None None] is ":" *)

Inductive vexpr : Type :=
| VScal (e : expr)                          (* a section-free scalar subexpression *)
| VRef  (a : string) (idx : list vindex)    (* array reference; [idx = []] is the bare array name *)
| VSum  (p : bool) (cs : list vexpr)
| VProd (p : bool) (cs : list vexpr)
| VQuot (p : bool) (n d : vexpr)
| VCall (f : string) (args : list vexpr).   (* elemental intrinsic *)

Section vexpr_ind'.
  Variable P : vexpr -> Prop.
  Hypothesis HS : forall e, P (VScal e).
  Hypothesis HR : forall a i, P (VRef a i).
  Hypothesis HSum : forall p cs, Forall P cs -> P (VSum p cs).
  Hypothesis HProd : forall p cs, Forall P cs -> P (VProd p cs).
  Hypothesis HQuot : forall p n d, P n -> P d -> P (VQuot p n d).
  Hypothesis HCall : forall f cs, Forall P cs -> P (VCall f cs).
  Fixpoint vexpr_ind' (e : vexpr) : P e :=
    let fix go (l : list vexpr) : Forall P l :=
      match l with [] => Forall_nil P | x :: r => Forall_cons x (vexpr_ind' x) (go r) end in
    match e with
    | VScal e => HS e
    | VRef a i => HR a i
    | VSum p cs => HSum p cs (go cs)
    | VProd p cs => HProd p cs (go cs)
    | VQuot p n d => HQuot p n d (vexpr_ind' n) (vexpr_ind' d)
    | VCall f cs => HCall f cs (go cs)
    end.
End vexpr_ind'.

(** the condition of a single-clause WHERE: a comparison of two section expressions *)
Record vcond := { vc_op : cmpop; vc_l : vexpr; vc_r : vexpr }.

Inductive vstmt : Type :=
| VPlain  (s : stmt)                                        (* section-free statement, kept as is *)
| VAssign (a : string) (idx : list vindex) (rhs : vexpr)    (* a(idx) = rhs *)
| VDo     (v : string) (lo hi : expr) (st : option expr) (body : list vstmt)
| VIf     (c : expr) (tb eb : list vstmt)
| VWhere  (c : vcond) (body ebody : list vstmt).            (* WHERE (c) body ELSEWHERE ebody END WHERE *)

(** declared shapes: Loki's [shape] entries are either a size expression [n] (meaning 1:n) or a range lo:hi *)
Inductive dshape : Type := DSize (e : expr) | DRange (lo hi : expr).
Definition decls := list (string * list dshape).

Fixpoint lookup_decl (ds : decls) (a : string) : option (list dshape) :=
  match ds with
  | [] => None
  | (b, sh) :: r => if String.eqb b a then Some sh else lookup_decl r a
  end.

(* ------------------------------------------------------------------------------------------ *)
(** * Part A.2  IterationRangeShapeMapper: ":" becomes the declared range, a bare array gets ":" everywhere *)

Definition range3 := (option expr * option expr * option expr)%type.

Definition is_colon (d : vindex) : bool :=
  match d with IRange None None None => true | _ => false end.

Definition shape_range (s : dshape) : vindex :=
  match s with
  | DRange lo hi => IRange (Some lo) (Some hi) None
  | DSize n => IRange (Some (EInt 1)) (Some n) None
  end.

(** zip(dimensions, shape): truncates to the shorter one, exactly as the code does *)
Fixpoint qualify_zip (idx : list vindex) (sh : list dshape) : list vindex :=
  match idx, sh with
  | d :: r, s :: q => (if is_colon d then shape_range s else d) :: qualify_zip r q
  | _, _ => []
  end.

Definition qualify_idx (ds : decls) (a : string) (idx : list vindex) : list vindex :=
  match lookup_decl ds a with
  | None | Some [] => idx
  | Some sh =>
      let idx1 := match idx with [] => map (fun _ => IRange None None None) sh | _ => idx end in
      qualify_zip idx1 sh
  end.

Fixpoint qualify_vexpr (ds : decls) (e : vexpr) : vexpr :=
  match e with
  | VScal e => VScal e
  | VRef a idx => VRef a (qualify_idx ds a idx)
  | VSum p cs => VSum p (map (qualify_vexpr ds) cs)
  | VProd p cs => VProd p (map (qualify_vexpr ds) cs)
  | VQuot p n d => VQuot p (qualify_vexpr ds n) (qualify_vexpr ds d)
  | VCall f cs => VCall f (map (qualify_vexpr ds) cs)
  end.

(* ------------------------------------------------------------------------------------------ *)
(** * Part A.3  Fortran semantics of an array assignment *)

Definition eval_o (s : store) (o : option expr) : option Z :=
  match o with Some e => evalZ (env_st s) e | None => None end.

Definition eval_step (s : store) (o : option expr) : option Z :=
  match o with Some e => evalZ (env_st s) e | None => Some 1 end.

(** the ranges of an index list, in order *)
Fixpoint ranges_of (idx : list vindex) : list range3 :=
  match idx with
  | [] => []
  | IScalar _ :: r => ranges_of r
  | IRange lo hi st :: r => (lo, hi, st) :: ranges_of r
  end.

(** number of elements of each range dimension (bounds and strides evaluated once, in [s]); a zero stride,
    a missing bound or an evaluation error is [None] *)
Definition range_extent (s : store) (r : range3) : option nat :=
  let '(lo, hi, st) := r in
  obind (eval_o s lo) (fun l => obind (eval_o s hi) (fun h => obind (eval_step s st) (fun d =>
    if d =? 0 then None else Some (Z.to_nat (trip_count l h d))))).

Definition extents (s : store) (idx : list vindex) : option (list nat) :=
  omap_list (range_extent s) (ranges_of idx).

(** the concrete subscript list of element [J] (one 0-based offset per range dimension) *)
Fixpoint vidx_at (s : store) (idx : list vindex) (J : list Z) : option (list Z) :=
  match idx with
  | [] => match J with [] => Some [] | _ => None end
  | IScalar e :: r =>
      obind (evalZ (env_st s) e) (fun v => obind (vidx_at s r J) (fun vs => Some (v :: vs)))
  | IRange lo _ st :: r =>
      match J with
      | j :: J' =>
          obind (eval_o s lo) (fun l => obind (eval_step s st) (fun d =>
            obind (vidx_at s r J') (fun vs => Some ((l + j * d) :: vs))))
      | [] => None
      end
  end.

(** value of element [J] of a section expression; scalars are broadcast *)
Fixpoint veval (s : store) (J : list Z) (e : vexpr) : option Z :=
  match e with
  | VScal e => evalZ (env_st s) e
  | VRef a idx =>
      match ranges_of idx with
      | [] => obind (vidx_at s idx []) (fun i => Some (av s a i))     (* an array element: broadcast *)
      | _ => obind (vidx_at s idx J) (fun i => Some (av s a i))
      end
  | VSum _ cs => fold_right (fun c acc => obind (veval s J c) (fun v => obind acc (fun a => Some (v + a)))) (Some 0) cs
  | VProd _ cs => fold_right (fun c acc => obind (veval s J c) (fun v => obind acc (fun a => Some (v * a)))) (Some 1) cs
  | VQuot _ n d => obind (veval s J n) (fun a => obind (veval s J d) (fun b => div_z a b))
  | VCall f args =>
      obind ((fix go (l : list vexpr) : option (list Z) :=
                match l with
                | [] => Some []
                | a :: r => obind (veval s J a) (fun v => obind (go r) (fun vs => Some (v :: vs)))
                end) args)
            (fun vs => match intrinsic f vs with Some r => r | None => None end)
  end.

Fixpoint list_nat_eqb (a b : list nat) : bool :=
  match a, b with
  | [], [] => true
  | x :: r, y :: q => Nat.eqb x y && list_nat_eqb r q
  | _, _ => false
  end.

(** conformance: every section reference on the right has the extents of the left-hand side *)
Fixpoint vconform (s : store) (ns : list nat) (e : vexpr) : bool :=
  match e with
  | VScal _ => true
  | VRef _ idx =>
      match ranges_of idx with
      | [] => true
      | _ => match extents s idx with Some ms => list_nat_eqb ms ns | None => false end
      end
  | VSum _ cs | VProd _ cs | VCall _ cs => forallb (vconform s ns) cs
  | VQuot _ n d => vconform s ns n && vconform s ns d
  end.

Fixpoint zseq (k : Z) (n : nat) : list Z :=     (* k, k+1, ..., k+n-1 *)
  match n with O => [] | S m => k :: zseq (k + 1) m end.
Definition seqZ (n : nat) : list Z := zseq 0 n.

(** the element offsets of a section with extents [ns]; the FIRST dimension varies fastest (this is also the
    order in which the loop nest generated by Loki visits them: last range dimension outermost) *)
Fixpoint iter_space (ns : list nat) : list (list Z) :=
  match ns with
  | [] => [[]]
  | n :: r => flat_map (fun Jr => map (fun j => j :: Jr) (seqZ n)) (iter_space r)
  end.

(** one element: subscript list and value, both computed in the store [s] *)
Definition velem (s : store) (idx : list vindex) (rhs : vexpr) (J : list Z) : option (list Z * Z) :=
  obind (vidx_at s idx J) (fun i => obind (veval s J rhs) (fun x => Some (i, x))).

Definition store_all (a : string) (ivs : list (list Z * Z)) (s : store) : store :=
  fold_left (fun t iv => set_av a (fst iv) (snd iv) t) ivs s.

(** array assignment on already qualified index lists:
    1. bounds/strides of the left-hand side are evaluated, 2. ALL elements of the right-hand side (and the
    subscripts of the left) are evaluated in the unchanged store, 3. only then the elements are stored. *)
Definition vexec_q (a : string) (idx : list vindex) (rhs : vexpr) (s : store) : option store :=
  obind (extents s idx) (fun ns =>
    if vconform s ns rhs then
      obind (omap_list (velem s idx rhs) (iter_space ns)) (fun ivs => Some (store_all a ivs s))
    else None).

(** the meaning of ":" and of a bare array name is given by the declarations *)
Definition vexec (ds : decls) (a : string) (idx : list vindex) (rhs : vexpr) (s : store) : option store :=
  vexec_q a (qualify_idx ds a idx) (qualify_vexpr ds rhs) s.

Definition vruns (ds : decls) (a : string) (idx : list vindex) (rhs : vexpr) (s s' : store) : Prop :=
  vexec ds a idx rhs s = Some s'.

(* ------------------------------------------------------------------------------------------ *)
(** * Part A.4  ResolveVectorNotationTransformer.visit_Assignment *)

(** decimal spelling of a position (f'{basename}_{i}') *)
Definition digit (n : nat) : ascii := ascii_of_nat (48 + n).
Fixpoint dec_aux (fuel n : nat) (acc : string) : string :=
  match fuel with
  | O => acc
  | S f => let acc' := String (digit (Nat.modulo n 10)) acc in
           if Nat.eqb (Nat.div n 10) 0 then acc' else dec_aux f (Nat.div n 10) acc'
  end.
Definition dec (n : nat) : string := dec_aux (S n) n EmptyString.

Definition fresh_name (base : string) (i : nat) : string := (base ++ "_" ++ dec i)%string.

Definition range3_eqb (a b : range3) : bool :=
  let '(l1, h1, s1) := a in let '(l2, h2, s2) := b in
  oexpr_eqb l1 l2 && oexpr_eqb h1 h2 && oexpr_eqb s1 s2.

(** loop_map: {RangeIndex(loop.bounds.children): loop.variable}; a dict, so the LAST loop with an equal
    range wins (keys compare by their printed form; the generator only produces keys whose printed form is
    equal iff the trees are equal) *)
Definition loop_map := list (range3 * string).

Fixpoint lm_lookup (lm : loop_map) (r : range3) : option string :=
  match lm with
  | [] => None
  | (k, v) :: rest =>
      match lm_lookup rest r with
      | Some w => Some w
      | None => if range3_eqb k r then Some v else None
      end
  end.

Fixpoint mem_str (x : string) (l : list string) : bool :=
  match l with [] => false | y :: r => String.eqb x y || mem_str x r end.

(** _map_ranges_to_indices on the (resolved) ranges: reuse the variable of a loop with the same range
    unless it is already taken by an earlier dimension, else synthesize <base>_<i> *)
Fixpoint name_ranges (lm : loop_map) (base : string) (i : nat) (rs : list range3) (used : list string) : list string :=
  match rs with
  | [] => []
  | r :: rest =>
      let nm := match lm_lookup lm r with
                | Some v => if mem_str v used then fresh_name base i else v
                | None => fresh_name base i
                end in
      nm :: name_ranges lm base (S i) rest (nm :: used)
  end.

(** _compute_shifted_index BEFORE simplify: i + (-1)*lhs.lower + rhs.lower *)
Definition shifted_index (iv : string) (lo_l lo_r : expr) : expr :=
  ESum false [EVar iv; EProd false [EPy (-1); lo_l]; lo_r].

(** index expression that replaces the r-th range of a right-hand side array *)
Definition rhs_index (iv : string) (lr rr : range3) : option expr :=
  let '(lo_l, _, _) := lr in let '(lo_r, _, _) := rr in
  if range3_eqb lr rr || oexpr_eqb lo_l lo_r then Some (EVar iv)
  else match lo_l, lo_r with
       | Some l, Some r => Some (shifted_index iv l r)
       | _, _ => None                      (* the code raises inside simplify *)
       end.

(** replace the ranges of [idx] by loop variables (left-hand side) *)
Fixpoint lhs_subst (idx : list vindex) (ivs : list string) : option (list expr) :=
  match idx with
  | [] => match ivs with [] => Some [] | _ => None end
  | IScalar e :: r => option_map (cons e) (lhs_subst r ivs)
  | IRange _ _ _ :: r =>
      match ivs with
      | iv :: ivs' => option_map (cons (EVar iv)) (lhs_subst r ivs')
      | [] => None
      end
  end.

(** replace the ranges of a right-hand side reference; [lrs] are the left-hand ranges paired with their variables *)
Fixpoint rhs_subst (idx : list vindex) (lrs : list (string * range3)) : option (list expr) :=
  match idx with
  | [] => match lrs with [] => Some [] | _ => None end
  | IScalar e :: r => option_map (cons e) (rhs_subst r lrs)
  | IRange lo hi st :: r =>
      match lrs with
      | (iv, lr) :: lrs' =>
          obind (rhs_index iv lr (lo, hi, st)) (fun e => option_map (cons e) (rhs_subst r lrs'))
      | [] => None
      end
  end.

Fixpoint scalars_of (idx : list vindex) : option (list expr) :=
  match idx with
  | [] => Some []
  | IScalar e :: r => option_map (cons e) (scalars_of r)
  | IRange _ _ _ :: _ => None
  end.

(** the scalar right-hand side of the loop body; [None] where the code raises or leaves sections behind *)
Fixpoint tr_vexpr (lrs : list (string * range3)) (e : vexpr) : option expr :=
  let fix go (l : list vexpr) : option (list expr) :=
    match l with
    | [] => Some []
    | x :: r => obind (tr_vexpr lrs x) (fun y => obind (go r) (fun ys => Some (y :: ys)))
    end in
  match e with
  | VScal e => Some e
  | VRef a idx =>
      match ranges_of idx with
      | [] => option_map (ECall a) (scalars_of idx)
      | _ => option_map (ECall a) (rhs_subst idx lrs)
      end
  | VSum p cs => option_map (ESum p) (go cs)
  | VProd p cs => option_map (EProd p) (go cs)
  | VQuot p n d => obind (tr_vexpr lrs n) (fun a => obind (tr_vexpr lrs d) (fun b => Some (EQuot p a b)))
  | VCall f cs => option_map (ECall f) (go cs)
  end.

(** Step 9: the FIRST range becomes the innermost loop; a missing bound gives a malformed loop ([None]) *)
Fixpoint wrap_loops (lrs : list (string * range3)) (body : list stmt) : option (list stmt) :=
  match lrs with
  | [] => Some body
  | (iv, (Some lo, Some hi, st)) :: rest => wrap_loops rest [SDo iv lo hi st body]
  | _ => None
  end.

(** the body statement and the (variable, range) pairs, without the loops (used by WHERE: create_loops=False) *)
Definition resolve_core (lm : loop_map) (ds : decls) (a : string) (idx : list vindex) (rhs : vexpr)
  : option (stmt * list (string * range3)) :=
  let qidx := qualify_idx ds a idx in
  let qrhs := qualify_vexpr ds rhs in
  let rs := ranges_of qidx in
  let ivs := name_ranges lm ("i_" ++ a)%string 0 rs [] in
  let lrs := combine ivs rs in
  obind (lhs_subst qidx ivs) (fun li =>
  obind (tr_vexpr lrs qrhs) (fun r => Some (SStore a li r, lrs))).

Definition resolve_vec (lm : loop_map) (ds : decls) (a : string) (idx : list vindex) (rhs : vexpr) : option (list stmt) :=
  obind (resolve_core lm ds a idx rhs) (fun p => wrap_loops (snd p) [fst p]).

(* ------------------------------------------------------------------------------------------ *)
(** * Part A.5  visit_MaskedStatement *)

(** _map_ranges_to_indices on ALL dimensions of a condition array with basename "i" (positions count scalar
    subscripts too); returns the new subscripts and the (variable, range) pairs in order *)
Fixpoint where_map (lm : loop_map) (i : nat) (idx : list vindex) (used : list string)
  : list expr * list (string * range3) :=
  match idx with
  | [] => ([], [])
  | IScalar e :: r => let '(es, m) := where_map lm (S i) r used in (e :: es, m)
  | IRange lo hi st :: r =>
      let rg := (lo, hi, st) in
      let nm := match lm_lookup lm rg with
                | Some v => if mem_str v used then fresh_name "i" i else v
                | None => fresh_name "i" i
                end in
      let '(es, m) := where_map lm (S i) r (nm :: used) in
      (EVar nm :: es, (nm, rg) :: m)
  end.

(** dict.update: a later entry with the same variable replaces the range but keeps the position *)
Fixpoint dict_set (m : list (string * range3)) (k : string) (r : range3) : list (string * range3) :=
  match m with
  | [] => [(k, r)]
  | (k', r') :: rest => if String.eqb k' k then (k', r) :: rest else (k', r') :: dict_set rest k r
  end.
Definition dict_update (m upd : list (string * range3)) : list (string * range3) :=
  fold_left (fun acc kr => dict_set acc (fst kr) (snd kr)) upd m.

(** condition side: every section reference gets loop variables (no offset computation at all); the dict of
    (variable, range) pairs is threaded through the references from left to right *)
Fixpoint where_vexpr (lm : loop_map) (e : vexpr) (m : list (string * range3)) : option (expr * list (string * range3)) :=
  let fix go (l : list vexpr) (m : list (string * range3)) : option (list expr * list (string * range3)) :=
    match l with
    | [] => Some ([], m)
    | x :: r => obind (where_vexpr lm x m) (fun q => obind (go r (snd q)) (fun qs => Some (fst q :: fst qs, snd qs)))
    end in
  match e with
  | VScal e => Some (e, m)
  | VRef a idx =>
      match ranges_of idx with
      | [] => option_map (fun es => (ECall a es, m)) (scalars_of idx)
      | _ => let '(es, mm) := where_map lm 0 idx [] in Some (ECall a es, dict_update m mm)
      end
  | VSum p cs => option_map (fun r => (ESum p (fst r), snd r)) (go cs m)
  | VProd p cs => option_map (fun r => (EProd p (fst r), snd r)) (go cs m)
  | VQuot p n d =>
      obind (where_vexpr lm n m) (fun a => obind (where_vexpr lm d (snd a)) (fun b => Some (EQuot p (fst a) (fst b), snd b)))
  | VCall f cs => option_map (fun r => (ECall f (fst r), snd r)) (go cs m)
  end.

Definition where_side := where_vexpr.

Fixpoint resolve_where_body (lm : loop_map) (ds : decls) (body : list vstmt) : option (list stmt) :=
  match body with
  | [] => Some []
  | VAssign a idx rhs :: r =>
      obind (resolve_core lm ds a idx rhs) (fun p => option_map (cons (fst p)) (resolve_where_body lm ds r))
  | _ => None
  end.

Definition resolve_where (lm : loop_map) (ds : decls) (c : vcond) (body ebody : list vstmt) : option (list stmt) :=
  obind (where_side lm (qualify_vexpr ds (vc_l c)) []) (fun l =>
  obind (where_side lm (qualify_vexpr ds (vc_r c)) (snd l)) (fun r =>
  obind (resolve_where_body lm ds body) (fun b =>
  obind (resolve_where_body lm ds ebody) (fun e =>
    match snd r with
    | [] => None                           (* the code returns the WHERE unchanged: not representable *)
    | m => wrap_loops m [SIf (ECmp (vc_op c) (fst l) (fst r)) b e]
    end)))).

(* ------------------------------------------------------------------------------------------ *)
(** * Part A.6  whole bodies: loop_map collection and the transformer *)

Fixpoint loops_of (s : vstmt) : loop_map :=
  let fix go (l : list vstmt) : loop_map :=
    match l with [] => [] | x :: r => loops_of x ++ go r end in
  match s with
  | VDo v lo hi st body => ((Some lo, Some hi, st), v) :: go body
  | VIf _ tb eb => go tb ++ go eb
  | _ => []
  end.

Definition loops_of_body (b : list vstmt) : loop_map := flat_map loops_of b.

Fixpoint resolve_stmt (lm : loop_map) (ds : decls) (s : vstmt) : option (list stmt) :=
  let fix go (l : list vstmt) : option (list stmt) :=
    match l with
    | [] => Some []
    | x :: r => obind (resolve_stmt lm ds x) (fun a => obind (go r) (fun b => Some (a ++ b)))
    end in
  match s with
  | VPlain s => Some [s]
  | VAssign a idx rhs => resolve_vec lm ds a idx rhs
  | VDo v lo hi st body => option_map (fun b => [SDo v lo hi st b]) (go body)
  | VIf c tb eb => obind (go tb) (fun t => obind (go eb) (fun e => Some [SIf c t e]))
  | VWhere c b e => resolve_where lm ds c b e
  end.

Fixpoint resolve_body (lm : loop_map) (ds : decls) (l : list vstmt) : option (list stmt) :=
  match l with
  | [] => Some []
  | x :: r => obind (resolve_stmt lm ds x) (fun a => obind (resolve_body lm ds r) (fun b => Some (a ++ b)))
  end.

(** resolve_vector_notation(routine) *)
Definition resolve_prog (ds : decls) (b : list vstmt) : option (list stmt) :=
  resolve_body (loops_of_body b) ds b.

(* ------------------------------------------------------------------------------------------ *)
(** * Part A.7  add_explicit_array_dimensions / remove_explicit_array_dimensions *)

Definition add_idx (ds : decls) (a : string) (idx : list vindex) : list vindex :=
  match idx with
  | [] => match lookup_decl ds a with Some sh => map (fun _ => IRange None None None) sh | None => [] end
  | _ => idx
  end.

Definition remove_idx (idx : list vindex) : list vindex :=
  if forallb is_colon idx then [] else idx.

Section map_refs.
  Variable F : string -> list vindex -> list vindex.
  Fixpoint map_refs_vexpr (e : vexpr) : vexpr :=
    match e with
    | VScal e => VScal e
    | VRef a idx => VRef a (F a idx)
    | VSum p cs => VSum p (map map_refs_vexpr cs)
    | VProd p cs => VProd p (map map_refs_vexpr cs)
    | VQuot p n d => VQuot p (map_refs_vexpr n) (map_refs_vexpr d)
    | VCall f cs => VCall f (map map_refs_vexpr cs)
    end.
  Fixpoint map_refs_stmt (s : vstmt) : vstmt :=
    match s with
    | VPlain s => VPlain s
    | VAssign a idx rhs => VAssign a (F a idx) (map_refs_vexpr rhs)
    | VDo v lo hi st b => VDo v lo hi st (map map_refs_stmt b)
    | VIf c t e => VIf c (map map_refs_stmt t) (map map_refs_stmt e)
    | VWhere c b e =>
        VWhere {| vc_op := vc_op c; vc_l := map_refs_vexpr (vc_l c); vc_r := map_refs_vexpr (vc_r c) |}
               (map map_refs_stmt b) (map map_refs_stmt e)
    end.
End map_refs.

Definition add_explicit (ds : decls) (b : list vstmt) : list vstmt := map (map_refs_stmt (add_idx ds)) b.
Definition remove_explicit (b : list vstmt) : list vstmt := map (map_refs_stmt (fun _ => remove_idx)) b.

(** class of the round trip: no reference is written with ":" in every position *)
Definition idx_not_full_colon (idx : list vindex) : bool :=
  match idx with [] => true | _ => negb (forallb is_colon idx) end.

Section all_refs.
  Variable Q : string -> list vindex -> bool.
  Fixpoint all_refs_vexpr (e : vexpr) : bool :=
    match e with
    | VScal _ => true
    | VRef a idx => Q a idx
    | VSum _ cs | VProd _ cs | VCall _ cs => forallb all_refs_vexpr cs
    | VQuot _ n d => all_refs_vexpr n && all_refs_vexpr d
    end.
  Fixpoint all_refs_stmt (s : vstmt) : bool :=
    match s with
    | VPlain _ => true
    | VAssign a idx rhs => Q a idx && all_refs_vexpr rhs
    | VDo _ _ _ _ b => forallb all_refs_stmt b
    | VIf _ t e => forallb all_refs_stmt t && forallb all_refs_stmt e
    | VWhere c b e => all_refs_vexpr (vc_l c) && all_refs_vexpr (vc_r c) && forallb all_refs_stmt b && forallb all_refs_stmt e
    end.
End all_refs.

Definition no_full_colon (b : list vstmt) : bool := forallb (all_refs_stmt (fun _ => idx_not_full_colon)) b.

(** class of the other round trip: every bare reference is to an undeclared name, every ":"-only reference has the declared rank *)
Definition idx_explicit_ok (ds : decls) (a : string) (idx : list vindex) : bool :=
  match idx with
  | [] => match lookup_decl ds a with Some (_ :: _) => false | _ => true end
  | _ => if forallb is_colon idx
         then match lookup_decl ds a with Some sh => Nat.eqb (List.length sh) (List.length idx) | None => false end
         else true
  end.
Definition all_explicit (ds : decls) (b : list vstmt) : bool := forallb (all_refs_stmt (idx_explicit_ok ds)) b.

(* structural equality of section statements (tie of add/remove_explicit) *)
Definition vindex_eqb (a b : vindex) : bool :=
  match a, b with
  | IScalar x, IScalar y => expr_eqb x y
  | IRange l h s, IRange l' h' s' => oexpr_eqb l l' && oexpr_eqb h h' && oexpr_eqb s s'
  | _, _ => false
  end.
Fixpoint vidx_eqb (a b : list vindex) : bool :=
  match a, b with
  | [], [] => true
  | x :: r, y :: q => vindex_eqb x y && vidx_eqb r q
  | _, _ => false
  end.
Fixpoint vexpr_eqb (a b : vexpr) : bool :=
  let fix leqb (l1 l2 : list vexpr) : bool :=
    match l1, l2 with
    | [], [] => true
    | x :: r1, y :: r2 => vexpr_eqb x y && leqb r1 r2
    | _, _ => false
    end in
  match a, b with
  | VScal x, VScal y => expr_eqb x y
  | VRef x i, VRef y j => String.eqb x y && vidx_eqb i j
  | VSum p cs, VSum q ds => Bool.eqb p q && leqb cs ds
  | VProd p cs, VProd q ds => Bool.eqb p q && leqb cs ds
  | VQuot p n d, VQuot q n' d' => Bool.eqb p q && vexpr_eqb n n' && vexpr_eqb d d'
  | VCall f cs, VCall g ds => String.eqb f g && leqb cs ds
  | _, _ => false
  end.
Definition cmpop_eqb (o o' : cmpop) : bool :=
  match o, o' with Ceq, Ceq | Cne, Cne | Clt, Clt | Cle, Cle | Cgt, Cgt | Cge, Cge => true | _, _ => false end.
Fixpoint vstmt_eqb (a b : vstmt) : bool :=
  let fix leqb (l1 l2 : list vstmt) : bool :=
    match l1, l2 with
    | [], [] => true
    | x :: r1, y :: r2 => vstmt_eqb x y && leqb r1 r2
    | _, _ => false
    end in
  match a, b with
  | VPlain s, VPlain t => stmt_eqb s t
  | VAssign x i r, VAssign y j q => String.eqb x y && vidx_eqb i j && vexpr_eqb r q
  | VDo v lo hi st b1, VDo w lo' hi' st' b2 =>
      String.eqb v w && expr_eqb lo lo' && expr_eqb hi hi' && oexpr_eqb st st' && leqb b1 b2
  | VIf c t e, VIf c' t' e' => expr_eqb c c' && leqb t t' && leqb e e'
  | VWhere c b e, VWhere c' b' e' =>
      cmpop_eqb (vc_op c) (vc_op c') && vexpr_eqb (vc_l c) (vc_l c') && vexpr_eqb (vc_r c) (vc_r c') && leqb b b' && leqb e e'
  | _, _ => false
  end.
Fixpoint vstmts_eqb (a b : list vstmt) : bool :=
  match a, b with
  | [], [] => true
  | x :: r, y :: q => vstmt_eqb x y && vstmts_eqb r q
  | _, _ => false
  end.

(* ------------------------------------------------------------------------------------------ *)
(** * Part A.8  the decidable class on which the resolution is proved correct

    [no_forward_overlap]: the loop variables are fresh (occur nowhere in the statement, all distinct), the
    left-hand array is read on the right only through the very same reference as on the left (element i of
    the loop then reads only what iteration i itself overwrites), and is not read by any subscript, bound or
    stride; every section reference on the right has the same strides (syntactically) as the left-hand side.
    F11 ([a(2:n) = a(1:n-1)]) and the stride defect ([a(1:9:2) = b(1:5)]) are outside this class. *)

Definition is_intrinsic_name (f : string) : bool :=
  String.eqb f "mod" || String.eqb f "modulo" || String.eqb f "abs" || String.eqb f "min" || String.eqb f "max".

(** [eclean P e]: no variable, array or function name satisfying [P] occurs in [e] *)
Fixpoint eclean (P : string -> bool) (e : expr) : bool :=
  match e with
  | EInt _ | EPy _ | ELog _ => true
  | EVar x => negb (P x)
  | ESum _ cs | EProd _ cs | EAnd cs | EOr cs => forallb (eclean P) cs
  | EQuot _ a b | EPow _ a b | ECmp _ a b => eclean P a && eclean P b
  | ENot a => eclean P a
  | ECall f args => negb (P f) && forallb (eclean P) args
  end.

Definition oclean (P : string -> bool) (o : option expr) : bool :=
  match o with Some e => eclean P e | None => true end.

Definition iclean (P : string -> bool) (d : vindex) : bool :=
  match d with
  | IScalar e => eclean P e
  | IRange lo hi st => oclean P lo && oclean P hi && oclean P st
  end.

Fixpoint strides_match (lrs rrs : list range3) : bool :=
  match lrs, rrs with
  | [], [] => true
  | (_, _, sl) :: l', (_, _, sr) :: r' => oexpr_eqb sl sr && strides_match l' r'
  | _, _ => false
  end.

Fixpoint vclean (P : string -> bool) (a : string) (lidx : list vindex) (e : vexpr) : bool :=
  match e with
  | VScal e => eclean P e
  | VRef b idx =>
      negb (is_intrinsic_name b) && forallb (iclean P) idx &&
      (match ranges_of idx with [] => true | rr => strides_match (ranges_of lidx) rr end) &&
      (if String.eqb b a then vidx_eqb idx lidx else negb (P b))
  | VSum _ cs | VProd _ cs => forallb (vclean P a lidx) cs
  | VCall f cs => is_intrinsic_name f && forallb (vclean P a lidx) cs
  | VQuot _ n d => vclean P a lidx n && vclean P a lidx d
  end.

Definition has_bounds (r : range3) : bool :=
  match r with (Some _, Some _, _) => true | _ => false end.

Fixpoint nodup_str (l : list string) : bool :=
  match l with [] => true | x :: r => negb (mem_str x r) && nodup_str r end.

Definition loop_vars (lm : loop_map) (ds : decls) (a : string) (idx : list vindex) : list string :=
  name_ranges lm ("i_" ++ a)%string 0 (ranges_of (qualify_idx ds a idx)) [].

Definition no_forward_overlap (lm : loop_map) (ds : decls) (a : string) (idx : list vindex) (rhs : vexpr) : bool :=
  let qidx := qualify_idx ds a idx in
  let qrhs := qualify_vexpr ds rhs in
  let ivs := loop_vars lm ds a idx in
  let P := fun x => String.eqb x a || mem_str x ivs in
  forallb has_bounds (ranges_of qidx) && nodup_str ivs && negb (mem_str a ivs) && negb (is_intrinsic_name a)
  && forallb (iclean P) qidx && vclean P a qidx qrhs.

(** equality of stores except for the values of the listed (loop) variables *)
Definition store_eq_except (ivs : list string) (s t : store) : Prop :=
  (forall x, mem_str x ivs = false -> sv s x = sv t x) /\ (forall b i, av s b i = av t b i).

(** dynamic side condition of the converse direction: the source statement is a conforming Fortran array
    assignment in the store (the loop nest runs for non-conforming ones too) *)
Definition conforms (ds : decls) (a : string) (idx : list vindex) (rhs : vexpr) (s : store) : bool :=
  match extents s (qualify_idx ds a idx) with
  | Some ns => vconform s ns (qualify_vexpr ds rhs)
  | None => false
  end.

(* ------------------------------------------------------------------------------------------ *)
(** * Part B  comparison modulo a linear normal form

    [_compute_shifted_index] and [normalize_array_shape_and_access] pass their index expressions through
    [simplify] (the subject of C08).  Instead of re-modelling [simplify], the tie compares the model's
    unsimplified expression with Loki's output modulo equality of LINEAR FORMS c0 + sum c_i * x_i;
    [P_C30_lin.eqm_sound] proves that expressions/statements identified this way are semantically equal. *)

Definition lform := (Z * list (string * Z))%type.

Fixpoint ladd_term (x : string) (c : Z) (l : list (string * Z)) : list (string * Z) :=
  match l with
  | [] => [(x, c)]
  | (y, d) :: r => if String.eqb x y then (y, d + c) :: r else (y, d) :: ladd_term x c r
  end.

Definition ladd (a b : lform) : lform :=
  (fst a + fst b, fold_right (fun t acc => ladd_term (fst t) (snd t) acc) (snd b) (snd a)).

Definition lscale (k : Z) (a : lform) : lform :=
  (k * fst a, map (fun t => (fst t, k * snd t)) (snd a)).

Definition lis_const (a : lform) : bool := forallb (fun t => snd t =? 0) (snd a).

Definition lmul (a b : lform) : option lform :=
  if lis_const a then Some (lscale (fst a) b)
  else if lis_const b then Some (lscale (fst b) a) else None.

Fixpoint lin (e : expr) : option lform :=
  match e with
  | EInt v | EPy v => Some (v, [])
  | EVar x => Some (0, [(x, 1)])
  | ESum _ cs => fold_right (fun c acc => obind (lin c) (fun a => obind acc (fun b => Some (ladd a b)))) (Some (0, [])) cs
  | EProd _ cs => fold_right (fun c acc => obind (lin c) (fun a => obind acc (fun b => lmul a b))) (Some (1, [])) cs
  | _ => None
  end.

Definition leval (rho : env) (a : lform) : Z :=
  fst a + fold_right (fun t acc => snd t * ev_var rho (fst t) + acc) 0 (snd a).

Definition lzero (a : lform) : bool := (fst a =? 0) && lis_const a.

Definition lin_eqb (e1 e2 : expr) : bool :=
  match lin e1, lin e2 with
  | Some a, Some b => lzero (ladd a (lscale (-1) b))
  | _, _ => false
  end.

(** structural equality, except that any two subtrees with equal linear forms are identified *)
Fixpoint expr_eqm (a b : expr) : bool :=
  let fix leqm (l1 l2 : list expr) : bool :=
    match l1, l2 with
    | [], [] => true
    | x :: r1, y :: r2 => expr_eqm x y && leqm r1 r2
    | _, _ => false
    end in
  lin_eqb a b ||
  match a, b with
  | EInt x, EInt y => x =? y
  | EPy x, EPy y => x =? y
  | EVar x, EVar y => String.eqb x y
  | ELog x, ELog y => Bool.eqb x y
  | ESum _ cs, ESum _ ds => leqm cs ds
  | EProd _ cs, EProd _ ds => leqm cs ds
  | EQuot _ n d, EQuot _ n' d' => expr_eqm n n' && expr_eqm d d'
  | EPow _ n d, EPow _ n' d' => expr_eqm n n' && expr_eqm d d'
  | ECmp o l r, ECmp o' l' r' => cmpop_eqb o o' && expr_eqm l l' && expr_eqm r r'
  | EAnd cs, EAnd ds => leqm cs ds
  | EOr cs, EOr ds => leqm cs ds
  | ENot x, ENot y => expr_eqm x y
  | ECall f cs, ECall g ds => String.eqb f g && leqm cs ds
  | _, _ => false
  end.

Fixpoint list_expr_eqm (a b : list expr) : bool :=
  match a, b with
  | [], [] => true
  | x :: r, y :: q => expr_eqm x y && list_expr_eqm r q
  | _, _ => false
  end.

Definition oexpr_eqm (a b : option expr) : bool :=
  match a, b with Some x, Some y => expr_eqm x y | None, None => true | _, _ => false end.

Fixpoint stmt_eqm (a b : stmt) : bool :=
  let fix leqm (l1 l2 : list stmt) : bool :=
    match l1, l2 with
    | [], [] => true
    | x :: r1, y :: r2 => stmt_eqm x y && leqm r1 r2
    | _, _ => false
    end in
  match a, b with
  | SAssign x e, SAssign y e' => String.eqb x y && expr_eqm e e'
  | SStore x i e, SStore y j e' => String.eqb x y && list_expr_eqm i j && expr_eqm e e'
  | SDo v lo hi st b1, SDo w lo' hi' st' b2 =>
      String.eqb v w && expr_eqm lo lo' && expr_eqm hi hi' && oexpr_eqm st st' && leqm b1 b2
  | SWhile c b1, SWhile c' b2 => expr_eqm c c' && leqm b1 b2
  | SIf c t e, SIf c' t' e' => expr_eqm c c' && leqm t t' && leqm e e'
  | SCall f x, SCall g y => String.eqb f g && list_expr_eqb x y
  | SSkip l, SSkip m => String.eqb l m
  | _, _ => false
  end.

Fixpoint stmts_eqm (l1 l2 : list stmt) : bool :=
  match l1, l2 with
  | [], [] => true
  | x :: r1, y :: r2 => stmt_eqm x y && stmts_eqm r1 r2
  | _, _ => false
  end.

(** correspondence terms of Part A: the model reproduces Loki's output ([None] = Loki raised or produced
    a malformed loop / left a section behind) *)
Definition chk_resolve (ds : decls) (b : list vstmt) (out : option (list stmt)) : bool :=
  match resolve_prog ds b, out with
  | Some p, Some q => stmts_eqm p q
  | None, None => true
  | _, _ => false
  end.

Definition chk_add_explicit (ds : decls) (b out : list vstmt) : bool := vstmts_eqb (add_explicit ds b) out.
Definition chk_remove_explicit (b out : list vstmt) : bool := vstmts_eqb (remove_explicit b) out.

(* ------------------------------------------------------------------------------------------ *)
(** * Part C  index-normalising transformations on MiniF programs

    All five functions build a map {array expression -> rewritten array expression} with
    [FindVariables] and apply it with [SubstituteExpressions].  The substitution replaces a matched array
    reference WHOLESALE by the mapped value, whose subscripts were built from the ORIGINAL subscripts: array
    references nested inside the subscripts of a rewritten reference are therefore NOT rewritten
    ([tr_expr] does not recurse below a rewritten reference; see the known findings). *)

Inductive tres : Type := TKeep | TNew (idx : list expr) | TErr.

Section tr.
  Variable T : string -> list expr -> tres.

  Fixpoint tr_expr (e : expr) : option expr :=
    let fix go (l : list expr) : option (list expr) :=
      match l with
      | [] => Some []
      | x :: r => obind (tr_expr x) (fun y => obind (go r) (fun ys => Some (y :: ys)))
      end in
    match e with
    | EInt _ | EPy _ | EVar _ | ELog _ => Some e
    | ESum p cs => option_map (ESum p) (go cs)
    | EProd p cs => option_map (EProd p) (go cs)
    | EQuot p n d => obind (tr_expr n) (fun a => obind (tr_expr d) (fun b => Some (EQuot p a b)))
    | EPow p n d => obind (tr_expr n) (fun a => obind (tr_expr d) (fun b => Some (EPow p a b)))
    | ECmp o l r => obind (tr_expr l) (fun a => obind (tr_expr r) (fun b => Some (ECmp o a b)))
    | EAnd cs => option_map EAnd (go cs)
    | EOr cs => option_map EOr (go cs)
    | ENot x => option_map ENot (tr_expr x)
    | ECall f args =>
        match T f args with
        | TNew idx => Some (ECall f idx)
        | TErr => None
        | TKeep => option_map (ECall f) (go args)
        end
    end.

  Fixpoint tr_list (l : list expr) : option (list expr) :=
    match l with
    | [] => Some []
    | x :: r => obind (tr_expr x) (fun y => obind (tr_list r) (fun ys => Some (y :: ys)))
    end.

  Fixpoint tr_stmt (s : stmt) : option stmt :=
    let fix go (l : list stmt) : option (list stmt) :=
      match l with
      | [] => Some []
      | x :: r => obind (tr_stmt x) (fun y => obind (go r) (fun ys => Some (y :: ys)))
      end in
    match s with
    | SAssign x e => option_map (SAssign x) (tr_expr e)
    | SStore a idx e =>
        obind (match T a idx with TNew i => Some i | TErr => None | TKeep => tr_list idx end) (fun i =>
        obind (tr_expr e) (fun v => Some (SStore a i v)))
    | SDo v lo hi st b =>
        obind (tr_expr lo) (fun l => obind (tr_expr hi) (fun h =>
        obind (match st with None => Some None | Some e => option_map Some (tr_expr e) end) (fun st' =>
        obind (go b) (fun b' => Some (SDo v l h st' b')))))
    | SWhile c b => obind (tr_expr c) (fun c' => obind (go b) (fun b' => Some (SWhile c' b')))
    | SIf c t e => obind (tr_expr c) (fun c' => obind (go t) (fun t' => obind (go e) (fun e' => Some (SIf c' t' e'))))
    | SCall f args => option_map (SCall f) (tr_list args)
    | SSkip l => Some (SSkip l)
    end.

  Fixpoint tr_stmts (l : list stmt) : option (list stmt) :=
    match l with
    | [] => Some []
    | x :: r => obind (tr_stmt x) (fun y => obind (tr_stmts r) (fun ys => Some (y :: ys)))
    end.
End tr.

(** pymbolic operator overloading, as used by the transformations *)
Definition m1 : expr := EProd false [EPy (-1); EInt 1].        (* -Literal(1) *)
Definition is_falsy (e : expr) : bool := match e with EInt v => v =? 0 | _ => false end.

(** d - Literal(1) *)
Definition sub_lit1 (d : expr) : expr :=
  match d with
  | ESum _ cs => ESum false (cs ++ [m1])
  | _ => if is_falsy d then m1 else ESum false [d; m1]
  end.

(** d - c for a Python int c *)
Definition sub_py (d : expr) (c : Z) : expr :=
  if c =? 0 then d else
  match d with
  | ESum _ cs => ESum false (cs ++ [EPy (- c)])
  | _ => if is_falsy d then EPy (- c) else ESum false [d; EPy (- c)]
  end.

Definition is_array (ds : decls) (a : string) : bool :=
  match lookup_decl ds a with Some (_ :: _) => true | _ => false end.

(** shift_to_zero_indexing *)
Definition T_shift (ds : decls) (a : string) (idx : list expr) : tres :=
  if is_array ds a then TNew (map sub_lit1 idx) else TKeep.

(** invert_array_indices: subscripts and declared shapes reversed *)
Definition T_invert (ds : decls) (a : string) (idx : list expr) : tres :=
  if is_array ds a then TNew (rev idx) else TKeep.
Definition invert_decls (ds : decls) : decls := map (fun d => (fst d, rev (snd d))) ds.

(** flatten_arrays(order='F', start_index=c): new_dims folds the last two subscripts
    dim[-2] + shape[-2]*(dim[-1] - c) until one is left; a RangeIndex in shape[-2] raises TypeError *)
Fixpoint flat_go (c : Z) (acc : expr) (rdims : list expr) (rshapes : list dshape) : option expr :=
  match rdims with
  | [] => Some acc
  | d :: rd =>
      match rshapes with
      | DSize n :: rs => flat_go c (ESum false [d; EProd false [n; sub_py acc c]]) rd rs
      | _ => None
      end
  end.

Definition T_flatten (c : Z) (ds : decls) (a : string) (idx : list expr) : tres :=
  if is_array ds a then
    match rev idx, lookup_decl ds a with
    | [], _ => TNew idx
    | last :: rd, Some sh =>
        match flat_go c last rd (tl (rev sh)) with Some e => TNew [e] | None => TErr end
    | _, None => TKeep
    end
  else TKeep.

Fixpoint sizes_of (sh : list dshape) : option (list expr) :=
  match sh with
  | [] => Some []
  | DSize n :: r => option_map (cons n) (sizes_of r)
  | DRange _ _ :: _ => None
  end.

(** new declaration a(Product(shape)); [None]: the product contains a RangeIndex (not a valid declaration) *)
Definition flatten_decls (ds : decls) : list (string * option (list dshape)) :=
  map (fun d => (fst d, option_map (fun es => [DSize (EProd false es)]) (sizes_of (snd d)))) ds.

(** normalize_range_indexing: declared 1:n becomes n (declarations only) *)
Definition is_one (e : expr) : bool := match e with EInt v => v =? 1 | _ => false end.
Definition normrange_shape (d : dshape) : dshape :=
  match d with DRange lo hi => if is_one lo then DSize hi else d | _ => d end.
Definition normrange_decls (ds : decls) : decls := map (fun d => (fst d, map normrange_shape (snd d))) ds.

(** normalize_array_shape_and_access: subscripts of dimensions declared lo:hi (lo not literally 1) become
    subscript - lo + 1 (before [simplify]); declarations become hi - lo + 1 *)
Definition norm_sub (i lo : expr) : expr := ESum false [i; EProd false [EPy (-1); lo]; EInt 1].

Fixpoint normshape_idx (idx : list expr) (sh : list dshape) : list expr :=
  match sh with
  | [] => []
  | d :: q =>
      match idx with
      | [] => []
      | i :: r => (match d with DRange lo _ => if is_one lo then i else norm_sub i lo | DSize _ => i end) :: normshape_idx r q
      end
  end.

Definition T_normshape (ds : decls) (a : string) (idx : list expr) : tres :=
  match lookup_decl ds a with
  | Some (s :: sh) => match idx with [] => TKeep | _ => TNew (normshape_idx idx (s :: sh)) end
  | _ => TKeep
  end.

Definition normshape_shape (d : dshape) : dshape :=
  match d with
  | DRange lo hi => if is_one lo then DSize hi else DSize (norm_sub hi lo)
  | DSize n => DSize n
  end.
Definition normshape_decls (ds : decls) : decls := map (fun d => (fst d, map normshape_shape (snd d))) ds.

(** comparison of declarations (modulo the linear normal form for the simplified sizes) *)
Definition dshape_eqm (a b : dshape) : bool :=
  match a, b with
  | DSize x, DSize y => expr_eqm x y
  | DRange l h, DRange l' h' => expr_eqm l l' && expr_eqm h h'
  | _, _ => false
  end.
Fixpoint dshapes_eqm (a b : list dshape) : bool :=
  match a, b with
  | [], [] => true
  | x :: r, y :: q => dshape_eqm x y && dshapes_eqm r q
  | _, _ => false
  end.
Fixpoint decls_eqm (a b : decls) : bool :=
  match a, b with
  | [], [] => true
  | (x, s) :: r, (y, t) :: q => String.eqb x y && dshapes_eqm s t && decls_eqm r q
  | _, _ => false
  end.
Fixpoint odecls_eqm (a b : list (string * option (list dshape))) : bool :=
  match a, b with
  | [], [] => true
  | (x, s) :: r, (y, t) :: q =>
      String.eqb x y && (match s, t with Some u, Some v => dshapes_eqm u v | None, None => true | _, _ => false end) && odecls_eqm r q
  | _, _ => false
  end.

Definition chk_prog (model out : option (list stmt)) : bool :=
  match model, out with
  | Some p, Some q => stmts_eqm p q
  | None, None => true
  | _, _ => false
  end.

Definition chk_shift (ds : decls) (p : list stmt) (out : option (list stmt)) : bool := chk_prog (tr_stmts (T_shift ds) p) out.
Definition chk_invert (ds : decls) (p : list stmt) (out : option (list stmt)) (ods : decls) : bool :=
  chk_prog (tr_stmts (T_invert ds) p) out && decls_eqm (invert_decls ds) ods.
Definition chk_flatten (c : Z) (ds : decls) (p : list stmt) (out : option (list stmt)) (ods : list (string * option (list dshape))) : bool :=
  chk_prog (tr_stmts (T_flatten c ds) p) out &&
  (match out with Some _ => odecls_eqm (flatten_decls ds) ods | None => true end).
Definition chk_normrange (ds : decls) (p : list stmt) (out : option (list stmt)) (ods : decls) : bool :=
  chk_prog (Some p) out && decls_eqm (normrange_decls ds) ods.
Definition chk_normshape (ds : decls) (p : list stmt) (out : option (list stmt)) (ods : decls) : bool :=
  chk_prog (tr_stmts (T_normshape ds) p) out && decls_eqm (normshape_decls ds) ods.

(** ** semantic side: re-indexing maps and the store relation *)

(** column-major offset (1-based) of subscripts [idx] in an array with extents [ns]:
    i1 + n1*((i2 + n2*(...)) - c) for start index c *)
Fixpoint flat_offset (c : Z) (ns idx : list Z) : Z :=
  match idx with
  | [] => 0
  | [i] => i
  | i :: r => match ns with n :: q => i + n * (flat_offset c q r - c) | [] => i end
  end.

Fixpoint in_box (c : Z) (ns idx : list Z) : Prop :=
  match ns, idx with
  | [], [] => True
  | n :: q, i :: r => c <= i < c + n /\ in_box c q r
  | _, _ => False
  end.

Fixpoint prodZ (l : list Z) : Z := match l with [] => 1 | x :: r => x * prodZ r end.

(** [s'] is [s] with every array [a] re-indexed by [phi a] *)
Definition reidx_rel (phi : string -> list Z -> list Z) (s s' : store) : Prop :=
  (forall x, sv s' x = sv s x) /\ (forall a i, av s' a (phi a i) = av s a i).

(** class of the re-indexing theorems: subscripts of array references contain no array references
    (the transformations do not rewrite those), and declared arrays are not named like intrinsics *)
Fixpoint no_calls (e : expr) : bool :=
  match e with
  | EInt _ | EPy _ | EVar _ | ELog _ => true
  | ESum _ cs | EProd _ cs | EAnd cs | EOr cs => forallb no_calls cs
  | EQuot _ a b | EPow _ a b | ECmp _ a b => no_calls a && no_calls b
  | ENot a => no_calls a
  | ECall f args => is_intrinsic_name f && forallb no_calls args
  end.

Fixpoint flat_subs (e : expr) : bool :=
  match e with
  | EInt _ | EPy _ | EVar _ | ELog _ => true
  | ESum _ cs | EProd _ cs | EAnd cs | EOr cs => forallb flat_subs cs
  | EQuot _ a b | EPow _ a b | ECmp _ a b => flat_subs a && flat_subs b
  | ENot a => flat_subs a
  | ECall f args => if is_intrinsic_name f then forallb flat_subs args else forallb no_calls args
  end.

Fixpoint flat_subs_stmt (s : stmt) : bool :=
  match s with
  | SAssign _ e => flat_subs e
  | SStore a idx e => negb (is_intrinsic_name a) && forallb no_calls idx && flat_subs e
  | SDo _ lo hi st b =>
      flat_subs lo && flat_subs hi && (match st with Some e => flat_subs e | None => true end) && forallb flat_subs_stmt b
  | SWhile c b => flat_subs c && forallb flat_subs_stmt b
  | SIf c t e => flat_subs c && forallb flat_subs_stmt t && forallb flat_subs_stmt e
  | SCall _ _ => false
  | SSkip _ => true
  end.
