(** C01 — parsing and regenerating Fortran preserves program behaviour.  Definitions only.

    Statement level of the round trip  source -> FParser2IR -> FortranCodegen -> source:
    - [fstmt]: the control-flow part of Loki's IR on which the theorems are stated (Assignment, CallStatement,
      Loop, WhileLoop, Conditional with its [has_elseif] / [inline] flags, Comment); [erase] maps it to the shared
      MiniF core, whose interpreter gives the behaviour;
    - [print_stmts]: model of loki.backend.fgen.FortranCodegen on these nodes: a list of logical [line]s that carry
      their expression slots as trees ([lines_of]), after the one place where the backend looks into an
      expression ([norm]: a loop step whose text is "1" is not printed); [render] turns a line into the keyword
      skeleton + the expression tokens of [M_C06.print_f] (this is what is compared with the real fgen text);
    - [read_lines]: reference reader of the line language (recursive descent with fuel; ELSE IF chains become
      nested conditionals flagged [has_elseif], as FParser2IR.visit_If_Construct builds them);
    - [fx_to_expr]: the tree FParser2IR builds for a Fortran parse tree (binary sums/products, [-x] as
      [(-1)*x], [a-b] as [a + (-1)*b]); [reparse_exec]: printed lines with every expression slot re-read by
      [M_C06.ref_parse], then [read_lines] (executable; used by the correspondence). *)
From Coq Require Import ZArith List Bool String.
From LV Require Import Base.Expr Base.MiniF models.M_C06.
Import ListNotations.
Open Scope Z_scope.

(** * Statements *)
Inductive simple :=
| MAssign (x : string) (e : expr)                    (* x = e *)
| MStore (a : string) (idx : list expr) (e : expr)   (* a(idx) = e *)
| MCall (f : string) (args : list expr).             (* CALL f(args) *)

Inductive fstmt :=
| FSimple (m : simple)
| FDo (v : string) (lo hi : expr) (st : option expr) (body : list fstmt)
| FWhile (c : expr) (body : list fstmt)
| FIf (c : expr) (tb eb : list fstmt) (elseif : bool)   (* Conditional(inline=False, has_elseif=elseif) *)
| FIfInline (c : expr) (m : simple)                      (* Conditional(inline=True): IF (c) stmt *)
| FComment (s : string).

Definition erase_simple (m : simple) : stmt :=
  match m with
  | MAssign x e => SAssign x e
  | MStore a i e => SStore a i e
  | MCall f a => SCall f a
  end.

Fixpoint erase (s : fstmt) : stmt :=
  match s with
  | FSimple m => erase_simple m
  | FDo v lo hi st b => SDo v lo hi st (map erase b)
  | FWhile c b => SWhile c (map erase b)
  | FIf c t e _ => SIf c (map erase t) (map erase e)
  | FIfInline c m => SIf c [erase_simple m] []
  | FComment s => SSkip s
  end.
Definition erase_list (p : list fstmt) : list stmt := map erase p.

(** well-formed: [has_elseif] only on a conditional whose else branch is exactly one (non-inline) conditional *)
Fixpoint wf (s : fstmt) : bool :=
  match s with
  | FDo _ _ _ _ b | FWhile _ b => forallb wf b
  | FIf _ t e fl =>
      forallb wf t && forallb wf e &&
      (if fl then match e with [FIf _ _ _ _] => true | _ => false end else true)
  | _ => true
  end.
Definition wf_list (p : list fstmt) : bool := forallb wf p.

Fixpoint ssize (s : fstmt) : nat :=
  match s with
  | FDo _ _ _ _ b | FWhile _ b => S (fold_right (fun x a => ssize x + a)%nat O b)
  | FIf _ t e _ => S (S (fold_right (fun x a => ssize x + a)%nat O t + fold_right (fun x a => ssize x + a)%nat O e))
  | _ => 1%nat
  end.
Definition lsize (p : list fstmt) : nat := fold_right (fun x a => ssize x + a)%nat O p.

(** * Lines *)
Inductive line :=
| LSimple (m : simple)
| LDo (v : string) (lo hi : expr) (st : option expr)
| LWhile (c : expr)
| LEndDo
| LIf (c : expr) | LElseIf (c : expr) | LElse | LEndIf
| LIfInline (c : expr) (m : simple)
| LComment (s : string)
| LErr.   (* has_elseif on a node whose else branch is not a single conditional: outside the modelled domain *)

(** [FortranCodegen.visit_*]: structure only.  [ei] = the keyword argument [is_elseif] of visit_Conditional. *)
Fixpoint lines1 (ei : bool) (s : fstmt) {struct s} : list line :=
  match s with
  | FSimple m => [LSimple m]
  | FDo v lo hi st b => LDo v lo hi st :: flat_map (lines1 false) b ++ [LEndDo]
  | FWhile c b => LWhile c :: flat_map (lines1 false) b ++ [LEndDo]
  | FIf c tb eb fl =>
      (if ei then LElseIf c else LIf c) :: flat_map (lines1 false) tb ++
      (if fl then
         match eb with
         | [s2] => match s2 with FIf _ _ _ _ => lines1 true s2 | _ => [LErr] end
         | _ => [LErr]
         end
       else (match eb with [] => [] | _ => LElse :: flat_map (lines1 false) eb end) ++ [LEndIf])
  | FIfInline c m => [LIfInline c m]
  | FComment s => [LComment s]
  end.
Definition lines_of (p : list fstmt) : list line := flat_map (lines1 false) p.

(** [FCodeMapper.map_loop_range]: the step is dropped when [str(step) == '1'] *)
Definition unit_step (e : expr) : bool := toks_eqb (print_f e PREC_NONE) [TInt 1].
Definition norm_step (st : option expr) : option expr :=
  match st with Some e => if unit_step e then None else Some e | None => None end.

Fixpoint norm (s : fstmt) : fstmt :=
  match s with
  | FDo v lo hi st b => FDo v lo hi (norm_step st) (map norm b)
  | FWhile c b => FWhile c (map norm b)
  | FIf c t e fl => FIf c (map norm t) (map norm e) fl
  | _ => s
  end.
Definition norm_list (p : list fstmt) : list fstmt := map norm p.

(** the model of [fgen] on a statement list *)
Definition print_stmts (p : list fstmt) : list line := lines_of (norm_list p).

(** normal forms: what re-reading the printed text returns *)
Definition nf_step (st : option expr) : bool := match st with Some e => negb (unit_step e) | None => true end.
Fixpoint nf (s : fstmt) : bool :=
  match s with
  | FDo _ _ _ st b => nf_step st && forallb nf b
  | FWhile _ b => forallb nf b
  | FIf _ t e _ => forallb nf t && forallb nf e
  | _ => true
  end.
Definition nf_list (p : list fstmt) : bool := forallb nf p.

(** * Reference reader of the line language *)
Fixpoint read_block (fuel : nat) (ls : list line) {struct fuel} : option (list fstmt * list line) :=
  match fuel with
  | O => None
  | S f =>
      match ls with
      | [] => Some ([], [])
      | l :: rest =>
          let cont (s : fstmt) (r : list line) :=
            match read_block f r with Some (ss, r') => Some (s :: ss, r') | None => None end in
          match l with
          | LEndDo | LElse | LElseIf _ | LEndIf => Some ([], ls)
          | LErr => None
          | LSimple m => cont (FSimple m) rest
          | LComment s => cont (FComment s) rest
          | LIfInline c m => cont (FIfInline c m) rest
          | LDo v lo hi st =>
              match read_block f rest with
              | Some (body, LEndDo :: r) => cont (FDo v lo hi st body) r
              | _ => None
              end
          | LWhile c =>
              match read_block f rest with
              | Some (body, LEndDo :: r) => cont (FWhile c body) r
              | _ => None
              end
          | LIf c =>
              match read_block f rest with
              | Some (tb, r1) =>
                  match read_else f r1 with
                  | Some (eb, fl, r2) => cont (FIf c tb eb fl) r2
                  | None => None
                  end
              | None => None
              end
          end
      end
  end
with read_else (fuel : nat) (ls : list line) {struct fuel} : option (list fstmt * bool * list line) :=
  match fuel with
  | O => None
  | S f =>
      match ls with
      | LEndIf :: r => Some ([], false, r)
      | LElse :: r =>
          match read_block f r with
          | Some (eb, LEndIf :: r') => Some (eb, false, r')
          | _ => None
          end
      | LElseIf c :: r =>
          match read_block f r with
          | Some (tb, r1) =>
              match read_else f r1 with
              | Some (eb, fl, r2) => Some ([FIf c tb eb fl], true, r2)
              | None => None
              end
          | None => None
          end
      | _ => None
      end
  end.

Definition read_lines (fuel : nat) (ls : list line) : option (list fstmt) :=
  match read_block fuel ls with
  | Some (p, []) => Some p
  | _ => None
  end.

Definition fuel_for (p : list fstmt) : nat := S (lsize p).

(** * Token level of a line: keyword skeleton + expression tokens of M_C06.print_f *)
Inductive ktok :=
| K (kw : string)        (* DO WHILE END IF THEN ELSE CALL = *)
| KC (text : string)     (* a comment line *)
| KErr
| X (t : token).

Definition xs (ts : list token) : list ktok := map X ts.
Definition pe (e : expr) : list ktok := xs (print_f e PREC_NONE).

Definition render_simple (m : simple) : list ktok :=
  match m with
  | MAssign x e => X (TVar x) :: K "=" :: pe e
  | MStore a idx e => pe (ECall a idx) ++ K "=" :: pe e
  | MCall f args => K "CALL" :: pe (ECall f args)
  end.

Definition render (l : line) : list ktok :=
  match l with
  | LSimple m => render_simple m
  | LDo v lo hi st =>
      K "DO" :: X (TVar v) :: K "=" :: pe lo ++ X TComma :: pe hi ++
      match st with Some e => X TComma :: pe e | None => [] end
  | LWhile c => K "DO" :: K "WHILE" :: X TLP :: pe c ++ [X TRP]
  | LEndDo => [K "END"; K "DO"]
  | LIf c => K "IF" :: X TLP :: pe c ++ [X TRP; K "THEN"]
  | LElseIf c => K "ELSE" :: K "IF" :: X TLP :: pe c ++ [X TRP; K "THEN"]
  | LElse => [K "ELSE"]
  | LEndIf => [K "END"; K "IF"]
  | LIfInline c m => K "IF" :: X TLP :: pe c ++ X TRP :: render_simple m
  | LComment s => [KC s]
  | LErr => [KErr]
  end.

(** * The tree FParser2IR builds for a Fortran parse tree (parentheses are not part of [fx]) *)
Fixpoint fx_to_expr (t : fx) : expr :=
  match t with
  | FInt n => EInt n
  | FVar x => EVar x
  | FLog b => ELog b
  | FNeg a => EProd false [EPy (-1); fx_to_expr a]
  | FNot a => ENot (fx_to_expr a)
  | FBin BAdd a b => ESum false [fx_to_expr a; fx_to_expr b]
  | FBin BSub a b => ESum false [fx_to_expr a; EProd false [EPy (-1); fx_to_expr b]]
  | FBin BMul a b => EProd false [fx_to_expr a; fx_to_expr b]
  | FBin BDiv a b => EQuot false (fx_to_expr a) (fx_to_expr b)
  | FBin BPow a b => EPow false (fx_to_expr a) (fx_to_expr b)
  | FBin BAnd a b => EAnd [fx_to_expr a; fx_to_expr b]
  | FBin BOr a b => EOr [fx_to_expr a; fx_to_expr b]
  | FCmp op a b => ECmp op (fx_to_expr a) (fx_to_expr b)
  | FCall f args => ECall f (map fx_to_expr args)
  end.

(** an expression slot re-read through the grammar: some derivation of the printed tokens, as a tree *)
Definition slot_rr (e e' : expr) : Prop := exists t, G LExpr (print_f e PREC_NONE) t /\ e' = fx_to_expr t.

Definition oslot_rr (a b : option expr) : Prop :=
  match a, b with Some e, Some e' => slot_rr e e' | None, None => True | _, _ => False end.

Definition simple_rr (m m' : simple) : Prop :=
  match m, m' with
  | MAssign x e, MAssign y e' => x = y /\ slot_rr e e'
  | MStore a i e, MStore b j e' => a = b /\ Forall2 slot_rr i j /\ slot_rr e e'
  | MCall f a, MCall g b => f = g /\ Forall2 slot_rr a b
  | _, _ => False
  end.

Definition line_rr (l l' : line) : Prop :=
  match l, l' with
  | LSimple m, LSimple m' => simple_rr m m'
  | LDo v lo hi st, LDo v' lo' hi' st' => v = v' /\ slot_rr lo lo' /\ slot_rr hi hi' /\ oslot_rr st st'
  | LWhile c, LWhile c' => slot_rr c c'
  | LEndDo, LEndDo | LElse, LElse | LEndIf, LEndIf | LErr, LErr => True
  | LIf c, LIf c' => slot_rr c c'
  | LElseIf c, LElseIf c' => slot_rr c c'
  | LIfInline c m, LIfInline c' m' => slot_rr c c' /\ simple_rr m m'
  | LComment s, LComment s' => s = s'
  | _, _ => False
  end.

(** * The class of the composition theorem *)
Definition is_evar (e : expr) : bool := match e with EVar _ => true | _ => false end.
Definition is_var (e : expr) : option string := match e with EVar x => Some x | _ => None end.

(** tokens from which a bare variable can be read: only the variable, parentheses and unary plus *)
Definition only_var_toks (ts : list token) : bool :=
  forallb (fun t => match t with TVar _ | TLP | TRP | TPlus => true | _ => false end) ts.

(** an actual argument is a variable, or an expression whose text cannot be read as a bare variable *)
Definition arg_ok (e : expr) : bool :=
  arith_safe e && (is_evar e || negb (only_var_toks (print_f e PREC_NONE))).

Definition step_plain (st : option expr) : bool :=
  match st with
  | Some e => arith_safe e && (negb (unit_step e) || match e with EInt 1 | EPy 1 => true | _ => false end)
  | None => true
  end.

Definition simple_safe (m : simple) : bool :=
  match m with
  | MAssign _ e => arith_safe e
  | MStore _ i e => forallb arith_safe i && arith_safe e
  | MCall _ a => forallb arg_ok a
  end.

Fixpoint safe (s : fstmt) : bool :=
  match s with
  | FSimple m => simple_safe m
  | FDo _ lo hi st b => arith_safe lo && arith_safe hi && step_plain st && forallb safe b
  | FWhile c b => logic_safe c && forallb safe b
  | FIf c t e _ => logic_safe c && forallb safe t && forallb safe e
  | FIfInline c m => logic_safe c && simple_safe m
  | FComment _ => true
  end.
Definition safe_list (p : list fstmt) : bool := forallb safe p.

(** * Parenthesised* classes do not matter for the value *)
Fixpoint strip_parens (e : expr) : expr :=
  match e with
  | ESum _ cs => ESum false (map strip_parens cs)
  | EProd _ cs => EProd false (map strip_parens cs)
  | EQuot _ a b => EQuot false (strip_parens a) (strip_parens b)
  | EPow _ a b => EPow false (strip_parens a) (strip_parens b)
  | ECmp op a b => ECmp op (strip_parens a) (strip_parens b)
  | EAnd cs => EAnd (map strip_parens cs)
  | EOr cs => EOr (map strip_parens cs)
  | ENot a => ENot (strip_parens a)
  | ECall f args => ECall f (map strip_parens args)
  | _ => e
  end.

Definition map_simple (f : expr -> expr) (m : simple) : simple :=
  match m with
  | MAssign x e => MAssign x (f e)
  | MStore a i e => MStore a (map f i) (f e)
  | MCall g a => MCall g (map f a)
  end.

Fixpoint map_exprs (f : expr -> expr) (s : fstmt) : fstmt :=
  match s with
  | FSimple m => FSimple (map_simple f m)
  | FDo v lo hi st b => FDo v (f lo) (f hi) (option_map f st) (map (map_exprs f) b)
  | FWhile c b => FWhile (f c) (map (map_exprs f) b)
  | FIf c t e fl => FIf (f c) (map (map_exprs f) t) (map (map_exprs f) e) fl
  | FIfInline c m => FIfInline (f c) (map_simple f m)
  | FComment s => FComment s
  end.

(** * Executable re-reading of the printed lines (expression slots through M_C06.ref_parse) *)
Definition reread_expr (e : expr) : option expr :=
  match ref_parse (print_f e PREC_NONE) with Some t => Some (fx_to_expr t) | None => None end.

Fixpoint omap {A B} (f : A -> option B) (l : list A) : option (list B) :=
  match l with
  | [] => Some []
  | x :: r => match f x, omap f r with Some y, Some ys => Some (y :: ys) | _, _ => None end
  end.

Definition reread_simple (m : simple) : option simple :=
  match m with
  | MAssign x e => match reread_expr e with Some e' => Some (MAssign x e') | None => None end
  | MStore a i e =>
      match omap reread_expr i, reread_expr e with Some i', Some e' => Some (MStore a i' e') | _, _ => None end
  | MCall f a => match omap reread_expr a with Some a' => Some (MCall f a') | None => None end
  end.

Definition reread_line (l : line) : option line :=
  match l with
  | LSimple m => option_map LSimple (reread_simple m)
  | LDo v lo hi st =>
      match reread_expr lo, reread_expr hi, (match st with Some e => option_map Some (reread_expr e) | None => Some None end) with
      | Some lo', Some hi', Some st' => Some (LDo v lo' hi' st')
      | _, _, _ => None
      end
  | LWhile c => option_map LWhile (reread_expr c)
  | LIf c => option_map LIf (reread_expr c)
  | LElseIf c => option_map LElseIf (reread_expr c)
  | LIfInline c m =>
      match reread_expr c, reread_simple m with Some c', Some m' => Some (LIfInline c' m') | _, _ => None end
  | _ => Some l
  end.

Definition reparse_exec (p : list fstmt) : option (list fstmt) :=
  match omap reread_line (print_stmts p) with
  | Some ls => read_lines (S (2 * List.length ls)) ls
  | None => None
  end.

(** * Structural equality (for the correspondence terms) *)
Definition simple_eqb (a b : simple) : bool :=
  match a, b with
  | MAssign x e, MAssign y e' => String.eqb x y && expr_eqb e e'
  | MStore x i e, MStore y j e' => String.eqb x y && list_expr_eqb i j && expr_eqb e e'
  | MCall f x, MCall g y => String.eqb f g && list_expr_eqb x y
  | _, _ => false
  end.

Fixpoint fstmt_eqb (a b : fstmt) {struct a} : bool :=
  let fix leqb (l1 l2 : list fstmt) {struct l1} : bool :=
    match l1, l2 with
    | [], [] => true
    | x :: r1, y :: r2 => fstmt_eqb x y && leqb r1 r2
    | _, _ => false
    end in
  match a, b with
  | FSimple m, FSimple m' => simple_eqb m m'
  | FDo v lo hi st b1, FDo w lo' hi' st' b2 =>
      String.eqb v w && expr_eqb lo lo' && expr_eqb hi hi' && oexpr_eqb st st' && leqb b1 b2
  | FWhile c b1, FWhile c' b2 => expr_eqb c c' && leqb b1 b2
  | FIf c t e fl, FIf c' t' e' fl' => expr_eqb c c' && leqb t t' && leqb e e' && Bool.eqb fl fl'
  | FIfInline c m, FIfInline c' m' => expr_eqb c c' && simple_eqb m m'
  | FComment s, FComment s' => String.eqb s s'
  | _, _ => false
  end.

Fixpoint fstmts_eqb (l1 l2 : list fstmt) : bool :=
  match l1, l2 with
  | [], [] => true
  | x :: r1, y :: r2 => fstmt_eqb x y && fstmts_eqb r1 r2
  | _, _ => false
  end.

Definition ofstmts_eqb (a : option (list fstmt)) (b : list fstmt) : bool :=
  match a with Some x => fstmts_eqb x b | None => false end.

Definition ktok_eqb (a b : ktok) : bool :=
  match a, b with
  | K x, K y => String.eqb x y
  | KC x, KC y => String.eqb x y
  | KErr, KErr => true
  | X x, X y => token_eqb x y
  | _, _ => false
  end.

Fixpoint ktoks_eqb (a b : list ktok) : bool :=
  match a, b with
  | [], [] => true
  | x :: r, y :: s => ktok_eqb x y && ktoks_eqb r s
  | _, _ => false
  end.

Fixpoint klines_eqb (a b : list (list ktok)) : bool :=
  match a, b with
  | [], [] => true
  | x :: r, y :: s => ktoks_eqb x y && klines_eqb r s
  | _, _ => false
  end.

(** * Correspondence entry points *)

(** the token lines of the real [fgen(routine.body)] are the rendered lines of the model printer *)
Definition chk_print (p : list fstmt) (impl : list (list ktok)) : bool :=
  klines_eqb (map render (print_stmts p)) impl.

(** the real text, cut into lines by the harness (expression slots parsed by the real expression frontend), is read
    by the reference reader into the statement list the real frontend built from that text *)
Definition chk_read (ls : list line) (q : list fstmt) : bool :=
  ofstmts_eqb (read_lines (S (2 * List.length ls)) ls) q.

(** class predicates as computed by the model *)
Definition chk_class (p : list fstmt) (w n s : bool) : bool :=
  Bool.eqb (wf_list p) w && Bool.eqb (nf_list p) n && Bool.eqb (safe_list p) s.

(** the program, and the model's re-read of its printed lines, both produce the observation of the real run *)
Definition chk_run (ps : procs) (fuel : nat) (p : list fstmt)
           (scal0 : list (string * Z)) (cells0 : list (string * list Z * Z))
           (oscal : list string) (ocells : list (string * list Z)) (obs : option (list Z)) : bool :=
  olist_z_eqb (run_observe ps fuel (erase_list p) scal0 cells0 oscal ocells) obs &&
  match reparse_exec p with
  | Some q => olist_z_eqb (run_observe ps fuel (erase_list q) scal0 cells0 oscal ocells) obs
  | None => false
  end.

(** the model's re-read of the printed lines has the erased-parentheses structure of the real re-read *)
Definition chk_reparse (p : list fstmt) (q : list fstmt) : bool :=
  match reparse_exec p with
  | Some q' => fstmts_eqb q' (map (map_exprs strip_parens) q)
  | None => false
  end.
