(** C31 — loop transformations (unrolling, fusion, fission, interchange, loop splitting) on MiniF.
    Definitions only: executable models of
      loki/transformations/transform_loop.py  (LoopUnrollTransformer / do_loop_unroll, do_loop_fusion,
                                                do_loop_fission, do_loop_interchange)
      loki/transformations/loop_blocking.py   (split_loop)
    and the boolean comparators used by the correspondence. *)
From Coq Require Import ZArith List Bool String Ascii.
From LV Require Import Base.Expr Base.MiniF.
From LV Require models.M_C10.
Import ListNotations.
Open Scope Z_scope.

(** * Substitution (SubstituteExpressions with a map {variable: expression}) *)

Fixpoint msubst_e (sg : string -> option expr) (e : expr) : expr :=
  match e with
  | EVar x => match sg x with Some r => r | None => e end
  | ESum p cs => ESum p (map (msubst_e sg) cs)
  | EProd p cs => EProd p (map (msubst_e sg) cs)
  | EQuot p a b => EQuot p (msubst_e sg a) (msubst_e sg b)
  | EPow p a b => EPow p (msubst_e sg a) (msubst_e sg b)
  | ECmp o a b => ECmp o (msubst_e sg a) (msubst_e sg b)
  | EAnd cs => EAnd (map (msubst_e sg) cs)
  | EOr cs => EOr (map (msubst_e sg) cs)
  | ENot a => ENot (msubst_e sg a)
  | ECall f args => ECall f (map (msubst_e sg) args)
  | EInt _ | EPy _ | ELog _ => e
  end.

(** statements: left-hand sides and DO variables are left alone (the class predicates of the theorems
    exclude bodies that assign the substituted variable; Loki would produce the ill-formed [1 = e] there) *)
Fixpoint msubst_s (sg : string -> option expr) (s : stmt) : stmt :=
  match s with
  | SAssign x e => SAssign x (msubst_e sg e)
  | SStore a idx e => SStore a (map (msubst_e sg) idx) (msubst_e sg e)
  | SDo v lo hi st b =>
      SDo v (msubst_e sg lo) (msubst_e sg hi) (option_map (msubst_e sg) st) (map (msubst_s sg) b)
  | SWhile c b => SWhile (msubst_e sg c) (map (msubst_s sg) b)
  | SIf c t e => SIf (msubst_e sg c) (map (msubst_s sg) t) (map (msubst_s sg) e)
  | SCall f args => SCall f (map (msubst_e sg) args)
  | SSkip l => s
  end.

Definition msubst_l (sg : string -> option expr) (l : list stmt) : list stmt := map (msubst_s sg) l.

(** {v: IntLiteral(i)} *)
Definition subst1 (v : string) (i : Z) : string -> option expr :=
  fun x => if String.eqb x v then Some (EInt i) else None.
(** {w: v} (renaming of a loop variable by loop fusion) *)
Definition rename1 (w v : string) : string -> option expr :=
  fun x => if String.eqb x w then Some (EVar v) else None.

(** * Literal bounds: [is_constant] of loki/expression/symbolic.py
    (a literal, or a minus-prefixed literal [Product((-1, c))]) and its value under LokiEvaluationMapper *)
Fixpoint lit_val (e : expr) : option Z :=
  match e with
  | EInt v | EPy v => Some v
  | EProd _ [EPy m; c] => if m =? -1 then option_map Z.opp (lit_val c) else None
  | _ => None
  end.

(** does variable [v] occur in [e] (FindVariables) *)
Fixpoint evar_in (v : string) (e : expr) : bool :=
  match e with
  | EVar x => String.eqb x v
  | ESum _ cs | EProd _ cs | EAnd cs | EOr cs | ECall _ cs => existsb (evar_in v) cs
  | EQuot _ a b | EPow _ a b | ECmp _ a b => evar_in v a || evar_in v b
  | ENot a => evar_in v a
  | EInt _ | EPy _ | ELog _ => false
  end.

Definition is_do (s : stmt) : bool := match s with SDo _ _ _ _ _ => true | _ => false end.

(** more than one Loop among the direct children of the body *)
Definition neighbour_loops (body : list stmt) : bool := (1 <? List.length (filter is_do body))%nat.

(** the counter occurs in the bounds of some loop found (at any depth) in the body *)
Fixpoint bounds_mention (v : string) (s : stmt) : bool :=
  match s with
  | SDo _ lo hi st b =>
      evar_in v lo || evar_in v hi || (match st with Some e => evar_in v e | None => false end)
      || existsb (bounds_mention v) b
  | SWhile _ b => existsb (bounds_mention v) b
  | SIf _ t e => existsb (bounds_mention v) t || existsb (bounds_mention v) e
  | _ => false
  end.
Definition counter_in_bounds (v : string) (body : list stmt) : bool := existsb (bounds_mention v) body.

(** * Pragmas: a pragma line is the [SSkip] whose label is the text after "!" *)
Definition unroll_prefix : string := "$loki loop-unroll".

Definition digit_val (c : ascii) : option Z :=
  let n := Z.of_nat (nat_of_ascii c) in if (48 <=? n) && (n <=? 57) then Some (n - 48) else None.

(** [Some None]: unroll pragma without depth; [Some (Some n)]: with depth(n), n a single digit *)
Definition unroll_pragma (p : string) : option (option Z) :=
  if String.eqb p unroll_prefix then Some None
  else if prefix (unroll_prefix ++ " depth(") p then
    match get 24 p with
    | Some c => match digit_val c with Some n => Some (Some n) | None => None end
    | None => None
    end
  else None.

Definition is_unroll_pragma (p : string) : bool :=
  match unroll_pragma p with Some _ => true | None => false end.

(** the unroll pragma attached to a loop goes away when LoopUnrollTransformer visits that loop *)
Fixpoint strip_attached (l : list stmt) : list stmt :=
  match l with
  | [] => []
  | s :: r =>
      match s, r with
      | SSkip p, SDo _ _ _ _ _ :: _ => if is_unroll_pragma p then strip_attached r else s :: strip_attached r
      | _, _ => s :: strip_attached r
      end
  end.

(** explicit error output: get_pyrange -> range(a, b, 0) raises ValueError *)
Definition raise_marker : stmt := SSkip "!raise ValueError: range() arg 3 must not be zero".

Definition rec_ok (d : option Z) : bool := match d with None => true | Some n => 1 <=? n end.

(** start, stop and step are all literal (implicit step = 1) *)
Definition lit3 (lo hi : expr) (st : option expr) : option (Z * Z * Z) :=
  match lit_val lo, lit_val hi, (match st with None => Some 1 | Some e => lit_val e end) with
  | Some a, Some b, Some c => Some (a, b, c)
  | _, _, _ => None
  end.

(** * LoopUnrollTransformer.visit with keyword [depth]; out of fuel = leave unchanged *)
Fixpoint ut (fuel : nat) (depth : option Z) (s : stmt) {struct fuel} : list stmt :=
  match fuel with
  | O => [s]
  | S f =>
    let utl := fun d l => flat_map (ut f d) (strip_attached l) in
    match s with
    | SDo v lo hi st body =>
      let d' := option_map Z.pred depth in
      match lit3 lo hi st with
      | Some (a, b, c) =>
        if c =? 0 then [raise_marker] else
        let rng := M_C10.get_pyrange a b c in
        if neighbour_loops body || counter_in_bounds v body then
          flat_map (fun i => let cp := msubst_l (subst1 v i) body in if rec_ok d' then utl d' cp else cp) rng
        else
          let body' := if rec_ok d' then utl d' body else body in
          flat_map (fun i => msubst_l (subst1 v i) body') rng
      | None => [SDo v lo hi st (utl d' body)]
      end
    | SIf c t e => [SIf c (utl depth t) (utl depth e)]
    | SWhile c b => [SWhile c (utl depth b)]
    | _ => [s]
    end
  end.

Definition utl (fuel : nat) (d : option Z) (l : list stmt) : list stmt := flat_map (ut fuel d) (strip_attached l).

(** do_loop_unroll: PragmaLoopUnrollTransformer *)
Fixpoint pu (fuel : nat) (l : list stmt) {struct fuel} : list stmt :=
  match fuel with
  | O => l
  | S f =>
    (fix go (l : list stmt) : list stmt :=
       match l with
       | [] => []
       | s :: r =>
         match s with
         | SSkip p =>
             match unroll_pragma p, r with
             | Some d, (SDo v lo hi st b) :: r' => pu f (ut f d (SDo v lo hi st b)) ++ go r'
             | _, _ => s :: go r
             end
         | SDo v lo hi st b => SDo v lo hi st (pu f b) :: go r
         | SIf c t e => SIf c (pu f t) (pu f e) :: go r
         | SWhile c b => SWhile c (pu f b) :: go r
         | _ => s :: go r
         end
       end) l
  end.

Definition unroll_fuel : nat := 40.
Definition do_unroll (l : list stmt) : list stmt := pu unroll_fuel l.

(** * Comparison helpers *)
Fixpoint strip_skips_s (s : stmt) : list stmt :=
  match s with
  | SSkip _ => []
  | SDo v lo hi st b => [SDo v lo hi st (flat_map strip_skips_s b)]
  | SWhile c b => [SWhile c (flat_map strip_skips_s b)]
  | SIf c t e => [SIf c (flat_map strip_skips_s t) (flat_map strip_skips_s e)]
  | _ => [s]
  end.
Definition strip_skips (l : list stmt) : list stmt := flat_map strip_skips_s l.

Fixpoint has_raise_s (s : stmt) : bool :=
  match s with
  | SSkip l => String.eqb l "!raise ValueError: range() arg 3 must not be zero"
  | SDo _ _ _ _ b | SWhile _ b => existsb has_raise_s b
  | SIf _ t e => existsb has_raise_s t || existsb has_raise_s e
  | _ => false
  end.
Definition has_raise (l : list stmt) : bool := existsb has_raise_s l.

(** impl = None: the implementation raised ValueError *)
Definition chk_unroll (prog : list stmt) (impl : option (list stmt)) : bool :=
  let out := do_unroll prog in
  if has_raise out then match impl with None => true | Some _ => false end
  else match impl with Some q => stmts_eqb (strip_skips out) q | None => false end.

(** * Class predicates of the theorems *)
(** no scalar of [D] and no array of [A] is read in [e] *)
Fixpoint efree (D A : string -> bool) (e : expr) : bool :=
  match e with
  | EVar x => negb (D x)
  | ESum _ cs | EProd _ cs | EAnd cs | EOr cs => forallb (efree D A) cs
  | ECall f cs => negb (A f) && forallb (efree D A) cs
  | EQuot _ a b | EPow _ a b | ECmp _ a b => efree D A a && efree D A b
  | ENot a => efree D A a
  | EInt _ | EPy _ | ELog _ => true
  end.
Definition oefree (D A : string -> bool) (o : option expr) : bool :=
  match o with Some e => efree D A e | None => true end.

Definition dminus (D : string -> bool) (v : string) : string -> bool := fun x => D x && negb (String.eqb x v).
Definition dnone : string -> bool := fun _ => false.
Definition dmem (X : list string) : string -> bool := fun x => existsb (String.eqb x) X.
Definition single (v : string) : string -> bool := fun x => String.eqb x v.
(** domain of a substitution, and [D] minus that domain *)
Definition dom (sg : string -> option expr) : string -> bool :=
  fun x => match sg x with Some _ => true | None => false end.
Definition dsub (D : string -> bool) (sg : string -> option expr) : string -> bool :=
  fun x => D x && negb (dom sg x).

(** [s] writes no scalar of [W] (DO variables count as written) and no array of [WA]; CALL is outside the class *)
Fixpoint nwrites (W WA : string -> bool) (s : stmt) : bool :=
  match s with
  | SAssign x _ => negb (W x)
  | SStore a _ _ => negb (WA a)
  | SDo v _ _ _ b => negb (W v) && forallb (nwrites W WA) b
  | SWhile _ b => forallb (nwrites W WA) b
  | SIf _ t e => forallb (nwrites W WA) t && forallb (nwrites W WA) e
  | SCall _ _ => false
  | SSkip _ => true
  end.

(** [s] reads no scalar of [D] (except a DO variable inside its own loop) and no array of [A]; no CALL *)
Fixpoint nreads (D A : string -> bool) (s : stmt) : bool :=
  match s with
  | SAssign _ e => efree D A e
  | SStore _ idx e => forallb (efree D A) idx && efree D A e
  | SDo v lo hi st b => efree D A lo && efree D A hi && oefree D A st && forallb (nreads (dminus D v) A) b
  | SWhile c b => efree D A c && forallb (nreads D A) b
  | SIf c t e => efree D A c && forallb (nreads D A) t && forallb (nreads D A) e
  | SCall _ _ => false
  | SSkip _ => true
  end.

(** the class of [unroll_preserves]: [D] = the DO variables; each is read only inside its own loop
    ("dead after the loop"), is not assigned by the body of its loop, and loops over the same variable
    are not nested; no CALL *)
Fixpoint uok (D : string -> bool) (s : stmt) : bool :=
  match s with
  | SAssign _ e => efree D dnone e
  | SStore _ idx e => forallb (efree D dnone) idx && efree D dnone e
  | SDo v lo hi st b =>
      D v && efree D dnone lo && efree D dnone hi && oefree D dnone st
      && forallb (uok (dminus D v)) b && forallb (nwrites (single v) dnone) b
  | SWhile c b => efree D dnone c && forallb (uok D) b
  | SIf c t e => efree D dnone c && forallb (uok D) t && forallb (uok D) e
  | SCall _ _ => false
  | SSkip _ => true
  end.

(** all DO variables of a program *)
Fixpoint loop_vars_s (s : stmt) : list string :=
  match s with
  | SDo v _ _ _ b => v :: flat_map loop_vars_s b
  | SWhile _ b => flat_map loop_vars_s b
  | SIf _ t e => flat_map loop_vars_s t ++ flat_map loop_vars_s e
  | _ => []
  end.
Definition loop_vars (l : list stmt) : list string := flat_map loop_vars_s l.

Definition unroll_class (l : list stmt) : bool := forallb (uok (dmem (loop_vars l))) l.

(** stores that agree except on the scalars of [D] and the arrays of [A] *)
Definition sim (D A : string -> bool) (s t : store) : Prop :=
  (forall x, D x = false -> sv s x = sv t x) /\ (forall a i, A a = false -> av s a i = av t a i).

(** * Fusion, fission, interchange (the simple pragma-marked cases); [None] = outside the modelled class *)
Definition fusion_pragma (p : string) : bool := prefix "$loki loop-fusion" p.
Definition fission_pragma (p : string) : bool := prefix "$loki loop-fission" p.
Definition interchange_pragma (p : string) : bool := String.eqb p "$loki loop-interchange".

Definition same_range (lo hi lo' hi' : expr) : bool := expr_eqb lo lo' && expr_eqb hi hi'.

(** Polyhedron.from_loop_ranges asserts [step is None or step == "1"] *)
Definition unit_step (st : option expr) : bool :=
  match st with None => true | Some (EInt 1) => true | _ => false end.

(** bodies of the later top-level loops tagged [p] (renamed to the fusion variable [v]) and the list without them;
    [None] when a tagged loop has a different range or a non-unit step *)
Fixpoint fuse_collect (p v : string) (lo hi : expr) (l : list stmt) : option (list stmt * list stmt) :=
  match l with
  | [] => Some ([], [])
  | s :: r =>
      match s, r with
      | SSkip q, SDo w lo' hi' st' b :: r' =>
          if String.eqb q p then
            if same_range lo hi lo' hi' && unit_step st' then
              match fuse_collect p v lo hi r' with
              | Some (bs, rest) =>
                  Some ((if String.eqb w v then b else msubst_l (rename1 w v) b) ++ bs, rest)
              | None => None
              end
            else None
          else match fuse_collect p v lo hi r with
               | Some (bs, rest) => Some (bs, s :: rest)
               | None => None
               end
      | _, _ => match fuse_collect p v lo hi r with
                | Some (bs, rest) => Some (bs, s :: rest)
                | None => None
                end
      end
  end.

(** all groups, each fused at the position of its first loop (top-level loops only); the fused loop has the
    range of the group (rebuilt from the iteration-space polyhedron: implicit step) *)
Fixpoint fuse (fuel : nat) (l : list stmt) : option (list stmt) :=
  match fuel with
  | O => Some l
  | S f =>
    match l with
    | [] => Some []
    | s :: r =>
        match s, r with
        | SSkip p, SDo v lo hi st b :: r' =>
            if fusion_pragma p then
              if unit_step st then
                match fuse_collect p v lo hi r' with
                | Some (bs, rest) =>
                    match fuse f rest with
                    | Some rest' => Some (SDo v lo hi None (b ++ bs) :: rest')
                    | None => None
                    end
                | None => None
                end
              else None
            else match fuse f r with Some r2 => Some (s :: r2) | None => None end
        | _, _ => match fuse f r with Some r2 => Some (s :: r2) | None => None end
        end
    end
  end.

Definition do_fusion (l : list stmt) : option (list stmt) := fuse (S (List.length l)) l.

(** some top-level loop tagged for fusion has a step other than 1: do_loop_fusion fails its assertion *)
Fixpoint fusion_asserts (l : list stmt) : bool :=
  match l with
  | [] => false
  | s :: r =>
      match s, r with
      | SSkip p, SDo _ _ _ st _ :: _ => (fusion_pragma p && negb (unit_step st)) || fusion_asserts r
      | _, _ => fusion_asserts r
      end
  end.

(** literal bounds are compared by value (the fused range is re-generated from integers) *)
Definition norm_lit (e : expr) : expr := match lit_val e with Some v => EInt v | None => e end.
Fixpoint norm_s (s : stmt) : stmt :=
  match s with
  | SDo v lo hi st b => SDo v (norm_lit lo) (norm_lit hi) (option_map norm_lit st) (map norm_s b)
  | SWhile c b => SWhile c (map norm_s b)
  | SIf c t e => SIf c (map norm_s t) (map norm_s e)
  | _ => s
  end.
Definition norm_l (l : list stmt) : list stmt := map norm_s l.

(** ** fusion with collapse(2): groups of perfect 2-nests with equal unit-step ranges at both levels.
    The counters of a later nest are renamed to those of the first nest by ONE substitution map built over both
    levels (simultaneous renaming: (j,i) -> (i,j) exchanges the two names). *)
Definition fusion2_pragma (p : string) : bool := prefix "$loki loop-fusion collapse(2)" p.

Definition rename2 (w1 v1 w2 v2 : string) : string -> option expr :=
  fun x => if String.eqb x w1 then (if String.eqb w1 v1 then None else Some (EVar v1))
           else if String.eqb x w2 then (if String.eqb w2 v2 then None else Some (EVar v2))
           else None.

Fixpoint fuse2_collect (p v1 v2 : string) (lo1 hi1 lo2 hi2 : expr) (l : list stmt)
  : option (list stmt * list stmt) :=
  match l with
  | [] => Some ([], [])
  | s :: r =>
      let skip_it := match fuse2_collect p v1 v2 lo1 hi1 lo2 hi2 r with
                     | Some (bs, rest) => Some (bs, s :: rest)
                     | None => None
                     end in
      match s, r with
      | SSkip q, SDo w1 lo hi st [SDo w2 lo' hi' st' b] :: r' =>
          if String.eqb q p then
            if same_range lo1 hi1 lo hi && unit_step st && same_range lo2 hi2 lo' hi' && unit_step st' then
              match fuse2_collect p v1 v2 lo1 hi1 lo2 hi2 r' with
              | Some (bs, rest) => Some (msubst_l (rename2 w1 v1 w2 v2) b ++ bs, rest)
              | None => None
              end
            else None
          else skip_it
      | _, _ => skip_it
      end
  end.

Fixpoint fuse2 (fuel : nat) (l : list stmt) : option (list stmt) :=
  match fuel with
  | O => Some l
  | S f =>
    match l with
    | [] => Some []
    | s :: r =>
        let keep := match fuse2 f r with Some r2 => Some (s :: r2) | None => None end in
        match s, r with
        | SSkip p, SDo v1 lo1 hi1 st1 [SDo v2 lo2 hi2 st2 b] :: r' =>
            if fusion2_pragma p then
              if unit_step st1 && unit_step st2 then
                match fuse2_collect p v1 v2 lo1 hi1 lo2 hi2 r' with
                | Some (bs, rest) =>
                    match fuse2 f rest with
                    | Some rest' => Some (SDo v1 lo1 hi1 None [SDo v2 lo2 hi2 None (b ++ bs)] :: rest')
                    | None => None
                    end
                | None => None
                end
              else None
            else keep
        | _, _ => keep
        end
    end
  end.

Definition do_fusion2 (l : list stmt) : option (list stmt) := fuse2 (S (List.length l)) l.

Definition chk_fusion2 (prog impl : list stmt) : bool :=
  match do_fusion2 prog with
  | Some out => stmts_eqb (norm_l (strip_skips out)) (norm_l impl)
  | None => false
  end.



(** segments of a loop body between top-level fission markers *)
Fixpoint segments (body cur : list stmt) : list (list stmt) :=
  match body with
  | [] => [rev cur]
  | s :: r =>
      match s with
      | SSkip p => if fission_pragma p then rev cur :: segments r [] else segments r (s :: cur)
      | _ => segments r (s :: cur)
      end
  end.

Definition has_marker (body : list stmt) : bool :=
  existsb (fun s => match s with SSkip p => fission_pragma p | _ => false end) body.

Definition nonempty_l (l : list stmt) : bool := match l with [] => false | _ => true end.

Definition fission_loop (v : string) (lo hi : expr) (st : option expr) (body : list stmt) : list stmt :=
  map (SDo v lo hi st) (filter nonempty_l (segments body [])).

(** loops whose body carries markers at its top level are split; other statements are traversed *)
Fixpoint fission (fuel : nat) (l : list stmt) : list stmt :=
  match fuel with
  | O => l
  | S f =>
    flat_map (fun s =>
      match s with
      | SDo v lo hi st b => if has_marker b then fission_loop v lo hi st b else [SDo v lo hi st (fission f b)]
      | SIf c t e => [SIf c (fission f t) (fission f e)]
      | SWhile c b => [SWhile c (fission f b)]
      | _ => [s]
      end) l
  end.
Definition do_fission (l : list stmt) : list stmt := fission 40 l.

(** perfect 2-nests tagged loop-interchange: headers exchanged *)
Fixpoint interchange (fuel : nat) (l : list stmt) : list stmt :=
  match fuel with
  | O => l
  | S f =>
    match l with
    | [] => []
    | s :: r =>
        match s, r with
        | SSkip p, SDo i lo hi st [SDo j lo' hi' st' b] :: r' =>
            if interchange_pragma p then SDo j lo' hi' st' [SDo i lo hi st b] :: interchange f r'
            else s :: interchange f r
        | SIf c t e, _ => SIf c (interchange f t) (interchange f e) :: interchange f r
        | _, _ => s :: interchange f r
        end
    end
  end.
Definition do_interchange (l : list stmt) : list stmt := interchange (S (List.length l) + 40) l.

(** * Syntactic independence check (legality of the generated fusion / fission / interchange cases) *)
Definition mem_s (x : string) (l : list string) : bool := existsb (String.eqb x) l.
Definition disjoint_s (a b : list string) : bool := forallb (fun x => negb (mem_s x b)) a.

(** scalars and array names read by an expression *)
Fixpoint ereads (e : expr) : list string :=
  match e with
  | EVar x => [x]
  | ESum _ cs | EProd _ cs | EAnd cs | EOr cs => flat_map ereads cs
  | ECall f cs => f :: flat_map ereads cs
  | EQuot _ a b | EPow _ a b | ECmp _ a b => ereads a ++ ereads b
  | ENot a => ereads a
  | EInt _ | EPy _ | ELog _ => []
  end.

Fixpoint sreads (s : stmt) : list string :=
  match s with
  | SAssign _ e => ereads e
  | SStore _ idx e => flat_map ereads idx ++ ereads e
  | SDo _ lo hi st b => ereads lo ++ ereads hi ++ (match st with Some e => ereads e | None => [] end) ++ flat_map sreads b
  | SWhile c b => ereads c ++ flat_map sreads b
  | SIf c t e => ereads c ++ flat_map sreads t ++ flat_map sreads e
  | SCall _ args => flat_map ereads args
  | SSkip _ => []
  end.

Fixpoint swrites (s : stmt) : list string :=
  match s with
  | SAssign x _ => [x]
  | SStore a _ _ => [a]
  | SDo v _ _ _ b => v :: flat_map swrites b
  | SWhile _ b => flat_map swrites b
  | SIf _ t e => flat_map swrites t ++ flat_map swrites e
  | SCall _ _ => []
  | SSkip _ => []
  end.

Fixpoint no_call (s : stmt) : bool :=
  match s with
  | SCall _ _ => false
  | SDo _ _ _ _ b | SWhile _ b => forallb no_call b
  | SIf _ t e => forallb no_call t && forallb no_call e
  | _ => true
  end.

(** name-level independence of two statement lists: neither writes what the other reads or writes; no CALL *)
Definition indep_names (A B : list stmt) : bool :=
  forallb no_call A && forallb no_call B
  && disjoint_s (flat_map swrites A) (flat_map sreads B ++ flat_map swrites B)
  && disjoint_s (flat_map swrites B) (flat_map sreads A).

(** "same index only": every access to the arrays shared between A and B (where one side writes) is
    subscripted by exactly the loop variable in its first dimension, so that different iterations touch different cells *)
Fixpoint e_acc_ok (v : string) (shared : list string) (e : expr) : bool :=
  match e with
  | ECall f cs =>
      (if mem_s f shared then match cs with EVar x :: _ => String.eqb x v | _ => false end else true)
      && forallb (e_acc_ok v shared) cs
  | ESum _ cs | EProd _ cs | EAnd cs | EOr cs => forallb (e_acc_ok v shared) cs
  | EQuot _ a b | EPow _ a b | ECmp _ a b => e_acc_ok v shared a && e_acc_ok v shared b
  | ENot a => e_acc_ok v shared a
  | _ => true
  end.

Fixpoint s_acc_ok (v : string) (shared : list string) (s : stmt) : bool :=
  match s with
  | SAssign _ e => e_acc_ok v shared e
  | SStore a idx e =>
      (if mem_s a shared then match idx with EVar x :: _ => String.eqb x v | _ => false end else true)
      && forallb (e_acc_ok v shared) idx && e_acc_ok v shared e
  | SDo _ lo hi st b =>
      e_acc_ok v shared lo && e_acc_ok v shared hi
      && (match st with Some e => e_acc_ok v shared e | None => true end) && forallb (s_acc_ok v shared) b
  | SWhile c b => e_acc_ok v shared c && forallb (s_acc_ok v shared) b
  | SIf c t e => e_acc_ok v shared c && forallb (s_acc_ok v shared) t && forallb (s_acc_ok v shared) e
  | SCall _ _ => false
  | SSkip _ => true
  end.

Definition is_scalar_free (arrs : list string) (x : string) : bool := negb (mem_s x arrs).

(** the generator's legality check for "DO v: A" / "DO v: B" (fusion, fission):
    either name-level independent, or the conflicting names are arrays accessed at index [v] only,
    and neither body assigns [v] *)
Definition syntactic_indep (v : string) (arrays : list string) (A B : list stmt) : bool :=
  forallb no_call A && forallb no_call B
  && negb (mem_s v (flat_map swrites A ++ flat_map swrites B))
  && (let wA := flat_map swrites A in let wB := flat_map swrites B in
      let rA := flat_map sreads A in let rB := flat_map sreads B in
      let conflicts := filter (fun x => mem_s x (rB ++ wB)) wA ++ filter (fun x => mem_s x rA) wB in
      forallb (fun x => mem_s x arrays) conflicts
      && forallb (s_acc_ok v conflicts) A && forallb (s_acc_ok v conflicts) B).

(** impl = None: the implementation raised AssertionError *)
Definition chk_fusion (prog : list stmt) (impl : option (list stmt)) : bool :=
  match impl with
  | None => fusion_asserts prog
  | Some q =>
      negb (fusion_asserts prog) &&
      match do_fusion prog with
      | Some out => stmts_eqb (norm_l (strip_skips out)) (norm_l q)
      | None => false
      end
  end.

Definition chk_fission (prog : list stmt) (impl : list stmt) : bool :=
  stmts_eqb (strip_skips (do_fission prog)) impl.

Definition chk_interchange (prog : list stmt) (impl : list stmt) : bool :=
  stmts_eqb (strip_skips (do_interchange prog)) impl.

(** legality of a generated case as decided in Coq: consecutive bodies pairwise independent *)
Fixpoint all_pairs_indep (v : string) (arrays : list string) (bodies : list (list stmt)) : bool :=
  match bodies with
  | [] => true
  | A :: r => forallb (fun B => syntactic_indep v arrays A B) r && all_pairs_indep v arrays r
  end.

(** legality of interchanging the perfect nest "DO i / DO j / body": the body assigns no scalar, every access to an
    array it writes is subscripted exactly (i, j), the ranges are rectangular and independent of what the body writes *)
Definition idx_is (i j : string) (idx : list expr) : bool :=
  match idx with [EVar x; EVar y] => String.eqb x i && String.eqb y j | _ => false end.

Fixpoint e_acc2 (i j : string) (W : list string) (e : expr) : bool :=
  match e with
  | ECall f cs => (if mem_s f W then idx_is i j cs else true) && forallb (e_acc2 i j W) cs
  | ESum _ cs | EProd _ cs | EAnd cs | EOr cs => forallb (e_acc2 i j W) cs
  | EQuot _ a b | EPow _ a b | ECmp _ a b => e_acc2 i j W a && e_acc2 i j W b
  | ENot a => e_acc2 i j W a
  | _ => true
  end.

Fixpoint s_acc2 (i j : string) (W : list string) (s : stmt) : bool :=
  match s with
  | SStore _ idx e => idx_is i j idx && e_acc2 i j W e
  | SIf c t e => e_acc2 i j W c && forallb (s_acc2 i j W) t && forallb (s_acc2 i j W) e
  | SSkip _ => true
  | _ => false
  end.

Definition bound_ok (i j : string) (W : list string) (e : expr) : bool :=
  negb (evar_in i e) && negb (evar_in j e) && disjoint_s (ereads e) W.

Definition interchange_legal (nest : stmt) : bool :=
  match nest with
  | SDo i lo hi st [SDo j lo' hi' st' body] =>
      let W := flat_map swrites body in
      negb (String.eqb i j) && forallb (s_acc2 i j W) body
      && forallb (bound_ok i j W) (lo :: hi :: lo' :: hi' :: (match st with Some e => [e] | None => [] end)
                                   ++ (match st' with Some e => [e] | None => [] end))
  | _ => false
  end.

(** * Loop splitting (split_loop of loop_blocking.py) *)
Definition nm (v suffix : string) : string := (v ++ suffix)%string.

(** LoopRange.num_iterations (unsimplified tree) *)
Definition num_iter_expr (lo hi : expr) (st : option expr) : expr :=
  match st with
  | None => match lo with
            | EInt 1 => hi
            | _ => ESum false [hi; EProd false [EPy (-1); lo]; EInt 1]
            end
  | Some e => ESum false [EQuot false (ESum false [hi; EProd false [EPy (-1); lo]]) e; EInt 1]
  end.

(** ceil_division (before simplify) *)
Definition ceil_div_expr (a b : expr) : expr := ESum false [EQuot false (ESum false [a; EInt (-1)]) b; EInt 1].

(** iteration_index (before simplify) *)
Definition iter_index_expr (k lo : expr) (st : option expr) : expr :=
  match st with
  | None => ESum false [k; EInt (-1); lo]
  | Some e => ESum false [EProd false [ESum false [k; EInt (-1)]; e]; lo]
  end.

Definition split_model (v : string) (lo hi : expr) (st : option expr) (body : list stmt) : list stmt :=
  let bsz := EVar (nm v "_loop_block_size") in
  let nb := nm v "_loop_num_blocks" in
  let bidx := nm v "_loop_block_idx" in
  let loc := nm v "_loop_local" in
  let itn := nm v "_loop_iter_num" in
  let bst := nm v "_loop_block_start" in
  let ben := nm v "_loop_block_end" in
  [ SAssign nb (ceil_div_expr (num_iter_expr lo hi st) bsz);
    SDo bidx (EInt 1) (EVar nb) None
      [ SAssign bst (ESum false [EProd false [ESum true [EVar bidx; EProd false [EPy (-1); EInt 1]]; bsz]; EInt 1]);
        SAssign ben (ECall "min" [EProd false [EVar bidx; bsz]; num_iter_expr lo hi st]);
        SDo loc (EInt 1) (ESum false [ESum false [EVar ben; EProd false [EPy (-1); EVar bst]]; EInt 1]) None
          (SAssign itn (ESum false [ESum false [EVar bst; EVar loc]; EProd false [EPy (-1); EInt 1]])
           :: SAssign v (iter_index_expr (EVar itn) lo st)
           :: body) ] ].

(** comparison up to the value of expressions on sample valuations (Loki passes the index expressions through
    simplify(), whose algebra is the subject of C08; here they are tied by evaluation) *)
Definition e_sem_eqb (envs : list (list (string * Z))) (a b : expr) : bool :=
  expr_eqb a b
  || forallb (fun rho => match evalZ (env_of rho) a, evalZ (env_of rho) b with
                         | Some x, Some y => x =? y
                         | _, _ => false
                         end) envs.

Fixpoint le_sem_eqb (envs : list (list (string * Z))) (a b : list expr) : bool :=
  match a, b with
  | [], [] => true
  | x :: r, y :: q => e_sem_eqb envs x y && le_sem_eqb envs r q
  | _, _ => false
  end.

Fixpoint s_sem_eqb (envs : list (list (string * Z))) (a b : stmt) : bool :=
  let fix leqb (l1 l2 : list stmt) : bool :=
    match l1, l2 with
    | [], [] => true
    | x :: r1, y :: r2 => s_sem_eqb envs x y && leqb r1 r2
    | _, _ => false
    end in
  match a, b with
  | SAssign x e, SAssign y e' => String.eqb x y && e_sem_eqb envs e e'
  | SStore x i e, SStore y j e' => String.eqb x y && list_expr_eqb i j && expr_eqb e e'
  | SDo v lo hi st b1, SDo w lo' hi' st' b2 =>
      String.eqb v w && e_sem_eqb envs lo lo' && e_sem_eqb envs hi hi'
      && (match st, st' with Some x, Some y => e_sem_eqb envs x y | None, None => true | _, _ => false end)
      && leqb b1 b2
  | SIf c t e, SIf c' t' e' => expr_eqb c c' && leqb t t' && leqb e e'
  | SWhile c b1, SWhile c' b2 => expr_eqb c c' && leqb b1 b2
  | _, _ => stmt_eqb a b
  end.

Fixpoint l_sem_eqb (envs : list (list (string * Z))) (a b : list stmt) : bool :=
  match a, b with
  | [], [] => true
  | x :: r, y :: q => s_sem_eqb envs x y && l_sem_eqb envs r q
  | _, _ => false
  end.

Definition chk_split (v : string) (lo hi : expr) (st : option expr) (body : list stmt)
           (envs : list (list (string * Z))) (impl : list stmt) : bool :=
  l_sem_eqb envs (split_model v lo hi st body) impl.

(** index arithmetic of the blocked nest: the DO-variable values in execution order, for [n] = value of
    num_iterations, block size [B], start [a], step [s] *)
Definition num_blocks (n B : Z) : Z := Z.quot (n - 1) B + 1.

Definition block_indices (a s n B blk : Z) : list Z :=
  let bs := (blk - 1) * B + 1 in
  let be := Z.min (blk * B) n in
  map (fun l => (bs + l - 1 - 1) * s + a) (M_C10.do_trips 1 (be - bs + 1) 1).

Definition blocked_indices (a s n B : Z) : list Z :=
  flat_map (block_indices a s n B) (M_C10.do_trips 1 (num_blocks n B) 1).

(** the class on which num_iterations is the trip count (C10: non-empty loops), or both are non-positive *)
Definition split_ok (a b s : Z) : bool :=
  Z.max 0 (M_C10.num_iterations a b s) =? M_C10.trip_count a b s.

Definition chk_blocked (a b s B : Z) (visited : list Z) : bool :=
  M_C10.eqb_listZ (blocked_indices a s (M_C10.num_iterations a b s) B) visited.
