(** C36 — Fortran-to-Python transpilation (FortranPythonTransformation + pygen).  Definitions only.

    - [pyexpr]/[pystmt]/[pyfunc]: the Python abstract syntax that CPython's own parser ([ast.parse]) builds from
      the generated source (the harness converts the real [ast] to these types on every case);
    - [evalPy]: MiniPy expression semantics: values are ints, floats (exact rationals) or bools, [/] is true
      division (always a float), [//] and [%] floor, [**] gives a float for a negative exponent, [and]/[or]
      short-circuit and return an operand, negative subscripts wrap around (numpy), an unknown function name is a
      [NameError]; errors are explicit results;
    - [pre_py]: the tree-to-tree part of FortranPythonTransformation: [shift_to_zero_indexing] (only the OUTERMOST
      array reference of a nest is shifted: the replacement built from the un-shifted dimensions is not visited
      again), the [sign] rewriting;
    - [py_ast]: PyCodeMapper followed by the Python parser, as a structural map from Loki's tree to [pyexpr] (valid on
      the decidable class [faithful], which the correspondence checks on every case);
    - [pygen_model arrs e := py_ast arrs (pre_py arrs e) false];
    - loop ranges ([pygen_range]: [range(lo, hi + step, step)]) and slices ([py_slice]: CPython's
      [slice.indices]) against Fortran's DO trips / array sections (reusing C10's [py_range]/[do_trips]). *)
From Coq Require Import ZArith QArith List Bool String.
From LV Require Import Base.Expr Base.MiniF models.M_C10.
Import ListNotations.
Open Scope Z_scope.

(** * Python values and errors *)
Inductive pyval := VInt (z : Z) | VFloat (q : Q) | VBool (b : bool).
Inductive pyerr := ENameError (f : string) | EZeroDivision | EIndexError | ETypeError | EUnmodelled.
Inductive pyres := POk (v : pyval) | PErr (e : pyerr).

(** * Python abstract syntax (expressions) *)
Inductive pbin := BAdd | BSub | BMul | BDiv | BPow | BFloorDiv | BMod.

Inductive pyexpr :=
| PNum (z : Z) | PName (x : string) | PBoolLit (b : bool)
| PBin (op : pbin) (a b : pyexpr)
| PNeg (a : pyexpr)
| PCmp (op : cmpop) (a b : pyexpr)
| PBoolOp (is_and : bool) (cs : list pyexpr)
| PNot (a : pyexpr)
| PCall (f : string) (args : list pyexpr)
| PIndex (a : string) (idx : list pyexpr)
| PBad.     (* no Python text / a construct outside the modelled syntax *)

(** * Environments: scalars, array shapes, array cells at normalised 0-based positions *)
Record pyenv := {
  pv_var : string -> option pyval;
  pv_shape : string -> option (list Z);
  pv_arr : string -> list Z -> option Z }.

Definition truthy (v : pyval) : bool :=
  match v with VInt z => negb (z =? 0) | VFloat q => negb (Qnum q =? 0) | VBool b => b end.

Definition num_of (v : pyval) : Z + Q :=
  match v with VInt z => inl z | VBool b => inl (if b then 1 else 0) | VFloat q => inr q end.
Definition q_of (n : Z + Q) : Q := match n with inl z => inject_Z z | inr q => q end.
Definition qval (v : pyval) : Q := q_of (num_of v).
Definition q_is_zero (q : Q) : bool := Qnum q =? 0.

Definition py_binop (op : pbin) (x y : pyval) : pyres :=
  match num_of x, num_of y with
  | inl a, inl b =>
      match op with
      | BAdd => POk (VInt (a + b))
      | BSub => POk (VInt (a - b))
      | BMul => POk (VInt (a * b))
      | BDiv => if b =? 0 then PErr EZeroDivision else POk (VFloat (Qred (inject_Z a / inject_Z b)))
      | BFloorDiv => if b =? 0 then PErr EZeroDivision else POk (VInt (a / b))
      | BMod => if b =? 0 then PErr EZeroDivision else POk (VInt (a mod b))
      | BPow => if 0 <=? b then POk (VInt (a ^ b))
                else if a =? 0 then PErr EZeroDivision
                else POk (VFloat (Qred (1 / inject_Z (a ^ (- b)))))
      end
  | nx, ny =>
      let a := q_of nx in let b := q_of ny in
      match op with
      | BAdd => POk (VFloat (Qred (a + b)))
      | BSub => POk (VFloat (Qred (a - b)))
      | BMul => POk (VFloat (Qred (a * b)))
      | BDiv => if q_is_zero b then PErr EZeroDivision else POk (VFloat (Qred (a / b)))
      | BPow => match ny with
                | inl n => if 0 <=? n then POk (VFloat (Qred (qpow_pos a (Z.to_nat n))))
                           else if q_is_zero a then PErr EZeroDivision
                           else POk (VFloat (Qred (/ qpow_pos a (Z.to_nat (- n)))))
                | inr _ => PErr EUnmodelled
                end
      | _ => PErr EUnmodelled
      end
  end.

Definition py_neg (x : pyval) : pyres :=
  match num_of x with inl a => POk (VInt (- a)) | inr q => POk (VFloat (Qred (- q))) end.

Definition cmp_q (op : cmpop) (a b : Q) : bool :=
  match op, Qcompare a b with
  | Ceq, Eq => true | Ceq, _ => false
  | Cne, Eq => false | Cne, _ => true
  | Clt, Lt => true | Clt, _ => false
  | Cle, Gt => false | Cle, _ => true
  | Cgt, Gt => true | Cgt, _ => false
  | Cge, Lt => false | Cge, _ => true
  end.

Definition py_cmp (op : cmpop) (x y : pyval) : pyres :=
  match x, y with
  | VInt a, VInt b => POk (VBool (cmp_z op a b))
  | _, _ => POk (VBool (cmp_q op (qval x) (qval y)))
  end.

Definition lt_val (x y : pyval) : bool :=
  match x, y with VInt a, VInt b => a <? b | _, _ => cmp_q Clt (qval x) (qval y) end.

Definition py_abs (x : pyval) : pyval :=
  match num_of x with inl a => VInt (Z.abs a) | inr q => VFloat (Qmake (Z.abs (Qnum q)) (Qden q)) end.
Definition py_sign (x : pyval) : pyval :=
  match num_of x with inl a => VInt (Z.sgn a) | inr q => VFloat (inject_Z (Z.sgn (Qnum q))) end.

(** the callable names of the generated module's namespace that are modelled; every other name is a NameError *)
Definition known_fun (f : string) : bool :=
  existsb (String.eqb f) ["min"; "max"; "abs"; "np.sign"; "np.sqrt"; "np.exp"]%string.

Definition py_builtin (f : string) (vs : list pyval) : pyres :=
  if String.eqb f "min" then
    match vs with a :: (_ :: _) as r => POk (fold_left (fun acc v => if lt_val v acc then v else acc) r a) | _ => PErr ETypeError end
  else if String.eqb f "max" then
    match vs with a :: (_ :: _) as r => POk (fold_left (fun acc v => if lt_val acc v then v else acc) r a) | _ => PErr ETypeError end
  else if String.eqb f "abs" then
    match vs with [a] => POk (py_abs a) | _ => PErr ETypeError end
  else if String.eqb f "np.sign" then
    match vs with [a] => POk (py_sign a) | _ => PErr ETypeError end
  else PErr EUnmodelled.

(** numpy index normalisation: a negative index counts from the end *)
Definition norm_idx (n k : Z) : option Z :=
  if (0 <=? k) && (k <? n) then Some k
  else if (- n <=? k) && (k <? 0) then Some (k + n)
  else None.

Fixpoint norm_idxs (shape ks : list Z) : option (list Z) :=
  match shape, ks with
  | [], [] => Some []
  | n :: sh, k :: r =>
      match norm_idx n k, norm_idxs sh r with Some j, Some js => Some (j :: js) | _, _ => None end
  | _, _ => None
  end.

Definition py_read (pe : pyenv) (a : string) (ks : list Z) : pyres :=
  match pv_shape pe a with
  | None => PErr (ENameError a)
  | Some sh =>
      match norm_idxs sh ks with
      | None => PErr EIndexError
      | Some js => match pv_arr pe a js with Some v => POk (VInt v) | None => PErr EUnmodelled end
      end
  end.

Definition as_index (v : pyval) : option Z := match v with VInt z => Some z | _ => None end.

Fixpoint evalPy (pe : pyenv) (e : pyexpr) {struct e} : pyres :=
  match e with
  | PNum z => POk (VInt z)
  | PName x => match pv_var pe x with Some v => POk v | None => PErr (ENameError x) end
  | PBoolLit b => POk (VBool b)
  | PBin op a b =>
      match evalPy pe a with
      | POk x => match evalPy pe b with POk y => py_binop op x y | PErr err => PErr err end
      | PErr err => PErr err
      end
  | PNeg a => match evalPy pe a with POk x => py_neg x | PErr err => PErr err end
  | PCmp op a b =>
      match evalPy pe a with
      | POk x => match evalPy pe b with POk y => py_cmp op x y | PErr err => PErr err end
      | PErr err => PErr err
      end
  | PBoolOp is_and cs =>
      (fix go (l : list pyexpr) : pyres :=
         match l with
         | [] => PErr EUnmodelled
         | c :: r =>
             match r with
             | [] => evalPy pe c
             | _ :: _ =>
                 match evalPy pe c with
                 | POk v => if (if is_and then negb (truthy v) else truthy v) then POk v else go r
                 | PErr err => PErr err
                 end
             end
         end) cs
  | PNot a => match evalPy pe a with POk x => POk (VBool (negb (truthy x))) | PErr err => PErr err end
  | PCall f args =>
      if known_fun f then
        match (fix go (l : list pyexpr) : list pyval + pyerr :=
                 match l with
                 | [] => inl []
                 | a :: r => match evalPy pe a with
                             | POk v => match go r with inl vs => inl (v :: vs) | inr err => inr err end
                             | PErr err => inr err
                             end
                 end) args with
        | inl vs => py_builtin f vs
        | inr err => PErr err
        end
      else PErr (ENameError f)
  | PIndex a idx =>
      match (fix go (l : list pyexpr) : list Z + pyerr :=
               match l with
               | [] => inl []
               | i :: r => match evalPy pe i with
                           | POk v => match as_index v with
                                      | Some k => match go r with inl ks => inl (k :: ks) | inr err => inr err end
                                      | None => inr EIndexError
                                      end
                           | PErr err => inr err
                           end
               end) idx with
      | inl ks => py_read pe a ks
      | inr err => PErr err
      end
  | PBad => PErr EUnmodelled
  end.

(** * The tree-to-tree part of FortranPythonTransformation *)
Definition is_arr (arrs : list string) (f : string) : bool := existsb (String.eqb f) arrs.

(** [d - Literal(1)] as pymbolic builds it: [Sum.__sub__] appends to the children (dropping a Parenthesised class),
    a falsy [self] (IntLiteral 0) yields [-1*1] alone, anything else gives the binary sum *)
Definition M1 : expr := EProd false [EPy (-1); EInt 1].
Definition shift_idx (d : expr) : expr :=
  match d with
  | ESum _ cs => ESum false (cs ++ [M1])
  | EInt 0 => M1
  | _ => ESum false [d; M1]
  end.

Fixpoint pre_py (arrs : list string) (e : expr) {struct e} : expr :=
  match e with
  | EInt _ | EPy _ | EVar _ | ELog _ => e
  | ESum p cs => ESum p (map (pre_py arrs) cs)
  | EProd p cs => EProd p (map (pre_py arrs) cs)
  | EQuot p n d => EQuot p (pre_py arrs n) (pre_py arrs d)
  | EPow p b x => EPow p (pre_py arrs b) (pre_py arrs x)
  | ECmp op a b => ECmp op (pre_py arrs a) (pre_py arrs b)
  | EAnd cs => EAnd (map (pre_py arrs) cs)
  | EOr cs => EOr (map (pre_py arrs) cs)
  | ENot a => ENot (pre_py arrs a)
  | ECall f args =>
      if is_arr arrs f then ECall f (map shift_idx args)      (* the dimensions themselves are NOT visited *)
      else if String.eqb f "sign" then
        match args with
        | [a; b] => EProd false [pre_py arrs a; ECall "np.sign" [pre_py arrs b]]
        | _ => ECall f (map (pre_py arrs) args)
        end
      else ECall f (map (pre_py arrs) args)
  end.

(** * PyCodeMapper + the Python parser *)
Definition rename_py (f : string) : string :=
  if String.eqb f "exp" then "np.exp"%string else if String.eqb f "sqrt" then "np.sqrt"%string else f.

Definition lit_ast (v : Z) : pyexpr := if v <? 0 then PNeg (PNum (- v)) else PNum v.

Definition is_m1 (e : expr) : bool :=
  match e with EPy v => v =? -1 | EInt v => v =? -1 | _ => false end.
(** a Sum child printed as a [-] term: an un-parenthesised Product whose first factor is the python int -1 *)
Definition term_neg (e : expr) : bool :=
  match e with EProd false (c0 :: _) => is_py_m1 c0 | _ => false end.

Definition chain (op : pbin) (ps : list pyexpr) : pyexpr :=
  match ps with [] => PBad | p :: r => fold_left (PBin op) r p end.

(** [map_product]: exactly two children with [children[0] == -1] print as [-x] *)
Definition prod_ast (cs : list expr) (ps : list pyexpr) : pyexpr :=
  match cs, ps with
  | [c0; _], [_; p1] => if is_m1 c0 then PNeg p1 else chain BMul ps
  | _, _ => chain BMul ps
  end.

Definition sum_ast (ts : list (bool * pyexpr)) : pyexpr :=
  match ts with
  | [] => PBad
  | (n0, p0) :: r =>
      fold_left (fun acc (np : bool * pyexpr) => PBin (if fst np then BSub else BAdd) acc (snd np)) r (if n0 then PNeg p0 else p0)
  end.

(** [a and b and c] is ONE BoolOp node: same-operator children printed without parentheses are spliced *)
Definition boolop_ast (is_and : bool) (ps : list pyexpr) : pyexpr :=
  PBoolOp is_and
    (flat_map (fun p => match p with
                        | PBoolOp b l => if Bool.eqb b is_and then l else [p]
                        | _ => [p]
                        end) ps).

(** [t = true]: as a term of a Sum (the text after the operator [map_sum] chose) *)
Fixpoint py_ast (arrs : list string) (e : expr) (t : bool) {struct e} : pyexpr :=
  match e with
  | EInt v | EPy v => lit_ast v
  | EVar x => PName x
  | ELog b => PBoolLit b
  | ESum _ cs => sum_ast (map (fun c => (term_neg c, py_ast arrs c true)) cs)
  | EProd par cs =>
      let ps := map (fun c => py_ast arrs c false) cs in
      if t && term_neg e then prod_ast (tl cs) (tl ps) else prod_ast cs ps
  | EQuot _ n d => PBin BDiv (py_ast arrs n false) (py_ast arrs d false)
  | EPow _ b x => PBin BPow (py_ast arrs b false) (py_ast arrs x false)
  | ECmp op a b => PCmp op (py_ast arrs a false) (py_ast arrs b false)
  | EAnd cs => boolop_ast true (map (fun c => py_ast arrs c false) cs)
  | EOr cs => boolop_ast false (map (fun c => py_ast arrs c false) cs)
  | ENot a => PNot (py_ast arrs a false)
  | ECall f args =>
      let ps := map (fun a => py_ast arrs a false) args in
      if is_arr arrs f then PIndex f ps else PCall (rename_py f) ps
  end.

Definition pygen_model (arrs : list string) (e : expr) : pyexpr := py_ast arrs (pre_py arrs e) false.

(** * The class on which the structural map [py_ast] is what CPython parses from PyCodeMapper's text
      (checked on every case by the correspondence; no theorem depends on it) *)
Definition open_sum (e : expr) : bool := match e with ESum false _ => true | _ => false end.
Definition open_mul (e : expr) : bool :=
  match e with
  | EProd false [c0; _] => negb (is_m1 c0)
  | EProd false _ | EQuot false _ _ => true
  | _ => false
  end.
Definition neg_lit (e : expr) : bool := match e with EInt v => v <? 0 | _ => false end.

(** factors [cs] printed by [map_product] *)
Definition prod_ok (cs : list expr) : bool :=
  match cs with
  | [] => false
  | [c0; x] => if is_m1 c0 then negb (open_mul x) else negb (open_mul x)
  | _ :: r => forallb (fun c => negb (open_mul c)) r
  end.

Fixpoint faithful (e : expr) (t : bool) {struct e} : bool :=
  match e with
  | EInt _ | EPy _ | EVar _ | ELog _ => true
  | ESum _ cs =>
      (2 <=? Z.of_nat (List.length cs)) &&
      forallb (fun c => faithful c true) cs &&
      match cs with
      | c0 :: r =>
          (if term_neg c0 then match c0 with EProd _ [_; x] => negb (open_mul x) | _ => false end else true) &&
          forallb (fun c => term_neg c || negb (open_sum c)) r
      | [] => false
      end
  | EProd par cs =>
      forallb (fun c => faithful c false) cs &&
      (if t && term_neg e then prod_ok (tl cs) else prod_ok cs)
  | EQuot _ n d => faithful n false && faithful d false
  | EPow _ b x =>
      faithful b false && faithful x false &&
      negb (match b with EPow false _ _ => true | _ => false end) && negb (neg_lit b)
  | ECmp _ a b =>
      faithful a false && faithful b false &&
      negb (match a with ECmp _ _ _ => true | _ => false end) && negb (match b with ECmp _ _ _ => true | _ => false end)
  | EAnd cs | EOr cs => (2 <=? Z.of_nat (List.length cs)) && forallb (fun c => faithful c false) cs
  | ENot a => faithful a false
  | ECall _ args => forallb (fun a => faithful a false) args
  end.

(** * The semantic class of the preservation theorem *)
Definition mapped_intrinsic (f : string) (nargs : nat) : bool :=
  ((String.eqb f "min" || String.eqb f "max") && Nat.leb 2 nargs) || (String.eqb f "abs" && Nat.eqb nargs 1).

(** no array reference inside the subscripts of an array reference *)
Fixpoint no_arr (arrs : list string) (e : expr) {struct e} : bool :=
  match e with
  | EInt _ | EPy _ | EVar _ | ELog _ => true
  | ESum _ cs | EProd _ cs | EAnd cs | EOr cs => forallb (no_arr arrs) cs
  | EQuot _ a b | EPow _ a b | ECmp _ a b => no_arr arrs a && no_arr arrs b
  | ENot a => no_arr arrs a
  | ECall f args => negb (is_arr arrs f) && forallb (no_arr arrs) args
  end.

(** [no_int_division] (no Quotient), [no_unmapped_intrinsic] (only min/max/abs and array reads), no negative or
    computed exponents, no nested subscripts *)
Fixpoint py_class (arrs : list string) (e : expr) {struct e} : bool :=
  match e with
  | EInt _ | EPy _ | EVar _ => true
  | ESum _ cs => negb (match cs with [] => true | _ => false end) && forallb (py_class arrs) cs
  | EProd p cs =>
      negb (match cs with [] => true | _ => false end) && forallb (py_class arrs) cs &&
      negb (term_neg e && match cs with [_] => true | _ => false end)
  | EPow _ b (EInt n) => py_class arrs b && (0 <=? n)
  | ECall f args =>
      forallb (py_class arrs) args &&
      (if is_arr arrs f then forallb (no_arr arrs) args else mapped_intrinsic f (List.length args))
  | _ => false
  end.

Fixpoint py_class_b (arrs : list string) (e : expr) {struct e} : bool :=
  match e with
  | ELog _ => true
  | ECmp _ a b => py_class arrs a && py_class arrs b
  | EAnd cs | EOr cs => Nat.leb 2 (List.length cs) && forallb (py_class_b arrs) cs
  | ENot a => py_class_b arrs a
  | _ => false
  end.

Definition intrinsic_name (f : string) : bool :=
  existsb (String.eqb f) ["mod"; "modulo"; "abs"; "min"; "max"; "sign"]%string.
Definition arrs_ok (arrs : list string) : bool := forallb (fun a => negb (intrinsic_name a)) arrs.

(** the Python environment that corresponds to a Fortran environment: same scalars; an array declared
    [lo:hi] per dimension is the numpy array whose 0-based position [k - lo] holds element [k] *)
Definition in_box (bounds : list (Z * Z)) (idx : list Z) : Prop :=
  Forall2 (fun b k => fst b <= k <= snd b) bounds idx.
Definition pos_of (bounds : list (Z * Z)) (idx : list Z) : list Z :=
  map (fun bk => snd bk - fst (fst bk)) (combine bounds idx).
Definition extent (b : Z * Z) : Z := snd b - fst b + 1.

Definition env_rel (decl : list (string * list (Z * Z))) (rho : env) (pe : pyenv) : Prop :=
  (forall x, pv_var pe x = Some (VInt (ev_var rho x))) /\
  (forall a bs, In (a, bs) decl -> pv_shape pe a = Some (map extent bs)) /\
  (forall a idx v, is_arr (map fst decl) a = true -> ev_fun rho a idx = Some v ->
      exists bs, In (a, bs) decl /\ in_box bs idx /\ pv_arr pe a (pos_of bs idx) = Some v).

Definition lower_one (decl : list (string * list (Z * Z))) : Prop :=
  forall a bs, In (a, bs) decl -> Forall (fun b => fst b = 1) bs.

(** Fortran's SIGN(a, b) (F2008 13.7.157) *)
Definition fortran_sign (a b : Z) : Z := if 0 <=? b then Z.abs a else - Z.abs a.

(** * Loop ranges and slices *)
(** [visit_Loop]: [range(start, end + incr, incr)], [range(start, end + 1)] without a step *)
Definition pygen_range (a b s : Z) : list Z := py_range a (b + s) s.

(** the value of the loop variable after the loop: Fortran keeps [a + n*s], Python the last value it iterated
    over (unbound when there was no trip) *)
Definition fortran_final (a b s : Z) : Z := a + M_C10.trip_count a b s * s.
Definition python_final (a b s : Z) : option Z :=
  match rev (pygen_range a b s) with [] => None | x :: _ => Some x end.

(** CPython's [slice(start, stop, step).indices(len)] for given start/stop, then the positions it selects *)
Definition slice_adj (len step x : Z) : Z :=
  if x <? 0 then (let y := x + len in if y <? 0 then (if step <? 0 then -1 else 0) else y)
  else if len <=? x then (if step <? 0 then len - 1 else len) else x.
Definition py_slice (len start stop step : Z) : list Z :=
  py_range (slice_adj len step start) (slice_adj len step stop) step.
(** [shift_to_zero_indexing] on a RangeIndex [l:u:s]: [l-1 : u : s] *)
Definition pygen_slice (len l u s : Z) : list Z := py_slice len (l - 1) u s.
(** the elements (1-based) that the Fortran section [l:u:s] of an array declared [1:len] selects *)
Definition fortran_section (l u s : Z) : list Z := do_trips l u s.

(** * Statements and the generated function *)
Inductive pystmt :=
| YAssign (x : string) (e : pyexpr)
| YStore (a : string) (idx : list pyexpr) (e : pyexpr)
| YFor (v : string) (rargs : list pyexpr) (body : list pystmt)
| YWhile (c : pyexpr) (body : list pystmt)
| YIf (c : pyexpr) (tb eb : list pystmt)
| YCall (f : string) (args : list pyexpr)
| YReturn (xs : list string)
| YBad.

Record pyfunc := { pf_name : string; pf_params : list string; pf_body : list pystmt }.

Definition lhs_idx (arrs : list string) (idx : list expr) : list pyexpr :=
  map (fun d => py_ast arrs (shift_idx d) false) idx.

Fixpoint stmt_ast (arrs : list string) (s : stmt) {struct s} : list pystmt :=
  match s with
  | SAssign x e => [YAssign x (pygen_model arrs e)]
  | SStore a idx e => [YStore a (lhs_idx arrs idx) (pygen_model arrs e)]
  | SDo v lo hi st body =>
      let b := flat_map (stmt_ast arrs) body in
      let plo := pygen_model arrs lo in let phi := pygen_model arrs hi in
      [YFor v (match st with
               | None => [plo; PBin BAdd phi (PNum 1)]
               | Some s => let ps := pygen_model arrs s in [plo; PBin BAdd phi ps; ps]
               end) b]
  | SWhile c body => [YWhile (pygen_model arrs c) (flat_map (stmt_ast arrs) body)]
  | SIf c tb eb => [YIf (pygen_model arrs c) (flat_map (stmt_ast arrs) tb) (flat_map (stmt_ast arrs) eb)]
  | SCall f args => [YCall f (map (pygen_model arrs) args)]
  | SSkip _ => []
  end.

(** argument kinds: scalar with intent in / inout / out, or array *)
Inductive argkind := AIn | AInOut | AOut | AArr.

Definition func_model (name suffix : string) (args : list (string * argkind)) (body : list stmt) : pyfunc :=
  let arrs := map fst (filter (fun a => match snd a with AArr => true | _ => false end) args) in
  {| pf_name := name ++ suffix;
     pf_params := map fst (filter (fun a => match snd a with AOut => false | _ => true end) args);
     pf_body := flat_map (stmt_ast arrs) body ++
                [YReturn (map fst (filter (fun a => match snd a with AInOut | AOut => true | _ => false end) args))] |}.

(** the text pieces that are concatenated textually ([hi + step]) must not be open sums; empty suites are not Python *)
Fixpoint stmt_faithful (arrs : list string) (s : stmt) {struct s} : bool :=
  match s with
  | SAssign _ e => faithful (pre_py arrs e) false
  | SStore _ idx e => forallb (fun d => faithful (shift_idx d) false) idx && faithful (pre_py arrs e) false
  | SDo _ lo hi st body =>
      faithful (pre_py arrs lo) false && faithful (pre_py arrs hi) false &&
      match st with None => true | Some s => faithful (pre_py arrs s) false && negb (open_sum s) end &&
      negb (match body with [] => true | _ => false end) && forallb (stmt_faithful arrs) body
  | SWhile c body => faithful (pre_py arrs c) false && negb (match body with [] => true | _ => false end) && forallb (stmt_faithful arrs) body
  | SIf c tb eb =>
      faithful (pre_py arrs c) false && negb (match tb with [] => true | _ => false end) &&
      forallb (stmt_faithful arrs) tb && forallb (stmt_faithful arrs) eb
  | SCall _ args => forallb (fun a => faithful (pre_py arrs a) false) args
  | SSkip _ => true
  end.

(** * Boolean comparators used by the correspondence *)
Definition pbin_eqb (a b : pbin) : bool :=
  match a, b with
  | BAdd, BAdd | BSub, BSub | BMul, BMul | BDiv, BDiv | BPow, BPow | BFloorDiv, BFloorDiv | BMod, BMod => true
  | _, _ => false
  end.
Definition cmpop_eqb (a b : cmpop) : bool :=
  match a, b with Ceq, Ceq | Cne, Cne | Clt, Clt | Cle, Cle | Cgt, Cgt | Cge, Cge => true | _, _ => false end.

Fixpoint pyexpr_eqb (x y : pyexpr) {struct x} : bool :=
  let fix leqb (l1 l2 : list pyexpr) : bool :=
    match l1, l2 with
    | [], [] => true
    | a :: r1, b :: r2 => pyexpr_eqb a b && leqb r1 r2
    | _, _ => false
    end in
  match x, y with
  | PNum a, PNum b => a =? b
  | PName a, PName b => String.eqb a b
  | PBoolLit a, PBoolLit b => Bool.eqb a b
  | PBin o a b, PBin o' a' b' => pbin_eqb o o' && pyexpr_eqb a a' && pyexpr_eqb b b'
  | PNeg a, PNeg b => pyexpr_eqb a b
  | PCmp o a b, PCmp o' a' b' => cmpop_eqb o o' && pyexpr_eqb a a' && pyexpr_eqb b b'
  | PBoolOp k l, PBoolOp k' l' => Bool.eqb k k' && leqb l l'
  | PNot a, PNot b => pyexpr_eqb a b
  | PCall f l, PCall g l' => String.eqb f g && leqb l l'
  | PIndex f l, PIndex g l' => String.eqb f g && leqb l l'
  | _, _ => false
  end.

Fixpoint pyexprs_eqb (l1 l2 : list pyexpr) : bool :=
  match l1, l2 with
  | [], [] => true
  | a :: r1, b :: r2 => pyexpr_eqb a b && pyexprs_eqb r1 r2
  | _, _ => false
  end.

Fixpoint strs_eqb (l1 l2 : list string) : bool :=
  match l1, l2 with
  | [], [] => true
  | a :: r1, b :: r2 => String.eqb a b && strs_eqb r1 r2
  | _, _ => false
  end.

Fixpoint pystmt_eqb (x y : pystmt) {struct x} : bool :=
  let fix leqb (l1 l2 : list pystmt) : bool :=
    match l1, l2 with
    | [], [] => true
    | a :: r1, b :: r2 => pystmt_eqb a b && leqb r1 r2
    | _, _ => false
    end in
  match x, y with
  | YAssign a e, YAssign b e' => String.eqb a b && pyexpr_eqb e e'
  | YStore a i e, YStore b i' e' => String.eqb a b && pyexprs_eqb i i' && pyexpr_eqb e e'
  | YFor v r b, YFor v' r' b' => String.eqb v v' && pyexprs_eqb r r' && leqb b b'
  | YWhile c b, YWhile c' b' => pyexpr_eqb c c' && leqb b b'
  | YIf c t e, YIf c' t' e' => pyexpr_eqb c c' && leqb t t' && leqb e e'
  | YCall f a, YCall g a' => String.eqb f g && pyexprs_eqb a a'
  | YReturn a, YReturn b => strs_eqb a b
  | _, _ => false
  end.

Fixpoint pystmts_eqb (l1 l2 : list pystmt) : bool :=
  match l1, l2 with
  | [], [] => true
  | a :: r1, b :: r2 => pystmt_eqb a b && pystmts_eqb r1 r2
  | _, _ => false
  end.

Definition pyfunc_eqb (f g : pyfunc) : bool :=
  String.eqb (pf_name f) (pf_name g) && strs_eqb (pf_params f) (pf_params g) && pystmts_eqb (pf_body f) (pf_body g).

Definition arrs_of (args : list (string * argkind)) : list string :=
  map fst (filter (fun a => match snd a with AArr => true | _ => false end) args).

(** the function CPython parses from the generated source is the model's function, and the routine is in the
    class on which the structural map is claimed *)
Definition chk_func (name suffix : string) (args : list (string * argkind)) (body : list stmt) (impl : pyfunc) : bool :=
  pyfunc_eqb (func_model name suffix args body) impl && forallb (stmt_faithful (arrs_of args)) body.

(** the harness' python port of the class predicates is the model's *)
Definition chk_class (arrs : list string) (e : expr) (cls fth : bool) : bool :=
  Bool.eqb (py_class arrs e || py_class_b arrs e) cls && Bool.eqb (faithful (pre_py arrs e) false) fth.

(** a Python environment from association lists *)
Fixpoint assoc_zs (l : list (list Z * Z)) (k : list Z) : option Z :=
  match l with
  | [] => None
  | (k', v) :: r => if list_z_eqb k' k then Some v else assoc_zs r k
  end.
Fixpoint assoc_s {A} (l : list (string * A)) (x : string) : option A :=
  match l with
  | [] => None
  | (k, v) :: r => if String.eqb k x then Some v else assoc_s r x
  end.

Definition pyenv_of (sc : list (string * Z)) (arrs : list (string * (list Z * list (list Z * Z)))) : pyenv :=
  {| pv_var := fun x => match assoc_s sc x with Some v => Some (VInt v) | None => None end;
     pv_shape := fun a => match assoc_s arrs a with Some sc => Some (fst sc) | None => None end;
     pv_arr := fun a k => match assoc_s arrs a with Some sc => assoc_zs (snd sc) k | None => None end |}.

(** observed results of executing the generated Python: an int, a float (as the nearest small fraction), a bool,
    or the name of the exception *)
Inductive obs := OInt (z : Z) | OFloat (num den : Z) | OBool (b : bool) | ONameError (f : string) | OZeroDiv | OIndexError | OOther.

Definition obs_match (r : pyres) (o : obs) : bool :=
  match r, o with
  | POk (VInt a), OInt b => a =? b
  | POk (VFloat q), OFloat n d => (0 <? d) && (Qnum q * d =? n * Zpos (Qden q))
  | POk (VBool a), OBool b => Bool.eqb a b
  | PErr (ENameError f), ONameError g => String.eqb f g
  | PErr EZeroDivision, OZeroDiv => true
  | PErr EIndexError, OIndexError => true
  | _, _ => false
  end.

(** MiniPy's value of the modelled Python expression is what CPython computed for the generated statement *)
Definition chk_eval (arrs : list string) (e : expr) (pe : pyenv) (o : obs) : bool :=
  obs_match (evalPy pe (pygen_model arrs e)) o.

(** the trips of the generated [range(...)] as CPython enumerates them *)
Definition chk_range (a b s : Z) (impl : list Z) : bool := eqb_listZ (pygen_range a b s) impl.
Definition chk_slice (len l u s : Z) (impl : list Z) : bool := eqb_listZ (pygen_slice len l u s) impl.

(** * The Python environment of a Fortran environment ("shift rho"): same scalars; the numpy array of an array
      declared [lo:hi] holds element [k] at position [k - lo] *)
Definition shift_env (decl : list (string * list (Z * Z))) (rho : env) : pyenv :=
  {| pv_var := fun x => Some (VInt (ev_var rho x));
     pv_shape := fun a => match assoc_s decl a with Some bs => Some (map extent bs) | None => None end;
     pv_arr := fun a pos =>
       match assoc_s decl a with
       | Some bs => ev_fun rho a (map (fun bp : (Z * Z) * Z => fst (fst bp) + snd bp) (combine bs pos))
       | None => None
       end |}.

(** the Fortran environment defines array elements only inside the declared bounds *)
Definition rho_ok (decl : list (string * list (Z * Z))) (rho : env) : Prop :=
  forall a bs idx v, assoc_s decl a = Some bs -> ev_fun rho a idx = Some v -> in_box bs idx.

(** a Fortran environment from association lists (scalars; per array the cells by Fortran index) *)
Definition fenv_of (sc : list (string * Z)) (cells : list (string * list (list Z * Z))) : env :=
  {| ev_var := assoc_z sc;
     ev_fun := fun a idx => match assoc_s cells a with Some l => assoc_zs l idx | None => None end |}.
