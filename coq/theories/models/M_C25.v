(** C25 — renaming, duplicating and removing items keeps the graph consistent.  Definitions only.

    Executable model of what the batch scheduler holds after each processing step:
    - the Sourcefile objects (one list of top-level program units each, with the call / import / interface
      names of every routine as found in its IR),
    - the item cache of ItemFactory (key, item name, kind, source object) for file items, module items and
      procedure items,
    - the dependency graph rebuilt by SGraph.from_seed (nodes, edges),
    and of the steps Scheduler.process_transformation performs for
    DependencyTransformation (suffixing), ModuleWrapTransformation, DuplicateKernel (with/without subgraph),
    RemoveKernel: the transformation itself, Scheduler.rekey_item_cache, Scheduler._discover (re-discovery of
    the unchanged files on disk) and the graph rebuild.  Names are lower-case strings.
    A step returns [None] when the history leaves the modelled class (see notes/C25.md); the theorems are
    about the [Some] results. *)
From Coq Require Import List Bool String Ascii Arith.
Import ListNotations.
Open Scope string_scope.

(** * strings *)
Fixpoint srev_app (s acc : string) : string :=
  match s with EmptyString => acc | String c r => srev_app r (String c acc) end.
Definition srev (s : string) : string := srev_app s EmptyString.

Fixpoint is_prefix (a s : string) : bool :=
  match a with
  | EmptyString => true
  | String c r => match s with String d t => Ascii.eqb c d && is_prefix r t | EmptyString => false end
  end.
Definition ends_with (sfx s : string) : bool := is_prefix (srev sfx) (srev s).
Definition strip_suffix (sfx s : string) : string :=
  if ends_with sfx s then substring 0 (String.length s - String.length sfx) s else s.

Fixpoint mem_s (x : string) (l : list string) : bool :=
  match l with [] => false | y :: r => String.eqb y x || mem_s x r end.

(** split at the last '/': directory part incl. separator, name *)
Fixpoint rsplit (c : ascii) (s : string) : string * option string :=
  match s with
  | EmptyString => (EmptyString, None)
  | String a r =>
      match rsplit c r with
      | (b, Some t) => (String a b, Some t)
      | (_, None) => if Ascii.eqb a c then (EmptyString, Some r) else (String a r, None)
      end
  end.
Definition dirpart (p : string) : string :=
  match rsplit "/"%char p with (b, Some _) => b ++ "/" | (_, None) => "" end.
Definition file_suffix (p : string) : string :=
  match rsplit "."%char p with (_, Some t) => "." ++ t | (_, None) => "" end.

(** * program units *)
Record routine := mk_routine {
  r_name : string;
  r_calls : list string;                    (* names of the CALL statements, in order *)
  r_imps : list (string * list string);     (* USE module, ONLY: symbols *)
  r_intfs : list string                     (* routines declared in INTERFACE blocks *)
}.
Inductive topunit := TMod (n : string) (rs : list routine) | TFree (r : routine).
Record source := mk_source { s_path : string; s_units : list topunit }.

Inductive ikind := KFile | KMod | KProc.
Definition ikind_eqb (a b : ikind) : bool :=
  match a, b with KFile, KFile | KMod, KMod | KProc, KProc => true | _, _ => false end.

(** a cache entry: the dictionary key and the item stored under it (its current name = scope#local for
    procedures, the plain name otherwise; the Sourcefile object it belongs to) *)
Record entry := mk_entry { e_key : string; e_kind : ikind; e_scope : string; e_local : string; e_src : nat }.
Definition e_name (e : entry) : string :=
  match e_kind e with KProc => e_scope e ++ "#" ++ e_local e | _ => e_local e end.

(** graph nodes *)
Inductive nref := NProc (scope name : string) | NMod (m : string) | NExt (name : string).
Definition nname (n : nref) : string :=
  match n with NProc s r => s ++ "#" ++ r | NMod m => m | NExt x => x end.
Definition nref_eqb (a b : nref) : bool :=
  match a, b with
  | NProc s r, NProc s' r' => String.eqb s s' && String.eqb r r'
  | NMod m, NMod m' => String.eqb m m'
  | NExt x, NExt y => String.eqb x y
  | _, _ => false
  end.
Fixpoint mem_n (x : nref) (l : list nref) : bool :=
  match l with [] => false | y :: r => nref_eqb y x || mem_n x r end.

Record state := mk_state {
  st_srcs : list source;
  st_cache : list entry;
  st_nodes : list nref;
  st_edges : list (nref * nref);
  st_removed : list (nref * nref);  (* plan_data['removed_dependencies'] of duplicated items: (item, dependency) *)
  st_added : list (nref * nref)     (* plan_data['additional_dependencies'] *)
}.

(** * look-ups (by cache KEY, as ItemFactory.item_cache.get does) *)
Fixpoint find_entry (k : string) (kd : ikind) (c : list entry) : option entry :=
  match c with
  | [] => None
  | e :: r => if String.eqb (e_key e) k && ikind_eqb (e_kind e) kd then Some e else find_entry k kd r
  end.
Definition has_key (k : string) (c : list entry) : bool :=
  existsb (fun e => String.eqb (e_key e) k) c.

Fixpoint find_routine (n : string) (rs : list routine) : option routine :=
  match rs with [] => None | r :: t => if String.eqb (r_name r) n then Some r else find_routine n t end.
Fixpoint find_mod (m : string) (us : list topunit) : option (list routine) :=
  match us with
  | [] => None
  | TMod n rs :: t => if String.eqb n m then Some rs else find_mod m t
  | TFree _ :: t => find_mod m t
  end.
Fixpoint find_free (n : string) (us : list topunit) : option routine :=
  match us with
  | [] => None
  | TFree r :: t => if String.eqb (r_name r) n then Some r else find_free n t
  | TMod _ _ :: t => find_free n t
  end.

Definition src_units (srcs : list source) (i : nat) : list topunit :=
  match nth_error srcs i with Some s => s_units s | None => [] end.

(** the routines of the module cached under key [m] *)
Definition cache_mod (st : state) (m : string) : option (list routine) :=
  match find_entry m KMod (st_cache st) with
  | Some e => find_mod (e_local e) (src_units (st_srcs st) (e_src e))
  | None => None
  end.
(** the IR of the procedure item [scope#name] *)
Definition proc_ir (st : state) (scope name : string) : option routine :=
  if String.eqb scope "" then
    match find_entry ("#" ++ name) KProc (st_cache st) with
    | Some e => find_free (e_local e) (src_units (st_srcs st) (e_src e))
    | None => None
    end
  else match cache_mod st scope with Some rs => find_routine name rs | None => None end.

(** * dependencies of a node and the graph (SGraph.from_seed) *)
Fixpoint import_of (c : string) (imps : list (string * list string)) : option string :=
  match imps with
  | [] => None
  | (m, syms) :: t => if mem_s c syms then Some m else import_of c t
  end.

Definition dep_of_call (st : state) (r : routine) (c : string) : nref :=
  match import_of c (r_imps r) with
  | Some m => match cache_mod st m with
              | Some rs => match find_routine c rs with Some _ => NProc m c | None => NExt (m ++ "#" ++ c) end
              | None => NExt (m ++ "#" ++ c)
              end
  | None => match find_entry ("#" ++ c) KProc (st_cache st) with
            | Some _ => NProc "" c
            | None => NExt ("#" ++ c)
            end
  end.
Definition dep_of_intf (st : state) (n : string) : nref :=
  match find_entry ("#" ++ n) KProc (st_cache st) with Some _ => NProc "" n | None => NExt ("#" ++ n) end.
(** an import creates a dependency on the module when it brings in something that is not one of its procedures
    (procedure symbols are picked up through the calls) *)
Definition deps_of_import (st : state) (im : string * list string) : list nref :=
  let (m, syms) := im in
  match cache_mod st m with
  | Some rs => if forallb (fun s => match find_routine s rs with Some _ => true | None => false end) syms then [] else [NMod m]
  | None => [NExt m]
  end.

Definition deps_of (st : state) (n : nref) : list nref :=
  match n with
  | NProc s r =>
      match proc_ir st s r with
      | Some ir => filter (fun d => negb (existsb (fun e => nref_eqb (fst e) n && nref_eqb (snd e) d) (st_removed st)))
                     (flat_map (fun e => if nref_eqb (fst e) n then [snd e] else []) (st_added st) ++
                      flat_map (deps_of_import st) (r_imps ir) ++ map (dep_of_intf st) (r_intfs ir)
                      ++ map (dep_of_call st ir) (r_calls ir))%list
      | None => []
      end
  | _ => []
  end.

Fixpoint dedup_n (l : list nref) : list nref :=
  match l with [] => [] | x :: r => if mem_n x r then dedup_n r else x :: dedup_n r end.

(** worklist closure; the flag tells whether the work list was exhausted *)
Fixpoint close (fuel : nat) (st : state) (work seen : list nref) (edges : list (nref * nref))
  : list nref * list (nref * nref) * bool :=
  match fuel with
  | O => (seen, edges, match work with [] => true | _ => false end)
  | S f =>
      match work with
      | [] => (seen, edges, true)
      | x :: w =>
          let ds := dedup_n (deps_of st x) in
          let new := filter (fun d => negb (mem_n d seen)) ds in
          close f st (w ++ new)%list (seen ++ new)%list
                (edges ++ map (fun d => (x, d)) (filter (fun d => negb (nref_eqb d x)) ds))%list
      end
  end.

Definition count_routines (srcs : list source) : nat :=
  fold_right (fun s acc => fold_right (fun u a => match u with TMod _ rs => S (List.length rs) + a | TFree _ => S a end) acc (s_units s)) 0 srcs.
Definition refs_count (srcs : list source) : nat :=
  fold_right (fun s acc => fold_right (fun u a =>
     match u with
     | TMod _ rs => fold_right (fun r b => List.length (r_calls r) + List.length (r_imps r) + List.length (r_intfs r) + b) a rs
     | TFree r => List.length (r_calls r) + List.length (r_imps r) + List.length (r_intfs r) + a
     end) acc (s_units s)) 0 srcs.

(** rebuild the graph from the seeds (Scheduler.seeds); [None] when the fuel did not suffice *)
Definition rebuild (seed : list nref) (st : state) : option state :=
  let fuel := S (count_routines (st_srcs st) + refs_count (st_srcs st) + List.length (st_cache st) + List.length seed) in
  match close fuel st seed seed [] with
  | (ns, es, true) => Some (mk_state (st_srcs st) (st_cache st) ns es (st_removed st) (st_added st))
  | (_, _, false) => None
  end.

(** * Scheduler._discover: files on disk that have no file item are read again; every file item yields the items
      of its top-level program units (existing items are reused) *)
Definition add_defs_of (srcs : list source) (c : list entry) (fe : entry) : list entry :=
  fold_left (fun c u =>
    match u with
    | TMod m _ => if has_key m c then c else List.app c [mk_entry m KMod "" m (e_src fe)]
    | TFree r => if has_key ("#" ++ r_name r) c then c else List.app c [mk_entry ("#" ++ r_name r) KProc "" (r_name r) (e_src fe)]
    end) (src_units srcs (e_src fe)) c.

Definition discover (disk : list source) (st : state) : state :=
  let '(srcs, cache) :=
    fold_left (fun '(srcs, cache) d =>
       if has_key (s_path d) cache then (srcs, cache)
       else ((srcs ++ [d])%list, (cache ++ [mk_entry (s_path d) KFile "" (s_path d) (List.length srcs)])%list))
      disk (st_srcs st, st_cache st) in
  let files := filter (fun e => ikind_eqb (e_kind e) KFile) cache in
  mk_state srcs (fold_left (add_defs_of srcs) files cache) (st_nodes st) (st_edges st) (st_removed st) (st_added st).

(** * Scheduler.rekey_item_cache *)
Definition renamed (e : entry) : bool := negb (String.eqb (e_key e) (e_name e)).

Definition unit_present (srcs : list source) (e : entry) : bool :=
  match e_kind e with
  | KFile => true
  | KMod => match find_mod (e_local e) (src_units srcs (e_src e)) with Some _ => true | None => false end
  | KProc =>
      if String.eqb (e_scope e) "" then
        match find_free (e_local e) (src_units srcs (e_src e)) with Some _ => true | None => false end
      else match find_mod (e_scope e) (src_units srcs (e_src e)) with
           | Some rs => match find_routine (e_local e) rs with Some _ => true | None => false end
           | None => false
           end
  end.

Definition rekey (st : state) : state :=
  let c := st_cache st in
  let ren_srcs := map e_src (filter (fun e => renamed e && negb (ikind_eqb (e_kind e) KFile)) c) in
  let any_renamed := existsb renamed c in
  (* file items that share their source object with a renamed item *)
  let c1 := map (fun e =>
              if ikind_eqb (e_kind e) KFile && any_renamed && existsb (Nat.eqb (e_src e)) ren_srcs
              then mk_entry (e_key e) KFile "" ("duplicate of " ++ e_local e) (e_src e) else e) c in
  (* items whose program unit disappeared from their source are dropped *)
  let c2 := filter (fun e => renamed e || unit_present (st_srcs st) e) c1 in
  (* keys follow the names; a later item replaces an earlier one of the same name *)
  let c3 := fold_left (fun acc e =>
              let e' := mk_entry (e_name e) (e_kind e) (e_scope e) (e_local e) (e_src e) in
              if has_key (e_name e) acc
              then map (fun x => if String.eqb (e_key x) (e_name e) then e' else x) acc
              else (acc ++ [e'])%list) c2 [] in
  mk_state (st_srcs st) c3 (st_nodes st) (st_edges st) (st_removed st) (st_added st).

(** * helpers on sources *)
Fixpoint update_nth {A} (n : nat) (f : A -> A) (l : list A) : list A :=
  match l, n with
  | [], _ => []
  | x :: r, O => f x :: r
  | x :: r, S k => x :: update_nth k f r
  end.

Definition is_driver (n : string) : bool := String.eqb n "driver".

(** procedure nodes of the graph (the items a later processing visits) *)
Definition proc_nodes (st : state) : list (string * string) :=
  flat_map (fun n => match n with NProc s r => [(s, r)] | _ => [] end) (st_nodes st).
Fixpoint mem_p (x : string * string) (l : list (string * string)) : bool :=
  match l with [] => false | (s, r) :: t => (String.eqb s (fst x) && String.eqb r (snd x)) || mem_p x t end.

(** the source object holding a procedure node *)
Definition src_of_proc (st : state) (s r : string) : option nat :=
  if String.eqb s "" then
    match find_entry ("#" ++ r) KProc (st_cache st) with Some e => Some (e_src e) | None => None end
  else match find_entry s KMod (st_cache st) with Some e => Some (e_src e) | None => None end.

Definition touched_srcs (st : state) : list nat :=
  flat_map (fun p => match src_of_proc st (fst p) (snd p) with Some i => [i] | None => [] end) (proc_nodes st).
Definition is_touched (st : state) (i : nat) : bool := existsb (Nat.eqb i) (touched_srcs st).

(** * DependencyTransformation(suffix, module_suffix) *)
Definition derive_mod (sfx msfx m : string) : string :=
  let m1 := if String.eqb msfx "" then m else strip_suffix msfx m in
  let m2 := strip_suffix sfx m1 in
  m2 ++ sfx ++ msfx.

Definition dep_refs (sfx msfx : string) (r : routine) : routine :=
  let calls0 := r_calls r in
  let ren_imp (im : string * list string) : list (string * list string) :=
      let (m, syms) := im in
      if existsb (fun s => mem_s s calls0) syms then
        if forallb (fun s => mem_s s calls0) syms then [(derive_mod sfx msfx m, map (fun s => s ++ sfx) syms)]
        else map (fun s => if mem_s s calls0 then (derive_mod sfx msfx m, [s ++ sfx]) else (m, [s])) syms
      else [im] in
  mk_routine (r_name r) (map (fun c => c ++ sfx) calls0) (flat_map ren_imp (r_imps r)) (map (fun n => n ++ sfx) (r_intfs r)).

Definition dep_routine (sfx msfx : string) (r : routine) : routine :=
  let r' := dep_refs sfx msfx r in
  if is_driver (r_name r) then r' else mk_routine (r_name r ++ sfx) (r_calls r') (r_imps r') (r_intfs r').

(** the units of one touched source after the transformation *)
Definition dep_units (sfx msfx : string) (g : list (string * string)) (us : list topunit) : list topunit :=
  flat_map (fun u =>
    match u with
    | TMod m rs =>
        let grs := filter (fun r => mem_p (m, r_name r) g) rs in
        match grs with
        | [] => []
        | _ => if existsb (fun r => is_driver (r_name r)) grs
               then [TMod m (map (fun r => if mem_p (m, r_name r) g then dep_routine sfx msfx r else r) rs)]
               else [TMod (derive_mod sfx msfx m) (map (dep_routine sfx msfx) grs)]
        end
    | TFree r => if mem_p ("", r_name r) g then [TFree (dep_routine sfx msfx r)] else []
    end) us.

(** the cached items follow their program units *)
Definition dep_entry (sfx msfx : string) (st : state) (g : list (string * string)) (e : entry) : entry :=
  match e_kind e with
  | KFile => e
  | KMod =>
      match find_mod (e_local e) (src_units (st_srcs st) (e_src e)) with
      | Some rs =>
          let grs := filter (fun r => mem_p (e_local e, r_name r) g) rs in
          match grs with
          | [] => e
          | _ => if existsb (fun r => is_driver (r_name r)) grs then e
                 else mk_entry (e_key e) KMod "" (derive_mod sfx msfx (e_local e)) (e_src e)
          end
      | None => e
      end
  | KProc =>
      if mem_p (e_scope e, e_local e) g && negb (is_driver (e_local e)) then
        mk_entry (e_key e) KProc
                 (if String.eqb (e_scope e) "" then "" else derive_mod sfx msfx (e_scope e))
                 (e_local e ++ sfx) (e_src e)
      else e
  end.

(** class conditions for the suffixing step *)
Definition all_callees_kernels (st : state) : bool :=
  forallb (fun p =>
     match proc_ir st (fst p) (snd p) with
     | Some ir =>
         forallb (fun d => match d with NProc s r => mem_p (s, r) (proc_nodes st) && negb (is_driver r) | _ => false end)
                 (map (dep_of_intf st) (r_intfs ir) ++ map (dep_of_call st ir) (r_calls ir))%list
     | None => false
     end) (proc_nodes st).

Definition mods_uniform (st : state) : bool :=
  let g := proc_nodes st in
  forallb (fun p =>
     if String.eqb (fst p) "" then true
     else match cache_mod st (fst p) with
          | Some rs => let grs := filter (fun r => mem_p (fst p, r_name r) g) rs in
                       negb (existsb (fun r => is_driver (r_name r)) grs) ||
                       forallb (fun r => is_driver (r_name r)) grs
          | None => false
          end) g.

Definition fresh_names (st : state) (names : list string) : bool :=
  forallb (fun n => negb (has_key n (st_cache st))) names.

Definition dep_class (sfx msfx : string) (st : state) : bool :=
  let g := proc_nodes st in
  negb (String.eqb sfx "") &&
  forallb (fun p => is_driver (snd p) || negb (ends_with sfx (snd p))) g &&
  forallb (fun n => match n with NExt _ => false | _ => true end) (st_nodes st) &&
  all_callees_kernels st && mods_uniform st &&
  fresh_names st (flat_map (fun p => if is_driver (snd p) then []
                             else if String.eqb (fst p) "" then ["#" ++ snd p ++ sfx]
                             else [derive_mod sfx msfx (fst p)]) g).

(** the new name of a renamed graph kernel (items, planned dependencies and the scheduler's seed list follow) *)
Definition dep_ren (sfx msfx : string) (st : state) (n : nref) : nref :=
  match n with
  | NProc sc r => if mem_p (sc, r) (proc_nodes st) && negb (is_driver r)
                  then NProc (if String.eqb sc "" then "" else derive_mod sfx msfx sc) (r ++ sfx) else n
  | _ => n
  end.

Definition apply_dep (sfx msfx : string) (st : state) : state :=
  let g := proc_nodes st in
  let srcs' := map (fun '(i, s) => if is_touched st i then mk_source (s_path s) (dep_units sfx msfx g (s_units s)) else s)
                   (combine (seq 0 (List.length (st_srcs st))) (st_srcs st)) in
  let ren := dep_ren sfx msfx st in
  mk_state srcs' (map (dep_entry sfx msfx st g) (st_cache st)) (st_nodes st) (st_edges st)
           (map (fun e => (ren (fst e), ren (snd e))) (st_removed st))
           (map (fun e => (ren (fst e), ren (snd e))) (st_added st)).

(** * ModuleWrapTransformation(module_suffix) *)
Definition wrap_refs (msfx : string) (r : routine) : routine :=
  mk_routine (r_name r) (r_calls r)
             (List.app (rev (map (fun n => (n ++ msfx, [n])) (r_intfs r))) (r_imps r)) [].

(** a source is wrapped when all its graph items are kernels *)
Definition src_all_kernels (st : state) (i : nat) : bool :=
  forallb (fun p => match src_of_proc st (fst p) (snd p) with
                    | Some j => negb (Nat.eqb i j) || negb (is_driver (snd p))
                    | None => true end) (proc_nodes st).

Definition wrap_units (msfx : string) (wrapit : bool) (g : list (string * string)) (us : list topunit) : list topunit :=
  map (fun u =>
    match u with
    | TMod m rs => TMod m (map (fun r => if mem_p (m, r_name r) g then wrap_refs msfx r else r) rs)
    | TFree r =>
        let r' := if mem_p ("", r_name r) g then wrap_refs msfx r else r in
        if wrapit then TMod (r_name r ++ msfx) [r'] else TFree r'
    end) us.

Definition wrap_entry (msfx : string) (st : state) (e : entry) : entry :=
  match e_kind e with
  | KProc =>
      if String.eqb (e_scope e) "" && is_touched st (e_src e) && src_all_kernels st (e_src e)
         && mem_p ("", e_local e) (proc_nodes st)
      then mk_entry (e_key e) KProc (e_local e ++ msfx) (e_local e) (e_src e) else e
  | _ => e
  end.

Definition wrap_class (msfx : string) (st : state) : bool :=
  let g := proc_nodes st in
  forallb (fun n => match n with NExt _ => false | _ => true end) (st_nodes st) &&
  (* every call of a free kernel is declared through an interface block of the caller *)
  forallb (fun p =>
     match proc_ir st (fst p) (snd p) with
     | Some ir => forallb (fun c => match dep_of_call st ir c with
                                    | NProc "" r => mem_s r (r_intfs ir)
                                    | _ => true end) (r_calls ir)
                  && forallb (fun n => match dep_of_intf st n with NProc "" r => negb (is_driver r) | _ => false end) (r_intfs ir)
     | None => false
     end) g &&
  fresh_names st (flat_map (fun p => if String.eqb (fst p) "" && negb (is_driver (snd p)) then [snd p ++ msfx] else []) g).

Definition wrap_ren (msfx : string) (st : state) (n : nref) : nref :=
  match n with
  | NProc "" r => match src_of_proc st "" r with
                  | Some i => if mem_p ("", r) (proc_nodes st) && src_all_kernels st i then NProc (r ++ msfx) r else n
                  | None => n
                  end
  | _ => n
  end.

Definition apply_wrap (msfx : string) (st : state) : state :=
  let g := proc_nodes st in
  let srcs' := map (fun '(i, s) => if is_touched st i
                                   then mk_source (s_path s) (wrap_units msfx (src_all_kernels st i) g (s_units s)) else s)
                   (combine (seq 0 (List.length (st_srcs st))) (st_srcs st)) in
  let ren := wrap_ren msfx st in
  mk_state srcs' (map (wrap_entry msfx st) (st_cache st)) (st_nodes st) (st_edges st)
           (map (fun e => (ren (fst e), ren (snd e))) (st_removed st))
           (map (fun e => (ren (fst e), ren (snd e))) (st_added st)).

(** * RemoveKernel(remove_kernels = [k]) *)
Definition rem_routine (k : string) (r : routine) : routine :=
  mk_routine (r_name r) (filter (fun c => negb (String.eqb c k)) (r_calls r)) (r_imps r) (r_intfs r).

Definition map_graph_routines (f : routine -> routine) (st : state) : list source :=
  let g := proc_nodes st in
  map (fun '(i, s) =>
     mk_source (s_path s)
       (map (fun u => match u with
                      | TMod m rs =>
                          (* only the module cached for this source object counts *)
                          TMod m (map (fun r => if mem_p (m, r_name r) g &&
                                                   match find_entry m KMod (st_cache st) with Some e => Nat.eqb (e_src e) i | None => false end
                                                then f r else r) rs)
                      | TFree r =>
                          if mem_p ("", r_name r) g &&
                             match find_entry ("#" ++ r_name r) KProc (st_cache st) with Some e => Nat.eqb (e_src e) i | None => false end
                          then TFree (f r) else TFree r
                      end) (s_units s)))
      (combine (seq 0 (List.length (st_srcs st))) (st_srcs st)).

Definition apply_rem (k : string) (st : state) : state :=
  mk_state (map_graph_routines (rem_routine k) st) (st_cache st) (st_nodes st) (st_edges st) (st_removed st) (st_added st).

(** * DuplicateKernel(duplicate_kernels = [k], suffix, module suffix, duplicate_subgraph) *)
Definition succs (st : state) (n : nref) : list nref :=
  flat_map (fun e => if nref_eqb (fst e) n then [snd e] else []) (st_edges st).
Definition proc_succs (st : state) (n : nref) : list (string * string) :=
  flat_map (fun d => match d with NProc s r => [(s, r)] | _ => [] end) (succs st n).

Definition new_scope (msfx scope : string) : string := if String.eqb scope "" then "" else scope ++ msfx.

(** rename the calls / imports of a clone towards the clones of its successors ([news] = their local names) *)
Definition clone_refs (sfx msfx : string) (news : list string) (r : routine) : routine :=
  let ren_imp (im : string * list string) : list (string * list string) :=
      let (m, syms) := im in
      let moved := filter (fun s => mem_s (s ++ sfx) news) syms in
      let kept := filter (fun s => negb (mem_s (s ++ sfx) news)) syms in
      List.app (match moved with [] => [] | _ => [(m ++ msfx, map (fun s => s ++ sfx) moved)] end)
               (match kept with [] => [] | _ => [(m, kept)] end) in
  mk_routine (r_name r) (map (fun c => if mem_s (c ++ sfx) news then c ++ sfx else c) (r_calls r))
             (flat_map ren_imp (r_imps r)) (r_intfs r).

Definition rename_in_units (scope old new : string) (us : list topunit) : list topunit :=
  map (fun u => match u with
                | TMod m rs => if String.eqb m scope
                               then TMod m (map (fun r => if String.eqb (r_name r) old then mk_routine new (r_calls r) (r_imps r) (r_intfs r) else r) rs)
                               else u
                | TFree r => if String.eqb scope "" && String.eqb (r_name r) old
                             then TFree (mk_routine new (r_calls r) (r_imps r) (r_intfs r)) else u
                end) us.
Definition rename_mod_units (old new : string) (us : list topunit) : list topunit :=
  map (fun u => match u with TMod m rs => if String.eqb m old then TMod new rs else u | _ => u end) us.

Definition update_routine (scope name : string) (f : routine -> routine) (us : list topunit) : list topunit :=
  map (fun u => match u with
                | TMod m rs => if String.eqb m scope then TMod m (map (fun r => if String.eqb (r_name r) name then f r else r) rs) else u
                | TFree r => if String.eqb scope "" && String.eqb (r_name r) name then TFree (f r) else u
                end) us.

(** DuplicateKernel._get_or_create_or_rename_item for the procedure node (scope, name); [None] = a case outside the class *)
Definition clone_item (sfx msfx : string) (st : state) (scope name : string) : option state :=
  let ns := new_scope msfx scope in
  let nl := name ++ sfx in
  match proc_ir st ns nl with
  | Some _ => Some st                                       (* the item exists already *)
  | None =>
      if negb (String.eqb scope "") && match find_entry ns KMod (st_cache st) with Some _ => true | None => false end then
        (* the cloned module exists: rename the routine inside it *)
        match find_entry ns KMod (st_cache st) with
        | Some e =>
            match cache_mod st ns with
            | Some rs => match find_routine name rs with
                         | Some _ => Some (mk_state (update_nth (e_src e) (fun s => mk_source (s_path s) (rename_in_units ns name nl (s_units s))) (st_srcs st))
                                                    (st_cache st) (st_nodes st) (st_edges st) (st_removed st) (st_added st))
                         | None => None
                         end
            | None => None
            end
        | None => None
        end
      else
        match src_of_proc st scope name with
        | Some i =>
            match nth_error (st_srcs st) i with
            | Some s =>
                let us1 := rename_in_units scope name nl (s_units s) in
                let us2 := if String.eqb scope "" then us1 else rename_mod_units scope ns us1 in
                let path := dirpart (s_path s) ++ (if String.eqb scope "" then nl else ns) ++ file_suffix (s_path s) in
                if has_key path (st_cache st) || has_key (if String.eqb scope "" then "#" ++ nl else ns) (st_cache st) then None
                else
                  let j := List.length (st_srcs st) in
                  let fe := mk_entry path KFile "" path j in
                  let srcs' := (st_srcs st ++ [mk_source path us2])%list in
                  Some (mk_state srcs' (add_defs_of srcs' (st_cache st ++ [fe])%list fe) (st_nodes st) (st_edges st) (st_removed st) (st_added st))
            | None => None
            end
        | None => None
        end
  end.

(** clone (scope, name) and, with [sub], the whole subgraph below it; the clones' references follow *)
Fixpoint clone_tree (fuel : nat) (sub : bool) (sfx msfx : string) (st : state) (scope name : string) : option state :=
  match fuel with
  | O => None
  | S f =>
      match clone_item sfx msfx st scope name with
      | None => None
      | Some st1 =>
          if sub then
            let ch := proc_succs st (NProc scope name) in
            match fold_left (fun acc c => match acc with
                                          | Some s => clone_tree f sub sfx msfx s (fst c) (snd c)
                                          | None => None end) ch (Some st1) with
            | Some st2 =>
                let news := map (fun c => snd c ++ sfx) ch in
                let ns := new_scope msfx scope in
                match (if String.eqb ns "" then match find_entry ("#" ++ name ++ sfx) KProc (st_cache st2) with Some e => Some (e_src e) | None => None end
                       else match find_entry ns KMod (st_cache st2) with Some e => Some (e_src e) | None => None end) with
                | Some i => Some (mk_state (update_nth i (fun s => mk_source (s_path s)
                                                (update_routine ns (name ++ sfx) (clone_refs sfx msfx news) (s_units s))) (st_srcs st2))
                                           (st_cache st2) (st_nodes st2) (st_edges st2)
                                           (List.app (st_removed st2) (map (fun c => (NProc ns (name ++ sfx), NProc (fst c) (snd c))) ch))
                                           (List.app (st_added st2) (map (fun c => (NProc ns (name ++ sfx), NProc (new_scope msfx (fst c)) (snd c ++ sfx))) ch)))
                | None => None
                end
            | None => None
            end
          else Some st1
      end
  end.

Definition dup_caller (k sfx ns : string) (r : routine) : routine :=
  if mem_s k (r_calls r) then
    mk_routine (r_name r) (flat_map (fun c => if String.eqb c k then [c; c ++ sfx] else [c]) (r_calls r))
               (if String.eqb ns "" then r_imps r else (ns, [k ++ sfx]) :: r_imps r) (r_intfs r)
  else r.

Definition apply_dup (k sfx msfx : string) (sub : bool) (st : state) : option state :=
  match filter (fun p => String.eqb (snd p) k) (proc_nodes st) with
  | [] => Some st
  | (scope, _) :: _ =>
      (* only a kernel that some graph routine calls is duplicated *)
      if existsb (fun e => nref_eqb (snd e) (NProc scope k)) (st_edges st) then
        match clone_tree (S (List.length (st_nodes st))) sub sfx msfx st scope k with
        | Some st1 =>
            Some (mk_state (map_graph_routines (dup_caller k sfx (new_scope msfx scope)) st1)
                           (st_cache st1) (st_nodes st1) (st_edges st1) (st_removed st1) (st_added st1))
        | None => None
        end
      else Some st
  end.

(** * one processing step = transformation; rekey (if it renames items); re-discovery; graph rebuild *)
Inductive op :=
| ODep (sfx msfx : string)
| OWrap (msfx : string)
| ODup (k sfx msfx : string) (sub : bool)
| ORem (k : string).

Definition all_internal (st : state) : bool :=
  forallb (fun n => match n with NExt _ => false | _ => true end) (st_nodes st).

Definition transform (o : op) (st : state) : option state :=
  match o with
  | ODep sfx msfx => if dep_class sfx msfx st then Some (rekey (apply_dep sfx msfx st)) else None
  | OWrap msfx => if wrap_class msfx st then Some (rekey (apply_wrap msfx st)) else None
  | ODup k sfx msfx sub => if all_internal st && negb (is_driver k) then apply_dup k sfx msfx sub st else None
  | ORem k => if all_internal st && negb (is_driver k) then Some (apply_rem k st) else None
  end.

(** Scheduler.rekey_item_cache also renames the entries of the seed list, element by element *)
Definition next_seeds (o : op) (st : state) (seed : list nref) : list nref :=
  match o with
  | ODep sfx msfx => map (dep_ren sfx msfx st) seed
  | OWrap msfx => map (wrap_ren msfx st) seed
  | _ => seed
  end.

Definition step (disk : list source) (seed : list nref) (st : state) (o : op) : option state :=
  match transform o st with
  | Some st1 => rebuild (next_seeds o st seed) (discover disk st1)
  | None => None
  end.

Definition init (disk : list source) (seed : list nref) : option state :=
  rebuild seed (discover disk (mk_state [] [] [] [] [] [])).

Fixpoint run (disk : list source) (seed : list nref) (st : state) (ops : list op) : option (list state) :=
  match ops with
  | [] => Some []
  | o :: r => match step disk seed st o with
              | Some st' => match run disk (next_seeds o st seed) st' r with Some l => Some (st' :: l) | None => None end
              | None => None
              end
  end.

(** the seed list after a history *)
Fixpoint seeds_after (disk : list source) (seed : list nref) (st : state) (ops : list op) : list nref :=
  match ops with
  | [] => seed
  | o :: r => match step disk seed st o with
              | Some st' => seeds_after disk (next_seeds o st seed) st' r
              | None => seed
              end
  end.

(** the items a later processing (Scheduler.process of any transformation over the procedure items) visits *)
Definition visits (st : state) : list string := map (fun p => fst p ++ "#" ++ snd p) (proc_nodes st).

(** * observations compared with the real scheduler *)
Definition top_cache (st : state) : list (string * string * nat) :=
  flat_map (fun e => match e_kind e with
                     | KFile => [(e_key e, e_name e, 0)]
                     | KMod => [(e_key e, e_name e, 1)]
                     | KProc => if String.eqb (e_scope e) "" then [(e_key e, e_name e, 2)] else []
                     end) (st_cache st).

Definition incl_b {A} (eqb : A -> A -> bool) (a b : list A) : bool := forallb (fun x => existsb (eqb x) b) a.
Definition set_eqb {A} (eqb : A -> A -> bool) (a b : list A) : bool := incl_b eqb a b && incl_b eqb b a.

Definition trip_eqb (a b : string * string * nat) : bool :=
  let '(k, n, t) := a in let '(k', n', t') := b in String.eqb k k' && String.eqb n n' && Nat.eqb t t'.
Definition pair_eqb (a b : string * string) : bool := String.eqb (fst a) (fst b) && String.eqb (snd a) (snd b).
Definition imp_eqb (a b : string * list string) : bool := String.eqb (fst a) (fst b) && set_eqb String.eqb (snd a) (snd b).

Record obs := mk_obs {
  o_cache : list (string * string * nat);
  o_nodes : list (string * bool);               (* name, is external *)
  o_edges : list (string * string);
  o_refs : list (string * (list string * list (string * list string) * list string))   (* procedure node: calls, imports, interfaces *)
}.

Definition node_obs (n : nref) : string * bool := (nname n, match n with NExt _ => true | _ => false end).
Definition nb_eqb (a b : string * bool) : bool := String.eqb (fst a) (fst b) && Bool.eqb (snd a) (snd b).

Definition refs_ok (st : state) (x : string * (list string * list (string * list string) * list string)) : bool :=
  let '(nm, (calls, imps, intfs)) := x in
  existsb (fun p => String.eqb (fst p ++ "#" ++ snd p) nm &&
                    match proc_ir st (fst p) (snd p) with
                    | Some ir => set_eqb String.eqb (r_calls ir) calls && set_eqb imp_eqb (r_imps ir) imps &&
                                 set_eqb String.eqb (r_intfs ir) intfs
                    | None => false
                    end) (proc_nodes st).

Definition chk_state (st : state) (o : obs) : bool :=
  set_eqb trip_eqb (top_cache st) (o_cache o) &&
  set_eqb nb_eqb (map node_obs (st_nodes st)) (o_nodes o) &&
  set_eqb pair_eqb (map (fun e => (nname (fst e), nname (snd e))) (st_edges st)) (o_edges o) &&
  forallb (refs_ok st) (o_refs o) &&
  Nat.eqb (List.length (o_refs o)) (List.length (proc_nodes st)).

Fixpoint chk_states (sts : list state) (os : list obs) : bool :=
  match sts, os with
  | [], [] => true
  | s :: r, o :: t => chk_state s o && chk_states r t
  | _, _ => false
  end.

(** the whole history: initial state and the state after every step *)
Definition chk_history (disk : list source) (seed : list nref) (ops : list op) (o0 : obs) (os : list obs) : bool :=
  match init disk seed with
  | Some st0 =>
      chk_state st0 o0 &&
      match run disk seed st0 ops with
      | Some sts => chk_states sts os
      | None => false
      end
  | None => false
  end.

(** * the invariant, as a boolean (also evaluated on every state of the correspondence) *)
Definition keys_are_names (st : state) : bool := forallb (fun e => String.eqb (e_key e) (e_name e)) (st_cache st).
Fixpoint nodup_s (l : list string) : bool :=
  match l with [] => true | x :: r => negb (mem_s x r) && nodup_s r end.
Definition keys_distinct (st : state) : bool := nodup_s (map e_key (st_cache st)).

Definition node_in_cache (st : state) (n : nref) : bool :=
  match n with
  | NProc s r => match proc_ir st s r with Some _ => true | None => false end
  | NMod m => match cache_mod st m with Some _ => true | None => false end
  | NExt _ => true
  end.
Definition nodes_in_cache (st : state) : bool := forallb (node_in_cache st) (st_nodes st).
Definition refs_resolve (st : state) : bool :=
  forallb (fun n => forallb (fun d => mem_n d (st_nodes st)) (deps_of st n)) (st_nodes st).
Definition no_dangling (st : state) : bool :=
  forallb (fun e => mem_n (fst e) (st_nodes st) && mem_n (snd e) (st_nodes st)) (st_edges st).

(** every module a graph routine imports from is part of the graph (and therefore of the written output) *)
Definition imports_written (st : state) : bool :=
  forallb (fun p =>
     match proc_ir st (fst p) (snd p) with
     | Some ir => forallb (fun im => existsb (fun n => match n with
                                                       | NProc s _ => String.eqb s (fst im)
                                                       | NMod m => String.eqb m (fst im)
                                                       | NExt _ => false end) (st_nodes st)) (r_imps ir)
     | None => false
     end) (proc_nodes st).

Definition inv_b (st : state) : bool :=
  keys_are_names st && keys_distinct st && nodes_in_cache st && refs_resolve st && no_dangling st.

(** the full consistency statement evaluated on every state of a real history *)
Definition consistent_b (st : state) : bool := inv_b st && all_internal st && imports_written st.

(** correspondence term used by the check: the model reproduces every observed state AND every model state of the
    history satisfies the consistency statement *)
Definition chk_history_full (disk : list source) (seed : list nref) (ops : list op) (o0 : obs) (os : list obs) : bool :=
  chk_history disk seed ops o0 os &&
  match init disk seed with
  | Some st0 => consistent_b st0 &&
                match run disk seed st0 ops with Some sts => forallb consistent_b sts | None => false end
  | None => false
  end.
