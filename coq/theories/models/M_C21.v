(** C21 — the scheduler graph as the pruned dependency closure of the seeds.  Definitions only.

    Anchors: loki/batch/configure.py (SchedulerConfig.match_item_keys, is_disabled),
    loki/batch/item_factory.py (ItemFactory.create_from_ir, _is_ignored, _get_procedure_item),
    loki/batch/item.py (Item.create_dependency_items), loki/batch/sgraph.py (SGraph._populate,
    _add_children, _get_seed_name, _create_item, _break_cycles; networkx find_cycle).

    Items are canonical lower-case names  scope#local / #routine / scope#type%member / module. *)
From Coq Require Import String Ascii List Bool Arith.
From LV Require Import Base.Strings.
Import ListNotations.
Open Scope string_scope.
Open Scope list_scope.
Infix "+++" := String.append (right associativity, at level 60).

(** * Small string helpers *)

(** Python [s.split(c)] for a one-character separator: never empty. *)
Fixpoint split_on (c : ascii) (s : string) : list string :=
  match s with
  | EmptyString => [EmptyString]
  | String a r =>
      if Ascii.eqb a c then EmptyString :: split_on c r
      else match split_on c r with
           | h :: t => String a h :: t
           | [] => [String a EmptyString]
           end
  end.

Fixpoint has_char (c : ascii) (s : string) : bool :=
  match s with
  | EmptyString => false
  | String a r => if Ascii.eqb a c then true else has_char c r
  end.

Definition smem (x : string) (l : list string) : bool := existsb (String.eqb x) l.

(** [dict.fromkeys(l)]: first occurrences, in order. *)
Fixpoint dedup_acc (seen l : list string) : list string :=
  match l with
  | [] => []
  | x :: r => if smem x seen then dedup_acc seen r else x :: dedup_acc (x :: seen) r
  end.
Definition dedup (l : list string) : list string := dedup_acc [] l.

(** * fnmatch restricted to the wildcards [*] and [?] (keys without '[') *)
Fixpoint glob (p s : string) {struct p} : bool :=
  match p with
  | EmptyString => match s with EmptyString => true | _ => false end
  | String c p' =>
      if Ascii.eqb c "*" then
        (fix star (t : string) : bool :=
           if glob p' t then true
           else match t with EmptyString => false | String _ t' => star t' end) s
      else match s with
           | EmptyString => false
           | String d s' => if (Ascii.eqb c "?" || Ascii.eqb c d)%bool then glob p' s' else false
           end
  end.

(** * SchedulerConfig.match_item_keys *)

(** itertools.accumulate(member_names, lambda l, r: l%r, initial=type_name) *)
Fixpoint prefixes_join (acc : string) (ms : list string) : list string :=
  match ms with
  | [] => [acc]
  | m :: r => acc :: prefixes_join (acc +++ "%" +++ m) r
  end.

Definition variants_of (parents : bool) (full scope local : string) : list string :=
  full :: local ::
  (if parents then
     (if String.eqb scope "" then [] else [scope]) ++
     (if has_char "%" local then
        match split_on "%" local with
        | ty :: ms => flat_map (fun p => [scope +++ "#" +++ p; p]) (prefixes_join ty ms)
        | [] => []
        end
      else [])
   else []).

(** the set [item_names]; [None] = ValueError (more than two '#') *)
Definition name_variants (parents : bool) (nm : string) : option (list string) :=
  let n := lower nm in
  match split_on "#" n with
  | [a] => Some (variants_of parents n "" a)
  | [a; b] => Some (variants_of parents n a b)
  | [a; b; c] => Some (variants_of parents n a (b +++ "#" +++ c))
  | _ => None
  end.

Definition key_hits (pat : bool) (vs : list string) (k : string) : bool :=
  existsb (fun v => if pat then glob k v else String.eqb k v) vs.

Definition match_keys (pat parents : bool) (nm : string) (keys : list string) : option (list string) :=
  match name_variants parents nm with
  | None => None
  | Some vs => Some (filter (key_hits pat vs) (map lower keys))
  end.

(** [bool(match_item_keys(...))]; malformed names are excluded by [wf_input] below *)
Definition matchb (pat parents : bool) (nm : string) (keys : list string) : bool :=
  match match_keys pat parents nm keys with
  | Some (_ :: _) => true
  | _ => false
  end.

(** * Items, configuration, dependency nodes *)

Record icfg := mk_icfg {
  c_expand : bool;
  c_disable : list string;
  c_block : list string;
  c_ignore : list string;
  c_recursive : bool       (* ProcedureItem whose prefix contains RECURSIVE *)
}.

Inductive symkind := SKitem | SKsub | SKvar.
(* imported symbol: has a definition item that is kept (typedef, interface, function) /
   subroutine (filtered: calls introduce it) / no item (module variable) *)

Inductive dnode :=
| DItem (n : string)                       (* dependency resolved to item [n], subject to _is_ignored *)
| DMissing (n : string)                    (* routine "#p" that is not in the item cache *)
| DImport (m : string) (syms : list (string * symkind))   (* USE m [, ONLY: syms] *)
| DCallUnq (p : string) (cands : list string) (free_known : bool).
  (* call of [p] found through unqualified USEs: [cands] = modules (with multiplicity) whose definition
     items contain a procedure [p]; [free_known]: "#p" is in the item cache *)

Inductive res (A : Type) :=
| Ok (a : A)
| ErrStrict      (* RuntimeError: procedure not found, strict *)
| ErrMulti       (* several candidates: currently an UnboundLocalError *)
| ErrFuel.
Arguments Ok {A} a. Arguments ErrStrict {A}. Arguments ErrMulti {A}. Arguments ErrFuel {A}.

Record input := mk_input {
  i_strict : bool;
  i_gdisable : list string;                          (* SchedulerConfig.disable (= default.disable) *)
  i_table : list (string * (icfg * list dnode));     (* item name -> config, raw dependency nodes (in order) *)
  i_seeds : list string;                             (* seed strings as given *)
  i_free : list string;                              (* "#p" procedure items of the discovery phase *)
  i_mods : list (string * (list string * list string)); (* module -> (subroutine_map names, Procedure/TypeDef member names) *)
  i_two_pass : bool                                  (* full_parse: SGraph.from_seed runs twice, is_ignored persists *)
}.

Fixpoint lookup {A : Type} (k : string) (t : list (string * A)) : option A :=
  match t with
  | [] => None
  | (k', v) :: r => if String.eqb k k' then Some v else lookup k r
  end.

(** ItemFactory._is_ignored(name, config, ignore=[*item.disable, *item.block]) *)
Definition early (g : list string) (c : icfg) (n : string) : bool :=
  matchb true true n (g ++ c_disable c ++ c_block c).

Definition is_var (k : symkind) : bool := match k with SKvar => true | _ => false end.
Definition is_item (k : symkind) : bool := match k with SKitem => true | _ => false end.

(** ItemFactory.create_from_ir for one dependency node *)
Definition emit (strict : bool) (g : list string) (c : icfg) (d : dnode) : res (list string) :=
  match d with
  | DItem n => Ok (if early g c n then [] else [n])
  | DMissing n => if early g c n then Ok [] else if strict then ErrStrict else Ok [n]
  | DImport m syms =>
      if early g c m then Ok [] else
      match syms with
      | [] => Ok [m]
      | _ =>
        let ni := filter (fun sk => negb (early g c (m +++ "#" +++ fst sk))) syms in
        let items := map (fun sk => m +++ "#" +++ fst sk) (filter (fun sk => is_item (snd sk)) ni) in
        Ok (if existsb (fun sk => is_var (snd sk)) ni then m :: items else items)
      end
  | DCallUnq p cands free_known =>
      match filter (fun m => negb (matchb true true (m +++ "#" +++ p) g)) cands with
      | [m] => Ok [m +++ "#" +++ p]            (* returned without the _is_ignored check *)
      | _ :: _ :: _ => ErrMulti
      | [] =>
          let n := "#" +++ p in
          if early g c n then Ok []
          else if free_known then Ok [n]
          else if strict then ErrStrict else Ok [n]
      end
  end.

Fixpoint emit_all (strict : bool) (g : list string) (c : icfg) (ds : list dnode) : res (list string) :=
  match ds with
  | [] => Ok []
  | d :: r =>
      match emit strict g c d with
      | Ok l => match emit_all strict g c r with
                | Ok l' => Ok (l ++ l')
                | e => e
                end
      | ErrStrict => ErrStrict | ErrMulti => ErrMulti | ErrFuel => ErrFuel
      end
  end.

(** Item.create_dependency_items followed by the [block] test of SGraph._add_children *)
Definition kept (strict : bool) (g : list string) (c : icfg) (ds : list dnode) : res (list string) :=
  match emit_all strict g c ds with
  | Ok l =>
      let l1 := match c_disable c with
                | [] => l
                | _ => filter (fun n => negb (matchb false false n (c_disable c))) l
                end in
      Ok (filter (fun n => negb (matchb false false n (c_block c))) (dedup l1))
  | ErrStrict => ErrStrict | ErrMulti => ErrMulti | ErrFuel => ErrFuel
  end.

(** children of an item as seen by _populate ([item.expand] then _add_children) *)
Definition children (inp : input) (x : string) : res (list string) :=
  match lookup x (i_table inp) with
  | None => Ok []
  | Some (c, ds) => if c_expand c then kept (i_strict inp) (i_gdisable inp) c ds else Ok []
  end.

Definition cfg_ignore (inp : input) (x : string) : list string :=
  match lookup x (i_table inp) with
  | None => []
  | Some (c, _) => c_ignore c
  end.

(** * Seeds: Scheduler.__init__ lower-cases, SGraph._get_seed_name, SGraph._create_item *)

Definition after_hash (s : string) : string :=
  match split_on "#" s with
  | _ :: b :: r => fold_left (fun acc x => acc +++ "#" +++ x) r b
  | _ => s
  end.
Definition before_hash (s : string) : string :=
  match split_on "#" s with a :: _ => a | [] => s end.
Definition before_pct (s : string) : string :=
  match split_on "%" s with a :: _ => a | [] => s end.

Definition gdis (inp : input) (n : string) : bool := matchb true true n (i_gdisable inp).

Definition create_item (inp : input) (name : string) : list string :=
  let name := if has_char "#" name then name else "#" +++ name in
  if smem name (i_free inp) then [name]
  else
    let scope := before_hash name in
    let member := after_hash name in
    let direct :=
      match lookup scope (i_mods inp) with
      | Some (_, mems) => andb (smem member mems) (negb (gdis inp name))
      | None => false
      end in
    if direct then [name]
    else if has_char "%" member then []      (* bindings as seeds: not modelled *)
    else
      flat_map (fun me => let m := fst me in
                          if andb (smem member (snd (snd me))) (negb (gdis inp (m +++ "#" +++ member)))
                          then [m +++ "#" +++ member] else [])
               (i_mods inp).

Definition seed_name (inp : input) (s : string) : string :=
  if has_char "#" s then s
  else
    let n := lower s in
    if smem ("#" +++ n) (i_free inp) then "#" +++ n
    else match filter (fun me => smem n (fst (snd me))) (i_mods inp) with
         | [me] => fst me ++ "#" +++ n
         | _ => n
         end.

Definition resolve_seed (inp : input) (s : string) : list string :=
  create_item inp (seed_name inp (lower s)).

Definition seed_items (inp : input) : list string := flat_map (resolve_seed inp) (i_seeds inp).

(** * SGraph._populate *)

Record st := mk_st {
  nodes : list string;                 (* insertion order of the DiGraph *)
  edges : list (string * string);      (* insertion order; adjacency order of u = order of its pairs *)
  queue : list string;
  ign : list (string * bool)           (* item.config['is_ignored'], last write wins *)
}.

Definition get_ign (m : list (string * bool)) (x : string) : bool :=
  match lookup x m with Some b => b | None => false end.

Definition edge_eqb (e f : string * string) : bool :=
  andb (String.eqb (fst e) (fst f)) (String.eqb (snd e) (snd f)).
Definition emem (e : string * string) (l : list (string * string)) : bool := existsb (edge_eqb e) l.

Fixpoint add_edges (es new : list (string * string)) : list (string * string) :=
  match new with
  | [] => es
  | e :: r => add_edges (if emem e es then es else es ++ [e]) r
  end.

Fixpoint add_nodes (ns new : list string) : list string :=
  match new with
  | [] => ns
  | x :: r => add_nodes (if smem x ns then ns else ns ++ [x]) r
  end.

(** the loop over [item.create_dependency_items(...)] in _add_children: is_ignored of every kept child *)
Fixpoint set_ign (ignore_keys : list string) (x : string) (l : list string) (m : list (string * bool))
  : list (string * bool) :=
  match l with
  | [] => m
  | y :: r => set_ign ignore_keys x r ((y, orb (get_ign m x) (matchb false true y ignore_keys)) :: m)
  end.

Definition step (inp : input) (x : string) (s : st) : res st :=
  match children inp x with
  | Ok l =>
      let new := filter (fun y => negb (smem y (nodes s))) l in
      Ok (mk_st (nodes s ++ new)
                (add_edges (edges s) (map (fun y => (x, y)) (filter (fun y => negb (String.eqb x y)) l)))
                (queue s ++ new)
                (set_ign (cfg_ignore inp x) x l (ign s)))
  | ErrStrict => ErrStrict | ErrMulti => ErrMulti | ErrFuel => ErrFuel
  end.

Fixpoint run (inp : input) (fuel : nat) (s : st) : res st :=
  match queue s with
  | [] => Ok s
  | x :: q =>
      match fuel with
      | O => ErrFuel
      | S f =>
          match step inp x (mk_st (nodes s) (edges s) q (ign s)) with
          | Ok s' => run inp f s'
          | e => e
          end
      end
  end.

Definition init_st (inp : input) (ign0 : list (string * bool)) : st :=
  let sd := seed_items inp in
  mk_st (add_nodes [] sd) [] sd ign0.

(** every name a dependency node can produce *)
Definition targets (d : dnode) : list string :=
  match d with
  | DItem n => [n]
  | DMissing n => [n]
  | DImport m syms => m :: map (fun sk => m +++ "#" +++ fst sk) syms
  | DCallUnq p cands _ => ("#" +++ p) :: map (fun m => m +++ "#" +++ p) cands
  end.

Definition universe (inp : input) : list string :=
  flat_map (fun e => flat_map targets (snd (snd e))) (i_table inp).

Definition fuel_bound (inp : input) : nat :=
  S (length (seed_items inp) + length (dedup (universe inp))).

Definition populate_from (inp : input) (ign0 : list (string * bool)) : res st :=
  run inp (fuel_bound inp) (init_st inp ign0).

(** one SGraph.from_seed pass without _break_cycles; the second pass of a full parse starts from
    the is_ignored flags left behind by the first one *)
Definition populate (inp : input) : res st :=
  if i_two_pass inp then
    match populate_from inp [] with
    | Ok s1 => populate_from inp (ign s1)
    | e => e
    end
  else populate_from inp [].

(** * SGraph._break_cycles with networkx.find_cycle(G, source) *)

Definition succs (es : list (string * string)) (u : string) : list string :=
  map snd (filter (fun e => String.eqb (fst e) u) es).

Fixpoint next_after (v : string) (l : list string) : string :=
  match l with
  | a :: ((b :: _) as r) => if String.eqb a v then b else next_after v r
  | _ => v
  end.

(** depth-first search in adjacency order; the first edge whose head is on the current path closes
    the cycle; networkx returns the cycle starting at that head: its first edge leaves the head
    along the path *)
Fixpoint dfs (fuel : nat) (es : list (string * string)) (path fin : list string) (u : string)
  : option (string * string) * list string :=
  match fuel with
  | O => (None, fin)
  | S f =>
      let path' := path ++ [u] in
      (fix go (vs : list string) (fin : list string) : option (string * string) * list string :=
         match vs with
         | [] => (None, u :: fin)
         | v :: vs' =>
             if smem v path' then (Some (v, next_after v (path' ++ [v])), fin)
             else if smem v fin then go vs' fin
             else match dfs f es path' fin v with
                  | (Some e, fin') => (Some e, fin')
                  | (None, fin') => go vs' fin'
                  end
         end) (succs es u) fin
  end.

Definition find_cycle (ns : list string) (es : list (string * string)) (src : string)
  : option (string * string) :=
  fst (dfs (S (length ns)) es [] [] src).

Definition remove_edge (e : string * string) (es : list (string * string)) : list (string * string) :=
  filter (fun f => negb (edge_eqb e f)) es.

Fixpoint break_from (fuel : nat) (ns : list string) (es : list (string * string)) (src : string)
  : list (string * string) :=
  match fuel with
  | O => es
  | S f => match find_cycle ns es src with
           | Some e => break_from f ns (remove_edge e es) src
           | None => es
           end
  end.

Definition is_recursive (inp : input) (x : string) : bool :=
  match lookup x (i_table inp) with
  | Some (c, _) => c_recursive c
  | None => false
  end.

Definition break_cycles (inp : input) (ns : list string) (es : list (string * string))
  : list (string * string) :=
  fold_left (fun es x => if is_recursive inp x then break_from (S (length es)) ns es x else es) ns es.

(** * The graph of the Scheduler *)

Record graph := mk_graph {
  g_nodes : list string;
  g_edges : list (string * string);
  g_ignored : list string
}.

Definition graph_of (inp : input) (s : st) : graph :=
  mk_graph (nodes s) (break_cycles inp (nodes s) (edges s))
           (filter (fun x => get_ign (ign s) x) (nodes s)).

Definition scheduler_graph (inp : input) : res graph :=
  match populate inp with
  | Ok s => Ok (graph_of inp s)
  | ErrStrict => ErrStrict | ErrMulti => ErrMulti | ErrFuel => ErrFuel
  end.

(** * Well-formedness of the names handed to the model (excludes the ValueError of match_item_keys) *)
Definition name_ok (n : string) : bool :=
  match name_variants false n with Some _ => true | None => false end.

Definition wf_input (inp : input) : bool :=
  andb (forallb name_ok (map fst (i_table inp))) (forallb name_ok (universe inp)).

(** * Correspondence entry points *)
Definition set_eqb (a b : list string) : bool :=
  andb (forallb (fun x => smem x b) a) (forallb (fun x => smem x a) b).
Definition eset_eqb (a b : list (string * string)) : bool :=
  andb (forallb (fun x => emem x b) a) (forallb (fun x => emem x a) b).

Fixpoint list_eqb (a b : list string) : bool :=
  match a, b with
  | [], [] => true
  | x :: a', y :: b' => andb (String.eqb x y) (list_eqb a' b')
  | _, _ => false
  end.

(** [impl_nodes]: Scheduler.items in the order of the DiGraph (= discovery order of the worklist) *)
Definition chk_graph (inp : input) (impl_nodes : list string) (impl_edges : list (string * string))
           (impl_ignored : list string) : bool :=
  andb (wf_input inp)
  match scheduler_graph inp with
  | Ok g => andb (list_eqb (g_nodes g) impl_nodes)
                 (andb (andb (eset_eqb (g_edges g) impl_edges) (Nat.eqb (length (g_edges g)) (length impl_edges)))
                       (set_eqb (g_ignored g) impl_ignored))
  | _ => false
  end.

(** error outcome: 1 = RuntimeError (strict), 2 = UnboundLocalError (several candidates) *)
Definition chk_error (inp : input) (code : nat) : bool :=
  andb (wf_input inp)
  match scheduler_graph inp, code with
  | ErrStrict, 1 => true
  | ErrMulti, 2 => true
  | _, _ => false
  end.

Definition chk_match (pat parents : bool) (nm : string) (keys : list string) (impl : option (list string)) : bool :=
  match match_keys pat parents nm keys, impl with
  | Some l, Some l' => andb (Nat.eqb (length l) (length l')) (forallb (fun p => String.eqb (fst p) (snd p)) (combine l l'))
  | None, None => true
  | _, _ => false
  end.
