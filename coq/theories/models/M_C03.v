(** C03 — conservative output reproduces unmodified source verbatim.  Definitions only.

    Models
      - loki/frontend/source.py   : Source (lines, string, status), SourceStatus, invalidate / is_valid
      - loki/backend/fgencon.py   : FortranCodegenConservative (which node kinds re-use their source, the
                                    INVALID_CHILDREN rules of Loop / Conditional / Subroutine / Module, the
                                    keyword arguments that are handed down to the children)
      - loki/backend/fgen.py      : visit_tuple (labels, None results), join_lines, the structural printer is abstract:
                                    every node carries the template [lits] that the real handler prints around its slots
      - loki/ir/transformer.py    : Transformer.visit_tuple / visit_Node / visit_ScopedNode / _rebuild (invalidate_source)

    A text is a list of lines (Python: the string joined with "\n"); [None] results of a visit method are the empty list. *)
From Coq Require Import ZArith List Bool String Ascii Lia Uint63.
From LV Require Import Base.Strings.
Import ListNotations.
Open Scope list_scope.
Open Scope Z_scope.

(** * strings *)
Definition is_ws (c : ascii) : bool :=
  let n := nat_of_ascii c in (((9 <=? n) && (n <=? 13)) || ((28 <=? n) && (n <=? 32)))%nat.

Fixpoint lstrip (s : string) : string :=
  match s with EmptyString => EmptyString | String c r => if is_ws c then lstrip r else s end.

Fixpoint all_ws (s : string) : bool :=
  match s with EmptyString => true | String c r => is_ws c && all_ws r end.

Fixpoint rstrip (s : string) : string :=
  match s with
  | EmptyString => EmptyString
  | String c r => if all_ws s then EmptyString else String c (rstrip r)
  end.

Definition strip (s : string) : string := rstrip (lstrip s).

Fixpoint nlead (s : string) : nat :=
  match s with EmptyString => 0%nat | String c r => if is_ws c then S (nlead r) else 0%nat end.

Fixpoint spaces (n : nat) : string :=
  match n with O => EmptyString | S m => String " "%char (spaces m) end.

(** f'{label:{n}}' *)
Definition pad (l : string) (n : nat) : string := (l ++ spaces (n - String.length l))%string.

Fixpoint contains (p s : string) : bool :=
  String.prefix p s || match s with EmptyString => false | String _ r => contains p r end.

Definition nl : ascii := ascii_of_nat 10.

Fixpoint join_nl (l : list string) : string :=
  match l with
  | [] => EmptyString
  | x :: r => match r with [] => x | _ => (x ++ String nl (join_nl r))%string end
  end.

Fixpoint split_nl (s : string) : list string :=
  match s with
  | EmptyString => [EmptyString]
  | String c r => if Ascii.eqb c nl then EmptyString :: split_nl r
                  else match split_nl r with [] => [String c EmptyString] | x :: xs => String c x :: xs end
  end.

(** s.split('!', maxsplit=1) *)
Fixpoint cut_bang (s : string) : option (string * string) :=
  match s with
  | EmptyString => None
  | String c r => if Ascii.eqb c "!"%char then Some (EmptyString, r)
                  else match cut_bang r with Some (p, q) => Some (String c p, q) | None => None end
  end.

Fixpoint all_sp (s : string) : bool :=
  match s with EmptyString => true | String c r => Ascii.eqb c " "%char && all_sp r end.

(** len(pre) - len(pre.rstrip(' ')) *)
Fixpoint ntrail_sp (s : string) : nat :=
  match s with EmptyString => 0%nat | String c r => if all_sp s then String.length s else ntrail_sp r end.

Definition text := list string.

Fixpoint text_eqb (a b : text) : bool :=
  match a, b with
  | [], [] => true
  | x :: a', y :: b' => String.eqb x y && text_eqb a' b'
  | _, _ => false
  end.

(** FortranCodegenConservative.visit_Comment on a VALID comment: an inline comment only returns "!..." and the blanks before it *)
Definition comment_rule (txt : text) : text :=
  match cut_bang (join_nl txt) with
  | None => txt
  | Some (pre, rest) =>
      if negb (String.eqb pre EmptyString) && negb (all_ws pre)
      then split_nl (spaces (ntrail_sp pre) ++ String "!"%char rest)
      else txt
  end.

(** [s for s in string.splitlines() if s.upper().strip() == 'ELSE'][-1] *)
Definition last_else (txt : text) : option string :=
  fold_left (fun acc s => if String.eqb (strip (upper s)) "ELSE" then Some s else acc) txt None.

(** FortranCodegen.apply_label applied to the (possibly multi-line) text of a tuple item *)
Definition apply_label (lbl : option string) (ls : text) : option text :=
  match lbl with
  | None => Some ls
  | Some l =>
      match ls with
      | [] => None                                   (* len(None): TypeError *)
      | f :: r => if all_ws f then None              (* lstrip() would run into the next line: not modelled *)
                  else Some ((pad l (Nat.max 1 (nlead f - 1)) ++ String " "%char (lstrip f))%string :: r)
      end
  end.

(** * sources and trees *)
Inductive status := VALID | INVALID_NODE | INVALID_CHILDREN.
Record source := mkSrc { s_l0 : Z; s_l1 : Z; s_txt : text; s_st : status }.

Definition status_eqb (a b : status) : bool :=
  match a, b with VALID, VALID | INVALID_NODE, INVALID_NODE | INVALID_CHILDREN, INVALID_CHILDREN => true | _, _ => false end.

(** Source.is_valid *)
Definition is_valid (s : source) : bool := status_eqb (s_st s) VALID.
(** Source.invalidate(children) on a clone *)
Definition invalidate (children : bool) (s : source) : source :=
  mkSrc (s_l0 s) (s_l1 s) (s_txt s) (if children then INVALID_CHILDREN else INVALID_NODE).

(** node kinds as FortranCodegenConservative dispatches them *)
Inductive kind :=
| KLeaf      (* Assignment, CallStatement, Import, VariableDeclaration, classes without handler in fgen: VALID -> text *)
| KComment   (* Comment *)
| KSection   (* Section: VALID -> text, otherwise the children *)
| KLoop      (* Loop: header/footer lines from the text when INVALID_CHILDREN *)
| KCond      (* multi-line Conditional without ELSE IF *)
| KCondEI    (* multi-line Conditional whose else_body is one ELSE IF conditional *)
| KSub       (* Subroutine *)
| KMod       (* Module *)
| KFunc      (* Function: visit_Function of fgen, never conservative *)
| KOther.    (* every class with its own handler in fgen only (WhileLoop, MultiConditional, GenericStmt, ...) and inline IF *)

(** how Transformer treats the node *)
Inductive tmode :=
| TN   (* visit_Node + _rebuild *)
| TS   (* visit_ScopedNode: children updated in place, source never touched *)
| TP   (* program unit, or a section holding program units: not traversed; statuses are set by the caller (protocol) *)
| TX   (* not traversed at all (opaque program unit) *)
| TO.  (* a node with children that is exported as one opaque block (one-line IF, loop with attached pragmas, named IF):
          the Transformer rebuilds it like any node with node children; its regenerated text is [lits] *)

Inductive tree :=
| T (k : kind) (u : Z) (lbl : option string) (src : option source) (tm : tmode) (grp : nat)
    (lits alt : list text) (slots : list (list tree)).

Definition kind_of (t : tree) := match t with T k _ _ _ _ _ _ _ _ => k end.
Definition uid (t : tree) := match t with T _ u _ _ _ _ _ _ _ => u end.
Definition lbl_of (t : tree) := match t with T _ _ l _ _ _ _ _ _ => l end.
Definition src_of (t : tree) := match t with T _ _ _ s _ _ _ _ _ => s end.
Definition tm_of (t : tree) := match t with T _ _ _ _ m _ _ _ _ => m end.
Definition slots_of (t : tree) := match t with T _ _ _ _ _ _ _ _ sl => sl end.
Definition text_of (t : tree) : option text := option_map s_txt (src_of t).

Definition has_crule (k : kind) : bool :=
  match k with KLoop | KCond | KCondEI | KSub | KMod => true | _ => false end.
Definition is_unit_kind (k : kind) : bool :=
  match k with KSub | KMod | KFunc => true | _ => false end.
Definition is_leaf_kind (k : kind) : bool :=
  match k with KLeaf | KComment => true | _ => false end.

Inductive mode := MT (* own text *) | MC (* INVALID_CHILDREN rule *) | MS (* structural handler *).
Definition mode_eqb (a b : mode) : bool := match a, b with MT, MT | MC, MC | MS, MS => true | _, _ => false end.

Definition mode_of (k : kind) (src : option source) : mode :=
  match src with
  | None => MS
  | Some s =>
      match k with
      | KOther | KFunc => MS
      | _ => match s_st s with
             | VALID => MT
             | INVALID_CHILDREN => if has_crule k then MC else MS
             | INVALID_NODE => MS
             end
      end
  end.

(** the mode in which a node with children is printed once a child below it has been invalidated *)
Definition cmode (k : kind) : mode := if has_crule k then MC else MS.
(** ... a node without source (inserted by an earlier edit) is always printed by the structural handler *)
Definition fmode (k : kind) (src : option source) : mode := match src with None => MS | Some _ => cmode k end.

(** * assembling the text of a node from its printed slots *)
Fixpoint interleave (lits ps : list text) : text :=
  match lits with
  | [] => List.concat ps
  | l :: ls => match ps with
               | [] => l ++ List.concat ls
               | p :: ps' => l ++ p ++ interleave ls ps'
               end
  end.

(** truthiness of a printed string *)
Definition nonblank (p : text) : bool :=
  match p with [] => false | [s] => negb (String.eqb s EmptyString) | _ => true end.
Definition drop_blank (p : text) : text := if nonblank p then p else [].

(** string.splitlines()[i]; splitlines and split('\n') agree when the last line is not empty *)
Definition lines_ok (txt : text) : bool := negb (String.eqb (last txt EmptyString) EmptyString).
Definition line_at (txt : text) (i : Z) : option string :=
  if lines_ok txt && (0 <=? i) then nth_error txt (Z.to_nat i) else None.

(** what the frame of a node looks at in its slots: emptiness, and the start line of the source of the first item *)
Definition slot_info := option (option Z).     (* None: empty slot; Some None: first item has no source *)
Definition sinfo (sl : list tree) : slot_info :=
  match sl with [] => None | c :: _ => Some (option_map s_l0 (src_of c)) end.
Definition si_nil (i : slot_info) : bool := match i with None => true | Some _ => false end.

(** o.<section>.source.lines[0]; outer None = AttributeError ('NoneType' object has no attribute 'source') *)
Definition slot_l0 (i : slot_info) (must : bool) : option (option Z) :=
  match i with
  | None => if must then None else Some None
  | Some v => Some v
  end.

Definition omin (a : Z) (b : option Z) : Z := match b with Some v => Z.min a v | None => a end.

Definition header_from (s : source) (h_end : Z) (lit0 : text) : option text :=
  if h_end <? s_l1 s then
    let n := h_end - s_l0 s in
    if lines_ok (s_txt s) && (1 <=? n) && (n <=? Z.of_nat (List.length (s_txt s)))
    then Some (firstn (Z.to_nat n) (s_txt s)) else None
  else Some lit0.

(** header of Subroutine (slots: docstring, [spec], [body], [contains]) *)
Definition sub_header (s : source) (lits : list text) (si : list slot_info) : option text :=
  match slot_l0 (nth 2 si None) true, slot_l0 (nth 1 si None) true with
  | Some b, Some sp =>
      let h := omin (match b with Some v => v | None => s_l1 s end) sp in
      match nth 0 si None with
      | None => header_from s h (hd [] lits)
      | Some (Some d0) => header_from s (Z.min h d0) (hd [] lits)
      | Some None => None                      (* o.docstring[0].source is None: AttributeError *)
      end
  | _, _ => None
  end.

(** header of Module (slots: docstring, [spec], [contains]) *)
Definition mod_header (s : source) (lits : list text) (si : list slot_info) : option text :=
  match slot_l0 (nth 2 si None) false, slot_l0 (nth 1 si None) true with
  | Some c, Some sp => header_from s (omin (match c with Some v => v | None => s_l1 s end) sp) (hd [] lits)
  | _, _ => None
  end.

Definition unit_footer (s : source) (lits : list text) : option text :=
  match line_at (s_txt s) (s_l1 s - s_l0 s) with
  | Some foot => Some (if contains "END " (upper foot) then [foot] else last lits [])
  | None => None
  end.

Definition olist (o : option string) : option text := option_map (fun x => [x]) o.
Definition oapp (a b : option text) : option text :=
  match a, b with Some x, Some y => Some (x ++ y) | _, _ => None end.

Definition is_nil {A} (l : list A) : bool := match l with [] => true | _ => false end.

Definition assemble (k : kind) (src : option source) (lits alt : list text) (si : list slot_info)
           (md : mode) (ei : bool) (ps : list text) : option text :=
  let p i := nth i ps [] in
  match md, src with
  | MC, Some s =>
      let txt := s_txt s in
      let ft := olist (line_at txt (s_l1 s - s_l0 s)) in
      match k with
      | KLoop => oapp (olist (line_at txt 0)) (oapp (Some (p 0%nat)) ft)
      | KCond =>
          let el := if si_nil (nth 1 si None) then Some [] else olist (last_else txt) in
          oapp (olist (line_at txt 0)) (oapp (Some (p 0%nat)) (oapp el (oapp (Some (p 1%nat)) ft)))
      | KCondEI => oapp (olist (line_at txt 0)) (Some (p 0%nat ++ p 1%nat))
      | KSub => oapp (sub_header s lits si)
                     (oapp (Some (p 0%nat ++ p 1%nat ++ p 2%nat ++ drop_blank (p 3%nat))) (unit_footer s lits))
      | KMod => oapp (mod_header s lits si) (oapp (Some (p 1%nat ++ drop_blank (p 2%nat))) (unit_footer s lits))
      | _ => None
      end
  | MC, None => None
  | _, _ =>
      match k with
      | KSub | KFunc =>
          Some (interleave lits [p 0%nat; p 1%nat; p 2%nat; drop_blank (p 3%nat)])
      | KCond | KCondEI => Some (interleave (if ei then alt else lits) ps)
      | _ => Some (interleave lits ps)
      end
  end.

(** * the conservative printer *)
Section OMAP.
  Context {A B : Type} (f : A -> option B).
  Fixpoint omap (l : list A) : option (list B) :=
    match l with
    | [] => Some []
    | x :: r => match f x, omap r with Some y, Some ys => Some (y :: ys) | _, _ => None end
    end.
End OMAP.
Section OMAPI.
  Context {A B : Type} (f : nat -> A -> option B).
  Fixpoint omapi (i : nat) (l : list A) : option (list B) :=
    match l with
    | [] => Some []
    | x :: r => match f i x, omapi (S i) r with Some y, Some ys => Some (y :: ys) | _, _ => None end
    end.
End OMAPI.

(** slots of program units other than the docstring are single sections visited directly (no visit_tuple) *)
Definition direct (k : kind) (i : nat) : bool := is_unit_kind k && negb (Nat.eqb i 0).

(** fgen.visit_tuple: every item printed, label applied, None skipped; '' when nothing at all was printed *)
Definition pitem (dir : bool) (f : tree -> option text) (c : tree) : option text :=
  match f c with
  | Some p => if dir then Some p else apply_label (lbl_of c) p
  | None => None
  end.
Definition pslot (dir : bool) (f : tree -> option text) (sl : list tree) : option text :=
  match sl with
  | [] => Some []
  | _ => match omap (pitem dir f) sl with
         | Some parts => let out := List.concat parts in
                         Some (if dir then out else match out with [] => [EmptyString] | _ => out end)
         | None => None
         end
  end.

(** is the keyword argument is_elseif present in the kwargs handed to slot [i]?   None = TypeError
    ("got multiple values for keyword argument 'is_elseif'"): the INVALID_CHILDREN branch of
    FortranCodegenConservative.visit_Conditional passes its own kwargs on without removing the flag *)
Definition child_ei (k : kind) (md : mode) (ei : bool) (i : nat) : option bool :=
  match k with
  | KCond => match md with MS => Some false | _ => Some ei end
  | KCondEI =>
      match md with
      | MS => Some (Nat.eqb i 1)
      | _ => if Nat.eqb i 1 then (if ei then None else Some true) else Some ei
      end
  | _ => Some ei
  end.

Definition is_comment (k : kind) : bool := match k with KComment => true | _ => false end.

Fixpoint cp (ei : bool) (t : tree) {struct t} : option text :=
  match t with
  | T k u lbl src tm grp lits alt slots =>
      let md := mode_of k src in
      match md with
      | MT => match src with
              | Some s => Some (if is_comment k then comment_rule (s_txt s) else s_txt s)
              | None => None
              end
      | _ =>
          match omapi (fun i sl => match child_ei k md ei i with
                                   | Some e => pslot (direct k i) (cp e) sl
                                   | None => None
                                   end) 0%nat slots with
          | Some ps => assemble k src lits alt (map sinfo slots) md ei ps
          | None => None
          end
      end
  end.

(** fgen(ir, conservative=True) = visit(ir) or '' *)
Definition norm_top (x : text) : text := match x with [] => [EmptyString] | _ => x end.
Definition cons_print (t : tree) : option text := option_map norm_top (cp false t).

(** Sourcefile.to_file appends a newline when the text does not end with one *)
Definition ensure_nl (x : text) : text :=
  if String.eqb (last x EmptyString) EmptyString then x else x ++ [EmptyString].

(** * tiling: the text of a node is what its rule assembles from the texts of its children *)
Definition plain_comment (txt : text) : bool := text_eqb (comment_rule txt) txt.

Definition tiled1 (t : tree) : bool :=
  match t with
  | T k u lbl src tm grp lits alt slots =>
      match src with
      | None => false
      | Some s =>
          match k with
          | KLeaf => true
          | KComment => plain_comment (s_txt s)
          | _ =>
              match omapi (fun i sl => pslot (direct k i) text_of sl) 0%nat slots with
              | Some ts => match assemble k src lits alt (map sinfo slots) (cmode k) false ts with
                           | Some x => text_eqb x (s_txt s)
                           | None => false
                           end
              | None => false
              end
          end
      end
  end.

Fixpoint tiled (t : tree) : bool :=
  tiled1 t && forallb (forallb tiled) (slots_of t).

Fixpoint all_valid (t : tree) : bool :=
  match src_of t with Some s => is_valid s | None => false end && forallb (forallb all_valid) (slots_of t).

Section FORALLBI.
  Context {A : Type} (f : nat -> A -> bool).
  Fixpoint forallbi (i : nat) (l : list A) : bool :=
    match l with [] => true | x :: r => f i x && forallbi (S i) r end.
End FORALLBI.

(** [verb ei t]: sufficient, decidable condition for "t is printed as exactly its own text" (kwargs flag [ei]) *)
Fixpoint verb (ei : bool) (t : tree) {struct t} : bool :=
  match t with
  | T k u lbl src tm grp lits alt slots =>
      match mode_of k src with
      | MT => match src with
              | Some s => if is_comment k then plain_comment (s_txt s) else true
              | None => false
              end
      | md => negb (is_leaf_kind k) && mode_eqb md (cmode k) && tiled1 t &&
              forallbi (fun i sl => match child_ei k md ei i with
                                    | Some e => forallb (verb e) sl
                                    | None => false
                                    end) 0%nat slots
      end
  end.

(** only statuses VALID / INVALID_CHILDREN occur, statements are VALID (what over-invalidation produces) *)
Fixpoint okstatus (t : tree) : bool :=
  match t with
  | T k u lbl src tm grp lits alt slots =>
      match src with
      | Some s => match s_st s with
                  | VALID => true
                  | INVALID_CHILDREN => negb (is_leaf_kind k)
                  | INVALID_NODE => false
                  end
      | None => false
      end && forallb (forallb okstatus) slots
  end.

(** no ELSE IF construct *)
Fixpoint ei_free (t : tree) : bool :=
  match kind_of t with KCondEI => false | _ => true end && forallb (forallb ei_free) (slots_of t).

(** * Transformer *)
Inductive action :=
| ADrop                      (* mapper[n] = None *)
| AOne (r : tree)            (* mapper[n] = node: a rebuilt copy of it is inserted, not traversed *)
| AMany (rs : list tree).    (* mapper[n] = tuple: injected into the enclosing tuple; [n] itself may be an element *)

Definition mapper := Z -> option action.
Fixpoint lookup (m : list (Z * action)) (u : Z) : option action :=
  match m with [] => None | (k, a) :: r => if k =? u then Some a else lookup r u end.

Definition set_children_invalid (src : option source) : option source := option_map (invalidate true) src.

(** any(isinstance(c, Node) and not is_source_valid(c) for c in flatten(children)):
    is_source_valid receives the child NODE, not its Source, hence returns False for every node *)
Definition has_node_child (slots : list (list tree)) : bool :=
  existsb (existsb (fun c => negb (is_unit_kind (kind_of c)))) slots.

(** Transformer.visit_tuple strips emptied sub-tuples (bodies of a MultiConditional ...) *)
Fixpoint strip_grp (g : nat) (sls : list (list tree)) : nat * list (list tree) :=
  match g, sls with
  | S g', sl :: r => let '(g2, r2) := strip_grp g' r in
                     match sl with [] => (g2, r2) | _ => (S g2, sl :: r2) end
  | _, _ => (0%nat, sls)
  end.

Fixpoint trn (M : mapper) (t : tree) {struct t} : tree :=
  match t with
  | T k u lbl src tm grp lits alt slots =>
      match tm with
      | TN | TS =>
          let new := map (fun sl =>
                       flat_map (fun c =>
                         match M (uid c) with
                         | None => [trn M c]
                         | Some ADrop => []
                         | Some (AOne r) => [r]
                         | Some (AMany rs) => map (fun r => if uid r =? uid c then trn M c else r) rs
                         end) sl) slots in
          let '(grp', slots') := strip_grp grp new in
          let src' := match tm, src with
                      | TN, Some s => if is_valid s && has_node_child slots' then Some (invalidate true s) else src
                      | _, _ => src
                      end in
          T k u lbl src' tm grp' lits alt slots'
      | TO => T k u lbl (match src with
                         | Some s => if is_valid s then Some (invalidate true s) else src
                         | None => None
                         end) tm grp lits alt slots
      | _ => t
      end
  end.

Definition trslot (M : mapper) (sl : list tree) : list tree :=
  flat_map (fun c =>
    match M (uid c) with
    | None => [trn M c]
    | Some ADrop => []
    | Some (AOne r) => [r]
    | Some (AMany rs) => map (fun r => if uid r =? uid c then trn M c else r) rs
    end) sl.

Fixpoint has_sel (sel : Z -> bool) (t : tree) : bool :=
  existsb (existsb (fun c => sel (uid c) || has_sel sel c)) (slots_of t).

(** the caller's part: Transformer(M).visit(section) for the selected sections, the result is assigned back and every
    enclosing unit / contains-section / file section is marked INVALID_CHILDREN (loki/backend/tests/test_conservative.py) *)
Fixpoint tr (sel : Z -> bool) (M : mapper) (t : tree) {struct t} : tree :=
  match t with
  | T k u lbl src tm grp lits alt slots =>
      if sel u then trn M t
      else if has_sel sel t then T k u lbl (set_children_invalid src) tm grp lits alt (map (map (tr sel M)) slots)
      else t
  end.

Definition in_list (l : list Z) (u : Z) : bool := existsb (Z.eqb u) l.

Definition pass := (list Z * list (Z * action))%type.
Definition run_passes (ps : list pass) (t : tree) : tree :=
  fold_left (fun t p => tr (in_list (fst p)) (lookup (snd p)) t) ps t.

(** * the expected text after an edit: the frame of every node comes from its own text, the blocks of replaced
      children are the printed replacements, everything else is the children's own text *)
Definition mapped (M : mapper) (t : tree) : bool := match M (uid t) with Some _ => true | None => false end.

Fixpoint touched (M : mapper) (t : tree) : bool :=
  match tm_of t with
  | TN | TS => existsb (existsb (fun c => mapped M c || touched M c)) (slots_of t)
  | _ => false
  end.

Definition sitem (dir : bool) (lbl : option string) (p : option text) : option text :=
  match p with Some x => if dir then Some x else apply_label lbl x | None => None end.

Fixpoint spl (strong : bool) (M : mapper) (ei : bool) (t : tree) {struct t} : option text :=
  match t with
  | T k u lbl src tm grp lits alt slots =>
      match tm with
      | TN | TS =>
          if forallb is_nil slots then (if strong then text_of t else cp ei t)
          else
            let md := fmode k src in
            match omapi (fun i sl =>
                    match child_ei k md ei i with
                    | None => None
                    | Some e =>
                        match sl with
                        | [] => Some []
                        | _ =>
                          match omap (fun c =>
                                  match M (uid c) with
                                  | None => option_map (fun x => [x]) (sitem (direct k i) (lbl_of c) (spl strong M e c))
                                  | Some ADrop => Some []
                                  | Some (AOne r) => option_map (fun x => [x]) (sitem (direct k i) (lbl_of r) (cp e r))
                                  | Some (AMany rs) =>
                                      omap (fun r => if uid r =? uid c
                                                     then sitem (direct k i) (lbl_of c) (spl strong M e c)
                                                     else sitem (direct k i) (lbl_of r) (cp e r)) rs
                                  end) sl with
                          | Some parts =>
                              let blocks := List.concat parts in
                              match blocks with
                              | [] => Some []
                              | _ => let out := List.concat blocks in
                                     Some (if direct k i then out else match out with [] => [EmptyString] | _ => out end)
                              end
                          | None => None
                          end
                        end
                    end) 0%nat slots with
            | Some ps => assemble k src lits alt (map sinfo (snd (strip_grp grp (map (trslot M) slots)))) md ei ps
            | None => None
            end
      | TO => if strong then text_of t else cp ei (trn M t)
      | _ => if strong then text_of t else cp ei t
      end
  end.

(** * class of edits for which the expected text is what is printed *)
(** a node the Transformer walks over and that has children: it must end up in the mode its text is framed for;
    an untouched leaf / opaque node must print its own text *)
Fixpoint nt (strong : bool) (M : mapper) (ei : bool) (t : tree) {struct t} : bool :=
  match t with
  | T k u lbl src tm grp lits alt slots =>
      match tm with
      | TN | TS =>
          Nat.eqb grp 0 &&
          if forallb is_nil slots then (if strong then verb ei t else true)
          else
            mode_eqb (mode_of k (src_of (trn M t))) (fmode k src) &&
            (if strong then negb (is_leaf_kind k) && tiled1 t else true) &&
            forallbi (fun i sl =>
              match child_ei k (fmode k src) ei i with
              | None => negb strong
              | Some e => forallb (fun c =>
                            match M (uid c) with
                            | None => nt strong M e c
                            | Some (AMany rs) => implb (existsb (fun r => uid r =? uid c) rs) (nt strong M e c)
                            | _ => true
                            end) sl
              end) 0%nat slots
      | TO => if strong then verb ei (trn M t) else true
      | _ => if strong then verb ei t else true
      end
  end.

(** the same above the transformed sections (program units, contains-sections, the file section) *)
Fixpoint splp (strong : bool) (sel : Z -> bool) (M : mapper) (t : tree) {struct t} : option text :=
  match t with
  | T k u lbl src tm grp lits alt slots =>
      if sel u then spl strong M false t
      else if has_sel sel t then
        match omapi (fun i sl => match child_ei k (fmode k src) false i with
                                 | Some e => if e then None else pslot (direct k i) (splp strong sel M) sl
                                 | None => None
                                 end) 0%nat slots with
        | Some ps => assemble k src lits alt (map sinfo (map (map (tr sel M)) slots)) (fmode k src) false ps
        | None => None
        end
      else if strong then text_of t else cp false t
  end.

Fixpoint ntp (strong : bool) (sel : Z -> bool) (M : mapper) (t : tree) {struct t} : bool :=
  match t with
  | T k u lbl src tm grp lits alt slots =>
      if sel u then nt strong M false t
      else if has_sel sel t then
        mode_eqb (mode_of k (set_children_invalid src)) (fmode k src) &&
        (if strong then negb (is_leaf_kind k) && tiled1 t else true) &&
        forallbi (fun i sl => match child_ei k (fmode k src) false i with
                              | Some false => forallb (ntp strong sel M) sl
                              | _ => false
                              end) 0%nat slots
      else if strong then verb false t else true
  end.

(** * comparators used by the correspondence *)
Definition otext_eqb (a b : option text) : bool :=
  match a, b with Some x, Some y => text_eqb x y | None, None => true | _, _ => false end.

Definition ostring_eqb (a b : option string) : bool :=
  match a, b with Some x, Some y => String.eqb x y | None, None => true | _, _ => false end.

Definition kind_eqb (a b : kind) : bool :=
  match a, b with
  | KLeaf, KLeaf | KComment, KComment | KSection, KSection | KLoop, KLoop | KCond, KCond | KCondEI, KCondEI
  | KSub, KSub | KMod, KMod | KFunc, KFunc | KOther, KOther => true
  | _, _ => false
  end.

Definition is_tx (m : tmode) : bool := match m with TX => true | _ => false end.
Definition tmode_eqb (a b : tmode) : bool :=
  match a, b with TN, TN | TS, TS | TP, TP | TX, TX | TO, TO => true | _, _ => false end.

Definition src_eqb (ign_status : bool) (a b : option source) : bool :=
  match a, b with
  | None, None => true
  | Some x, Some y => (s_l0 x =? s_l0 y) && (s_l1 x =? s_l1 y) && text_eqb (s_txt x) (s_txt y)
                      && (ign_status || status_eqb (s_st x) (s_st y))
  | _, _ => false
  end.

Section FORALLB2.
  Context {A : Type} (f : A -> A -> bool).
  Fixpoint forallb2 (a b : list A) : bool :=
    match a, b with
    | [], [] => true
    | x :: a', y :: b' => f x y && forallb2 a' b'
    | _, _ => false
    end.
End FORALLB2.

(** same shape, kinds, uids, labels, sources and statuses (templates are not compared; the status of an opaque node is not) *)
Fixpoint skel_eqb (a b : tree) {struct a} : bool :=
  match a, b with
  | T k u lbl src tm _ _ _ slots, T k' u' lbl' src' tm' _ _ _ slots' =>
      kind_eqb k k' && (u =? u') && ostring_eqb lbl lbl' && src_eqb (is_tx tm) src src'
      && forallb2 (forallb2 skel_eqb) slots slots'
  end.

(** texts are compared modulo empty lines at the very end (the final newline of a file is re-added by Sourcefile.to_file) *)
Fixpoint drop_empty_front (r : list string) : list string :=
  match r with
  | s :: ((_ :: _) as r') => if String.eqb s EmptyString then drop_empty_front r' else r
  | _ => r
  end.
Definition strip_nl (x : text) : text := rev (drop_empty_front (rev x)).

(** (b): the model prints what the implementation printed; the tiling verdict is the one the harness recorded *)
Definition chk_print (t : tree) (out : option text) (is_tiled is_verb : bool) : bool :=
  otext_eqb (option_map strip_nl (cons_print t)) out && Bool.eqb (tiled t) is_tiled && Bool.eqb (verb false t) is_verb.

(** (c): the model's Transformer reproduces structure and statuses of the real result, the model prints what the
    implementation printed for it, and the class verdict is the recorded one *)
Fixpoint in_class (strong : bool) (ps : list pass) (t : tree) : bool :=
  match ps with
  | [] => true
  | p :: r => ntp strong (in_list (fst p)) (lookup (snd p)) t
              && in_class strong r (tr (in_list (fst p)) (lookup (snd p)) t)
  end.

Definition chk_edit (pre : tree) (ps : list pass) (post : tree) (out : option text) (cls scls : bool) : bool :=
  skel_eqb (run_passes ps pre) post && otext_eqb (option_map strip_nl (cons_print post)) out
  && Bool.eqb (in_class false ps pre) cls && Bool.eqb (in_class true ps pre) scls.

(** * literals of the case files
    One string table per case: the lines of the file followed by every other line that occurs (templates, output);
    it is written as one packed blob (7 bytes per 63-bit word, little endian, first word = length) because ordinary
    string literals make coqc spend minutes on parsing; texts are lists of (offset, length) runs of that table. *)
Definition byte_of (w : int) : ascii := ascii_of_N (Z.to_N (Uint63.to_Z (Uint63.land w 255))).
Fixpoint dec_word (k : nat) (w : int) (rest : string) : string :=
  match k with O => rest | S k' => String (byte_of w) (dec_word k' (Uint63.lsr w 8) rest) end.
Fixpoint dec_words (n : nat) (ws : list int) : string :=
  match ws with
  | [] => EmptyString
  | w :: r => if Nat.leb n 7 then dec_word n w EmptyString else dec_word 7 w (dec_words (n - 7) r)
  end.
Definition dtab (ws : list int) : list string :=
  match ws with [] => [] | n :: r => split_nl (dec_words (Z.to_nat (Uint63.to_Z n)) r) end.

Definition sl (L : list string) (o n : nat) : text := firstn n (skipn o L).
Definition tx (L : list string) (segs : list (Z * Z)) : text :=
  flat_map (fun p => sl L (Z.to_nat (fst p)) (Z.to_nat (snd p))) segs.
Definition g (L : list string) (i : Z) : string := nth (Z.to_nat i) L EmptyString.
(** abbreviations for the most frequent node shapes *)
Definition src1 (L : list string) (l0 l1 o n : Z) (st : status) : option source :=
  Some (mkSrc l0 l1 (sl L (Z.to_nat o) (Z.to_nat n)) st).
Definition lf (L : list string) (k : kind) (u l0 l1 o n : Z) (st : status) : tree :=
  T k u None (src1 L l0 l1 o n st) TN 0 [[]] [] [].

(** * which nodes are emitted while [t] is printed *)
(** slot [i] of a node printed in mode [md] contributes its printed text to the output *)
Definition used_slot (k : kind) (md : mode) (i : nat) : bool :=
  match md, k with
  | MC, KLoop => Nat.eqb i 0
  | MC, (KCond | KCondEI) => Nat.ltb i 2
  | MC, KSub => Nat.ltb i 4
  | MC, KMod => Nat.eqb i 1 || Nat.eqb i 2
  | MC, _ => false
  | _, (KSub | KFunc) => Nat.ltb i 4
  | _, _ => true
  end.

(** [emits ei t n]: while [t] is printed (kwargs flag [ei]) the printer visits [n] as an unlabelled item *)
Inductive emits : bool -> tree -> tree -> Prop :=
| emits_here : forall ei t, emits ei t t
| emits_down : forall ei t i sl c e n,
    mode_of (kind_of t) (src_of t) <> MT ->
    nth_error (slots_of t) i = Some sl ->
    used_slot (kind_of t) (mode_of (kind_of t) (src_of t)) i = true ->
    In c sl ->
    (direct (kind_of t) i = true \/ lbl_of c = None) ->
    child_ei (kind_of t) (mode_of (kind_of t) (src_of t)) ei i = Some e ->
    emits e c n ->
    emits ei t n.
