(** C44 — parallel JIT library build (loki/jit_build: Lib.build/_build_objs, Builder.get_dependency_graph,
    Obj.__new__/dependencies/build, workqueue).  Definitions only.

    Two layers:
    - the *project* layer: source files with module definitions / USE names / included headers, and the way
      [Obj.__new__] + [Obj.dependencies] + [Builder.get_dependency_graph] turn them into a graph of objects
      keyed by lower-cased *name* (file stem or USE name);
    - the *protocol* layer: the main thread of [_build_objs] walking the order, waiting on [dep.q_task] and
      submitting compile tasks, and a pool of N workers starting / finishing tasks in any interleaving. *)
From Coq Require Import List Bool String Ascii Arith PeanoNat.
From LV Require Import Base.Strings.
Import ListNotations.
Open Scope list_scope.

Definition node := string.

Inductive event :=
| ESubmit (o : node)    (* main thread: Obj.build -> compiler.compile_args -> workqueue.execute *)
| EStart (o : node)     (* a worker picked the task: the compiler process starts *)
| EFinish (o : node).   (* the compiler process has written all its outputs and ends *)

Definition ev_eqb (a b : event) : bool :=
  match a, b with
  | ESubmit x, ESubmit y => String.eqb x y
  | EStart x, EStart y => String.eqb x y
  | EFinish x, EFinish y => String.eqb x y
  | _, _ => false
  end.

Fixpoint count_ev (e : event) (l : list event) : nat :=
  match l with
  | [] => 0
  | x :: r => (if ev_eqb e x then 1 else 0) + count_ev e r
  end.

Fixpoint mem (x : node) (l : list node) : bool :=
  match l with
  | [] => false
  | y :: r => String.eqb x y || mem x r
  end.

(** remove the first occurrence *)
Fixpoint remove1 (x : node) (l : list node) : option (list node) :=
  match l with
  | [] => None
  | y :: r => if String.eqb x y then Some r
              else match remove1 x r with Some r' => Some (y :: r') | None => None end
  end.

(** ------------------------------------------------------------------ *)
(** * Protocol layer *)

(** [todo]: the not yet visited suffix of [order] (position of the main thread's loop);
    [queued]/[running]/[done]: tasks handed to the executor (obj.q_task is not None), by status;
    [log]: chronological event log. *)
Record state := mkState {
  todo : list node; queued : list node; running : list node; done : list node; log : list event }.

Section Proto.
  Variable src : node -> bool.          (* obj.source_path is not None *)
  Variable deps : node -> list node.    (* obj.obj_dependencies, as names *)
  Variable stale : list node.           (* objects whose q_task still holds the finished future of an earlier
                                           build of the same Obj instances (empty in a fresh process / after
                                           Obj.clear_cache or when every Obj(...) has been re-created) *)
  Variable N : nat.                     (* max_workers of the ProcessPoolExecutor *)

  Definition in_flight (s : state) : list node := queued s ++ running s ++ done s.
  (** obj.q_task is not None *)
  Definition submitted (s : state) (o : node) : bool := mem o stale || mem o (in_flight s).
  (** wait_and_check(dep.q_task) returns: the task is None, or its future has finished *)
  Definition dep_ready (s : state) (d : node) : bool := negb (submitted s d) || mem d (done s) || mem d stale.
  Definition can_submit (s : state) (o : node) : bool := forallb (dep_ready s) (deps o).
  (** the loop body's guard [if obj.source_path and obj.q_task is None] is false *)
  Definition skippable (s : state) (o : node) : bool := negb (src o) || submitted s o.

  Inductive step : state -> state -> Prop :=
  | step_skip : forall o r q ru d l,
      skippable (mkState (o :: r) q ru d l) o = true ->
      step (mkState (o :: r) q ru d l) (mkState r q ru d l)
  | step_submit : forall o r q ru d l,
      skippable (mkState (o :: r) q ru d l) o = false ->
      can_submit (mkState (o :: r) q ru d l) o = true ->
      step (mkState (o :: r) q ru d l) (mkState r (q ++ [o]) ru d (l ++ [ESubmit o]))
  | step_start : forall o t q1 q2 ru d l,
      List.length ru < N ->
      step (mkState t (q1 ++ o :: q2) ru d l) (mkState t (q1 ++ q2) (o :: ru) d (l ++ [EStart o]))
  | step_finish : forall o t q r1 r2 d l,
      step (mkState t q (r1 ++ o :: r2) d l) (mkState t q (r1 ++ r2) (o :: d) (l ++ [EFinish o])).

  Definition init (order : list node) : state := mkState order [] [] [] [].

  Inductive reach (order : list node) : state -> Prop :=
  | reach_init : reach order (init order)
  | reach_step : forall s s', reach order s -> step s s' -> reach order s'.

  Inductive steps : nat -> state -> state -> Prop :=
  | steps_O : forall s, steps 0 s s
  | steps_S : forall n s s' s'', step s s' -> steps n s' s'' -> steps (S n) s s''.

  (** the loop is over, the final "wait for every task" has returned *)
  Definition is_final (s : state) : bool :=
    match todo s, queued s, running s with [], [], [] => true | _, _, _ => false end.

  Definition work_left (s : state) : nat := 3 * List.length (todo s) + 2 * List.length (queued s) + List.length (running s).

  (** reverse-topological order predicate, checked on the real order of every run
      (networkx' topological_sort is an oracle): no repetition, and every dependency that has a source
      comes earlier. *)
  Fixpoint is_topo_aux (seen l : list node) : bool :=
    match l with
    | [] => true
    | o :: r => negb (mem o seen)
                && forallb (fun d => negb (src d) || mem d seen) (deps o)
                && is_topo_aux (o :: seen) r
    end.
  Definition is_topo (order : list node) : bool := is_topo_aux [] order.

  (** what the serial path ([_build_objs(queue=None)], q_task stays None during the loop) compiles, in order *)
  Definition serial_build (order : list node) : list node := filter src order.
  (** what a build that starts with the futures of [stale] still attached compiles *)
  Definition par_build (order : list node) : list node :=
    filter (fun o => src o && negb (mem o stale)) order.

  (** ** executable acceptor for an observed event log *)
  Fixpoint skip_until (sk : node -> bool) (o : node) (t : list node) : option (list node) :=
    match t with
    | [] => None
    | x :: r => if sk x then skip_until sk o r
                else if String.eqb x o then Some r else None
    end.

  Definition acc_step (s : state) (e : event) : option state :=
    match e with
    | ESubmit o =>
        match skip_until (skippable s) o (todo s) with
        | Some r => if can_submit s o
                    then Some (mkState r (queued s ++ [o]) (running s) (done s) (log s ++ [e]))
                    else None
        | None => None
        end
    | EStart o =>
        match remove1 o (queued s) with
        | Some q' => if Nat.ltb (List.length (running s)) N
                     then Some (mkState (todo s) q' (o :: running s) (done s) (log s ++ [e]))
                     else None
        | None => None
        end
    | EFinish o =>
        match remove1 o (running s) with
        | Some r' => Some (mkState (todo s) (queued s) r' (o :: done s) (log s ++ [e]))
        | None => None
        end
    end.

  Fixpoint acc_run (s : state) (tr : list event) : option state :=
    match tr with
    | [] => Some s
    | e :: r => match acc_step s e with Some s' => acc_run s' r | None => None end
    end.

  Definition is_nil (l : list node) : bool := match l with [] => true | _ => false end.

  (** the log is a complete run: every event is an enabled transition (the skips of the main thread are
      silent) and at the end the loop can run out and nothing is queued or running *)
  Definition accept (order : list node) (tr : list event) : option state :=
    match acc_run (init order) tr with
    | Some s => if forallb (skippable s) (todo s) && is_nil (queued s) && is_nil (running s)
                then Some (mkState [] [] [] (done s) (log s)) else None
    | None => None
    end.
End Proto.

(** ------------------------------------------------------------------ *)
(** * Project layer *)

(** a source file: stem of the file name, module names it defines, names in its USE statements (as spelled),
    names of the headers it #includes (as looked up by Header(name=...)) *)
Record file := mkFile { f_stem : string; f_mods : list string; f_uses : list string; f_incs : list string }.
(** headers known to the builder (include_dirs): lower-cased name, module names USEd inside *)
Record project := mkProj { p_files : list file; p_hdrs : list (string * list string) }.

(** Obj.__new__: objects are cached by lower-cased name; the Builder creates one per source file first *)
Fixpoint find_file (fs : list file) (n : node) : option file :=
  match fs with
  | [] => None
  | f :: r => if String.eqb (lower (f_stem f)) n then Some f else find_file r n
  end.

Fixpoint hdr_uses (hs : list (string * list string)) (h : string) : list string :=
  match hs with
  | [] => []
  | (k, us) :: r => if String.eqb k (lower h) then us else hdr_uses r h
  end.

(** Obj.dependencies: own USE names plus the USE names of included headers *)
Definition all_uses (p : project) (f : file) : list string :=
  f_uses f ++ flat_map (hdr_uses (p_hdrs p)) (f_incs f).

Definition p_src (p : project) (n : node) : bool :=
  match find_file (p_files p) n with Some _ => true | None => false end.
(** get_dependency_graph: node = Obj(name=dep), i.e. the lower-cased USE name; no source => no dependencies *)
Definition p_deps (p : project) (n : node) : list node :=
  match find_file (p_files p) n with Some f => map lower (all_uses p f) | None => [] end.

(** the dependency the property talks about: [o] uses a module that file [g] provides *)
Definition true_dep (p : project) (o g : node) : Prop :=
  exists fo fg m, find_file (p_files p) o = Some fo /\ In fg (p_files p) /\ g = lower (f_stem fg)
                  /\ In m (all_uses p fo) /\ In (lower m) (map lower (f_mods fg)).

(** class where name resolution finds the provider: every module is defined in the file named after it *)
Definition conv_ok (p : project) : bool :=
  forallb (fun f => forallb (fun m => String.eqb (lower m) (lower (f_stem f))) (f_mods f)) (p_files p).

(** Builder.get_dependency_graph: breadth-first closure from the root objects *)
Fixpoint closure (fuel : nat) (p : project) (q seen : list node) : list node :=
  match fuel with
  | O => seen
  | S k => match q with
           | [] => seen
           | n :: r => if mem n seen then closure k p r seen
                       else closure k p (r ++ p_deps p n) (seen ++ [n])
           end
  end.
Definition total_uses (p : project) : nat :=
  fold_right (fun f a => List.length (all_uses p f) + a) 0 (p_files p).
Definition graph_nodes (p : project) (roots : list node) : list node :=
  closure (S (List.length roots + total_uses p + List.length (p_files p))) p roots [].
Definition graph_edges (p : project) (roots : list node) : list (node * node) :=
  flat_map (fun n => map (fun d => (n, d)) (p_deps p n)) (graph_nodes p roots).

(** objects that keep a finished future when the same Lib is built again in the same process:
    Obj.__init__ (re-run by every Obj(name=dep) in get_dependency_graph) resets q_task only for objects that
    are a dependency of something; the other roots keep theirs *)
Definition stale_after (p : project) (roots : list node) : list node :=
  filter (fun r => p_src p r && negb (existsb (fun e => String.eqb (snd e) r) (graph_edges p roots))) roots.

Definition order_ok (p : project) (roots order : list node) : bool :=
  is_topo (p_src p) (p_deps p) order && forallb (fun r => mem r order) roots.

(** ------------------------------------------------------------------ *)
(** * Correspondence entry points (evaluated by vm_compute) *)

Definition subset (a b : list node) : bool := forallb (fun x => mem x b) a.
Definition same_set (a b : list node) : bool := subset a b && subset b a.
Definition pair_eqb (a b : node * node) : bool := String.eqb (fst a) (fst b) && String.eqb (snd a) (snd b).
Definition pmem (x : node * node) (l : list (node * node)) : bool := existsb (pair_eqb x) l.
Definition same_pairs (a b : list (node * node)) : bool :=
  forallb (fun x => pmem x b) a && forallb (fun x => pmem x a) b.

(** the graph built by Builder.get_dependency_graph: nodes with their has-source flag, and edges *)
Definition chk_graph (p : project) (roots : list node)
           (impl_nodes : list (node * bool)) (impl_edges : list (node * node)) : bool :=
  same_set (graph_nodes p roots) (map fst impl_nodes)
  && forallb (fun nb => Bool.eqb (p_src p (fst nb)) (snd nb)) impl_nodes
  && same_pairs (graph_edges p roots) impl_edges.

(** an observed log of a build with [n] workers over [order] is a complete run of the protocol and ends having
    compiled exactly [compiled] (the objects the real build produced) *)
Definition chk_trace (p : project) (stale roots order : list node) (n : nat)
           (tr : list event) (compiled : list node) : bool :=
  order_ok p roots order
  && match accept (p_src p) (p_deps p) stale n order tr with
     | Some s => same_set (done s) compiled
                 && same_set (done s) (par_build (p_src p) stale order)
     | None => false
     end.

(** second build through the same Obj instances: the model's stale set is what keeps its future *)
Definition chk_stale (p : project) (roots : list node) (impl_stale : list node) : bool :=
  same_set (stale_after p roots) impl_stale.

(** ------------------------------------------------------------------ *)
(** * Vocabulary of the property statements *)

(** [s] is a state some interleaving of the build of project [p] can be in: [n] workers, the main thread walks
    [order], [stale] = objects that still carry a finished future when the build begins *)
Definition run_of (p : project) (stale : list node) (n : nat) (order : list node) (s : state) : Prop :=
  reach (p_src p) (p_deps p) stale n order s.

(** every occurrence of [b] in the chronological log [l] has an [a] before it *)
Definition precedes (a b : event) (l : list event) : Prop :=
  forall t1 t2, l = t1 ++ b :: t2 -> In a t1.

(** a log that ends early (the real build raised): every event so far is an enabled transition *)
Definition chk_prefix (p : project) (stale roots order : list node) (n : nat) (tr : list event) : bool :=
  order_ok p roots order
  && match acc_run (p_src p) (p_deps p) stale n (init order) tr with Some _ => true | None => false end.
