(** C12 — symbol tables (loki/types/symbol_table.py, loki/types/scope.py) and the
    case-insensitive dictionaries (loki/tools/util.py) as executable models.
    Definitions only.

    The step functions are written ONCE, generically over the representation of a
    table ([tops]): the *model* instantiates it with insertion-ordered association
    lists (a Python dict), the *specification* with total functions
    folded-name -> option value.  A flag [quirk] keeps the pre-0d55598 behaviour of
    SymbolTable.clone() expressible (only to state what was wrong, cf. [mouts_old]). *)
From Coq Require Import ZArith String Ascii List Bool Arith.
From LV Require Import Base.Strings.
Import ListNotations.
Open Scope string_scope.
Open Scope list_scope.

(* ------------------------------------------------------------------------- *)
(** * Insertion-ordered association lists = Python dicts *)
Section AList.
  Context {K V : Type}.
  Variable eqb : K -> K -> bool.

  Fixpoint al_get (k : K) (l : list (K * V)) : option V :=
    match l with
    | [] => None
    | (k', v) :: r => if eqb k k' then Some v else al_get k r
    end.

  (** overwrite keeps the position (and the key object) of the first insertion, a new key goes last *)
  Fixpoint al_set (k : K) (v : V) (l : list (K * V)) : list (K * V) :=
    match l with
    | [] => [(k, v)]
    | (k', v') :: r => if eqb k k' then (k', v) :: r else (k', v') :: al_set k v r
    end.

  Definition al_del (k : K) (l : list (K * V)) : list (K * V) :=
    filter (fun p => negb (eqb k (fst p))) l.

  Definition al_isempty (l : list (K * V)) : bool :=
    match l with [] => true | _ => false end.
End AList.

(** the operations a table representation has to offer *)
Record tops (K V T : Type) := mkTops {
  tget : K -> T -> option V;
  tset : K -> V -> T -> T;
  tdel : K -> T -> T;
  tnew : T;
  tisempty : T -> bool      (* only consulted when the quirks are switched on *)
}.
Arguments tget {K V T}. Arguments tset {K V T}. Arguments tdel {K V T}.
Arguments tnew {K V T}. Arguments tisempty {K V T}.

Definition al_ops {K V} (eqb : K -> K -> bool) : tops K V (list (K * V)) :=
  mkTops K V _ (al_get eqb) (al_set eqb) (al_del eqb) [] al_isempty.

(** the abstract mapping: a total function from (folded) keys *)
Definition fn_ops {K V} (eqb : K -> K -> bool) : tops K V (K -> option V) :=
  mkTops K V _
    (fun k f => f k)
    (fun k v f => fun k' => if eqb k' k then Some v else f k')
    (fun k f => fun k' => if eqb k' k then None else f k')
    (fun _ => None)
    (fun _ => false).

(* ------------------------------------------------------------------------- *)
(** * Symbol tables and scopes *)

(** SymbolTable._not_case_sensitive_format_lookup_name: lower(), then partition('(')[0] *)
Definition fmt (n : string) : string := cut_paren (lower n).

(** observable content of a SymbolAttributes object: (code of the BasicType, value of the attribute [tag]) *)
Definition val := (Z * option Z)%type.
Definition deferred : val := (0%Z, None).     (* SymbolAttributes(BasicType.DEFERRED) *)

Inductive err := EKey | EValue | EType | EOther.
Inductive out :=
| OutNone                         (* Python None (also: statement-like operations) *)
| OutDefault                      (* the caller's default object was handed back *)
| OutBool (b : bool)
| OutObj (r : nat) (v : val)      (* a SymbolAttributes object the caller now holds: new reference r, content v *)
| OutTab (i : nat)                (* a table / scope *)
| OutErr (e : err)                (* KeyError / ValueError / TypeError *)
| OutBad                          (* operation not expressible on this state (dangling index); never generated *)
| OutDiverge.                     (* parent chain did not end: RecursionError / endless loop *)

(** keyword [parent] of SymbolTable.clone: absent, or given explicitly *)
Inductive pkw := PKeep | PSet (p : option nat).

Inductive op :=
| ONew (v : val)                                   (* caller creates SymbolAttributes(dtype, tag=..) *)
| OMutate (r : nat) (v : val)                      (* caller mutates an object it holds *)
| ONewScope (p : option nat)                       (* Scope(parent=p) *)
| OSet (t : nat) (n : string) (r : nat)            (* table[n] = obj_r *)
| OSetDefault (t : nat) (n : string) (r : option nat)
| OUpdate (t : nat) (l : list (string * nat))      (* table.update(dict or pairs) *)
| OGetItem (t : nat) (n : string)                  (* table[n] *)
| OGet (t : nat) (n : string) (d : bool)           (* table.get(n[, default]) *)
| OLookup (t : nat) (n : string) (rec : bool)      (* table.lookup(n, recursive=rec) *)
| OContains (t : nat) (n : string)                 (* n in table *)
| ODel (t : nat) (n : string)                      (* del table[n] *)
| OPop (t : nat) (n : string) (d : bool)           (* table.pop(n[, default]) *)
| OClone (t : nat) (p : pkw)                       (* table.clone([parent=..]) *)
| OReparent (t : nat) (p : nat)                    (* scope_t._reset_parent(scope_p) *)
| ODeclare (t : nat) (n : string) (v : val) (fail : bool)                             (* Scope.declare *)
| OSUpdate (t : nat) (n : string) (fail : bool) (dt : option Z) (tg : option (option Z)) (* Scope.update *)
| OGetType (t : nat) (n : string) (rec fail : bool)                                   (* Scope.get_type *)
| OSymScope (t : nat) (n : string).                                                   (* Scope.get_symbol_scope *)

Fixpoint upd_nth {A} (l : list A) (i : nat) (f : A -> A) : list A :=
  match l, i with
  | [], _ => []
  | x :: r, O => f x :: r
  | x :: r, S j => x :: upd_nth r j f
  end.

Inductive lk := LFound (i : nat) (v : val) | LMissing | LDiverge.

Section Sym.
  Context {T : Type}.
  Variable P : tops string val T.
  (** [quirk = true]: the behaviour BEFORE commit 0d55598 — SymbolTable.clone() tested [if self.parent], an EMPTY
      parent table is falsy and the link was dropped.  The code now tests [is not None]: the model uses [quirk = false]. *)
  Variable quirk : bool.

  Record gtab := mkTab { t_ents : T; t_parent : option nat; t_scoped : bool }.
  (** objects held by the caller (index = reference) and all tables ever created (index = table id) *)
  Record gstate := mkSt { st_objs : list val; st_tabs : list gtab }.

  Definition init : gstate := mkSt [] [].

  Definition with_ents (s : gstate) (t : nat) (f : T -> T) : gstate :=
    mkSt (st_objs s) (upd_nth (st_tabs s) t (fun tb => mkTab (f (t_ents tb)) (t_parent tb) (t_scoped tb))).
  Definition alloc (s : gstate) (v : val) : gstate := mkSt (st_objs s ++ [v]) (st_tabs s).
  Definition give (s : gstate) (v : val) : gstate * out := (alloc s v, OutObj (length (st_objs s)) v).

  (** _lookup_formatted_name along the parent links; one unit of fuel per visited table *)
  Fixpoint chain_find (fuel : nat) (ts : list gtab) (t : nat) (k : string) : lk :=
    match fuel with
    | O => LDiverge
    | S f =>
      match nth_error ts t with
      | None => LMissing
      | Some tb =>
        match tget P k (t_ents tb) with
        | Some v => LFound t v
        | None => match t_parent tb with Some p => chain_find f ts p k | None => LMissing end
        end
      end
    end.

  (** the tables visited, innermost first *)
  Fixpoint chain (fuel : nat) (ts : list gtab) (t : nat) : list nat :=
    match fuel with
    | O => []
    | S f =>
      match nth_error ts t with
      | None => []
      | Some tb => t :: match t_parent tb with Some p => chain f ts p | None => [] end
      end
    end.

  (** what table [i] binds to the folded name [k] *)
  Definition tab_has (ts : list gtab) (i : nat) (k : string) : option val :=
    match nth_error ts i with Some tb => tget P k (t_ents tb) | None => None end.

  Definition find_in (s : gstate) (t : nat) (k : string) (rec : bool) : lk :=
    if rec then chain_find (S (length (st_tabs s))) (st_tabs s) t k
    else match nth_error (st_tabs s) t with
         | Some tb => match tget P k (t_ents tb) with Some v => LFound t v | None => LMissing end
         | None => LMissing
         end.

  Definition parent_empty (s : gstate) (q : nat) : bool :=
    match nth_error (st_tabs s) q with Some tb => tisempty P (t_ents tb) | None => false end.

  Definition is_scoped (s : gstate) (t : nat) : bool :=
    match nth_error (st_tabs s) t with Some tb => t_scoped tb | None => false end.

  (** SymbolAttributes.clone( **kwargs ) as used by Scope.update *)
  Definition merge (v : val) (dt : option Z) (tg : option (option Z)) : val :=
    (match dt with Some d => d | None => fst v end, match tg with Some x => x | None => snd v end).

  Definition step (s : gstate) (o : op) : gstate * out :=
    let bad := (s, OutBad) in
    match o with
    | ONew v => give s v
    | OMutate r v =>
        if (r <? length (st_objs s))%nat then (mkSt (upd_nth (st_objs s) r (fun _ => v)) (st_tabs s), OutNone) else bad
    | ONewScope p =>
        if match p with None => true | Some q => is_scoped s q end
        then (mkSt (st_objs s) (st_tabs s ++ [mkTab (tnew P) p true]), OutTab (length (st_tabs s)))
        else bad
    | OSet t n r =>
        match nth_error (st_tabs s) t, nth_error (st_objs s) r with
        | Some _, Some v => (with_ents s t (tset P (fmt n) v), OutNone)
        | _, _ => bad
        end
    | OSetDefault t n r =>
        match nth_error (st_tabs s) t, (match r with None => Some deferred | Some r => nth_error (st_objs s) r end) with
        | Some tb, Some v =>
            match tget P (fmt n) (t_ents tb) with
            | Some _ => (s, OutNone)
            | None => (with_ents s t (tset P (fmt n) v), OutNone)
            end
        | _, _ => bad
        end
    | OUpdate t l =>
        match nth_error (st_tabs s) t with
        | Some _ =>
            if forallb (fun p => (snd p <? length (st_objs s))%nat) l
            then (with_ents s t (fun e => fold_left (fun e p => tset P (fmt (fst p)) (nth (snd p) (st_objs s) deferred) e) l e), OutNone)
            else bad
        | None => bad
        end
    | OGetItem t n =>
        match nth_error (st_tabs s) t with
        | Some tb => match tget P (fmt n) (t_ents tb) with Some v => give s v | None => (s, OutErr EKey) end
        | None => bad
        end
    | OGet t n d =>
        match nth_error (st_tabs s) t with
        | Some tb => match tget P (fmt n) (t_ents tb) with
                     | Some v => give s v
                     | None => (s, if d then OutDefault else OutNone)
                     end
        | None => bad
        end
    | OLookup t n rec =>
        match nth_error (st_tabs s) t with
        | Some _ => match find_in s t (fmt n) rec with
                    | LFound _ v => give s v
                    | LMissing => (s, OutNone)
                    | LDiverge => (s, OutDiverge)
                    end
        | None => bad
        end
    | OContains t n =>
        match nth_error (st_tabs s) t with
        | Some tb => (s, OutBool (match tget P (fmt n) (t_ents tb) with Some _ => true | None => false end))
        | None => bad
        end
    | ODel t n =>
        match nth_error (st_tabs s) t with
        | Some tb => match tget P (fmt n) (t_ents tb) with
                     | Some _ => (with_ents s t (tdel P (fmt n)), OutNone)
                     | None => (s, OutErr EKey)
                     end
        | None => bad
        end
    | OPop t n d =>
        match nth_error (st_tabs s) t with
        | Some tb => match tget P (fmt n) (t_ents tb) with
                     | Some v => give (with_ents s t (tdel P (fmt n))) v
                     | None => (s, if d then OutDefault else OutErr EKey)
                     end
        | None => bad
        end
    | OClone t pk =>
        match nth_error (st_tabs s) t with
        | Some tb =>
            let mk p := (mkSt (st_objs s) (st_tabs s ++ [mkTab (t_ents tb) p false]), OutTab (length (st_tabs s))) in
            match pk with
            | PSet None => mk None
            | PSet (Some p) => if (p <? length (st_tabs s))%nat then mk (Some p) else bad
            | PKeep => mk (match t_parent tb with
                           | Some q => if quirk && parent_empty s q then None else Some q
                           | None => None
                           end)
            end
        | None => bad
        end
    | OReparent t p =>
        if is_scoped s t && is_scoped s p
        then (mkSt (st_objs s) (upd_nth (st_tabs s) t (fun tb => mkTab (t_ents tb) (Some p) (t_scoped tb))), OutNone)
        else bad
    | ODeclare t n v fail =>
        match nth_error (st_tabs s) t with
        | Some tb =>
            if t_scoped tb then
              if fail && (match tget P (fmt n) (t_ents tb) with Some _ => true | None => false end)
              then (s, OutErr EValue)
              else (with_ents s t (tset P (fmt n) v), OutNone)
            else bad
        | None => bad
        end
    | OSUpdate t n fail dt tg =>
        match nth_error (st_tabs s) t with
        | Some tb =>
            if t_scoped tb then
              match tget P (fmt n) (t_ents tb) with
              | Some v => (with_ents s t (tset P (fmt n) (merge v dt tg)), OutNone)
              | None =>
                  if fail then (s, OutErr EValue)
                  else match dt with
                       | Some d => (with_ents s t (tset P (fmt n) (d, match tg with Some x => x | None => None end)), OutNone)
                       | None => (s, OutErr EType)       (* SymbolAttributes( **kwargs ) without dtype *)
                       end
              end
            else bad
        | None => bad
        end
    | OGetType t n rec fail =>
        if is_scoped s t then
          match find_in s t (fmt n) rec with
          | LFound _ v => give s v
          | LMissing => (s, if fail then OutErr EKey else OutNone)
          | LDiverge => (s, OutDiverge)
          end
        else bad
    | OSymScope t n =>
        if is_scoped s t then
          match find_in s t (fmt n) true with
          | LFound i _ => (s, OutTab i)
          | LMissing => (s, OutNone)
          | LDiverge => (s, OutDiverge)
          end
        else bad
    end.

  (** a whole history: final state by fold_left, outputs in order *)
  Definition exec (s : gstate) (ops : list op) : gstate := fold_left (fun s o => fst (step s o)) ops s.
  Fixpoint outs (s : gstate) (ops : list op) : list out :=
    match ops with
    | [] => []
    | o :: r => snd (step s o) :: outs (fst (step s o)) r
    end.
End Sym.

Arguments mkTab {T}. Arguments mkSt {T}.
Arguments t_ents {T}. Arguments t_parent {T}. Arguments t_scoped {T}.
Arguments st_objs {T}. Arguments st_tabs {T}.

(** the model of the code and the specification *)
Definition atab := list (string * val).
Definition m_ops : tops string val atab := al_ops String.eqb.
Definition s_ops : tops string val (string -> option val) := fn_ops String.eqb.
Definition mstate := gstate (T := atab).
Definition sstate := gstate (T := string -> option val).
Definition minit : mstate := init.
Definition sinit : sstate := init.
Definition mstep : mstate -> op -> mstate * out := step m_ops false.
Definition sstep : sstate -> op -> sstate * out := step s_ops false.
Definition mexec := exec m_ops false.
Definition mouts := outs m_ops false.
Definition sexec := exec s_ops false.
Definition souts := outs s_ops false.
(** F7c (repaired by 0d55598): the association-list model with the old clone() *)
Definition mouts_old := outs m_ops true.

(** abstraction function: every association list is read as the function "first binding of the key" *)
Definition abs_tab (tb : gtab (T := atab)) : gtab (T := string -> option val) :=
  mkTab (fun k => al_get String.eqb k (t_ents tb)) (t_parent tb) (t_scoped tb).
Definition abs_state (s : mstate) : sstate := mkSt (st_objs s) (map abs_tab (st_tabs s)).

(** two operations that differ at most in the spelling of the names (same folded look-up name) *)
Definition same_key (a b : string) : Prop := fmt a = fmt b.
Inductive op_same : op -> op -> Prop :=
| os_refl o : op_same o o
| os_set t a b r : same_key a b -> op_same (OSet t a r) (OSet t b r)
| os_setdefault t a b r : same_key a b -> op_same (OSetDefault t a r) (OSetDefault t b r)
| os_update t l l' : Forall2 (fun p q => same_key (fst p) (fst q) /\ snd p = snd q) l l' -> op_same (OUpdate t l) (OUpdate t l')
| os_getitem t a b : same_key a b -> op_same (OGetItem t a) (OGetItem t b)
| os_get t a b d : same_key a b -> op_same (OGet t a d) (OGet t b d)
| os_lookup t a b r : same_key a b -> op_same (OLookup t a r) (OLookup t b r)
| os_contains t a b : same_key a b -> op_same (OContains t a) (OContains t b)
| os_del t a b : same_key a b -> op_same (ODel t a) (ODel t b)
| os_pop t a b d : same_key a b -> op_same (OPop t a d) (OPop t b d)
| os_declare t a b v f : same_key a b -> op_same (ODeclare t a v f) (ODeclare t b v f)
| os_supdate t a b f dt tg : same_key a b -> op_same (OSUpdate t a f dt tg) (OSUpdate t b f dt tg)
| os_gettype t a b r f : same_key a b -> op_same (OGetType t a r f) (OGetType t b r f)
| os_symscope t a b : same_key a b -> op_same (OSymScope t a) (OSymScope t b).

(** F7 (repaired by 32dff38): before the fix, __delitem__/pop were inherited from dict and used the key as written *)
Definition del_unfolded (tb : atab) (n : string) : option atab :=
  match al_get String.eqb n tb with Some _ => Some (al_del String.eqb n tb) | None => None end.

(* ------------------------------------------------------------------------- *)
(** * CaseInsensitiveDict / CaseInsensitiveDefaultDict *)

(** keys: strings are folded, anything else (an int, a tuple holding a string) is used as it is *)
Inductive dkey := KStr (s : string) | KInt (z : Z) | KTup (s : string).
Definition dkey_eqb (a b : dkey) : bool :=
  match a, b with
  | KStr x, KStr y => String.eqb x y
  | KInt x, KInt y => Z.eqb x y
  | KTup x, KTup y => String.eqb x y
  | _, _ => false
  end.
Definition dfold (k : dkey) : dkey := match k with KStr s => KStr (lower s) | _ => k end.

(** [fl_bulk_folds]: do update()/setdefault()/constructor data go through the folding __setitem__?
    True for the OrderedDict based class, False for the defaultdict based one (C-level dict.update/setdefault).
    [fl_factory]: default_factory of the defaultdict (a constant here). *)
Record flavour := mkFl { fl_bulk_folds : bool; fl_factory : option Z }.
Definition fl_ordered : flavour := mkFl true None.
Definition fl_default (f : option Z) : flavour := mkFl false f.

Inductive dop :=
| DSet (k : dkey) (v : Z)
| DGetItem (k : dkey)
| DGet (k : dkey) (d : bool)
| DContains (k : dkey)
| DDel (k : dkey)
| DPop (k : dkey) (d : bool)
| DSetDefault (k : dkey) (v : Z)
| DUpdate (l : list (dkey * Z)).
Inductive dout := RNone | RDefault | RBool (b : bool) | RVal (z : Z) | RKeyError.

Section Dict.
  Context {T : Type}.
  Variable P : tops dkey Z T.
  Variable fl : flavour.

  Definition bulk_key (k : dkey) : dkey := if fl_bulk_folds fl then dfold k else k.

  Definition dstep (t : T) (o : dop) : T * dout :=
    match o with
    | DSet k v => (tset P (dfold k) v t, RNone)
    | DGetItem k =>
        match tget P (dfold k) t with
        | Some v => (t, RVal v)
        | None => match fl_factory fl with
                  | Some f => (tset P (dfold k) f t, RVal f)      (* __missing__ is called with the folded key *)
                  | None => (t, RKeyError)
                  end
        end
    | DGet k d => (t, match tget P (dfold k) t with Some v => RVal v | None => if d then RDefault else RNone end)
    | DContains k => (t, RBool (match tget P (dfold k) t with Some _ => true | None => false end))
    | DDel k => match tget P (dfold k) t with Some _ => (tdel P (dfold k) t, RNone) | None => (t, RKeyError) end
    | DPop k d =>
        match tget P (dfold k) t with
        | Some v => (tdel P (dfold k) t, RVal v)
        | None => (t, if d then RDefault else RKeyError)
        end
    | DSetDefault k v =>
        match tget P (bulk_key k) t with
        | Some w => (t, RVal w)
        | None => (tset P (bulk_key k) v t, RVal v)
        end
    | DUpdate l => (fold_left (fun t p => tset P (bulk_key (fst p)) (snd p) t) l t, RNone)
    end.

  Definition dexec (t : T) (ops : list dop) : T := fold_left (fun t o => fst (dstep t o)) ops t.
  Fixpoint douts (t : T) (ops : list dop) : list dout :=
    match ops with
    | [] => []
    | o :: r => snd (dstep t o) :: douts (fst (dstep t o)) r
    end.
End Dict.

Definition dtab := list (dkey * Z).
Definition dm_ops : tops dkey Z dtab := al_ops dkey_eqb.
Definition ds_ops : tops dkey Z (dkey -> option Z) := fn_ops dkey_eqb.
(** the specification always folds, whatever the flavour *)
Definition spec_fl (fl : flavour) : flavour := mkFl true (fl_factory fl).

Definition key_folded (k : dkey) : bool := dkey_eqb (dfold k) k.
Definition dop_ok (fl : flavour) (o : dop) : bool :=
  fl_bulk_folds fl ||
  match o with
  | DSetDefault k _ => key_folded k
  | DUpdate l => forallb (fun p => key_folded (fst p)) l
  | _ => true
  end.

Inductive dkey_same : dkey -> dkey -> Prop :=
| dks_refl k : dkey_same k k
| dks_str a b : same_fold a b -> dkey_same (KStr a) (KStr b).
Inductive dop_same : dop -> dop -> Prop :=
| ds_refl o : dop_same o o
| ds_set a b v : dkey_same a b -> dop_same (DSet a v) (DSet b v)
| ds_getitem a b : dkey_same a b -> dop_same (DGetItem a) (DGetItem b)
| ds_get a b d : dkey_same a b -> dop_same (DGet a d) (DGet b d)
| ds_contains a b : dkey_same a b -> dop_same (DContains a) (DContains b)
| ds_del a b : dkey_same a b -> dop_same (DDel a) (DDel b)
| ds_pop a b d : dkey_same a b -> dop_same (DPop a d) (DPop b d).

(* ------------------------------------------------------------------------- *)
(** * Comparators for the correspondence run *)
Fixpoint list_eqb {A} (e : A -> A -> bool) (x y : list A) : bool :=
  match x, y with
  | [], [] => true
  | a :: r, b :: q => e a b && list_eqb e r q
  | _, _ => false
  end.
Definition opt_eqb {A} (e : A -> A -> bool) (x y : option A) : bool :=
  match x, y with Some a, Some b => e a b | None, None => true | _, _ => false end.
Definition val_eqb (a b : val) : bool := Z.eqb (fst a) (fst b) && opt_eqb Z.eqb (snd a) (snd b).
Definition err_eqb (a b : err) : bool :=
  match a, b with EKey, EKey | EValue, EValue | EType, EType | EOther, EOther => true | _, _ => false end.
Definition out_eqb (a b : out) : bool :=
  match a, b with
  | OutNone, OutNone | OutDefault, OutDefault | OutBad, OutBad | OutDiverge, OutDiverge => true
  | OutBool x, OutBool y => Bool.eqb x y
  | OutObj r v, OutObj r' v' => Nat.eqb r r' && val_eqb v v'
  | OutTab i, OutTab j => Nat.eqb i j
  | OutErr e, OutErr e' => err_eqb e e'
  | _, _ => false
  end.

(** final contents: per table the (ordered) items and the parent link *)
Definition dump_tab (tb : gtab (T := atab)) : list (string * val) * option nat := (t_ents tb, t_parent tb).
Definition dump_eqb (a b : list (string * val) * option nat) : bool :=
  list_eqb (fun p q => String.eqb (fst p) (fst q) && val_eqb (snd p) (snd q)) (fst a) (fst b)
  && opt_eqb Nat.eqb (snd a) (snd b).

Definition chk_sym (ops : list op) (xouts : list out)
           (xtabs : list (list (string * val) * option nat)) (xobjs : list val) : bool :=
  let s := mexec minit ops in
  list_eqb out_eqb (mouts minit ops) xouts
  && list_eqb dump_eqb (map dump_tab (st_tabs s)) xtabs
  && list_eqb val_eqb (st_objs s) xobjs.

Definition dout_eqb (a b : dout) : bool :=
  match a, b with
  | RNone, RNone | RDefault, RDefault | RKeyError, RKeyError => true
  | RBool x, RBool y => Bool.eqb x y
  | RVal x, RVal y => Z.eqb x y
  | _, _ => false
  end.
Definition chk_dict (fl : flavour) (ops : list dop) (xouts : list dout) (xitems : list (dkey * Z)) : bool :=
  list_eqb dout_eqb (douts dm_ops fl [] ops) xouts
  && list_eqb (fun p q => dkey_eqb (fst p) (fst q) && Z.eqb (snd p) (snd q)) (dexec dm_ops fl [] ops) xitems.
