(** C15 — node and expression finders.  Definitions only.

    Two layers:
    * transliterations of the Python code ([fn_visit], [fs_visit], [seq_visit], [pat_visit],
      [retrieve], [ef] with its helper [ret] = ExpressionFinder._return over a small universe
      of Python values [pyv]) -- these are what the correspondence run evaluates;
    * declarative reference functions ([preorder], [preorder_anc], [postorder], [slots],
      [groups], ...) used to state the theorems in P_C15.v / T_C15.v. *)
From Coq Require Import ZArith List Bool String Ascii.
From LV Require Import Base.Strings.
Import ListNotations.
Open Scope Z_scope.
Open Scope list_scope.

(* ------------------------------------------------------------------------------------ *)
(** * Expression trees *)

(** Python class of an expression-tree node (loki.expression.symbols/literals/operations,
    plus the pymbolic objects that the walker meets: index tuples, plain Python numbers,
    pymbolic.Variable as the function of a Cast). *)
Inductive ecls :=
  | CScalar | CArray | CDeferred | CVarSym | CProcSym | CDTypeSym
  | CInt | CFloat | CLogic | CStringLit | CIntrinsic | CLitList
  | CCall | CCast | CSum | CProduct | CQuotient | CPower | CCompare | CAnd | COr | CNot | CConcat
  | CPAdd | CPMul | CPDiv | CPPow
  | CRange | CRangeIndex | CLoopRange | CSubscript | CStrSubscript | CInlineDo | CRef | CDeref
  | CPymVar | CTuple | CPyConst.

Definition ecls_code (c : ecls) : Z :=
  match c with
  | CScalar => 1 | CArray => 2 | CDeferred => 3 | CVarSym => 4 | CProcSym => 5 | CDTypeSym => 6
  | CInt => 7 | CFloat => 8 | CLogic => 9 | CStringLit => 10 | CIntrinsic => 11 | CLitList => 12
  | CCall => 13 | CCast => 14 | CSum => 15 | CProduct => 16 | CQuotient => 17 | CPower => 18
  | CCompare => 19 | CAnd => 20 | COr => 21 | CNot => 22 | CConcat => 23
  | CPAdd => 24 | CPMul => 25 | CPDiv => 26 | CPPow => 27
  | CRange => 28 | CRangeIndex => 29 | CLoopRange => 30 | CSubscript => 31 | CStrSubscript => 32
  | CInlineDo => 33 | CRef => 34 | CDeref => 35 | CPymVar => 36 | CTuple => 37 | CPyConst => 38
  end.
Definition ecls_eqb (c d : ecls) : bool := ecls_code c =? ecls_code d.

(** [subclass c d]: Python [issubclass(c, d)] among the expression classes *)
Definition subclass (c d : ecls) : bool :=
  ecls_eqb c d ||
  match c, d with
  | CRangeIndex, CRange | CLoopRange, CRange
  | CPAdd, CSum | CPMul, CProduct | CPDiv, CQuotient | CPPow, CPower => true
  | _, _ => false
  end.

(** An expression node: [lbl] = identity of the Python object (shared objects carry the same
    label), [name] = [.name] of symbols / value string of literals, [skey] = [str(expr)]
    (written "" when it equals [name]),
    [kids] = the sub-expressions in the order in which the class' [map_*] method of
    [LokiWalkMapper] recurses into them:
      Scalar/Array -> [_symbol] (VariableSymbol or ArraySubscript);
      VariableSymbol/DeferredTypeSymbol/ProcedureSymbol/DerivedTypeSymbol -> [parent] if any;
      ArraySubscript/StringSubscript -> [aggregate; index] (index tuple = a CTuple node);
      IntLiteral/FloatLiteral -> [kind] if any; InlineCall -> function, parameters, kw values;
      Cast -> function (pymbolic Variable), parameters, kind; Range* -> start/stop/step present;
      Sum.. -> children; LiteralList -> non-string elements; InlineDo -> values, variable, bounds. *)
Inductive expr := EN (lbl : Z) (cls : ecls) (name : string) (skey : string) (kids : list expr).

Definition elbl (e : expr) : Z := match e with EN l _ _ _ _ => l end.
Definition ecl (e : expr) : ecls := match e with EN _ c _ _ _ => c end.
Definition ename (e : expr) : string := match e with EN _ _ n _ _ => n end.
(** to keep the case files small the bridge writes [skey = ""] when [str(expr)] equals [name] *)
Definition eff_skey (n s : string) : string := match s with EmptyString => n | _ => s end.
Definition eskey (e : expr) : string := match e with EN _ _ n s _ => eff_skey n s end.
Definition ekids (e : expr) : list expr := match e with EN _ _ _ _ k => k end.

(** ** LokiWalkMapper / ExpressionRetriever *)

(** handlers that are [WalkMapper.map_constant]/[map_variable]: they call [visit] but ignore its
    result, so [post_visit] (the query) runs even when [recurse_query] says "do not recurse" *)
Definition const_like (c : ecls) : bool :=
  match c with CLogic | CStringLit | CIntrinsic | CPymVar | CPyConst => true | _ => false end.

(** [ExpressionRetriever(query, recurse_query).retrieve(e)]: post-order, node after its children *)
Fixpoint retrieve (q rq : expr -> bool) (e : expr) : list expr :=
  match e with
  | EN _ c _ _ kids =>
      if rq e then flat_map (retrieve q rq) kids ++ (if q e then [e] else [])
      else if const_like c then (if q e then [e] else []) else []
  end.

Definition rtrue (_ : expr) : bool := true.

(** reference: all nodes of an expression tree, children before the node *)
Fixpoint postorder (e : expr) : list expr :=
  match e with EN _ _ _ _ kids => flat_map postorder kids ++ [e] end.

(** the finder classes of loki/ir/expr_visitors.py and their queries (isinstance tests) *)
Inductive finder := FVars | FTyped | FCalls | FLits | FReal | FExprs | FLitLists.

Definition fq (f : finder) (c : ecls) : bool :=
  match f with
  | FVars => match c with CScalar | CArray | CDeferred => true | _ => false end
  | FTyped => match c with CDeferred | CVarSym | CProcSym | CDTypeSym => true | _ => false end
  | FCalls => match c with CCall => true | _ => false end
  | FLits => match c with CInt | CFloat | CLogic | CStringLit | CIntrinsic => true | _ => false end
  | FReal => match c with CFloat => true | _ => false end
  | FExprs => match c with CTuple | CPyConst => false | _ => true end
  | FLitLists => match c with CLitList => true | _ => false end
  end.
Definition qof (f : finder) (e : expr) : bool := fq f (ecl e).

Definition memc (c : ecls) (l : list ecls) : bool := existsb (ecls_eqb c) l.
(** recurse_query of the form [lambda e: not isinstance(e, blocked classes)] *)
Definition rq_block (block : list ecls) (e : expr) : bool := negb (existsb (subclass (ecl e)) block).

(** ** Equality and the [unique] reduction of ExpressionFinder.find_uniques *)

Definition canon (s : string) : string := lower (strip_blanks s).

Definition is_numlit (c : ecls) : bool := match c with CInt | CFloat => true | _ => false end.

(** Python [a == b] (a = the object already stored in the dict / left operand), combined with
    equality of the hashes, as a dict/set lookup sees it.
    Int/Float literals: same class, same value, [kind == kind]; StringLiteral: same value;
    pymbolic Variable: same name; everything else is StrCompareMixin: [isinstance(b, type(a))]
    and equal canonical strings (lower-case, blanks removed). *)
Fixpoint expr_eqb (a b : expr) {struct a} : bool :=
  match a, b with
  | EN _ ca na sa ka, EN _ cb nb sb kb =>
      if is_numlit ca then
        ecls_eqb ca cb && String.eqb na nb &&
        match ka, kb with
        | [], [] => true
        | [x], [y] => expr_eqb x y
        | _, _ => false
        end
      else match ca with
           | CStringLit | CPymVar => ecls_eqb ca cb && String.eqb na nb
           | CTuple | CPyConst => false
           | _ => subclass cb ca && String.eqb (canon (eff_skey na sa)) (canon (eff_skey nb sb))
           end
  end.

Fixpoint list_eqb {A} (f : A -> A -> bool) (x y : list A) : bool :=
  match x, y with
  | [], [] => true
  | a :: r, b :: s => f a b && list_eqb f r s
  | _, _ => false
  end.
Definition opt_eqb {A} (f : A -> A -> bool) (x y : option A) : bool :=
  match x, y with None, None => true | Some a, Some b => f a b | _, _ => false end.

(** the VariableSymbol wrapped by a Scalar/Array meta symbol *)
Definition var_symbol (e : expr) : option expr :=
  match ekids e with
  | [s] => match ecl s with
           | CSubscript => match ekids s with a :: _ => Some a | [] => None end
           | _ => Some s
           end
  | _ => None
  end.
Definition var_parent_name (e : expr) : option string :=
  match var_symbol e with
  | Some s => match ekids s with [p] => Some (ename p) | _ => None end
  | None => None
  end.
Definition var_dims (e : expr) : list expr :=
  match ekids e with
  | [s] => match ecl s, ekids s with
           | CSubscript, [_; t] => ekids t
           | _, _ => []
           end
  | _ => []
  end.

(** [dict_key] of find_uniques: (name, parent.name or None, dimensions or None) for Scalar/Array,
    [str(var)] otherwise *)
Inductive dkey := KVar (n : string) (p : option string) (d : option (list expr)) | KStr (s : string).

Definition dict_key (e : expr) : dkey :=
  match ecl e with
  | CScalar => KVar (ename e) (var_parent_name e) None
  | CArray => KVar (ename e) (var_parent_name e) (Some (var_dims e))
  | _ => KStr (eskey e)
  end.

(** equality of two keys as the dict sees it: [k1] stored, [k2] looked up *)
Definition key_eqb (k1 k2 : dkey) : bool :=
  match k1, k2 with
  | KVar n p d, KVar n' p' d' =>
      String.eqb n n' && opt_eqb String.eqb p p' && opt_eqb (list_eqb expr_eqb) d d'
  | KStr s, KStr s' => String.eqb s s'
  | _, _ => false
  end.

(** [d[k] = v]: an existing equal key keeps its position (and the stored key), value replaced *)
Fixpoint dict_set (d : list (dkey * expr)) (k : dkey) (v : expr) : list (dkey * expr) :=
  match d with
  | [] => [(k, v)]
  | (k', v') :: r => if key_eqb k' k then (k', v) :: r else (k', v') :: dict_set r k v
  end.
Definition dict_build (l : list expr) : list (dkey * expr) :=
  fold_left (fun d v => dict_set d (dict_key v) v) l [].

(** [OrderedSet(values)] = dict.fromkeys: first of several equal elements is kept *)
Definition oset_add (s : list expr) (v : expr) : list expr :=
  if existsb (fun u => expr_eqb u v) s then s else s ++ [v].
Definition oset (l : list expr) : list expr := fold_left oset_add l [].

Definition uniq (l : list expr) : list expr := oset (map snd (dict_build l)).
Definition uniq_if (u : bool) (l : list expr) : list expr := if u then uniq l else l.

(* ------------------------------------------------------------------------------------ *)
(** * IR trees *)

(** [INode lbl kind eqk children extra]: an IR node; [children] = the tuple [node.children]
    (one entry per traversable field), [eqk] = class of the node under Python [==]
    (dataclass equality; supplied by the bridge), [extra] = initial values [v.type.initial] of the
    symbols of a declaration.  [ITuple] = tuple/list, [IExpr] = expression, [IOther] = None, str,
    and program units (Subroutine objects are not IR nodes). *)
Inductive item :=
  | INode (lbl kind eqk : Z) (children : list item) (extra : list expr)
  | ITuple (elems : list item)
  | IExpr (e : expr)
  | IOther.

Definition K_TYPEDEF : Z := 1.
Definition K_VARDECL : Z := 2.

Definition ilbl (it : item) : Z := match it with INode l _ _ _ _ => l | _ => -1 end.
Definition is_node (it : item) : bool := match it with INode _ _ _ _ _ => true | _ => false end.
Definition is_typedef (it : item) : bool :=
  match it with INode _ k _ _ _ => k =? K_TYPEDEF | _ => false end.

(** [loki.tools.flatten] on a tuple of children: tuples are expanded, nodes (incl. the iterable
    Section/Associate), expressions, None and strings are atoms *)
Fixpoint flat_item (it : item) : list item :=
  match it with
  | ITuple els => flat_map flat_item els
  | _ => [it]
  end.
Definition flatten_items (l : list item) : list item := flat_map flat_item l.

(** ** FindNodes *)

Definition memz (k : Z) (l : list Z) : bool := existsb (Z.eqb k) l.

(** [rules['type']]: isinstance(o, match); the bridge expands [match] to the concrete classes *)
Definition type_rule (kinds : list Z) (it : item) : bool :=
  match it with INode _ k _ _ _ => memz k kinds | _ => false end.
(** [rules['scope']]: [match in flatten(o.children)], [in] uses [==] *)
Definition scope_rule (m_eqk : Z) (it : item) : bool :=
  match it with
  | INode _ _ _ ch _ =>
      existsb (fun c => match c with INode _ _ q _ _ => q =? m_eqk | _ => false end) (flatten_items ch)
  | _ => false
  end.

(** FindNodes.visit with the accumulator [ret] threaded as in the code
    (visit_Node, visit_TypeDef, visit_tuple, visit_object) *)
Fixpoint fn_visit (rule : item -> bool) (greedy : bool) (it : item) (ret : list item) : list item :=
  match it with
  | INode _ k _ ch _ =>
      let ret1 := if rule it then ret ++ [it] else ret in
      if rule it && greedy then ret1
      else if k =? K_TYPEDEF then ret1
      else fold_left (fun acc c => fn_visit rule greedy c acc) ch ret1
  | ITuple els => fold_left (fun acc c => fn_visit rule greedy c acc) els ret
  | _ => ret
  end.
Definition find_nodes (rule : item -> bool) (greedy : bool) (it : item) : list item :=
  fn_visit rule greedy it [].

(** reference: pre-order list of the IR nodes, not descending into TypeDef bodies *)
Fixpoint preorder (it : item) : list item :=
  match it with
  | INode _ k _ ch _ => it :: (if k =? K_TYPEDEF then [] else flat_map preorder ch)
  | ITuple els => flat_map preorder els
  | _ => []
  end.
(** the same with the chain of proper ancestors (outermost first) of every node *)
Fixpoint preorder_anc (anc : list item) (it : item) : list (list item * item) :=
  match it with
  | INode _ k _ ch _ =>
      (anc, it) :: (if k =? K_TYPEDEF then [] else flat_map (preorder_anc (anc ++ [it])) ch)
  | ITuple els => flat_map (preorder_anc anc) els
  | _ => []
  end.

(** every node of the tree, including those inside TypeDef bodies *)
Fixpoint all_nodes (it : item) : list item :=
  match it with
  | INode _ _ _ ch _ => it :: flat_map all_nodes ch
  | ITuple els => flat_map all_nodes els
  | _ => []
  end.

(** ** FindScopes *)
Inductive sres := SAnc (l : list item) | SNode (n : item).

Fixpoint fs_visit (m : Z) (greedy : bool) (it : item) (anc : list item) (ret : list sres) : list sres :=
  match it with
  | INode l k _ ch _ =>
      if k =? K_TYPEDEF then
        (* FindNodes.visit_TypeDef is inherited: appends the node itself, not the ancestors *)
        (if l =? m then ret ++ [SNode it] else ret)
      else
        let anc' := anc ++ [it] in
        let ret1 := if l =? m then ret ++ [SAnc anc'] else ret in
        if (l =? m) && greedy then ret1
        else fold_left (fun acc c => fs_visit m greedy c anc' acc) ch ret1
  | ITuple els => fold_left (fun acc c => fs_visit m greedy c anc acc) els ret
  | _ => ret
  end.
Definition find_scopes (m : Z) (greedy : bool) (it : item) : list sres := fs_visit m greedy it [] [].

(** ** SequenceFinder / PatternFinder *)
Definition ikind (it : item) : option Z := match it with INode _ k _ _ _ => Some k | _ => None end.
Definition has_kind (k : Z) (it : item) : bool :=
  match it with INode _ k' _ _ _ => k' =? k | _ => false end.

(** itertools.groupby(o, type) restricted to the groups whose key is [nt] and length > 1 *)
Fixpoint runs (nt : Z) (cur : list item) (l : list item) : list (list item) :=
  match l with
  | [] => if (1 <? Z.of_nat (List.length cur)) then [cur] else []
  | x :: r => if has_kind nt x then runs nt (cur ++ [x]) r
              else (if (1 <? Z.of_nat (List.length cur)) then [cur] else []) ++ runs nt [] r
  end.

Fixpoint seq_visit (nt : Z) (it : item) : list (list item) :=
  match it with
  | INode _ _ _ ch _ => flat_map (seq_visit nt) ch ++ runs nt [] ch   (* visit_Node -> visit(o.children) -> visit_tuple *)
  | ITuple els => flat_map (seq_visit nt) els ++ runs nt [] els
  | _ => []
  end.

Fixpoint prefix_kinds (pat : list Z) (l : list item) : bool :=
  match pat, l with
  | [], _ => true
  | p :: pr, x :: r => has_kind p x && prefix_kinds pr r
  | _ :: _, [] => false
  end.
Fixpoint pat_matches (pat : list Z) (l : list item) : list (list item) :=
  match l with
  | [] => []
  | x :: r => (if prefix_kinds pat l then [firstn (List.length pat) l] else []) ++ pat_matches pat r
  end.
Fixpoint pat_visit (pat : list Z) (it : item) : list (list item) :=
  match it with
  | INode _ _ _ ch _ => flat_map (pat_visit pat) ch ++ pat_matches pat ch
  | ITuple els => flat_map (pat_visit pat) els ++ pat_matches pat els
  | _ => []
  end.

(* ------------------------------------------------------------------------------------ *)
(** * ExpressionFinder, transliterated over a small universe of Python values *)

Inductive pyv := PE (e : expr) | PNone | PN (lbl : Z) | PT (l : list pyv).

Fixpoint to_pyv (it : item) : pyv :=
  match it with
  | INode l _ _ _ _ => PN l
  | ITuple els => PT (map to_pyv els)
  | IExpr e => PE e
  | IOther => PNone
  end.

(** [is_leaf] of _return: a 2-tuple whose first entry is a Node *)
Definition is_leaf (v : pyv) : bool :=
  match v with PT [PN _; _] => true | _ => false end.

(** [flatten(l, is_leaf)] on one element *)
Fixpoint flat1 (leafp : bool) (v : pyv) : list pyv :=
  match v with
  | PT l => if leafp && is_leaf v then [v] else flat_map (flat1 leafp) l
  | _ => [v]
  end.
Definition flatten_py (leafp : bool) (l : list pyv) : list pyv := flat_map (flat1 leafp) l.

Definition pe_of (v : pyv) : option expr := match v with PE e => Some e | _ => None end.
Fixpoint sequence {A} (l : list (option A)) : option (list A) :=
  match l with
  | [] => Some []
  | None :: _ => None
  | Some a :: r => match sequence r with Some s => Some (a :: s) | None => None end
  end.

(** find_uniques: [assert isinstance(var, Expression)] for every element when unique=True
    ([None] = AssertionError) *)
Definition find_uniques (u : bool) (l : list pyv) : option (list pyv) :=
  if u then match sequence (map pe_of l) with
            | Some es => Some (map PE (uniq es))
            | None => None
            end
  else Some l.

(** ExpressionFinder._return(node, expressions); [None] = the AssertionError above *)
Definition ret (u w : bool) (owner : pyv) (expressions : list pyv) : option (list pyv) :=
  match expressions with
  | [] => Some []
  | _ =>
    if w then
      let nl := flatten_py true expressions in
      let tl := filter is_leaf nl in
      let ex := filter (fun v => negb (is_leaf v)) nl in
      match ex with
      | [] => Some tl
      | _ => match find_uniques u ex with
             | Some us => Some (tl ++ [PT [owner; PT us]])
             | None => None
             end
      end
    else find_uniques u (flatten_py false expressions)
  end.

(** [efg u w q lv it]: the results of visiting [it] ([lv = false], a singleton) or of visiting the
    leaves of [flatten([it])] one by one ([lv = true], as visit_Node does).
    visit_Expression, visit_object, visit_tuple, visit_Node, visit_TypeDef, visit_VariableDeclaration *)
Fixpoint efg (u w : bool) (q : expr -> bool) (lv : bool) (it : item) : list (option (list pyv)) :=
  match it with
  | IExpr e => [Some (map PE (retrieve q rtrue e))]
  | IOther => [Some []]
  | ITuple els =>
      if lv then flat_map (efg u w q true) els
      else [match sequence (flat_map (efg u w q false) els) with
            | Some rs => ret u w (to_pyv it) (map PT rs)
            | None => None
            end]
  | INode l k _ ch ex =>
      [if k =? K_TYPEDEF then Some []
       else if k =? K_VARDECL then
         match sequence (flat_map (efg u w q false) ch) with
         | Some rs =>
             match ret u w (PT (map to_pyv ch)) (map PT rs) with
             | Some a => ret u w (PN l) (a ++ map PE (flat_map (retrieve q rtrue) ex))
             | None => None
             end
         | None => None
         end
       else
         match sequence (flat_map (efg u w q true) ch) with
         | Some rs => ret u w (PN l) (map PT rs)
         | None => None
         end]
  end.
Definition ef (u w : bool) (q : expr -> bool) (it : item) : option (list pyv) :=
  match efg u w q false it with [r] => r | _ => None end.

(** ** reference functions for the expression finders *)

(** the expressions sitting in traversed slots of the tree, in the order of the traversal
    (children in order, initial values of a declaration last; TypeDef bodies are skipped) *)
Fixpoint slots (it : item) : list expr :=
  match it with
  | IExpr e => [e]
  | IOther => []
  | ITuple els => flat_map slots els
  | INode _ k _ ch ex =>
      if k =? K_TYPEDEF then []
      else flat_map slots ch ++ (if k =? K_VARDECL then ex else [])
  end.
Definition all_matches (q : expr -> bool) (it : item) : list expr :=
  filter q (flat_map postorder (slots it)).

(** flat result with the unique reduction applied at every level as the code does *)
Fixpoint flatg (u : bool) (q : expr -> bool) (lv : bool) (it : item) : list (list expr) :=
  match it with
  | IExpr e => [retrieve q rtrue e]
  | IOther => [[]]
  | ITuple els =>
      if lv then flat_map (flatg u q true) els
      else [uniq_if u (List.concat (flat_map (flatg u q false) els))]
  | INode _ k _ ch ex =>
      [if k =? K_TYPEDEF then []
       else if k =? K_VARDECL then
         uniq_if u (uniq_if u (List.concat (flat_map (flatg u q false) ch)) ++ flat_map (retrieve q rtrue) ex)
       else uniq_if u (List.concat (flat_map (flatg u q true) ch))]
  end.
Definition ef_flat (u : bool) (q : expr -> bool) (it : item) : list expr := List.concat (flatg u q false it).

(** with_ir_node: what a child contributes to its parent: the groups of the nodes below it and
    the expressions found directly in it *)
Fixpoint grp (u : bool) (q : expr -> bool) (it : item) : list (Z * list expr) * list expr :=
  match it with
  | IExpr e => ([], retrieve q rtrue e)
  | IOther => ([], [])
  | ITuple els => (flat_map (fun c => fst (grp u q c)) els, flat_map (fun c => snd (grp u q c)) els)
  | INode l k _ ch _ =>
      if k =? K_TYPEDEF then ([], [])
      else
        let gs := flat_map (fun c => fst (grp u q c)) ch in
        let ds := flat_map (fun c => snd (grp u q c)) ch in
        (gs ++ (match ds with [] => [] | _ => [(l, uniq_if u ds)] end), [])
  end.
Definition groups (u : bool) (q : expr -> bool) (it : item) : list (Z * list expr) := fst (grp u q it).

Definition mkpair (g : Z * list expr) : pyv := PT [PN (fst g); PT (map PE (snd g))].

(** class on which with_ir_node behaves: no VariableDeclaration is reached (TypeDef bodies are
    not traversed), and a tuple that is visited as a tuple (top level only) contains no
    expression directly.  [tv = true]: the item is visited by visit_tuple/visit, [tv = false]:
    it sits inside node.children and is flattened by visit_Node. *)
Fixpoint wi_ok (tv : bool) (it : item) : bool :=
  match it with
  | IExpr _ => negb tv
  | IOther => true
  | ITuple els => forallb (wi_ok tv) els
  | INode _ k _ ch _ =>
      (k =? K_TYPEDEF) || (negb (k =? K_VARDECL) && forallb (wi_ok false) ch)
  end.

(* ------------------------------------------------------------------------------------ *)
(** * Comparators for the correspondence run *)

Definition eqb_lz (x y : list Z) : bool := list_eqb Z.eqb x y.
Definition eqb_llz (x y : list (list Z)) : bool := list_eqb eqb_lz x y.

Definition chk_findnodes (t : item) (kinds : list Z) (greedy : bool) (out : list Z) : bool :=
  eqb_lz (map ilbl (find_nodes (type_rule kinds) greedy t)) out.
Definition chk_scope (t : item) (m_eqk : Z) (greedy : bool) (out : list Z) : bool :=
  eqb_lz (map ilbl (find_nodes (scope_rule m_eqk) greedy t)) out.

Definition sres_enc (r : sres) : bool * list Z :=
  match r with SAnc l => (true, map ilbl l) | SNode n => (false, [ilbl n]) end.
Definition chk_findscopes (t : item) (m : Z) (greedy : bool) (out : list (bool * list Z)) : bool :=
  list_eqb (fun a b => Bool.eqb (fst a) (fst b) && eqb_lz (snd a) (snd b))
           (map sres_enc (find_scopes m greedy t)) out.
Definition chk_seq (t : item) (nt : Z) (out : list (list Z)) : bool :=
  eqb_llz (map (map ilbl) (seq_visit nt t)) out.
Definition chk_pat (t : item) (pat : list Z) (out : list (list Z)) : bool :=
  eqb_llz (map (map ilbl) (pat_visit pat t)) out.

Definition chk_retrieve (e : expr) (f : finder) (block : list ecls) (out : list Z) : bool :=
  eqb_lz (map elbl (retrieve (qof f) (rq_block block) e)) out.

(** encoding of a result element: expression -> its label, None -> -1, anything else -> -9 *)
Definition enc_atom (v : pyv) : Z := match v with PE e => elbl e | PNone => -1 | _ => -9 end.
Definition enc_owner (v : pyv) : Z := match v with PN l => l | PT _ => -2 | _ => -9 end.
Definition enc_pair (v : pyv) : Z * list Z :=
  match v with
  | PT [o; PT es] => (enc_owner o, map enc_atom es)
  | _ => (-9, [])
  end.

Definition chk_ef_flat (t : item) (f : finder) (u : bool) (out : option (list Z)) : bool :=
  opt_eqb eqb_lz (option_map (map enc_atom) (ef u false (qof f) t)) out.
Definition chk_ef_ir (t : item) (f : finder) (u : bool) (out : option (list (Z * list Z))) : bool :=
  opt_eqb (list_eqb (fun a b => (fst a =? fst b) && eqb_lz (snd a) (snd b)))
          (option_map (map enc_pair) (ef u true (qof f) t)) out.

(** sanity comparators: the reference functions evaluated on the same input (they must agree with
    the implementation whenever the theorems' class hypotheses hold) *)
Definition chk_ref_flat (t : item) (f : finder) (out : list Z) : bool :=
  eqb_lz (map elbl (all_matches (qof f) t)) out.
