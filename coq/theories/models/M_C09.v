(** C09 — model of loki.expression.symbolic.symbolic_op for the six comparison operators, on top of the
    SimplifyMapper model of C08.  Definitions only.

    symbolic_op(expr1, op, expr2):  d := simplify(expr1 - expr2)  (Python '-' on pymbolic expressions, all flags);
    if d is minus-prefixed: recurse on strip_minus_prefix(d) against 0 (result negated for the order operators);
    otherwise op(d, 0): an IntLiteral compares by value; any other node answers False to ==, True to != and
    raises TypeError for <, <=, >, >=.

    The simplification chain does not depend on the operator, so it is computed once ([symdiff]) and the six
    operators are decided from it ([decide]). *)
From Coq Require Import ZArith List Bool String.
From LV Require Import Base.Expr models.M_C08.
Import ListNotations.
Open Scope Z_scope.

Inductive chain :=
| CLit (v : Z) (safe : bool)           (* the difference simplified to the literal v *)
| COther (safe : bool)                 (* ... to something that is not a literal *)
| CNeg (inner : chain) (safe : bool)   (* ... to -(x): [inner] is the chain of symbolic_op(x, op, 0) *)
| CErr (e : err)
| CFuel.

Fixpoint symdiff (wf fuel depth : nat) (x y : sx) {struct depth} : chain :=
  match depth with
  | O => CFuel
  | S dp =>
      match simp_i all_flags wf fuel (py_sub x y) with
      | Ok (e, s) =>
          if is_minus_prefix e then CNeg (symdiff wf fuel dp (strip_minus_prefix e) (SPy 0)) s
          else match e with
               | SInt v | SPy v => CLit v s
               | _ => COther s
               end
      | Err er => CErr er
      | NoFuel => CFuel
      end
  end.

Inductive rerr := RTypeError | RZeroDivisionError.
Inductive answer := Answer (b : bool) | Raises (e : rerr) | AFuel.

Definition is_eqne (op : cmpop) : bool := match op with Ceq | Cne => true | _ => false end.

(** (answer, proven difference, guessed):
    - [Some c]: the run was safe, the difference of the operands is the literal [c] for every valuation and
      the answer given equals [c op 0];
    - guessed = true: the definite answer comes from comparing a non-literal node with 0. *)
Fixpoint decide (op : cmpop) (ch : chain) : answer * option Z * bool :=
  match ch with
  | CLit v s => (Answer (cmp_z op v 0), if s then Some v else None, false)
  | COther _ =>
      match op with
      | Ceq => (Answer false, None, true)
      | Cne => (Answer true, None, true)
      | _ => (Raises RTypeError, None, false)
      end
  | CNeg inner s =>
      let '(a, d, g) := decide op inner in
      let a' := if is_eqne op then a else match a with Answer b => Answer (negb b) | o => o end in
      (a',
       match a', d with
       | Answer b, Some c' => if s && Bool.eqb b (cmp_z op (- c') 0) then Some (- c') else None
       | _, _ => None
       end, g)
  | CErr EZeroDiv => (Raises RZeroDivisionError, None, false)
  | CFuel => (AFuel, None, false)
  end.

Definition default_depth : nat := 30%nat.

Definition symchain (a b : expr) : chain := symdiff default_wf default_fuel default_depth (of_expr a) (of_expr b).
Definition symbolic_op (a : expr) (op : cmpop) (b : expr) : answer * option Z * bool := decide op (symchain a b).

Definition answer_of (r : answer * option Z * bool) : answer := fst (fst r).
Definition proven_of (r : answer * option Z * bool) : option Z := snd (fst r).
Definition guessed_of (r : answer * option Z * bool) : bool := snd r.

(** * correspondence *)
Definition rerr_eqb (a b : rerr) : bool :=
  match a, b with
  | RTypeError, RTypeError | RZeroDivisionError, RZeroDivisionError => true
  | _, _ => false
  end.
Definition answer_eqb (a b : answer) : bool :=
  match a, b with
  | Answer x, Answer y => Bool.eqb x y
  | Raises x, Raises y => rerr_eqb x y
  | AFuel, AFuel => true
  | _, _ => false
  end.

Definition all_ops : list cmpop := [Ceq; Cne; Clt; Cle; Cgt; Cge].

(** the implementation's six outcomes (in the order of [all_ops]) against the model *)
Definition chk_symop (a b : expr) (outs : list answer) : bool :=
  let ch := symchain a b in
  list_eqb answer_eqb (map (fun op => answer_of (decide op ch)) all_ops) outs.

(** classification of one (pair, operator): 0 = decided (proven), 1 = guessed, 2 = raises, 3 = answer after an unsafe run, 4 = fuel *)
Definition class_of (r : answer * option Z * bool) : Z :=
  match r with
  | (Answer _, Some _, _) => 0
  | (Answer _, None, true) => 1
  | (Raises _, _, _) => 2
  | (Answer _, None, false) => 3
  | (AFuel, _, _) => 4
  end.

Definition chk_classes (a b : expr) (cls : list Z) : bool :=
  let ch := symchain a b in
  list_eqb Z.eqb (map (fun op => class_of (decide op ch)) all_ops) cls.

Definition chk_both (a b : expr) (outs : list answer) (cls : list Z) : bool :=
  let ch := symchain a b in
  list_eqb answer_eqb (map (fun op => answer_of (decide op ch)) all_ops) outs
  && list_eqb Z.eqb (map (fun op => class_of (decide op ch)) all_ops) cls.

Definition classes (a b : expr) : list Z :=
  let ch := symchain a b in map (fun op => class_of (decide op ch)) all_ops.
