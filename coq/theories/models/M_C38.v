(** C38 — temporaries: stack / pool allocation and hoisting.  Executable model (definitions only).

    What is modelled (read from loki/transformations/temporaries/{pool_allocator,stack_allocator,
    raw_stack_allocator,hoist_variables}.py and reproduced on the real code):

    - a call tree: the call graph is acyclic, so it is unfolded into a rose tree; every call carries the
      actual-argument expressions for the callee's integer dummies;
    - every kernel has temporaries [(name, class, bytes, dims)] whose dims are expressions ([Base.Expr.expr])
      over the kernel's integer dummies;
    - the unit in which a variant counts storage: [MPool] 8-byte words, [ISHFT(dims*C_SIZEOF + 7, -3)] per
      temporary; [MElem] elements of one (type,kind) class (FtrPtr/DirectIdx stacks); [MRaw] columns of one
      class, only temporaries whose leading dimension is the horizontal [nlon] (raw stack);
    - [_determine_stack_size]: [local + MAX over the calls of (callee size)[dummies := actuals]]; the
      FtrPtr/DirectIdx variant applies the substitution TWICE ([dbl = true], see BaseStackTransformation);
    - the allocation protocol: local copy of the stack pointer dummy, one bump per temporary, the local copy
      is what callees receive (by reference) and nobody assigns the dummy;
    - hoisting: one array per temporary, renamed [kernel_temp], dimensions substituted with the actuals of the
      LAST call to each callee, names already collected are skipped. *)
From Coq Require Import ZArith List Bool String.
From LV Require Import Base.Expr.
Import ListNotations.
Open Scope string_scope.
Open Scope list_scope.
Open Scope Z_scope.

(** * Expressions: variables, substitution, the function table of the generated code *)

Fixpoint vars (e : expr) : list string :=
  match e with
  | EVar x => [x]
  | ESum _ cs | EProd _ cs | EAnd cs | EOr cs | ECall _ cs => flat_map vars cs
  | EQuot _ a b | EPow _ a b | ECmp _ a b => vars a ++ vars b
  | ENot a => vars a
  | _ => []
  end.

Definition mem (x : string) (l : list string) : bool := existsb (String.eqb x) l.

Definition closedb (ps : list string) (e : expr) : bool := forallb (fun x => mem x ps) (vars e).

Fixpoint assoc_e (l : list (string * expr)) (x : string) : option expr :=
  match l with
  | [] => None
  | (k, v) :: r => if String.eqb k x then Some v else assoc_e r x
  end.

(** simultaneous substitution of variables (SubstituteExpressions with a map dummy -> actual) *)
Fixpoint subst (s : list (string * expr)) (e : expr) : expr :=
  match e with
  | EVar x => match assoc_e s x with Some a => a | None => e end
  | ESum p cs => ESum p (map (subst s) cs)
  | EProd p cs => EProd p (map (subst s) cs)
  | EQuot p a b => EQuot p (subst s a) (subst s b)
  | EPow p a b => EPow p (subst s a) (subst s b)
  | ECall f cs => ECall f (map (subst s) cs)
  | _ => e
  end.

(** ISHFT on non-negative values and C_SIZEOF (its argument is already the byte count: the harness maps the
    cast to a number) *)
Definition cfun (f : string) (a : list Z) : option Z :=
  if String.eqb f "ishft" then
    match a with
    | [x; s] => if x <? 0 then None else if 0 <=? s then Some (x * 2 ^ s) else Some (x / 2 ^ (- s))
    | _ => None
    end
  else if String.eqb f "c_sizeof" then match a with [b] => Some b | _ => None end
  else None.

Definition cenv (l : list (string * Z)) : env := {| ev_var := assoc_z l; ev_fun := cfun |}.

Fixpoint lookup (ps : list string) (vs : list Z) (x : string) : option Z :=
  match ps, vs with
  | p :: pr, v :: vr => if String.eqb p x then Some v else lookup pr vr x
  | _, _ => None
  end.

(** environment of a callee: dummies bound to the values of the actuals, everything else from [g] *)
Definition bind (g : env) (ps : list string) (vs : list Z) : env :=
  {| ev_var := fun x => match lookup ps vs x with Some v => v | None => ev_var g x end; ev_fun := ev_fun g |}.

Definition call_env (g rho : env) (ps : list string) (acts : list expr) : option env :=
  if Nat.eqb (List.length ps) (List.length acts)
  then match omap_list (evalZ rho) acts with Some vs => Some (bind g ps vs) | None => None end
  else None.

(** * Call trees *)

(** abstract tree: every kernel reduced to its dummies and the list of size expressions (in stack units) *)
Inductive ktree : Type := KT (params : list string) (sizes : list expr) (cs : kcalls)
with kcalls : Type := KNil | KCons (acts : list expr) (k : ktree) (rest : kcalls).

Definition kparams (k : ktree) : list string := match k with KT ps _ _ => ps end.
Definition ksizes (k : ktree) : list expr := match k with KT _ s _ => s end.
Definition kcs (k : ktree) : kcalls := match k with KT _ _ c => c end.

Definition emax (l : list expr) : expr := match l with [x] => x | _ => ECall "max" l end.

Definition substn (dbl : bool) (ps : list string) (acts : list expr) (e : expr) : expr :=
  let s := combine ps acts in
  if dbl then subst s (subst s e) else subst s e.

(** the stack size expression of [_determine_stack_size] *)
Fixpoint ssize (dbl : bool) (k : ktree) : expr :=
  match k with
  | KT ps szs cs =>
      match cs with
      | KNil => ESum false szs
      | _ => emax (csize dbl (ESum false szs) cs)
      end
  end
with csize (dbl : bool) (loc : expr) (cs : kcalls) : list expr :=
  match cs with
  | KNil => []
  | KCons acts k rest => ESum false [loc; substn dbl (kparams k) acts (ssize dbl k)] :: csize dbl loc rest
  end.

(** ** The allocation protocol as a machine *)
Definition ival : Type := (Z * Z)%type.     (* [lo, hi) in stack units *)

(** one bump per temporary; a negative or undefined size is an explicit error *)
Fixpoint bump (rho : env) (szs : list expr) (p : Z) : option (list ival * Z) :=
  match szs with
  | [] => Some ([], p)
  | e :: r =>
      match evalZ rho e with
      | Some v =>
          if v <? 0 then None else
          match bump rho r (p + v) with
          | Some (iv, q) => Some ((p, p + v) :: iv, q)
          | None => None
          end
      | None => None
      end
  end.

(** [sim g k rho parg live]: kernel [k] is entered with the stack-pointer dummy holding [parg] while the
    temporaries [live] of its callers are alive.  Result: (value of the dummy at return, highest pointer
    value reached, the list of snapshots of live temporaries: one per kernel activation).
    The kernel copies the dummy into a local, bumps the local, and passes the LOCAL by reference to its callees;
    after a call the local holds whatever the callee left in its dummy. *)
Fixpoint sim (g : env) (k : ktree) (rho : env) (parg : Z) (live : list ival) {struct k}
  : option (Z * Z * list (list ival)) :=
  match k with
  | KT ps szs cs =>
      match bump rho szs parg with
      | Some (iv, pl) =>
          match simcs g cs rho pl (live ++ iv) with
          | Some (_, h, sn) => Some (parg, Z.max pl h, (live ++ iv) :: sn)
          | None => None
          end
      | None => None
      end
  end
with simcs (g : env) (cs : kcalls) (rho : env) (pl : Z) (live : list ival) {struct cs}
  : option (Z * Z * list (list ival)) :=
  match cs with
  | KNil => Some (pl, pl, [])
  | KCons acts k rest =>
      match call_env g rho (kparams k) acts with
      | Some rc =>
          match sim g k rc pl live with
          | Some (d, h, sn1) =>
              match simcs g rest rho d live with
              | Some (pl', h2, sn2) => Some (pl', Z.max h h2, sn1 ++ sn2)
              | None => None
              end
          | None => None
          end
      | None => None
      end
  end.

Definition highwater (r : option (Z * Z * list (list ival))) : option Z :=
  match r with Some (_, h, _) => Some h | None => None end.

(** class predicates *)
Fixpoint closed_tree (k : ktree) : bool :=
  match k with
  | KT ps szs cs => forallb (closedb ps) szs && closed_cs ps cs
  end
with closed_cs (ps : list string) (cs : kcalls) : bool :=
  match cs with
  | KNil => true
  | KCons acts k rest => forallb (closedb ps) acts && closed_tree k && closed_cs ps rest
  end.

(** a call's substitution is idempotent on the variables of its actuals: each variable of an actual is either
    not a dummy of the callee or is mapped to itself *)
Definition idem_call (ps : list string) (acts : list expr) : bool :=
  let s := combine ps acts in
  forallb (fun a => forallb (fun y => match assoc_e s y with
                                      | None => true
                                      | Some (EVar z) => String.eqb z y
                                      | Some _ => false
                                      end) (vars a)) acts.

Fixpoint idem_tree (k : ktree) : bool :=
  match k with KT _ _ cs => idem_cs cs end
with idem_cs (cs : kcalls) : bool :=
  match cs with
  | KNil => true
  | KCons acts k rest => idem_call (kparams k) acts && idem_tree k && idem_cs rest
  end.

(** ordered stack discipline of a snapshot: consecutive, non-overlapping intervals between [lo] and [hi] *)
Fixpoint chain (lo : Z) (l : list ival) (hi : Z) : Prop :=
  match l with
  | [] => lo <= hi
  | (a, b) :: r => lo <= a /\ a <= b /\ chain b r hi
  end.

Definition disjoint (x y : ival) : Prop := snd x <= fst y \/ snd y <= fst x.

(** per-block base offset in the driver: block [b] (1-based) of a stack with [size] units per block *)
Definition block_base (size b : Z) : Z := (b - 1) * size.

(** * Concrete kernels and the three unit systems *)
Record temp := { t_name : string; t_cls : Z; t_bytes : Z; t_dims : list expr }.

Inductive kernel : Type := Kern (name : string) (params : list string) (temps : list temp) (cs : calls)
with calls : Type := CNil | CCons (acts : list expr) (k : kernel) (rest : calls).

Definition kname (k : kernel) : string := match k with Kern n _ _ _ => n end.

Inductive mode := MPool | MElem | MRaw.

Definition is_const (e : expr) : bool := match e with EInt _ => true | _ => false end.
Definition stackable (t : temp) : bool := negb (forallb is_const (t_dims t)).
Definition lead_nlon (t : temp) : bool :=
  match t_dims t with EVar x :: _ => String.eqb x "nlon" | _ => false end.

Definition sel (m : mode) (c : Z) (t : temp) : bool :=
  match m with
  | MPool => stackable t
  | MElem => stackable t && (t_cls t =? c)
  | MRaw => stackable t && (t_cls t =? c) && lead_nlon t
  end.

Definition units (m : mode) (t : temp) : expr :=
  match m with
  | MPool => ECall "ishft" [ESum false [EProd false (t_dims t ++ [ECall "c_sizeof" [EInt (t_bytes t)]]); EInt 7]; EInt (-3)]
  | MElem => EProd false (t_dims t)
  | MRaw => EProd false (tl (t_dims t))
  end.

Definition tsizes (m : mode) (c : Z) (ts : list temp) : list expr := map (units m) (filter (sel m c) ts).

Fixpoint view (m : mode) (c : Z) (k : kernel) : ktree :=
  match k with Kern _ ps ts cs => KT ps (tsizes m c ts) (view_cs m c cs) end
with view_cs (m : mode) (c : Z) (cs : calls) : kcalls :=
  match cs with
  | CNil => KNil
  | CCons acts k rest => KCons acts (view m c k) (view_cs m c rest)
  end.

Definition is_dbl (m : mode) : bool := match m with MElem => true | _ => false end.

Definition stack_size (m : mode) (c : Z) (k : kernel) : expr := ssize (is_dbl m) (view m c k).

(** * Addressing of the FtrPtr / DirectIdx variants (stack arrays are 1-based, the driver starts with USED = 1) *)
(** element [i] (1-based, column-major position) of a temporary whose integer offset variable holds [jd] *)
Definition addr_ftr (jd i : Z) : Z := jd + i - 1.      (* tmp(1:n) => STACK(jd : jd + n): element i is STACK(jd+i-1) *)
Definition addr_idx (jd i : Z) : Z := jd + i.          (* STACK(jd + offset), offset = 1 + (i-1) *)
(** DirectIdx, rank-1 temporary indexed by a plain variable: the offset simplifies to a non-Sum and the
    base is dropped by [Sum((int_var,) + offset.children if isinstance(offset, Sum) else (offset,))] *)
Definition addr_idx_rank1 (jd i : Z) : Z := i.

(** * Hoisting *)
Definition hoistable (t : temp) : bool := stackable t.

Fixpoint call_names (cs : calls) : list string :=
  match cs with CNil => [] | CCons _ k rest => kname k :: call_names rest end.

Definition hvar : Type := (string * list expr)%type.

Definition own_hoist (nm : string) (ts : list temp) : list hvar :=
  map (fun t => ((nm ++ "_" ++ t_name t)%string, t_dims t)) (filter hoistable ts).

Definition kparams_c (k : kernel) : list string := match k with Kern _ ps _ _ => ps end.

(** [hoist_variables] of HoistVariablesAnalysis: own temporaries renamed, then for every callee (only the LAST
    call statement to it is looked at) its list with the dimensions substituted, skipping names already there *)
Fixpoint hoist (k : kernel) : list hvar :=
  match k with
  | Kern nm ps ts cs => hoist_cs cs (own_hoist nm ts)
  end
with hoist_cs (cs : calls) (acc : list hvar) : list hvar :=
  match cs with
  | CNil => acc
  | CCons acts k rest =>
      if mem (kname k) (call_names rest) then hoist_cs rest acc
      else
        let s := combine (kparams_c k) acts in
        let new := filter (fun v => negb (mem (fst v) (map fst acc))) (hoist k) in
        hoist_cs rest (acc ++ map (fun v => (fst v, map (subst s) (snd v))) new)
  end.

(** what the driver declares: the children's lists only *)
Definition hoist_driver (k : kernel) : list hvar :=
  match k with Kern _ _ _ cs => hoist_cs cs [] end.

(** every activation of every temporary with its required element count: (hoisted name, elements) *)
Fixpoint prodz (l : list Z) : Z := match l with [] => 1 | x :: r => x * prodz r end.

Fixpoint needs (g : env) (k : kernel) (rho : env) {struct k} : option (list (string * Z)) :=
  match k with
  | Kern nm ps ts cs =>
      match omap_list (fun t => match omap_list (evalZ rho) (t_dims t) with
                                | Some ds => Some ((nm ++ "_" ++ t_name t)%string, prodz ds)
                                | None => None end) (filter hoistable ts) with
      | Some own => match needs_cs g cs rho with Some r => Some (own ++ r) | None => None end
      | None => None
      end
  end
with needs_cs (g : env) (cs : calls) (rho : env) {struct cs} : option (list (string * Z)) :=
  match cs with
  | CNil => Some []
  | CCons acts k rest =>
      match call_env g rho (kparams_c k) acts with
      | Some rc =>
          match needs g k rc, needs_cs g rest rho with
          | Some a, Some b => Some (a ++ b)
          | _, _ => None
          end
      | None => None
      end
  end.

Fixpoint assoc_zs (l : list (string * Z)) (x : string) : option Z :=
  match l with [] => None | (k, v) :: r => if String.eqb k x then Some v else assoc_zs r x end.

(** declared element counts of the hoisted arrays in the driver *)
Definition hoist_decl (k : kernel) (rho : env) : option (list (string * Z)) :=
  omap_list (fun v => match omap_list (evalZ rho) (snd v) with
                      | Some ds => Some (fst v, prodz ds) | None => None end) (hoist_driver k).

Definition hoist_enough (g : env) (k : kernel) (rho : env) : option bool :=
  match hoist_decl k rho, needs_cs g (match k with Kern _ _ _ cs => cs end) rho with
  | Some d, Some n =>
      Some (forallb (fun nv => match assoc_zs d (fst nv) with Some have => snd nv <=? have | None => false end) n)
  | _, _ => None
  end.

(** * Comparators used by the correspondence (evaluated by vm_compute on every run) *)

Fixpoint forall_vals {A} (f : A -> bool) (l : list A) : bool :=
  match l with [] => true | x :: r => f x && forall_vals f r end.

Definition some_eqb (a b : option Z) : bool :=
  match a, b with Some x, Some y => x =? y | _, _ => false end.

(** the size expression Loki wrote into the driver has, on every valuation, the value of the model's *)
Definition chk_size (m : mode) (c : Z) (root : kernel) (loki : expr) (vals : list (list (string * Z))) : bool :=
  forall_vals (fun al => some_eqb (evalZ (cenv al) loki) (evalZ (cenv al) (stack_size m c root))) vals.

(** ... and the model's simulated high-water mark is exactly that value (ties [sim] to the real size) *)
Definition chk_hw (m : mode) (c : Z) (root : kernel) (loki : expr) (vals : list (list (string * Z))) : bool :=
  forall_vals (fun al =>
    match highwater (sim (cenv []) (view m c root) (cenv al) 0 []) with
    | Some h => some_eqb (evalZ (cenv al) loki) (Some h)
    | None => false
    end) vals.

(** straight-line prologue of a kernel as emitted by Loki *)
Inductive pst :=
| PA (x : string) (e : expr)                   (* integer assignment *)
| PP (t : string) (lo hi : expr).              (* temporary t starts at lo (and the section given goes up to hi) *)


Fixpoint run_pro (l : list pst) (al : list (string * Z)) (acc : list (string * Z * Z)) : option (list (string * Z) * list (string * Z * Z)) :=
  match l with
  | [] => Some (al, rev acc)
  | PA x e :: r => match evalZ (cenv al) e with Some v => run_pro r ((x, v) :: al) acc | None => None end
  | PP t lo hi :: r =>
      match evalZ (cenv al) lo, evalZ (cenv al) hi with
      | Some a, Some b => run_pro r al ((t, a, b) :: acc)
      | _, _ => None
      end
  end.

(** model: start of each selected temporary = base + scale * (sum of the units before it); [hi_extra] says how
    far the reported upper value lies above the start (0: none reported; the FtrPtr section: + elements) *)
Fixpoint model_starts (rho : env) (m : mode) (ts : list temp) (p : Z) (scale : Z) (secs : bool) : option (list (string * Z * Z) * Z) :=
  match ts with
  | [] => Some ([], p)
  | t :: r =>
      match evalZ rho (units m t) with
      | Some v =>
          match model_starts rho m r (p + scale * v) scale secs with
          | Some (l, q) => Some ((t_name t, p, if secs then p + v else p) :: l, q)
          | None => None
          end
      | None => None
      end
  end.

Fixpoint starts_eqb (a b : list (string * Z * Z)) : bool :=
  match a, b with
  | [], [] => true
  | (n, x, y) :: r, (n', x', y') :: q => String.eqb n n' && (x =? x') && (y =? y') && starts_eqb r q
  | _, _ => false
  end.

Definition ktemps (k : kernel) : list temp := match k with Kern _ _ ts _ => ts end.

(** run Loki's prologue from a valuation that also binds the stack-pointer dummy [dummy] (absent = 0); the
    temporaries of class [c] must start where the model says, and the local pointer [final] must end at
    base + scale * total *)
Definition chk_pro (m : mode) (c : Z) (k : kernel) (pro : list pst) (dummy final : string) (scale : Z) (secs : bool)
           (vals : list (list (string * Z))) : bool :=
  forall_vals (fun al =>
    match run_pro pro al [] with
    | Some (al', got) =>
        let base := assoc_z al dummy in
        match model_starts (cenv al) m (filter (sel m c) (ktemps k)) base scale secs with
        | Some (exp, q) =>
            starts_eqb (filter (fun g => existsb (fun e => String.eqb (fst (fst e)) (fst (fst g))) exp) got) exp
            && (assoc_z al' final =? q)
        | None => false
        end
    | None => false
    end) vals.

(** index probes (DirectIdx / raw): after the prologue, Loki's index expression for the first and the last
    element of temporary [t] (loop variables already replaced by 1 resp. the extents) *)
Inductive ivariant := IdxDirect | IdxRaw.

Definition chk_probe (v : ivariant) (m : mode) (k : kernel) (pro : list pst) (tname jd : string) (rank1 : bool)
           (first last : expr) (vals : list (list (string * Z))) : bool :=
  forall_vals (fun al =>
    match run_pro pro al [] with
    | Some (al', _) =>
        match find (fun t => String.eqb (t_name t) tname) (ktemps k) with
        | Some t =>
            match evalZ (cenv al) (units m t) with
            | Some n =>
                let j := assoc_z al' jd in
                let a := match v with IdxDirect => if rank1 then addr_idx_rank1 j 1 else addr_idx j 1 | IdxRaw => j + 1 end in
                let b := match v with IdxDirect => if rank1 then addr_idx_rank1 j n else addr_idx j n | IdxRaw => j + n end in
                some_eqb (evalZ (cenv al') first) (Some a) && some_eqb (evalZ (cenv al') last) (Some b)
            | None => false
            end
        | None => false
        end
    | None => false
    end) vals.

(** hoisting: the declarations Loki produced (name, dims) have the values of the model's, name by name *)
Fixpoint assoc_h (l : list hvar) (x : string) : option (list expr) :=
  match l with [] => None | (k, v) :: r => if String.eqb k x then Some v else assoc_h r x end.

Fixpoint olist_eqb (a b : list (option Z)) : bool :=
  match a, b with
  | [], [] => true
  | Some x :: r, Some y :: q => (x =? y) && olist_eqb r q
  | _, _ => false
  end.

Definition chk_hoist (driver : bool) (k : kernel) (loki : list hvar) (vals : list (list (string * Z))) : bool :=
  let mdl := if driver then hoist_driver k else hoist k in
  Nat.eqb (List.length mdl) (List.length loki) &&
  forallb (fun lv =>
    match assoc_h mdl (fst lv) with
    | Some ds => forall_vals (fun al => olist_eqb (map (evalZ (cenv al)) (snd lv)) (map (evalZ (cenv al)) ds)) vals
    | None => false
    end) loki.

(** is the hoisted storage sufficient on this valuation (the model's verdict, compared with the oracle's) *)
Definition chk_hoist_enough (k : kernel) (al : list (string * Z)) (expected : bool) : bool :=
  match hoist_enough (cenv []) k (cenv al) with
  | Some b => Bool.eqb b expected
  | None => false
  end.
