(** C07 — the standalone expression parser (loki/expression/parser.py on top of pymbolic/parser.py).
    Definitions only:
    - tokens, the precedence-climbing parser [pexpr] (pymbolic's [parse_expression] loop with Loki's
      [parse_prefix]/[parse_postfix] overrides), the [PymbolicMapper] pass [pm], the entry [parse];
    - the reference: Fortran's expression grammar as derivation families stratified by level, each with
      its yield (token list) and its value under an environment;
    - the decidable class [std_*] on which the real parser is right;
    - boolean comparators [chk_*] used by the correspondence run. *)
From Coq Require Import ZArith List Bool String Ascii.
From LV Require Import Base.Expr.
Import ListNotations.
Open Scope Z_scope.

(** * Tokens (what the lexer hands to the parser; identifiers already case-folded by the harness) *)
Inductive token :=
| TInt (n : Z) | TId (s : string) | TTrue | TFalse
| TPlus | TMinus | TStar | TSlash | TPow
| TLp | TRp | TComma
| TPct                       (* '%' and a stray '.' : both carry the tag "dot" in Loki's lex table *)
| TCmp (op : cmpop) | TAnd | TOr | TNot.

Inductive perr := EParse | EFuel | EUnsupported.
Inductive res (A : Type) := Ok (a : A) | Err (e : perr).
Arguments Ok {A} a.
Arguments Err {A} e.
Definition bind {A B} (r : res A) (f : A -> res B) : res B :=
  match r with Ok a => f a | Err e => Err e end.

(** * The pymbolic-level tree built by the parser (binary nodes; [paren] = Parenthesised* class) *)
Inductive pexp :=
| PNum (n : Z)                       (* python int from an [int] token / IntLiteral from a kinded one *)
| PM1                                (* the python int -1 of Product((-1, x)) *)
| PVar (s : string)
| PLog (b : bool)
| PSum (paren : bool) (l r : pexp)
| PProd (paren : bool) (l r : pexp)
| PQuot (paren : bool) (n d : pexp)
| PPow (paren : bool) (b e : pexp)
| PCmp (op : cmpop) (l r : pexp)
| PAnd (l r : pexp)
| POr (l r : pexp)
| PNot (e : pexp)
| PCall (f : pexp) (args : list pexp)
| PLookup (a n : pexp).

(** precedence ranks: order-isomorphic to pymbolic's numbers
    COMMA 5 < OR 80 < AND 90 < COMPARISON 200 < PLUS 210 < TIMES 220 < POWER 230 < UNARY 240 < CALL 250 *)
Definition P_COMMA := 1%nat.
Definition P_OR := 2%nat.
Definition P_AND := 3%nat.
Definition P_CMP := 4%nat.
Definition P_PLUS := 5%nat.
Definition P_TIMES := 6%nat.
Definition P_POWER := 7%nat.
Definition P_UNARY := 8%nat.
Definition P_CALL := 9%nat.

(** ExpressionParser._parenthesise *)
Definition parenthesise (e : pexp) : pexp :=
  match e with
  | PSum _ l r => PSum true l r
  | PProd _ l r => PProd true l r
  | PQuot _ n d => PQuot true n d
  | PPow _ b x => PPow true b x
  | _ => e
  end.

(** Loki's [*] branch: type-exact test on the right operand *)
Definition mul_reassoc (l r : pexp) : pexp :=
  match r with
  | PQuot false n d => PQuot false (PProd false l n) d
  | PProd false x y => PProd false (PProd false l x) y
  | _ => PProd false l r
  end.

Definition prec := nat.
Definition parser := prec -> list token -> res (pexp * list token).

(** parse_prefix (Loki's override, then pymbolic's, then parse_terminal) *)
Definition pprefix (rec : parser) (ts : list token) : res (pexp * list token) :=
  match ts with
  | [] => Err EParse
  | TMinus :: r => bind (rec P_UNARY r) (fun p => Ok (PProd false PM1 (fst p), snd p))
  | TLp :: TRp :: _ => Err EUnsupported                       (* the empty tuple *)
  | TLp :: r => bind (rec 0%nat r) (fun p =>
                  match snd p with
                  | TRp :: r' => Ok (parenthesise (fst p), r')
                  | _ => Err EParse
                  end)
  | TPlus :: r => rec P_UNARY r
  | TNot :: r => bind (rec P_UNARY r) (fun p => Ok (PNot (fst p), snd p))
  | TStar :: _ => Err EUnsupported                            (* pymbolic Wildcard *)
  | TInt n :: r => Ok (PNum n, r)
  | TId s :: r => Ok (PVar s, r)
  | TTrue :: r => Ok (PLog true, r)
  | TFalse :: r => Ok (PLog false, r)
  | _ => Err EParse                                           (* "terminal expected" *)
  end.

(** pymbolic parse_arglist (positional arguments only) *)
Fixpoint parglist (rec : parser) (fuel : nat) (comma_allowed : bool) (ts : list token)
  : res (list pexp * list token) :=
  match fuel with
  | O => Err EFuel
  | S f =>
    let arg (ts' : list token) :=
      bind (rec P_COMMA ts') (fun p =>
      bind (parglist rec f true (snd p)) (fun q => Ok (fst p :: fst q, snd q))) in
    match ts with
    | [] => Err EParse
    | TComma :: r =>
        if comma_allowed then
          match r with
          | [] => Err EParse
          | TRp :: r' => Ok ([], r')
          | _ => arg r
          end
        else Err EParse
    | TRp :: r => Ok ([], r)
    | _ => if comma_allowed then Err EParse else arg ts
    end
  end.

(** the postfix loop of parse_expression: one iteration = one call of parse_postfix *)
Fixpoint ploop (rec : parser) (fuel : nat) (minp : prec) (l : pexp) (ts : list token)
  : res (pexp * list token) :=
  match fuel with
  | O => Err EFuel
  | S f =>
    match ts with
    | [] => Ok (l, [])
    | TPct :: r =>
        if (minp <? P_CALL)%nat then
          bind (rec P_PLUS r) (fun p => ploop rec f minp (PLookup l (fst p)) (snd p))
        else Ok (l, ts)
    | TStar :: r =>
        if (minp <? P_TIMES)%nat then
          bind (rec P_PLUS r) (fun p => ploop rec f minp (mul_reassoc l (fst p)) (snd p))
        else Ok (l, ts)
    | TPlus :: r =>
        if (minp <? P_PLUS)%nat then
          bind (rec P_PLUS r) (fun p => ploop rec f minp (PSum false l (fst p)) (snd p))
        else Ok (l, ts)
    | TMinus :: r =>
        if (minp <? P_PLUS)%nat then
          bind (rec P_PLUS r) (fun p => ploop rec f minp (PSum false l (PProd false PM1 (fst p))) (snd p))
        else Ok (l, ts)
    | TLp :: r =>
        if (minp <? P_CALL)%nat then
          bind (parglist rec f false r) (fun p => ploop rec f minp (PCall l (fst p)) (snd p))
        else Ok (l, ts)
    | TSlash :: r =>
        if (minp <? P_TIMES)%nat then
          bind (rec P_TIMES r) (fun p => ploop rec f minp (PQuot false l (fst p)) (snd p))
        else Ok (l, ts)
    | TPow :: r =>
        if (minp <? P_POWER)%nat then
          bind (rec P_TIMES r) (fun p => ploop rec f minp (PPow false l (fst p)) (snd p))
        else Ok (l, ts)
    | TAnd :: r =>
        if (minp <? P_AND)%nat then
          bind (rec P_AND r) (fun p => ploop rec f minp (PAnd l (fst p)) (snd p))
        else Ok (l, ts)
    | TOr :: r =>
        if (minp <? P_OR)%nat then
          bind (rec P_OR r) (fun p => ploop rec f minp (POr l (fst p)) (snd p))
        else Ok (l, ts)
    | TCmp op :: r =>
        if (minp <? P_CMP)%nat then
          bind (rec P_CMP r) (fun p => ploop rec f minp (PCmp op l (fst p)) (snd p))
        else Ok (l, ts)
    | TComma :: _ =>
        if (minp <? P_COMMA)%nat then Err EUnsupported (* builds a python tuple *)
        else Ok (l, ts)
    | _ => Ok (l, ts)
    end
  end.

(** parse_expression = prefix, then the loop *)
Definition pcont (rec : parser) (fuel : nat) (minp : prec) (ts : list token) : res (pexp * list token) :=
  bind (pprefix rec ts) (fun p => ploop rec fuel minp (fst p) (snd p)).

Fixpoint pexpr (fuel : nat) : parser :=
  match fuel with
  | O => fun _ _ => Err EFuel
  | S f => fun minp ts => pcont (pexpr f) f minp ts
  end.

(** * PymbolicMapper *)
Definition fintr_names : list string := ["mod"; "min"; "max"; "abs"]%string.
Definition fintr_name (f : string) : bool := existsb (String.eqb f) fintr_names.
Definition is_cast_name (f : string) : bool := (String.eqb f "real" || String.eqb f "int")%bool.

Definition qual (par : option string) (s : string) : string :=
  match par with None => s | Some p => append p (String "%"%char s) end.

Definition name_of (e : expr) : option string :=
  match e with
  | EVar s => Some s
  | ECall f (_ :: _) => if fintr_name f then None else Some f
  | _ => None
  end.

Definition pm_list (f : pexp -> res expr) : list pexp -> res (list expr) :=
  fix go (l : list pexp) : res (list expr) :=
    match l with
    | [] => Ok []
    | x :: r => bind (f x) (fun x' => bind (go r) (fun r' => Ok (x' :: r')))
    end.

Fixpoint pm (par : option string) (e : pexp) {struct e} : res expr :=
  match e with
  | PNum n => Ok (EInt n)
  | PM1 => Ok (EPy (-1))
  | PVar s => Ok (EVar (qual par s))
  | PLog b => Ok (ELog b)
  | PSum p l r => bind (pm par l) (fun l' => bind (pm par r) (fun r' => Ok (ESum p [l'; r'])))
  | PProd p l r => bind (pm par l) (fun l' => bind (pm par r) (fun r' => Ok (EProd p [l'; r'])))
  | PQuot p l r => bind (pm par l) (fun l' => bind (pm par r) (fun r' => Ok (EQuot p l' r')))
  | PPow p l r => bind (pm par l) (fun l' => bind (pm par r) (fun r' => Ok (EPow p l' r')))
  | PCmp op l r => bind (pm par l) (fun l' => bind (pm par r) (fun r' => Ok (ECmp op l' r')))
  | PAnd l r => bind (pm par l) (fun l' => bind (pm par r) (fun r' => Ok (EAnd [l'; r'])))
  | POr l r => bind (pm par l) (fun l' => bind (pm par r) (fun r' => Ok (EOr [l'; r'])))
  | PNot x => bind (pm par x) (fun x' => Ok (ENot x'))
  | PCall f args =>
      match f with
      | PVar name =>
          if is_cast_name name then Err EUnsupported
          else if fintr_name name then
            bind (pm_list (fun x => pm par x) args) (fun a' => Ok (ECall name a'))            (* the parent leaks into the arguments *)
          else
            bind (pm_list (fun x => pm None x) args) (fun a' => Ok (ECall (qual par name) a'))
      | _ => Err EUnsupported
      end
  | PLookup a n =>
      bind (pm par a) (fun a' =>
        match name_of a' with
        | Some s => pm (Some s) n
        | None => Err EUnsupported
        end)
  end.

(** * Entry point: ExpressionParser.__call__ without evaluation *)
Definition parse_fuel (ts : list token) : nat := S (S (List.length ts)).

Definition parse_p (ts : list token) : res pexp :=
  match pexpr (parse_fuel ts) 0%nat ts with
  | Ok (e, []) => Ok e
  | Ok (_, _ :: _) => Err EParse            (* "leftover input after completed parse" *)
  | Err e => Err e
  end.

Definition parse_res (ts : list token) : res expr := bind (parse_p ts) (pm None).

Definition parse (ts : list token) : option expr :=
  match parse_res ts with Ok e => Some e | Err _ => None end.

(** * Reference: Fortran expression grammar (F2008 R701-R717 without defined operators, concatenation and
    .eqv./.neqv.), as derivation families.  Left-recursive rules are written in their iterative form
    (operand followed by a tail of operator/operand pairs); the value functions fold the tail from the
    left, which is the left-associativity the standard prescribes. *)
Inductive sign := SPlus | SMinus.

Inductive prim :=
| PrInt (n : Z)
| PrVar (x : string)
| PrParen (e : lvl2)
| PrCall (f : string) (a : args)
with mulopd :=                     (* mult-operand: level-1-expr [ ** mult-operand ] *)
| MBase (p : prim)
| MPow (p : prim) (m : mulopd)
with mtail :=                      (* { mult-op mult-operand } *)
| MNil
| MMul (m : mulopd) (r : mtail)
| MDiv (m : mulopd) (r : mtail)
with addopd :=                     (* add-operand *)
| AO (m : mulopd) (t : mtail)
with atail :=                      (* { add-op add-operand } *)
| ANil
| AAdd (a : addopd) (r : atail)
| ASub (a : addopd) (r : atail)
with lvl2 :=                       (* level-2-expr: [sign] add-operand { add-op add-operand } *)
| L2 (s : option sign) (a : addopd) (t : atail)
with args :=                       (* non-empty actual argument / subscript list *)
| AOne (e : lvl2)
| ACons (e : lvl2) (r : args).

Inductive lprim :=
| LTrue | LFalse
| LVar (x : string)
| LParen (e : lexpr)
with l4 :=                         (* level-4-expr: [level-3 rel-op] level-3 *)
| L4Prim (p : lprim)
| L4Cmp (a : lvl2) (op : cmpop) (b : lvl2)
with andopd :=                     (* and-operand: [.not.] level-4-expr *)
| AndBase (x : l4)
| AndNot (x : l4)
with andtail :=
| DNil
| DAnd (x : andopd) (r : andtail)
with oropd :=                      (* or-operand: and-operand { .and. and-operand } *)
| OrO (x : andopd) (t : andtail)
with ortail :=
| ONil
| OOr (x : oropd) (r : ortail)
with lexpr :=                      (* equiv-operand: or-operand { .or. or-operand } *)
| LE (x : oropd) (t : ortail).

(** yields *)
Fixpoint y_prim (p : prim) : list token :=
  match p with
  | PrInt n => [TInt n]
  | PrVar x => [TId x]
  | PrParen e => TLp :: y_l2 e ++ [TRp]
  | PrCall f a => TId f :: TLp :: y_args a ++ [TRp]
  end
with y_mul (m : mulopd) : list token :=
  match m with
  | MBase p => y_prim p
  | MPow p m' => y_prim p ++ TPow :: y_mul m'
  end
with y_mtail (t : mtail) : list token :=
  match t with
  | MNil => []
  | MMul m r => TStar :: y_mul m ++ y_mtail r
  | MDiv m r => TSlash :: y_mul m ++ y_mtail r
  end
with y_add (a : addopd) : list token :=
  match a with AO m t => y_mul m ++ y_mtail t end
with y_atail (t : atail) : list token :=
  match t with
  | ANil => []
  | AAdd a r => TPlus :: y_add a ++ y_atail r
  | ASub a r => TMinus :: y_add a ++ y_atail r
  end
with y_l2 (e : lvl2) : list token :=
  match e with
  | L2 None a t => y_add a ++ y_atail t
  | L2 (Some SPlus) a t => TPlus :: y_add a ++ y_atail t
  | L2 (Some SMinus) a t => TMinus :: y_add a ++ y_atail t
  end
with y_args (a : args) : list token :=
  match a with
  | AOne e => y_l2 e
  | ACons e r => y_l2 e ++ TComma :: y_args r
  end.

Fixpoint y_lprim (p : lprim) : list token :=
  match p with
  | LTrue => [TTrue]
  | LFalse => [TFalse]
  | LVar x => [TId x]
  | LParen e => TLp :: y_lexpr e ++ [TRp]
  end
with y_l4 (x : l4) : list token :=
  match x with
  | L4Prim p => y_lprim p
  | L4Cmp a op b => y_l2 a ++ TCmp op :: y_l2 b
  end
with y_and (x : andopd) : list token :=
  match x with
  | AndBase y => y_l4 y
  | AndNot y => TNot :: y_l4 y
  end
with y_andtail (t : andtail) : list token :=
  match t with
  | DNil => []
  | DAnd x r => TAnd :: y_and x ++ y_andtail r
  end
with y_or (x : oropd) : list token :=
  match x with OrO y t => y_and y ++ y_andtail t end
with y_ortail (t : ortail) : list token :=
  match t with
  | ONil => []
  | OOr x r => TOr :: y_or x ++ y_ortail r
  end
with y_lexpr (e : lexpr) : list token :=
  match e with LE x t => y_or x ++ y_ortail t end.

(** values (Fortran integer arithmetic: [div_z] truncates, [pow_z] as in Base.Expr) *)
Definition lift2 {A B C} (f : A -> B -> option C) (x : option A) (y : option B) : option C :=
  obind x (fun a => obind y (fun b => f a b)).
Definition mulo := lift2 (fun a b : Z => Some (a * b)).
Definition addo := lift2 (fun a b : Z => Some (a + b)).
Definition subo := lift2 (fun a b : Z => Some (a - b)).
Definition divo := lift2 div_z.
Definition powo := lift2 pow_z.
Definition nego (x : option Z) : option Z := obind x (fun a => Some (- a)).
Definition ando := lift2 (fun a b : bool => Some (a && b)).
Definition oro := lift2 (fun a b : bool => Some (a || b)).
Definition noto (x : option bool) : option bool := obind x (fun a => Some (negb a)).

Definition call_val (rho : env) (f : string) (vs : option (list Z)) : option Z :=
  obind vs (fun l => match intrinsic f l with Some r => r | None => ev_fun rho f l end).

Fixpoint v_prim (rho : env) (p : prim) : option Z :=
  match p with
  | PrInt n => Some n
  | PrVar x => Some (ev_var rho x)
  | PrParen e => v_l2 rho e
  | PrCall f a => call_val rho f (v_args rho a)
  end
with v_mul (rho : env) (m : mulopd) : option Z :=
  match m with
  | MBase p => v_prim rho p
  | MPow p m' => powo (v_prim rho p) (v_mul rho m')          (* right-associative *)
  end
with v_mtail (rho : env) (acc : option Z) (t : mtail) : option Z :=
  match t with
  | MNil => acc
  | MMul m r => v_mtail rho (mulo acc (v_mul rho m)) r       (* left-associative *)
  | MDiv m r => v_mtail rho (divo acc (v_mul rho m)) r
  end
with v_add (rho : env) (a : addopd) : option Z :=
  match a with AO m t => v_mtail rho (v_mul rho m) t end
with v_atail (rho : env) (acc : option Z) (t : atail) : option Z :=
  match t with
  | ANil => acc
  | AAdd a r => v_atail rho (addo acc (v_add rho a)) r
  | ASub a r => v_atail rho (subo acc (v_add rho a)) r
  end
with v_l2 (rho : env) (e : lvl2) : option Z :=
  match e with
  | L2 None a t => v_atail rho (v_add rho a) t
  | L2 (Some SPlus) a t => v_atail rho (v_add rho a) t
  | L2 (Some SMinus) a t => v_atail rho (nego (v_add rho a)) t   (* the sign applies to the whole add-operand *)
  end
with v_args (rho : env) (a : args) : option (list Z) :=
  match a with
  | AOne e => obind (v_l2 rho e) (fun v => Some [v])
  | ACons e r => obind (v_l2 rho e) (fun v => obind (v_args rho r) (fun vs => Some (v :: vs)))
  end.

(** logical variables are stored in the integer environment (0 = false) *)
Definition lvar_val (rho : env) (x : string) : bool := negb (ev_var rho x =? 0).

Fixpoint v_lprim (rho : env) (p : lprim) : option bool :=
  match p with
  | LTrue => Some true
  | LFalse => Some false
  | LVar x => Some (lvar_val rho x)
  | LParen e => v_lexpr rho e
  end
with v_l4 (rho : env) (x : l4) : option bool :=
  match x with
  | L4Prim p => v_lprim rho p
  | L4Cmp a op b => lift2 (fun x y => Some (cmp_z op x y)) (v_l2 rho a) (v_l2 rho b)
  end
with v_and (rho : env) (x : andopd) : option bool :=
  match x with
  | AndBase y => v_l4 rho y
  | AndNot y => noto (v_l4 rho y)
  end
with v_andtail (rho : env) (acc : option bool) (t : andtail) : option bool :=
  match t with
  | DNil => acc
  | DAnd x r => v_andtail rho (ando acc (v_and rho x)) r
  end
with v_or (rho : env) (x : oropd) : option bool :=
  match x with OrO y t => v_andtail rho (v_and rho y) t end
with v_ortail (rho : env) (acc : option bool) (t : ortail) : option bool :=
  match t with
  | ONil => acc
  | OOr x r => v_ortail rho (oro acc (v_or rho x)) r
  end
with v_lexpr (rho : env) (e : lexpr) : option bool :=
  match e with LE x t => v_ortail rho (v_or rho x) t end.

(** logical value of a Loki tree: [Base.Expr.evalB] extended with logical variables *)
Fixpoint evalL (rho : env) (e : expr) : option bool :=
  match e with
  | ELog b => Some b
  | EVar x => Some (lvar_val rho x)
  | ECmp op l r => obind (evalZ rho l) (fun a => obind (evalZ rho r) (fun b => Some (cmp_z op a b)))
  | EAnd cs => fold_right (fun c acc => obind (evalL rho c) (fun v => obind acc (fun a => Some (v && a)))) (Some true) cs
  | EOr cs => fold_right (fun c acc => obind (evalL rho c) (fun v => obind acc (fun a => Some (v || a)))) (Some false) cs
  | ENot x => obind (evalL rho x) (fun v => Some (negb v))
  | _ => None
  end.

(** * The class on which the real parser follows the grammar.
    Excluded: (1) a leading minus whose add-operand starts with a power ([-a**b], parsed [(-a)**b]);
    (2) a [*] whose remaining chain contains a [/] that is not the very last operator
        ([a*b/c*d] parsed [(a*(b/c))*d], [a*b/c/d] parsed [(a*(b/c))/d]);
    (3) [.not.] applied to a comparison ([.not. a == b] parsed [(.not. a) == b]). *)
Fixpoint simple_mtail (t : mtail) : bool :=      (* only [*]s, then at most one final [/] *)
  match t with
  | MNil => true
  | MMul _ r => simple_mtail r
  | MDiv _ MNil => true
  | MDiv _ _ => false
  end.
Fixpoint ok_mtail (t : mtail) : bool :=
  match t with
  | MNil => true
  | MDiv _ r => ok_mtail r
  | MMul _ r => simple_mtail r
  end.
Definition is_pow (m : mulopd) : bool := match m with MPow _ _ => true | MBase _ => false end.

Definition neg_pow_free (s : option sign) (a : addopd) : bool :=
  match s, a with
  | Some SMinus, AO m _ => negb (is_pow m)
  | _, _ => true
  end.

Fixpoint std_prim (p : prim) : bool :=
  match p with
  | PrInt _ | PrVar _ => true
  | PrParen e => std_l2 e
  | PrCall f a => negb (is_cast_name f) && std_args a
  end
with std_mul (m : mulopd) : bool :=
  match m with
  | MBase p => std_prim p
  | MPow p m' => std_prim p && std_mul m'
  end
with std_mtail (t : mtail) : bool :=
  match t with
  | MNil => true
  | MMul m r => std_mul m && std_mtail r
  | MDiv m r => std_mul m && std_mtail r
  end
with std_add (a : addopd) : bool :=
  match a with AO m t => std_mul m && std_mtail t && ok_mtail t end
with std_atail (t : atail) : bool :=
  match t with
  | ANil => true
  | AAdd a r => std_add a && std_atail r
  | ASub a r => std_add a && std_atail r
  end
with std_l2 (e : lvl2) : bool :=
  match e with
  | L2 s a t => neg_pow_free s a && std_add a && std_atail t
  end
with std_args (a : args) : bool :=
  match a with
  | AOne e => std_l2 e
  | ACons e r => std_l2 e && std_args r
  end.

Fixpoint std_lprim (p : lprim) : bool :=
  match p with
  | LParen e => std_lexpr e
  | _ => true
  end
with std_l4 (x : l4) : bool :=
  match x with
  | L4Prim p => std_lprim p
  | L4Cmp a _ b => std_l2 a && std_l2 b
  end
with std_and (x : andopd) : bool :=
  match x with
  | AndBase y => std_l4 y
  | AndNot (L4Prim p) => std_lprim p
  | AndNot (L4Cmp _ _ _) => false
  end
with std_andtail (t : andtail) : bool :=
  match t with
  | DNil => true
  | DAnd x r => std_and x && std_andtail r
  end
with std_or (x : oropd) : bool :=
  match x with OrO y t => std_and y && std_andtail t end
with std_ortail (t : ortail) : bool :=
  match t with
  | ONil => true
  | OOr x r => std_or x && std_ortail r
  end
with std_lexpr (e : lexpr) : bool :=
  match e with LE x t => std_or x && std_ortail t end.

(** a top-level expression: integer-valued or logical-valued *)
Inductive fexpr := FArith (e : lvl2) | FLogic (e : lexpr).
Definition y_fexpr (d : fexpr) : list token := match d with FArith e => y_l2 e | FLogic e => y_lexpr e end.
Definition std_prec (d : fexpr) : bool := match d with FArith e => std_l2 e | FLogic e => std_lexpr e end.

(** value of a derivation / of the tree the parser returns for it *)
Inductive fval := VZ (z : option Z) | VB (b : option bool).
Definition v_fexpr (rho : env) (d : fexpr) : fval :=
  match d with FArith e => VZ (v_l2 rho e) | FLogic e => VB (v_lexpr rho e) end.
Definition tree_val (rho : env) (d : fexpr) (t : expr) : fval :=
  match d with FArith _ => VZ (evalZ rho t) | FLogic _ => VB (evalL rho t) end.

(** * Correspondence comparators (evaluated with vm_compute on every run) *)
Definition cmpop_eqb (a b : cmpop) : bool :=
  match a, b with Ceq, Ceq | Cne, Cne | Clt, Clt | Cle, Cle | Cgt, Cgt | Cge, Cge => true | _, _ => false end.

Definition token_eqb (a b : token) : bool :=
  match a, b with
  | TInt x, TInt y => x =? y
  | TId x, TId y => String.eqb x y
  | TTrue, TTrue | TFalse, TFalse | TPlus, TPlus | TMinus, TMinus | TStar, TStar | TSlash, TSlash
  | TPow, TPow | TLp, TLp | TRp, TRp | TComma, TComma | TPct, TPct | TAnd, TAnd | TOr, TOr | TNot, TNot => true
  | TCmp x, TCmp y => cmpop_eqb x y
  | _, _ => false
  end.

Fixpoint tokens_eqb (a b : list token) : bool :=
  match a, b with
  | [], [] => true
  | x :: r, y :: s => token_eqb x y && tokens_eqb r s
  | _, _ => false
  end.

(** the implementation returned the tree [impl] *)
Definition chk_tree (ts : list token) (impl : expr) : bool :=
  match parse_res ts with Ok t => expr_eqb t impl | Err _ => false end.
(** the implementation raised pytools.lex.ParseError *)
Definition chk_parse_error (ts : list token) : bool :=
  match parse_res ts with Err EParse => true | _ => false end.
(** malformed stream: ParseError or a construct outside the model *)
Definition chk_error_weak (ts : list token) : bool :=
  match parse_res ts with Err EParse | Err EUnsupported => true | _ => false end.
(** the harness' derivation has the token list it was printed from and the class flag it claims *)
Definition chk_deriv (d : fexpr) (ts : list token) (in_class : bool) : bool :=
  tokens_eqb (y_fexpr d) ts && Bool.eqb (std_prec d) in_class.
