(** C06 — printed expressions denote the tree they were printed from.  Definitions only.

    [print_f] / [print_c] reproduce loki.backend.fgen.FCodeMapper / loki.backend.cgen.CCodeMapper
    (on top of loki.expression.mappers.LokiStringifyMapper and pymbolic's StringifyMapper) as
    functions from the shared [expr] tree to a token list.  [classify] is the decidable class
    predicate on which the Fortran text is right; [fx]/[evalF]/[evalFB] are Fortran parse trees and
    their meaning; [ref_parse] is an executable reader of Fortran token lists (precedence climbing
    with fuel) used by the correspondence to read the real [fgen] text back inside Coq. *)
From Coq Require Import ZArith List Bool String.
From LV Require Import Base.Expr.
Import ListNotations.
Open Scope Z_scope.

(** * Tokens (blanks are not significant; a negative number is the two tokens [-] [n]) *)
Inductive token :=
| TInt (n : Z) | TVar (s : string) | TTrue | TFalse
| TLP | TRP | TComma
| TPlus | TMinus | TStar | TSlash | TPow
| TRel (op : cmpop) | TNot | TAnd | TOr
| TErr.   (* the implementation raised (IndexError on an empty Sum / Product inside a Sum) *)

(** pymbolic precedence numbers *)
Definition PREC_CALL := 15%nat.
Definition PREC_POWER := 14%nat.
Definition PREC_UNARY := 13%nat.
Definition PREC_PRODUCT := 12%nat.
Definition PREC_SUM := 11%nat.
Definition PREC_COMPARISON := 6%nat.
Definition PREC_AND := 5%nat.
Definition PREC_OR := 4%nat.
Definition PREC_NONE := 0%nat.

Definition paren (ts : list token) : list token := TLP :: ts ++ [TRP].
(** [parenthesize_if_needed]: strictly greater *)
Definition paren_if (enc my : nat) (ts : list token) : list token :=
  if Nat.ltb my enc then paren ts else ts.

Definition tok_int (v : Z) : list token := if v <? 0 then [TMinus; TInt (- v)] else [TInt v].

(** pymbolic [map_constant] for a bare python int *)
Definition print_const (v : Z) (enc : nat) : list token :=
  if (v <? 0) && Nat.ltb PREC_SUM enc then paren (tok_int v) else tok_int v.

(** [sep.join(l)] *)
Definition join (sep : token) (l : list (list token)) : list token :=
  match l with
  | [] => []
  | x :: r => x ++ flat_map (fun p => sep :: p) r
  end.

(** [x == -1] is true for the python int and for IntLiteral(-1); [is_zero(x + 1)] only for the python int
    ([is_py_m1] of Base.Expr) *)
Definition is_m1 (e : expr) : bool :=
  match e with EPy v => v =? -1 | EInt v => v =? -1 | _ => false end.

(** printing context: an enclosing precedence, or "as a term of a Sum" (the result then starts with the
    operator [map_sum] chose for it) *)
Inductive mode := MP (enc : nat) | MT.

Definition at_mode (m : mode) (f : nat -> list token) : list token :=
  match m with MP p => f p | MT => TPlus :: f PREC_SUM end.

(** [map_product] on children [cs] whose renderings at PREC_PRODUCT are [ps] (without the final
    parenthesize_if_needed) *)
Definition prod_toks (cs : list expr) (ps : list (list token)) : list token :=
  match cs, ps with
  | [c0; _], [_; p1] => if is_m1 c0 then TMinus :: p1 else join TStar ps
  | _, _ => join TStar ps
  end.

(** [map_sum]: the terms already carry their operator; a leading [+] is dropped, a leading [-] is kept *)
Definition sum_toks (terms : list (list token)) : list token :=
  match List.concat terms with
  | [] => [TErr]
  | TPlus :: r => r
  | ts => ts
  end.

Inductive lang := LF | LC.

Definition is_unparen_mult (e : expr) : bool :=
  match e with EProd false _ | EQuot false _ _ => true | _ => false end.

Fixpoint print (l : lang) (e : expr) (m : mode) : list token :=
  match e with
  | EInt v => at_mode m (fun _ => tok_int v)
  | EPy v => at_mode m (fun p => print_const v p)
  | EVar x => at_mode m (fun _ => [TVar x])
  | ELog b => at_mode m (fun _ => [if b then TTrue else TFalse])
  | ESum par cs =>
      let body := sum_toks (map (fun c => print l c MT) cs) in
      at_mode m (fun p => if par then paren body else paren_if p PREC_SUM body)
  | EProd par cs =>
      let ps := map (fun c => print l c (MP PREC_PRODUCT)) cs in
      let body := prod_toks cs ps in
      if par then at_mode m (fun _ => paren body)
      else match m with
           | MP p => paren_if p PREC_PRODUCT body
           | MT => match cs, ps with
                   | c0 :: rcs, _ :: rps => if is_py_m1 c0 then TMinus :: prod_toks rcs rps else TPlus :: body
                   | _, _ => [TErr]
                   end
           end
  | EQuot par n d =>
      let pn := print l n (MP PREC_PRODUCT) in
      let pd0 := print l d (MP PREC_PRODUCT) in
      let pd := match l with LF => pd0 | LC => if is_unparen_mult d then paren pd0 else pd0 end in
      let body := pn ++ TSlash :: pd in
      at_mode m (fun p => if par then paren body else paren_if p PREC_PRODUCT body)
  | EPow par b x =>
      match l with
      | LF =>
          let body := print l b (MP PREC_POWER) ++ TPow :: print l x (MP PREC_POWER) in
          at_mode m (fun p => if par then paren body else paren_if p PREC_POWER body)
      | LC =>
          let body := TVar "pow" :: TLP :: print l b (MP PREC_NONE) ++ TComma :: print l x (MP PREC_NONE) ++ [TRP] in
          at_mode m (fun p => if par then paren body else paren_if p PREC_NONE body)
      end
  | ECmp op a b =>
      let body := print l a (MP PREC_COMPARISON) ++ TRel op :: print l b (MP PREC_COMPARISON) in
      at_mode m (fun p => paren_if p PREC_COMPARISON body)
  | EAnd cs =>
      let body := join TAnd (map (fun c => print l c (MP PREC_AND)) cs) in
      at_mode m (fun p => paren_if p PREC_AND body)
  | EOr cs =>
      let body := join TOr (map (fun c => print l c (MP PREC_OR)) cs) in
      at_mode m (fun p => paren_if p PREC_OR body)
  | ENot a =>
      let body := TNot :: print l a (MP PREC_UNARY) in
      at_mode m (fun p => paren_if p PREC_UNARY body)
  | ECall f args =>
      at_mode m (fun _ => TVar f :: TLP :: join TComma (map (fun a => print l a (MP PREC_NONE)) args) ++ [TRP])
  end.

Definition print_f (e : expr) (enc : nat) : list token := print LF e (MP enc).
Definition print_c (e : expr) (enc : nat) : list token := print LC e (MP enc).

(** * The class on which the Fortran text is right.

    [classify e m = Some k]: the text printed for [e] in context [m] (for [MT]: the text after the
    operator) is a phrase of grammar class [k] whose value is the value of [e] (negated for a [-] term):
    KPrim primary; KMul mult-operand; KChain  m1 * m2 * ... of mult-operands; KAdd add-operand;
    KSAdd  "-" add-operand; KL2  a1 (+|-) a2 ... of add-operands; KSL2 the same starting with a sign. *)
Inductive cls := KPrim | KMul | KChain | KAdd | KSAdd | KL2 | KSL2.

Definition cls_rank (k : cls) : nat :=
  match k with KPrim => 0 | KMul => 1 | KChain => 2 | KAdd => 3 | KSAdd => 3 | KL2 => 4 | KSL2 => 4 end%nat.
Definition cls_signed (k : cls) : bool := match k with KSAdd | KSL2 => true | _ => false end.
Definition le_unsigned (k : cls) (bound : nat) : bool := negb (cls_signed k) && Nat.leb (cls_rank k) bound.
Definition is_some {A} (o : option A) : bool := match o with Some _ => true | None => false end.
Definition to_prim (o : option cls) : option cls := match o with Some _ => Some KPrim | None => None end.

Definition cat_mode (m : mode) (f : nat -> option cls) : option cls :=
  match m with MP p => f p | MT => f PREC_SUM end.

Definition chain_cls (ks : list (option cls)) : option cls :=
  match ks with
  | Some k0 :: r =>
      if forallb (fun k => match k with Some k => le_unsigned k 2 | None => false end) r then
        match k0 with
        | KPrim | KMul | KChain => Some KChain
        | KAdd => Some KAdd
        | KSAdd => Some KSAdd
        | _ => None
        end
      else None
  | _ => None
  end.

Definition prod_cls (cs : list expr) (ks : list (option cls)) : option cls :=
  match cs, ks with
  | [c0; _], [_; k1] =>
      if is_m1 c0 then
        match k1 with Some k => if le_unsigned k 3 then Some KSAdd else None | None => None end
      else chain_cls ks
  | _, _ => chain_cls ks
  end.

(** a Sum child is printed as a [-] term iff it is an un-parenthesised Product whose first factor is the python -1 *)
Definition term_neg (e : expr) : bool :=
  match e with EProd false (c0 :: _) => is_py_m1 c0 | _ => false end.

Definition term_ok (first : bool) (nk : bool * option cls) : bool :=
  match nk with
  | (_, None) => false
  | (true, Some k) => le_unsigned k 3
  | (false, Some k) => if first then true else le_unsigned k 4
  end.

Definition sum_cls (nks : list (bool * option cls)) : option cls :=
  match nks with
  | [] => None
  | (n0, k0) :: r =>
      if term_ok true (n0, k0) && forallb (term_ok false) r then
        match k0 with
        | Some k => Some (if n0 || cls_signed k then KSL2 else KL2)
        | None => None
        end
      else None
  end.

Fixpoint classify (e : expr) (m : mode) : option cls :=
  match e with
  | EInt v => cat_mode m (fun p => if v <? 0 then (if Nat.ltb PREC_PRODUCT p then None else Some KSAdd) else Some KPrim)
  | EPy v => cat_mode m (fun p => if v <? 0 then (if Nat.ltb PREC_SUM p then Some KPrim else Some KSAdd) else Some KPrim)
  | EVar _ => Some KPrim
  | ESum par cs =>
      let body := sum_cls (map (fun c => (term_neg c, classify c MT)) cs) in
      cat_mode m (fun p => if par || Nat.ltb PREC_SUM p then to_prim body else body)
  | EProd par cs =>
      let ks := map (fun c => classify c (MP PREC_PRODUCT)) cs in
      let body := prod_cls cs ks in
      if par then to_prim body
      else match m with
           | MP p => if Nat.ltb PREC_PRODUCT p then to_prim body else body
           | MT => match cs, ks with
                   | c0 :: rcs, _ :: rks => if is_py_m1 c0 then prod_cls rcs rks else body
                   | _, _ => None
                   end
           end
  | EQuot par n d =>
      let body :=
        match classify n (MP PREC_PRODUCT), classify d (MP PREC_PRODUCT) with
        | Some kn, Some kd =>
            if le_unsigned kd 1 then
              (if le_unsigned kn 3 then Some KAdd else match kn with KSAdd => Some KSAdd | _ => None end)
            else None
        | _, _ => None
        end in
      cat_mode m (fun p => if par || Nat.ltb PREC_PRODUCT p then to_prim body else body)
  | EPow par b x =>
      let body :=
        match classify b (MP PREC_POWER), classify x (MP PREC_POWER) with
        | Some KPrim, Some kx => if le_unsigned kx 1 then Some KMul else None
        | _, _ => None
        end in
      cat_mode m (fun p => if par || Nat.ltb PREC_POWER p then to_prim body else body)
  | ECall f args =>
      if forallb (fun a => is_some (classify a (MP PREC_NONE))) args then Some KPrim else None
  | ELog _ | ECmp _ _ _ | EAnd _ | EOr _ | ENot _ => None
  end.

(** logical trees: KBPrim literal / parenthesised; KBRel comparison (level-4); KBNot  .not. level-4;
    KBAnd  chain of .and.; KBOr chain of .or. *)
Inductive bcls := KBPrim | KBRel | KBNot | KBAnd | KBOr.
Definition bcls_rank (k : bcls) : nat :=
  match k with KBPrim => 0 | KBRel => 1 | KBNot => 2 | KBAnd => 3 | KBOr => 4 end%nat.
Definition to_bprim (o : option bcls) : option bcls := match o with Some _ => Some KBPrim | None => None end.

Definition all_le (bound : nat) (ks : list (option bcls)) : bool :=
  match ks with
  | [] => false
  | _ => forallb (fun k => match k with Some k => Nat.leb (bcls_rank k) bound | None => false end) ks
  end.

Fixpoint classifyB (e : expr) (p : nat) : option bcls :=
  match e with
  | ELog _ => Some KBPrim
  | ECmp _ a b =>
      let body := if is_some (classify a (MP PREC_COMPARISON)) && is_some (classify b (MP PREC_COMPARISON))
                  then Some KBRel else None in
      if Nat.ltb PREC_COMPARISON p then to_bprim body else body
  | ENot a =>
      let body := match classifyB a PREC_UNARY with
                  | Some k => if Nat.leb (bcls_rank k) 1 then Some KBNot else None
                  | None => None
                  end in
      if Nat.ltb PREC_UNARY p then to_bprim body else body
  | EAnd cs =>
      let body := if all_le 3 (map (fun c => classifyB c PREC_AND) cs) then Some KBAnd else None in
      if Nat.ltb PREC_AND p then to_bprim body else body
  | EOr cs =>
      let body := if all_le 4 (map (fun c => classifyB c PREC_OR) cs) then Some KBOr else None in
      if Nat.ltb PREC_OR p then to_bprim body else body
  | _ => None
  end.

Definition arith_safe (e : expr) : bool := is_some (classify e (MP PREC_NONE)).
Definition logic_safe (e : expr) : bool := is_some (classifyB e PREC_NONE).
Definition fortran_safe (e : expr) : bool := arith_safe e || logic_safe e.

(** * Fortran parse trees and their meaning *)
Inductive binop := BAdd | BSub | BMul | BDiv | BPow | BAnd | BOr.

Inductive fx :=
| FInt (n : Z) | FVar (x : string) | FLog (b : bool)
| FNeg (a : fx) | FNot (a : fx)
| FBin (op : binop) (a b : fx)
| FCmp (op : cmpop) (a b : fx)
| FCall (f : string) (args : list fx).

Definition lift2 {A B} (f : A -> A -> B) (a b : option A) : option B :=
  obind a (fun x => obind b (fun y => Some (f x y))).
Definition oadd := lift2 Z.add.
Definition osub := lift2 Z.sub.
Definition omul := lift2 Z.mul.
Definition odiv (a b : option Z) : option Z := obind a (fun x => obind b (fun y => div_z x y)).
Definition opow (a b : option Z) : option Z := obind a (fun x => obind b (fun y => pow_z x y)).
Definition oneg (a : option Z) : option Z := obind a (fun x => Some (- x)).
Definition oand := lift2 andb.
Definition oor := lift2 orb.

Fixpoint evalF (rho : env) (t : fx) : option Z :=
  match t with
  | FInt n => Some n
  | FVar x => Some (ev_var rho x)
  | FNeg a => oneg (evalF rho a)
  | FBin BAdd a b => oadd (evalF rho a) (evalF rho b)
  | FBin BSub a b => osub (evalF rho a) (evalF rho b)
  | FBin BMul a b => omul (evalF rho a) (evalF rho b)
  | FBin BDiv a b => odiv (evalF rho a) (evalF rho b)
  | FBin BPow a b => opow (evalF rho a) (evalF rho b)
  | FCall f args =>
      obind ((fix go (l : list fx) : option (list Z) :=
                match l with
                | [] => Some []
                | a :: r => obind (evalF rho a) (fun v => obind (go r) (fun vs => Some (v :: vs)))
                end) args)
            (fun vs => match intrinsic f vs with Some r => r | None => ev_fun rho f vs end)
  | _ => None
  end.

Fixpoint evalFB (rho : env) (t : fx) : option bool :=
  match t with
  | FLog b => Some b
  | FNot a => obind (evalFB rho a) (fun v => Some (negb v))
  | FBin BAnd a b => oand (evalFB rho a) (evalFB rho b)
  | FBin BOr a b => oor (evalFB rho a) (evalFB rho b)
  | FCmp op a b => lift2 (cmp_z op) (evalF rho a) (evalF rho b)
  | _ => None
  end.

(** * The Fortran expression grammar (F2008 R701-R722 without defined operators, concatenation and .eqv.) as a
    derivation relation: [G l ts t] = the token list [ts] is a phrase of level [l] with parse tree [t].
    LPrim primary; LMul mult-operand (right-associative power); LAdd add-operand (left-associative * and /);
    L2 level-2-expr (optional leading sign, left-associative + and -); L4 level-4-expr (at most one relational
    operator); LAndOp and-operand (optional .not.); LOrOp or-operand (chain of .and.); LExpr chain of .or. *)
Inductive lvl := LPrim | LMul | LAdd | L2 | L4 | LAndOp | LOrOp | LExpr.

Inductive G : lvl -> list token -> fx -> Prop :=
| G_int n : 0 <= n -> G LPrim [TInt n] (FInt n)
| G_var x : G LPrim [TVar x] (FVar x)
| G_true : G LPrim [TTrue] (FLog true)
| G_false : G LPrim [TFalse] (FLog false)
| G_paren ts t : G LExpr ts t -> G LPrim (TLP :: ts ++ [TRP]) t
| G_call0 f : G LPrim [TVar f; TLP; TRP] (FCall f [])
| G_call f ts args : Gargs ts args -> G LPrim (TVar f :: TLP :: ts ++ [TRP]) (FCall f args)
| G_mul_prim ts t : G LPrim ts t -> G LMul ts t
| G_pow ts1 t1 ts2 t2 : G LPrim ts1 t1 -> G LMul ts2 t2 -> G LMul (ts1 ++ TPow :: ts2) (FBin BPow t1 t2)
| G_add_mul ts t : G LMul ts t -> G LAdd ts t
| G_times ts1 t1 ts2 t2 : G LAdd ts1 t1 -> G LMul ts2 t2 -> G LAdd (ts1 ++ TStar :: ts2) (FBin BMul t1 t2)
| G_div ts1 t1 ts2 t2 : G LAdd ts1 t1 -> G LMul ts2 t2 -> G LAdd (ts1 ++ TSlash :: ts2) (FBin BDiv t1 t2)
| G_l2_add ts t : G LAdd ts t -> G L2 ts t
| G_neg ts t : G LAdd ts t -> G L2 (TMinus :: ts) (FNeg t)
| G_pos ts t : G LAdd ts t -> G L2 (TPlus :: ts) t
| G_plus ts1 t1 ts2 t2 : G L2 ts1 t1 -> G LAdd ts2 t2 -> G L2 (ts1 ++ TPlus :: ts2) (FBin BAdd t1 t2)
| G_minus ts1 t1 ts2 t2 : G L2 ts1 t1 -> G LAdd ts2 t2 -> G L2 (ts1 ++ TMinus :: ts2) (FBin BSub t1 t2)
| G_l4_l2 ts t : G L2 ts t -> G L4 ts t
| G_rel op ts1 t1 ts2 t2 : G L2 ts1 t1 -> G L2 ts2 t2 -> G L4 (ts1 ++ TRel op :: ts2) (FCmp op t1 t2)
| G_andop_l4 ts t : G L4 ts t -> G LAndOp ts t
| G_not ts t : G L4 ts t -> G LAndOp (TNot :: ts) (FNot t)
| G_orop_andop ts t : G LAndOp ts t -> G LOrOp ts t
| G_and ts1 t1 ts2 t2 : G LOrOp ts1 t1 -> G LAndOp ts2 t2 -> G LOrOp (ts1 ++ TAnd :: ts2) (FBin BAnd t1 t2)
| G_expr_orop ts t : G LOrOp ts t -> G LExpr ts t
| G_or ts1 t1 ts2 t2 : G LExpr ts1 t1 -> G LOrOp ts2 t2 -> G LExpr (ts1 ++ TOr :: ts2) (FBin BOr t1 t2)
with Gargs : list token -> list fx -> Prop :=
| Gargs_one ts t : G LExpr ts t -> Gargs ts [t]
| Gargs_cons ts t tss args : G LExpr ts t -> Gargs tss args -> Gargs (ts ++ TComma :: tss) (t :: args).

(** * Executable reference reader of Fortran expressions (precedence climbing, fuel-bounded).
    Levels: 0 equiv-operand chain (.or.), 1 or-operand chain (.and.), 2 and-operand ([.not.] level-4),
    3 level-4 (one optional relational operator), 4 level-2 ([sign] add-operand {(+|-) add-operand}),
    5 add-operand (mult-operand {mult-op mult-operand}), 6 mult-operand (primary [power-op mult-operand]), 7 primary. *)
Fixpoint rp (fuel : nat) (lv : nat) (ts : list token) {struct fuel} : option (fx * list token) :=
  match fuel with
  | O => None
  | S f =>
      match lv with
      | 0%nat => match rp f 1 ts with Some (t, r) => rloop f 0 t r | None => None end
      | 1%nat => match rp f 2 ts with Some (t, r) => rloop f 1 t r | None => None end
      | 2%nat => match ts with
                 | TNot :: r => match rp f 3 r with Some (t, r') => Some (FNot t, r') | None => None end
                 | _ => rp f 3 ts
                 end
      | 3%nat => match rp f 4 ts with
                 | Some (t, TRel op :: r) =>
                     match rp f 4 r with Some (t2, r') => Some (FCmp op t t2, r') | None => None end
                 | o => o
                 end
      | 4%nat => match ts with
                 | TMinus :: r => match rp f 5 r with Some (t, r') => rloop f 4 (FNeg t) r' | None => None end
                 | TPlus :: r => match rp f 5 r with Some (t, r') => rloop f 4 t r' | None => None end
                 | _ => match rp f 5 ts with Some (t, r') => rloop f 4 t r' | None => None end
                 end
      | 5%nat => match rp f 6 ts with Some (t, r) => rloop f 5 t r | None => None end
      | 6%nat => match rp f 7 ts with
                 | Some (t, TPow :: r) =>
                     match rp f 6 r with Some (t2, r') => Some (FBin BPow t t2, r') | None => None end
                 | o => o
                 end
      | _ => match ts with
             | TInt n :: r => Some (FInt n, r)
             | TTrue :: r => Some (FLog true, r)
             | TFalse :: r => Some (FLog false, r)
             | TVar x :: TLP :: TRP :: r => Some (FCall x [], r)
             | TVar x :: TLP :: r =>
                 match rargs f r with Some (args, r') => Some (FCall x args, r') | None => None end
             | TVar x :: r => Some (FVar x, r)
             | TLP :: r => match rp f 0 r with Some (t, TRP :: r') => Some (t, r') | _ => None end
             | _ => None
             end
      end
  end
with rloop (fuel : nat) (lv : nat) (acc : fx) (ts : list token) {struct fuel} : option (fx * list token) :=
  match fuel with
  | O => None
  | S f =>
      match lv, ts with
      | 0%nat, TOr :: r => match rp f 1 r with Some (t, r') => rloop f 0 (FBin BOr acc t) r' | None => None end
      | 1%nat, TAnd :: r => match rp f 2 r with Some (t, r') => rloop f 1 (FBin BAnd acc t) r' | None => None end
      | 4%nat, TPlus :: r => match rp f 5 r with Some (t, r') => rloop f 4 (FBin BAdd acc t) r' | None => None end
      | 4%nat, TMinus :: r => match rp f 5 r with Some (t, r') => rloop f 4 (FBin BSub acc t) r' | None => None end
      | 5%nat, TStar :: r => match rp f 6 r with Some (t, r') => rloop f 5 (FBin BMul acc t) r' | None => None end
      | 5%nat, TSlash :: r => match rp f 6 r with Some (t, r') => rloop f 5 (FBin BDiv acc t) r' | None => None end
      | _, _ => Some (acc, ts)
      end
  end
with rargs (fuel : nat) (ts : list token) {struct fuel} : option (list fx * list token) :=
  match fuel with
  | O => None
  | S f =>
      match rp f 0 ts with
      | Some (t, TComma :: r) => match rargs f r with Some (a, r') => Some (t :: a, r') | None => None end
      | Some (t, TRP :: r) => Some ([t], r)
      | _ => None
      end
  end.

Definition ref_parse (ts : list token) : option fx :=
  match rp (4 * List.length ts + 16) 0 ts with
  | Some (t, []) => Some t
  | _ => None
  end.

(** * Correspondence entry points *)
Definition cmpop_eqb (a b : cmpop) : bool :=
  match a, b with Ceq, Ceq | Cne, Cne | Clt, Clt | Cle, Cle | Cgt, Cgt | Cge, Cge => true | _, _ => false end.

Definition token_eqb (a b : token) : bool :=
  match a, b with
  | TInt x, TInt y => x =? y
  | TVar x, TVar y => String.eqb x y
  | TTrue, TTrue | TFalse, TFalse | TLP, TLP | TRP, TRP | TComma, TComma | TPlus, TPlus | TMinus, TMinus
  | TStar, TStar | TSlash, TSlash | TPow, TPow | TNot, TNot | TAnd, TAnd | TOr, TOr | TErr, TErr => true
  | TRel x, TRel y => cmpop_eqb x y
  | _, _ => false
  end.

Fixpoint toks_eqb (a b : list token) : bool :=
  match a, b with
  | [], [] => true
  | x :: r, y :: s => token_eqb x y && toks_eqb r s
  | _, _ => false
  end.

Definition has_err (ts : list token) : bool := existsb (fun t => token_eqb t TErr) ts.

(** the model prints exactly the tokens of the real fgen / cgen text ([None]: the implementation raised IndexError) *)
Definition chk_print (l : lang) (e : expr) (impl : option (list token)) : bool :=
  match impl with
  | Some ts => toks_eqb (print l e (MP PREC_NONE)) ts
  | None => has_err (print l e (MP PREC_NONE))
  end.
Definition chk_print_f := chk_print LF.
Definition chk_print_c := chk_print LC.

(** the class computed by the harness (python port) is the model's class *)
Definition chk_class (e : expr) (arith logic : bool) : bool :=
  Bool.eqb (arith_safe e) arith && Bool.eqb (logic_safe e) logic.

(** the real text, read back by the reference reader, has the given value under [rho] *)
Definition chk_reparse (toks : list token) (rho : env) (v : option Z) : bool :=
  match ref_parse toks with Some t => opt_z_eqb (evalF rho t) v | None => false end.
Definition chk_reparse_b (toks : list token) (rho : env) (v : option bool) : bool :=
  match ref_parse toks with Some t => opt_b_eqb (evalFB rho t) v | None => false end.
Definition chk_unreadable (toks : list token) : bool :=
  match ref_parse toks with Some _ => false | None => true end.
