(** C22 — Scheduler.process_transformation: which items a transformation is applied to, and in
    which order (loki/batch/scheduler.py, sfilter.py, sgraph.py, transformation.py).
    Definitions only.

    The dependency graph is a finite digraph of items.  networkx' [topological_sort] is NOT
    modelled: the traversal is defined over ANY list [order] of node names, and the decidable
    predicate [is_topo g order] says what the code relies on.  The correspondence check evaluates
    [is_topo] on the order networkx actually produced in the real run.

    Every comparison of two names goes through [name_eqb] (case folded), mirroring
    [Item.__eq__]; C23 proves that the model therefore only depends on [lower] of the names. *)
From Coq Require Import String Ascii List Bool Arith.
From LV Require Import Base.Strings.
Import ListNotations.
Open Scope string_scope.
Open Scope list_scope.

(** [Item.__eq__]: names compared after [str.lower()] *)
Definition name_eqb (a b : string) : bool := String.eqb (lower a) (lower b).

(** the Item subclasses (for an ExternalItem: its [origin_cls]) *)
Inductive kind := KProc | KMod | KTypeDef | KBinding | KIface | KFile.

Definition kind_eqb (a b : kind) : bool :=
  match a, b with
  | KProc, KProc | KMod, KMod | KTypeDef, KTypeDef
  | KBinding, KBinding | KIface, KIface | KFile, KFile => true
  | _, _ => false
  end.

Record item := mkItem {
  iname : string;    (* Item.name *)
  ikind : kind;      (* type(item), or item.origin_cls for an ExternalItem *)
  iext  : bool;      (* isinstance(item, ExternalItem) *)
  igen  : bool;      (* ExternalItem.is_generated *)
  iign  : bool;      (* item.is_ignored *)
  imode : string;    (* item.mode *)
  irole : string;    (* item.role *)
  ifile : string     (* name of the FileItem of item.source ("" for externals) *)
}.

Record graph := mkGraph {
  nodes : list item;                 (* in insertion order *)
  edges : list (string * string)     (* (parent name, child name), adjacency order *)
}.

(* ------------------------------------------------------------------------- *)
(** * Name lists *)

Fixpoint mem_name (n : string) (l : list string) : bool :=
  match l with
  | [] => false
  | m :: r => name_eqb n m || mem_name n r
  end.

Fixpoint nodup_names (l : list string) : bool :=
  match l with
  | [] => true
  | n :: r => negb (mem_name n r) && nodup_names r
  end.

Fixpoint index_of (n : string) (l : list string) : option nat :=
  match l with
  | [] => None
  | m :: r => if name_eqb n m then Some O
              else match index_of n r with Some i => Some (S i) | None => None end
  end.

Fixpoint find_item (n : string) (l : list item) : option item :=
  match l with
  | [] => None
  | it :: r => if name_eqb n (iname it) then Some it else find_item n r
  end.

(** [order] is a topological order of [g]: node names are pairwise distinct, [order] enumerates
    exactly the nodes, without repetition, and every edge points forward. *)
Definition edge_fwd (order : list string) (e : string * string) : bool :=
  match index_of (fst e) order, index_of (snd e) order with
  | Some i, Some j => Nat.ltb i j
  | _, _ => false
  end.

Definition is_topo (g : graph) (order : list string) : bool :=
  nodup_names (map iname (nodes g)) &&
  nodup_names order &&
  forallb (fun it => mem_name (iname it) order) (nodes g) &&
  forallb (fun n => mem_name n (map iname (nodes g))) order &&
  forallb (edge_fwd order) (edges g).

(* ------------------------------------------------------------------------- *)
(** * SFilter *)

(** [item_filter]: [None] is the base class [Item] (everything), [Some ks] a tuple of subclasses *)
Definition kfilter := option (list kind).

Definition kind_in (k : kind) (ks : list kind) : bool := existsb (kind_eqb k) ks.

(** [issubclass(node_cls, item_filter)] with [node_cls = origin_cls] for externals *)
Definition cls_match (f : kfilter) (it : item) : bool :=
  match f with None => true | Some ks => kind_in (ikind it) ks end.

(** [isinstance(item, item_filter)]: an ExternalItem is only an instance of [Item] itself *)
Definition inst_match (f : kfilter) (it : item) : bool :=
  match f with None => true | Some ks => negb (iext it) && kind_in (ikind it) ks end.

Record sflags := mkSF {
  sf_filter   : kfilter;
  sf_reverse  : bool;
  sf_excl_ign : bool;
  sf_incl_ext : bool;
  sf_mode     : option string
}.

Definition mode_exempt (it : item) : bool :=
  iext it || match ikind it with KTypeDef | KIface => true | _ => false end.

(** the body of [SFilter.__next__]: is this node yielded? *)
Definition sel (s : sflags) (it : item) : bool :=
  (negb (iext it) || sf_incl_ext s) &&
  cls_match (sf_filter s) it &&
  negb (sf_excl_ign s && iign it) &&
  match sf_mode s with
  | None => true
  | Some m => mode_exempt it || String.eqb (imode it) m
  end.

Definition order_items (g : graph) (order : list string) : list item :=
  flat_map (fun n => match find_item n (nodes g) with Some it => [it] | None => [] end) order.

Definition sfilter (g : graph) (order : list string) (s : sflags) : list item :=
  filter (sel s)
         (if sf_reverse s then rev (order_items g order) else order_items g order).

(* ------------------------------------------------------------------------- *)
(** * SGraph.as_filegraph *)

Definition succs (g : graph) (n : string) : list string :=
  map snd (filter (fun e => name_eqb (fst e) n) (edges g)).

(** first occurrences, in order *)
Fixpoint dedup (l : list string) : list string :=
  match l with
  | [] => []
  | n :: r => n :: filter (fun m => negb (name_eqb m n)) (dedup r)
  end.

(** the items the file graph is built from: [SFilter(sgraph, item_filter, exclude_ignored=...)] *)
Definition fg_items (g : graph) (order : list string) (f : kfilter) (excl_ign : bool) : list item :=
  sfilter g order (mkSF f false excl_ign false None).

Definition members (its : list item) (f : string) : list item :=
  filter (fun it => name_eqb (ifile it) f) its.

(** the FileItem node: mode/role come from the FileItem's own config (table [files]);
    [is_ignored] is aggregated: all member items are ignored *)
Definition file_node (files its : list item) (f : string) : item :=
  let ign := forallb iign (members its f) in
  match find_item f files with
  | Some fi => mkItem f KFile false false ign (imode fi) (irole fi) f
  | None    => mkItem f KFile false false ign "" "" f
  end.

Definition fg_edges (g : graph) (its : list item) : list (string * string) :=
  flat_map (fun it =>
    flat_map (fun c =>
      match find_item c its with
      | Some ci => if name_eqb (ifile ci) (ifile it) then [] else [(ifile it, ifile ci)]
      | None => []
      end) (succs g (iname it))) its.

Definition filegraph (g : graph) (order : list string) (f : kfilter) (excl_ign : bool)
           (files : list item) : graph :=
  let its := fg_items g order f excl_ign in
  mkGraph (map (file_node files its) (dedup (map ifile its))) (fg_edges g its).

(* ------------------------------------------------------------------------- *)
(** * Scheduler.process_transformation *)

Record manifest := mkMan {
  m_filter    : kfilter;   (* Transformation.item_filter *)
  m_reverse   : bool;      (* reverse_traversal *)
  m_filegraph : bool;      (* traverse_file_graph *)
  m_ignored   : bool       (* process_ignored_items *)
}.

(** the traversal [for _item in traversal] *)
Definition visit (g : graph) (files : list item) (order order_f : list string)
           (m : manifest) (strict : bool) (mode : option string) : list item :=
  if m_filegraph m then
    sfilter (filegraph g order (m_filter m) (negb (m_ignored m)) files) order_f
            (mkSF None (m_reverse m) false strict mode)
  else
    sfilter g order (mkSF (m_filter m) (m_reverse m) (negb (m_ignored m)) strict mode).

Inductive outcome := Done | ErrExternal (n : string).

(** the loop body: externals abort the processing (RuntimeError), except generated ones in plan mode *)
Fixpoint run (plan : bool) (l : list item) : list item * outcome :=
  match l with
  | [] => ([], Done)
  | it :: r =>
      if iext it then
        if plan && igen it then run plan r else ([], ErrExternal (iname it))
      else let (v, o) := run plan r in (it :: v, o)
  end.

(** which [transform_*]/[plan_*] method [Transformation.apply] dispatches to first
    ([Item.transformation_ir]: Subroutine, Module, Sourcefile, or the Interface node = nothing) *)
Inductive disp := DSub | DMod | DFile | DNone.
Definition dispatch (it : item) : disp :=
  match ikind it with
  | KProc => DSub
  | KMod | KTypeDef | KBinding => DMod
  | KFile => DFile
  | KIface => DNone
  end.

Definition process (g : graph) (files : list item) (order order_f : list string)
           (m : manifest) (strict : bool) (mode : option string) (plan : bool)
  : list item * outcome :=
  run plan (visit g files order order_f m strict mode).

(* ------------------------------------------------------------------------- *)
(** * SGraph.successors / get_sub_sgraph(...).successors, Item.targets *)

(** [SGraph._get_item_filter] *)
Definition ext_filter (f : kfilter) : kfilter :=
  match f with
  | None => None
  | Some [] => None
  | Some ks =>
      if kind_in KProc ks then
        Some (ks ++ (if kind_in KBinding ks then [] else [KBinding])
                 ++ (if kind_in KIface ks then [] else [KIface]))
      else Some ks
  end.

Definition is_intermediate (it : item) : bool :=
  negb (iext it) && match ikind it with KBinding | KIface => true | _ => false end.

(** [f] filters the children of [n], [frec] those below binding/interface nodes.
    [None] = fuel exhausted (cannot happen on an acyclic graph with fuel > number of nodes). *)
Definition succ_step (rec : string -> option (list string)) (g : graph) (f : kfilter)
           (c : string) (acc : option (list string)) : option (list string) :=
  match acc with
  | None => None
  | Some rest =>
      match find_item c (nodes g) with
      | None => Some rest
      | Some ci =>
          if inst_match f ci then
            if is_intermediate ci then
              match rec (iname ci) with
              | None => None
              | Some sub => Some (iname ci :: sub ++ rest)
              end
            else Some (iname ci :: rest)
          else Some rest
      end
  end.

Fixpoint succ_gen (fuel : nat) (g : graph) (f frec : kfilter) (n : string) : option (list string) :=
  match fuel with
  | O => None
  | S k => fold_right (succ_step (succ_gen k g frec frec) g f) (Some []) (succs g n)
  end.

(** [sgraph.successors(item, item_filter)] *)
Definition successors (g : graph) (f : kfilter) (n : string) : option (list string) :=
  succ_gen (S (length (nodes g))) g (ext_filter f) None n.

(** [sgraph.get_sub_sgraph(item, item_filter).successors(item)] (what a transformation sees) *)
Definition sub_successors (g : graph) (f : kfilter) (n : string) : option (list string) :=
  succ_gen (S (length (nodes g))) g (ext_filter f) (ext_filter f) n.

(** [Item.targets] on the class of plain exclusion keys: the dependency names minus
    the ones in [disable]/[block] *)
Definition targets (raw excl : list string) : list string :=
  filter (fun n => negb (mem_name n excl)) raw.

(** a cycle witness [n0; n1; ...; nk]: edges n0->n1, ..., nk->n0 *)
Definition has_edge (g : graph) (a b : string) : bool :=
  existsb (fun e => name_eqb (fst e) a && name_eqb (snd e) b) (edges g).

Fixpoint path_ok (g : graph) (a : string) (l : list string) (last : string) : bool :=
  match l with
  | [] => has_edge g a last
  | b :: r => has_edge g a b && path_ok g b r last
  end.

Definition is_cycle (g : graph) (c : list string) : bool :=
  match c with
  | [] => false
  | a :: r => path_ok g a r a
  end.

(* ------------------------------------------------------------------------- *)
(** * Correspondence entry points *)

Definition list_eqb {A} (eqb : A -> A -> bool) (x y : list A) : bool :=
  Nat.eqb (length x) (length y) && forallb (fun p => eqb (fst p) (snd p)) (combine x y).

Definition disp_eqb (a b : disp) : bool :=
  match a, b with
  | DSub, DSub | DMod, DMod | DFile, DFile | DNone, DNone => true
  | _, _ => false
  end.

(** one application as seen by the probe: (item name, first dispatch, role, mode) *)
Definition appl := (string * disp * string * string)%type.
Definition appl_of (it : item) : appl := (iname it, dispatch it, irole it, imode it).
Definition appl_eqb (a b : appl) : bool :=
  match a, b with
  | (n1, d1, r1, m1), (n2, d2, r2, m2) =>
      String.eqb n1 n2 && disp_eqb d1 d2 && String.eqb r1 r2 && String.eqb m1 m2
  end.

Definition outcome_eqb (a b : outcome) : bool :=
  match a, b with
  | Done, Done => true
  | ErrExternal x, ErrExternal y => String.eqb x y
  | _, _ => false
  end.

(** the real run used a valid order, and the model reproduces the sequence of applications *)
Definition chk_visit (g : graph) (files : list item) (order order_f : list string)
           (m : manifest) (strict : bool) (mode : option string) (plan : bool)
           (impl : list appl) (impl_out : outcome) : bool :=
  is_topo g order &&
  (if m_filegraph m
   then is_topo (filegraph g order (m_filter m) (negb (m_ignored m)) files) order_f
   else true) &&
  let (v, o) := process g files order order_f m strict mode plan in
  list_eqb appl_eqb (map appl_of v) impl && outcome_eqb o impl_out.

(** the file graph built by the code: node names with their aggregated is_ignored, and edges *)
Definition chk_filegraph (g : graph) (order : list string) (f : kfilter) (excl_ign : bool)
           (files : list item) (impl_nodes : list (string * bool))
           (impl_edges : list (string * string)) : bool :=
  let fg := filegraph g order f excl_ign files in
  list_eqb (fun a b => String.eqb (fst a) (fst b) && Bool.eqb (snd a) (snd b))
           (map (fun it => (iname it, iign it)) (nodes fg)) impl_nodes &&
  forallb (fun e => has_edge fg (fst e) (snd e)) impl_edges &&
  forallb (fun e => existsb (fun e' => name_eqb (fst e') (fst e) && name_eqb (snd e') (snd e)) impl_edges)
          (edges fg).

(** networkx refused to sort the file graph: the witness cycle is a cycle of the model's file graph *)
Definition chk_cycle (g : graph) (order : list string) (f : kfilter) (excl_ign : bool)
           (files : list item) (cyc : list string) : bool :=
  is_topo g order && is_cycle (filegraph g order f excl_ign files) cyc.

Definition olist_eqb (a b : option (list string)) : bool :=
  match a, b with
  | Some x, Some y => list_eqb String.eqb x y
  | None, None => true
  | _, _ => false
  end.

Definition chk_successors (g : graph) (f : kfilter) (n : string) (impl : list string) : bool :=
  olist_eqb (successors g f n) (Some impl).
Definition chk_sub_successors (g : graph) (f : kfilter) (n : string) (impl : list string) : bool :=
  olist_eqb (sub_successors g f n) (Some impl).
Definition chk_targets (raw excl impl : list string) : bool :=
  list_eqb String.eqb (targets raw excl) impl.
