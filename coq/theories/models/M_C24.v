(** C24 — planning mode predicts exactly the files a conversion writes.  Definitions only.

    Models
    - loki/transformations/build_system/file_write.py : FileWriteTransformation._get_file_path
      (pathlib semantics of [Path.name], [Path.suffix], [Path.with_suffix], [Path(output_dir)/name] on
      normalised POSIX path strings), plan_file / transform_file;
    - loki/transformations/build_system/plan.py : CMakePlanTransformation.plan_file (the three
      per-library dictionaries of lists, in insertion order) and the flattening done by _write_plan;
    - a pipeline as a list of abstract effects on the set of file items, each with a planning-mode and
      a conversion-mode variant (Scheduler.process_transformation with PLAN resp. DEFAULT strategy).
    File-system behaviour ([exists], [resolve]) is an input: every file item carries the answers. *)
From Coq Require Import List Bool String Ascii Arith.
Import ListNotations.
Open Scope string_scope.

(** * strings and POSIX paths *)

Fixpoint replace_char (a b : ascii) (s : string) : string :=
  match s with
  | EmptyString => EmptyString
  | String c r => String (if Ascii.eqb c a then b else c) (replace_char a b r)
  end.

Fixpoint has_char (a : ascii) (s : string) : bool :=
  match s with
  | EmptyString => false
  | String c r => Ascii.eqb c a || has_char a r
  end.

(** split at the LAST occurrence of [c]: [(before, Some after)], or [(s, None)] when [c] does not occur *)
Fixpoint rsplit (c : ascii) (s : string) : string * option string :=
  match s with
  | EmptyString => (EmptyString, None)
  | String a r =>
      match rsplit c r with
      | (b, Some t) => (String a b, Some t)
      | (_, None) => if Ascii.eqb a c then (EmptyString, Some r) else (String a r, None)
      end
  end.

Definition is_empty (s : string) : bool := match s with EmptyString => true | _ => false end.

(** PurePosixPath(p).name for a normalised path string *)
Definition basename (p : string) : string :=
  match rsplit "/"%char p with (_, Some t) => t | (s, None) => s end.

(** the text in front of the name, including the separator ("" for a bare file name, "/" below the root) *)
Definition dirpart (p : string) : string :=
  match rsplit "/"%char p with (b, Some _) => b ++ "/" | (_, None) => "" end.

(** PurePath.suffix (Python 3.12): [i = name.rfind('.')]; [name[i:]] if [0 < i < len(name)-1] else [''] *)
Definition py_suffix (name : string) : string :=
  match rsplit "."%char name with
  | (b, Some t) => if is_empty b || is_empty t then "" else "." ++ t
  | (_, None) => ""
  end.

(** the name with its suffix cut off: [name[:-len(suffix)]], the whole name when there is no suffix *)
Definition py_stem (name : string) : string :=
  match rsplit "."%char name with
  | (b, Some t) => if is_empty b || is_empty t then name else b
  | (_, None) => name
  end.

(** PurePath.with_suffix: ValueError ([None]) for a suffix containing the separator, a non-empty suffix
    not starting with '.', the suffix ".", or an empty name *)
Definition starts_with_dot (s : string) : bool :=
  match s with String c _ => Ascii.eqb c "."%char | EmptyString => false end.

Definition with_suffix (p sfx : string) : option string :=
  if has_char "/"%char sfx then None
  else if (negb (is_empty sfx) && negb (starts_with_dot sfx)) || String.eqb sfx "." then None
  else if is_empty (basename p) then None
  else Some (dirpart p ++ py_stem (basename p) ++ sfx).

(** PurePath.with_name (used when an item is duplicated); the new name is never empty here *)
Definition with_name (p name : string) : string := dirpart p ++ name.

(** [Path(output_dir) / name] for a normalised directory string *)
Definition join_dir (d name : string) : string :=
  if is_empty d || String.eqb d "." then name
  else if String.eqb d "/" then "/" ++ name
  else d ++ "/" ++ name.

(** [is_prefix a s]: [s] starts with [a]; [drop_prefix] returns the rest *)
Fixpoint drop_prefix (a s : string) : option string :=
  match a with
  | EmptyString => Some s
  | String c r => match s with
                  | String d t => if Ascii.eqb c d then drop_prefix r t else None
                  | EmptyString => None
                  end
  end.

(** PurePath.relative_to(root) on normalised strings; [None] = ValueError *)
Definition relative_to (p root : string) : option string :=
  if String.eqb p root then Some "."
  else if String.eqb root "/" then drop_prefix "/" p
  else if String.eqb root "." || is_empty root then (if starts_with_dot p || match p with String "/"%char _ => true | _ => false end then None else Some p)
  else drop_prefix (root ++ "/") p.

(** * file items *)

Record fitem := mk_fitem {
  f_path : string;        (* item.path (Sourcefile.path) *)
  f_exists : bool;        (* item.path.exists() *)
  f_res : string;         (* str(item.path.resolve()) *)
  f_orig : string;        (* item.orig_path *)
  f_oexists : bool;
  f_ores : string;
  f_repl : bool;          (* item.replicate *)
  f_lib : option string;  (* item.lib *)
  f_mode : option string; (* item.mode (None or '' are falsy) *)
  f_ign : bool;           (* item.is_ignored, as set by SGraph._populate_filegraph *)
  f_sel : bool            (* the file holds a graph item accepted by the traversal's item filter *)
}.

(** the file items a FileWriteTransformation traversal visits (as_filegraph with exclude_ignored) *)
Definition visited (i : fitem) : bool := f_sel i && negb (f_ign i).

Record fwcfg := mk_fwcfg {
  c_suffix : option string;   (* FileWriteTransformation(suffix=...); None and '' are falsy *)
  c_outdir : option string    (* build_args['output_dir'] *)
}.

Definition mode_of (m : option string) : string :=
  replace_char "-"%char "_"%char
    (match m with Some m => if is_empty m then "loki" else m | None => "loki" end).
Definition mode_str (i : fitem) : string := mode_of (f_mode i).

Definition suffix_str (cfg : fwcfg) (p : string) : string :=
  match c_suffix cfg with
  | Some s => if is_empty s then py_suffix (basename p) else s
  | None => py_suffix (basename p)
  end.

(** FileWriteTransformation._get_file_path as a function of what it reads: the item's path and mode;
    [None] = ValueError from with_suffix *)
Definition file_path_k (cfg : fwcfg) (p : string) (m : option string) : option string :=
  match with_suffix p ("." ++ mode_of m ++ suffix_str cfg p) with
  | None => None
  | Some sp =>
      match c_outdir cfg with
      | Some d => Some (join_dir d (basename sp))
      | None => Some sp
      end
  end.
Definition file_path (cfg : fwcfg) (i : fitem) : option string := file_path_k cfg (f_path i) (f_mode i).

(** * the plan lists *)

Definition key := option string.
Definition key_eqb (a b : key) : bool :=
  match a, b with
  | None, None => true
  | Some x, Some y => String.eqb x y
  | _, _ => false
  end.

Definition alist := list (key * list string).

(** [d.setdefault(k, []).append(v)] on an insertion-ordered dict *)
Fixpoint al_add (k : key) (v : string) (l : alist) : alist :=
  match l with
  | [] => [(k, [v])]
  | (k', vs) :: r => if key_eqb k' k then (k', (vs ++ [v])%list) :: r else (k', vs) :: al_add k v r
  end.

Fixpoint al_get (k : key) (l : alist) : list string :=
  match l with
  | [] => []
  | (k', vs) :: r => if key_eqb k' k then vs else al_get k r
  end.

(** [[s for sources in d.values() for s in sources]] *)
Definition flat (l : alist) : list string := List.concat (List.map snd l).

Record plan := mk_plan { p_tr : alist; p_ap : alist; p_rm : alist }.
Definition plan0 : plan := mk_plan [] [] [].

Definition add_tr (st : plan) (k : key) (v : string) := mk_plan (al_add k v (p_tr st)) (p_ap st) (p_rm st).
Definition add_ap (st : plan) (k : key) (v : string) := mk_plan (p_tr st) (al_add k v (p_ap st)) (p_rm st).
Definition add_rm (st : plan) (k : key) (v : string) := mk_plan (p_tr st) (p_ap st) (al_add k v (p_rm st)).

Definition rel (root : option string) (plain resolved : string) : option string :=
  match root with None => Some plain | Some r => relative_to resolved r end.

(** CMakePlanTransformation.plan_file for one visited file item.  The test [newsource not in self.sources_to_append]
    looks a Path up among the dictionary KEYS (library names) and is therefore always true.
    [None] = an exception (ValueError of relative_to / with_suffix, wrapped into a TransformationError). *)
Definition plan_item (root : option string) (cfg : fwcfg) (st : plan) (i : fitem) : option plan :=
  if negb (visited i) then Some st else
  match file_path cfg i with
  | None => None
  | Some new =>
    match rel root (f_path i) (f_res i) with
    | None => None
    | Some src =>
      let k := f_lib i in
      let st1 := if f_exists i then add_tr st k src else st in
      if f_repl i then
        match rel root (f_orig i) (f_ores i) with
        | None => None
        | Some osrc =>
            let st2 := if f_oexists i && negb (f_exists i) then add_tr st1 k osrc else st1 in
            Some (add_ap st2 k new)
        end
      else
        let st2 := add_ap st1 k new in
        Some (if f_exists i then add_rm st2 k src else st2)
    end
  end.

Fixpoint plan_all (root : option string) (cfg : fwcfg) (st : plan) (items : list fitem) : option plan :=
  match items with
  | [] => Some st
  | i :: r => match plan_item root cfg st i with
              | None => None
              | Some st' => plan_all root cfg st' r
              end
  end.

Definition run_planner root cfg items := plan_all root cfg plan0 items.

(** the files a conversion run writes: FileWriteTransformation.transform_file on every visited file item *)
Definition written (cfg : fwcfg) (items : list fitem) : list (option string) :=
  map (file_path cfg) (filter visited items).

(** * pipelines of item-set effects *)

Definition effect := list fitem -> list fitem.
Record trafo := mk_trafo { t_plan : effect; t_conv : effect }.

Definition run (sel : trafo -> effect) (pipe : list trafo) (s : list fitem) : list fitem :=
  fold_left (fun s T => sel T s) pipe s.

(** what the path rule reads off an item *)
Definition wkey (i : fitem) : string * option string := (f_path i, f_mode i).
(** what a later transformation of the pipeline can distinguish as far as the written files are concerned *)
Definition ikey (i : fitem) : string * option string * bool := (f_path i, f_mode i, visited i).
Definition weq (s s' : list fitem) : Prop := forall k, In k (map ikey s) <-> In k (map ikey s').
(** the hypothesis checked on the real transformations: planning and conversion variant change the item set alike *)
Definition agrees (T : trafo) : Prop := forall s s', weq s s' -> weq (t_plan T s) (t_conv T s').

Fixpoint mem_path (p : string) (s : list fitem) : bool :=
  match s with [] => false | i :: r => String.eqb (f_path i) p || mem_path p r end.

Fixpoint mem_str (p : string) (l : list string) : bool :=
  match l with [] => false | q :: r => String.eqb q p || mem_str p r end.

(** concrete effects of the built-in transformations on the set of file items *)
(* DependencyTransformation, ModuleWrapTransformation, FileWriteTransformation: file items keep their paths *)
Definition eff_keep : effect := fun s => s.
(* DuplicateKernel: ItemFactory.get_or_create_item_from_item clones the file next to the original under the new
   scope/routine name; file items are cached by path, an existing one is reused *)
Definition dup_item (src : fitem) (newname : string) (ex : bool) (res : string) : fitem :=
  mk_fitem (with_name (f_path src) (newname ++ py_suffix (basename (f_path src)))) ex res
           (f_orig src) (f_oexists src) (f_ores src)
           (f_repl src) (f_lib src) (f_mode src) (f_ign src) (f_sel src).
Fixpoint eff_create (news : list fitem) (s : list fitem) : list fitem :=
  match news with
  | [] => s
  | n :: r => eff_create r (if mem_path (f_path n) s then s else (s ++ [n])%list)
  end.
(* RemoveKernel (and any pruning): the files none of whose items stays in the graph are no longer visited *)
Definition eff_drop (ps : list string) : effect :=
  fun s => filter (fun i => negb (mem_str (f_path i) ps)) s.

Definition T_keep : trafo := mk_trafo eff_keep eff_keep.
Definition T_create news : trafo := mk_trafo (eff_create news) (eff_create news).
Definition T_drop ps : trafo := mk_trafo (eff_drop ps) (eff_drop ps).
(* a renaming transformation without planning method followed by a name-based removal: planning keeps what the
   conversion drops (finding F-C24-1) *)
Definition T_drop_conv_only ps : trafo := mk_trafo eff_keep (eff_drop ps).

(** * boolean comparators for the correspondence *)

Definition ostr_eqb (a b : option string) : bool :=
  match a, b with
  | None, None => true
  | Some x, Some y => String.eqb x y
  | _, _ => false
  end.

Fixpoint lstr_eqb (a b : list string) : bool :=
  match a, b with
  | [], [] => true
  | x :: r, y :: t => String.eqb x y && lstr_eqb r t
  | _, _ => false
  end.

Fixpoint alist_eqb (a b : alist) : bool :=
  match a, b with
  | [], [] => true
  | (k, v) :: r, (k', v') :: t => key_eqb k k' && lstr_eqb v v' && alist_eqb r t
  | _, _ => false
  end.

Definition incl_b (a b : list string) : bool := forallb (fun x => mem_str x b) a.
Definition set_eqb (a b : list string) : bool := incl_b a b && incl_b b a.

Definition chk_path (cfg : fwcfg) (i : fitem) (out : option string) : bool :=
  ostr_eqb (file_path cfg i) out.

(** the three dictionaries exactly (keys in insertion order), or the exception *)
Definition chk_plan (root : option string) (cfg : fwcfg) (items : list fitem)
           (out : option (alist * alist * alist)) : bool :=
  match run_planner root cfg items, out with
  | None, None => true
  | Some st, Some (tr, ap, rm) => alist_eqb (p_tr st) tr && alist_eqb (p_ap st) ap && alist_eqb (p_rm st) rm
  | _, _ => false
  end.

(** the generated plan file: flattened lists plus one section per named library *)
Definition chk_planfile (root : option string) (cfg : fwcfg) (items : list fitem)
           (tr ap rm : list string) (perlib : list (string * (list string * list string * list string))) : bool :=
  match run_planner root cfg items with
  | None => false
  | Some st =>
      lstr_eqb (flat (p_tr st)) tr && lstr_eqb (flat (p_ap st)) ap && lstr_eqb (flat (p_rm st)) rm &&
      forallb (fun e => match e with
                        | (k, (t, a, r)) => lstr_eqb (al_get (Some k) (p_tr st)) t &&
                                            lstr_eqb (al_get (Some k) (p_ap st)) a &&
                                            lstr_eqb (al_get (Some k) (p_rm st)) r
                        end) perlib
  end.

Fixpoint somes (l : list (option string)) : option (list string) :=
  match l with
  | [] => Some []
  | Some x :: r => match somes r with Some t => Some (x :: t) | None => None end
  | None :: _ => None
  end.

(** the set of files written by the conversion *)
Definition chk_written (cfg : fwcfg) (items : list fitem) (out : list string) : bool :=
  match somes (written cfg items) with
  | Some w => set_eqb w out
  | None => false
  end.

(** effect of one transformation on the visited file set: model effect applied to [before] vs the observed
    (path, mode) keys after the planning run and after the conversion run *)
Definition wkey_str (i : fitem) : string :=
  f_path i ++ "|" ++ match f_mode i with Some m => m | None => "" end.
Definition keys_of (s : list fitem) : list string := map wkey_str (filter visited s).
Definition chk_effect (T : trafo) (before : list fitem) (after_plan after_conv : list string) : bool :=
  set_eqb (keys_of (t_plan T before)) after_plan && set_eqb (keys_of (t_conv T before)) after_conv.
