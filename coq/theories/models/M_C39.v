(** C39 — model of loki/transformations/parametrise.py (ParametriseTransformation) on the MiniF core.

    A call tree is a list of units in the order in which the Scheduler processes them (callers
    first).  The transformation is modelled exactly as the code performs it:

    - [assign_dicts] models the flow of [item.trafo_data[key]]: the entry point uses [dic2p]; while a
      routine with a non-empty dictionary is processed, every CALL statement to a successor
      *overwrites* the successor's dictionary with the one induced by that single call statement
      ([induced]: for every parametrised variable found among the positional actuals, the FIRST
      position is looked up and mapped through [arg_map_reversed], which keeps the LAST dummy bound
      to an equal actual);
    - [transform_unit] models what is done to one routine with its dictionary [D]:
      entry point: dummies in [D] are renamed to [parametrised_<x>], one guard
      [IF (parametrised_x /= v) <abort>] per key that is a dummy (in [dic2p] order);
      kernel: dummies in [D] are removed;
      both: every plain positional actual that is a key of [D] is removed from every CALL to a
      successor, every declared key becomes a constant ([t_consts], declaration order; the Fortran
      PARAMETER attribute) or, with [replace_by_value], every occurrence is replaced by the literal
      and no constant is left.

    Semantics of the result: MiniF has no declarations, so the constants of a transformed routine are
    executed as initial assignments [x = v] of the procedure body ([proc_trans]); STOP does not exist
    in MiniF either, so the abort branch is a list of marker statements supplied by the harness (the
    canonical form of what the abort callback returned); the theorems speak about which branch of the
    guard is executed. *)
From Coq Require Import ZArith List Bool String.
From LV Require Import Base.Expr Base.MiniF.
Import ListNotations.
Open Scope Z_scope.

Inductive pmode := MDecl | MReplace.

Definition dict := list (string * Z).

Fixpoint lookup (D : dict) (x : string) : option Z :=
  match D with
  | [] => None
  | (k, v) :: r => if String.eqb k x then Some v else lookup r x
  end.

Definition mem (D : dict) (x : string) : bool :=
  match lookup D x with Some _ => true | None => false end.

(** python [d[k] = v]: an existing key keeps its position *)
Fixpoint dict_set (D : dict) (k : string) (v : Z) : dict :=
  match D with
  | [] => [(k, v)]
  | (k', v') :: r => if String.eqb k' k then (k', v) :: r else (k', v') :: dict_set r k v
  end.

(** * Expressions: replacement of variables by literals (inline_constant_parameters) *)
Fixpoint subst (D : dict) (e : expr) : expr :=
  match e with
  | EVar x => match lookup D x with Some v => EInt v | None => EVar x end
  | EInt v => EInt v
  | EPy v => EPy v
  | ELog b => ELog b
  | ESum p cs => ESum p (map (subst D) cs)
  | EProd p cs => EProd p (map (subst D) cs)
  | EQuot p n d => EQuot p (subst D n) (subst D d)
  | EPow p b x => EPow p (subst D b) (subst D x)
  | ECmp op l r => ECmp op (subst D l) (subst D r)
  | EAnd cs => EAnd (map (subst D) cs)
  | EOr cs => EOr (map (subst D) cs)
  | ENot x => ENot (subst D x)
  | ECall f args => ECall f (map (subst D) args)
  end.

Definition te (m : pmode) (D : dict) (e : expr) : expr :=
  match m with MDecl => e | MReplace => subst D e end.

(** an actual argument that is exactly a parametrised variable *)
Definition plain_key (D : dict) (e : expr) : bool :=
  match e with EVar x => mem D x | _ => false end.

Definition filter_args (D : dict) (args : list expr) : list expr :=
  filter (fun a => negb (plain_key D a)) args.

(** * Statements *)
Fixpoint tstmt (succ : string -> bool) (m : pmode) (D : dict) (st : stmt) : stmt :=
  match st with
  | SAssign x e => SAssign x (te m D e)
  | SStore a idx e => SStore a (map (te m D) idx) (te m D e)
  | SDo v lo hi stp body =>
      SDo v (te m D lo) (te m D hi) (option_map (te m D) stp) (map (tstmt succ m D) body)
  | SWhile c body => SWhile (te m D c) (map (tstmt succ m D) body)
  | SIf c tb eb => SIf (te m D c) (map (tstmt succ m D) tb) (map (tstmt succ m D) eb)
  | SCall g args => SCall g (map (te m D) (if succ g then filter_args D args else args))
  | SSkip l => SSkip l
  end.

Definition tstmts succ m D (ss : list stmt) : list stmt := map (tstmt succ m D) ss.

(** CALL statements in the order of FindNodes (document order, nested bodies included) *)
Fixpoint calls_stmt (st : stmt) : list (string * list expr) :=
  match st with
  | SCall g a => [(g, a)]
  | SDo _ _ _ _ b => flat_map calls_stmt b
  | SWhile _ b => flat_map calls_stmt b
  | SIf _ t e => flat_map calls_stmt t ++ flat_map calls_stmt e
  | _ => []
  end.

(** * Units *)
Record unit := { u_name : string;
                 u_params : list (string * bool);   (* dummies, flag = array *)
                 u_decls : list string;             (* declared scalar names, declaration order *)
                 u_body : list stmt }.

Record tunit := { t_name : string;
                  t_params : list (string * bool);
                  t_consts : list (string * Z);
                  t_guards : list stmt;
                  t_body : list stmt }.

Definition pname (x : string) : string := ("parametrised_" ++ x)%string.

Definition guard_cond (p : string) (v : Z) : expr := ECmp Cne (EVar p) (EInt v).
Definition guard_stmt (abort : list stmt) (p : string) (v : Z) : stmt := SIf (guard_cond p v) abort [].

Definition param_names (ps : list (string * bool)) : list string := map fst ps.
Definition in_names (l : list string) (x : string) : bool := existsb (String.eqb x) l.

Definition guards_of (D : dict) (params : list (string * bool)) : list (string * Z) :=
  filter (fun kv => in_names (param_names params) (fst kv)) D.

Definition consts_of (D : dict) (decls : list string) : list (string * Z) :=
  flat_map (fun x => match lookup D x with Some v => [(x, v)] | None => [] end) decls.

Definition transform_unit (succ : string -> bool) (m : pmode) (abort : list stmt)
           (entry : bool) (D : dict) (u : unit) : tunit :=
  {| t_name := u_name u;
     t_params := if entry
                 then map (fun p => if mem D (fst p) then (pname (fst p), snd p) else p) (u_params u)
                 else filter (fun p => negb (mem D (fst p))) (u_params u);
     t_consts := match m with MDecl => consts_of D (u_decls u) | MReplace => [] end;
     t_guards := if entry
                 then map (fun kv => guard_stmt abort (pname (fst kv)) (snd kv)) (guards_of D (u_params u))
                 else [];
     t_body := tstmts succ m D (u_body u) |}.

(** * Flow of the dictionaries (item.trafo_data) *)
Fixpoint find_unit (us : list unit) (g : string) : option unit :=
  match us with
  | [] => None
  | u :: r => if String.eqb (u_name u) g then Some u else find_unit r g
  end.

(** dummy bound to the LAST positional actual equal to [EVar x] (arg_map_reversed) *)
Fixpoint last_dummy (x : string) (params : list string) (args : list expr) : option string :=
  match params, args with
  | d :: ps, a :: r =>
      match last_dummy x ps r with
      | Some d' => Some d'
      | None => match a with EVar y => if String.eqb y x then Some d else None | _ => None end
      end
  | _, _ => None
  end.

Definition induced (D : dict) (params : list string) (args : list expr) : dict :=
  fold_left (fun acc kv => match last_dummy (fst kv) params args with
                           | Some d => dict_set acc d (snd kv)
                           | None => acc
                           end) D [].

Definition state := list (string * dict).

Fixpoint st_get (st : state) (g : string) : option dict :=
  match st with
  | [] => None
  | (k, d) :: r => if String.eqb k g then Some d else st_get r g
  end.

Fixpoint st_set (st : state) (g : string) (d : dict) : state :=
  match st with
  | [] => [(g, d)]
  | (k, d') :: r => if String.eqb k g then (k, d) :: r else (k, d') :: st_set r g d
  end.

Definition update_state (us : list unit) (D : dict) (st : state) (u : unit) : state :=
  match D with
  | [] => st            (* [if dic2p:] — nothing at all happens for an empty dictionary *)
  | _ => fold_left (fun st c => match find_unit us (fst c) with
                                | Some ug => st_set st (fst c) (induced D (param_names (u_params ug)) (snd c))
                                | None => st
                                end)
                   (flat_map calls_stmt (u_body u)) st
  end.

Record aunit := { a_unit : unit; a_entry : bool; a_dict : dict }.

Fixpoint assign_go (us : list unit) (entries : list string) (D0 : dict) (st : state) (todo : list unit) : list aunit :=
  match todo with
  | [] => []
  | u :: r =>
      let e := in_names entries (u_name u) in
      let D := if e then D0 else match st_get st (u_name u) with Some d => d | None => [] end in
      {| a_unit := u; a_entry := e; a_dict := D |} :: assign_go us entries D0 (update_state us D st u) r
  end.

Definition assign_dicts (us : list unit) (entries : list string) (D0 : dict) : list aunit :=
  assign_go us entries D0 [] us.

Definition succ_of (A : list aunit) (g : string) : bool :=
  in_names (map (fun a => u_name (a_unit a)) A) g.

Definition transform_aunit (A : list aunit) (m : pmode) (abort : list stmt) (a : aunit) : tunit :=
  transform_unit (succ_of A) m abort (a_entry a) (a_dict a) (a_unit a).

Definition param_assigned (m : pmode) (abort : list stmt) (A : list aunit) : list tunit :=
  map (transform_aunit A m abort) A.

(** the whole transformation as the Scheduler applies it *)
Definition param_tree (m : pmode) (abort : list stmt) (us : list unit) (entries : list string) (D0 : dict) : list tunit :=
  param_assigned m abort (assign_dicts us entries D0).

(** * MiniF procedure tables of the original and the transformed tree *)
Definition const_stmts (cs : list (string * Z)) : list stmt := map (fun kv => SAssign (fst kv) (EInt (snd kv))) cs.

Definition proc_orig (u : unit) : proc := {| p_params := u_params u; p_body := u_body u |}.
Definition tunit_stmts (t : tunit) : list stmt := t_guards t ++ const_stmts (t_consts t) ++ t_body t.
Definition proc_trans (t : tunit) : proc := {| p_params := t_params t; p_body := tunit_stmts t |}.

Definition procs_orig (A : list aunit) : procs := map (fun a => (u_name (a_unit a), proc_orig (a_unit a))) A.
Definition procs_trans (m : pmode) (abort : list stmt) (A : list aunit) : procs :=
  map (fun a => (u_name (a_unit a), proc_trans (transform_aunit A m abort a))) A.

(** * The class: uniform calls (decidable) *)
Fixpoint find_aunit (A : list aunit) (g : string) : option aunit :=
  match A with
  | [] => None
  | a :: r => if String.eqb (u_name (a_unit a)) g then Some a else find_aunit r g
  end.

Definition oz_eqb (a b : option Z) : bool :=
  match a, b with Some x, Some y => x =? y | None, None => true | _, _ => false end.

(** position by position: an actual is a plain parametrised variable of the caller exactly when the
    dummy it is bound to is parametrised in the callee, with the same value *)
Fixpoint call_ok (Dc Dg : dict) (params : list (string * bool)) (args : list expr) : bool :=
  match params, args with
  | [], [] => true
  | (d, isarr) :: ps, a :: r =>
      (match a with
       | EVar x => match lookup Dc x with
                   | Some v => negb isarr && oz_eqb (lookup Dg d) (Some v)
                   | None => negb (mem Dg d)
                   end
       | _ => negb (mem Dg d)
       end) && call_ok Dc Dg ps r
  | _, _ => false
  end.

Fixpoint wf_stmt (A : list aunit) (D : dict) (st : stmt) : bool :=
  match st with
  | SAssign x _ => negb (mem D x)
  | SStore _ _ _ => true
  | SDo v _ _ _ b => negb (mem D v) && forallb (wf_stmt A D) b
  | SWhile _ b => forallb (wf_stmt A D) b
  | SIf _ t e => forallb (wf_stmt A D) t && forallb (wf_stmt A D) e
  | SCall g args =>
      match find_aunit A g with
      | Some ag => negb (a_entry ag) && call_ok D (a_dict ag) (u_params (a_unit ag)) args
      | None => false
      end
  | SSkip _ => true
  end.

Definition scalar_params (u : unit) : list string :=
  map fst (filter (fun p => negb (snd p)) (u_params u)).

Definition wf_aunit (A : list aunit) (a : aunit) : bool :=
  forallb (fun kv => in_names (scalar_params (a_unit a)) (fst kv) && in_names (u_decls (a_unit a)) (fst kv)) (a_dict a)
  && forallb (wf_stmt A (a_dict a)) (u_body (a_unit a)).

Definition wf_assigned (A : list aunit) : bool := forallb (wf_aunit A) A.

(** [uniform_calls]: with the dictionaries that the code's propagation arrives at, every CALL
    statement agrees position by position with the dictionary its callee is processed with; the
    parametrised names are scalar dummies, declared, never assigned, never DO variables *)
Definition uniform_calls (us : list unit) (entries : list string) (D0 : dict) : bool :=
  wf_assigned (assign_dicts us entries D0).

(** * Store relation of the simulation *)
Definition Rpre (D : dict) (s s' : store) : Prop :=
  (forall y, lookup D y = None -> sv s y = sv s' y) /\
  av s = av s' /\
  (forall x v, lookup D x = Some v -> sv s x = v).

Definition R (m : pmode) (D : dict) (s s' : store) : Prop :=
  Rpre D s s' /\ (m = MDecl -> forall x v, lookup D x = Some v -> sv s' x = v).

(** the entry guards all pass / the first one that fires *)
Definition guards_pass (gs : list (string * Z)) (s : store) : Prop :=
  forall k v, In (k, v) gs -> sv s (pname k) = v.

Fixpoint first_fail (gs : list (string * Z)) (s : store) : option (string * Z) :=
  match gs with
  | [] => None
  | (k, v) :: r => if sv s (pname k) =? v then first_fail r s else Some (k, v)
  end.

(** * Boolean comparators for the correspondence *)
Fixpoint params_eqb (a b : list (string * bool)) : bool :=
  match a, b with
  | [], [] => true
  | (x, p) :: r, (y, q) :: t => String.eqb x y && Bool.eqb p q && params_eqb r t
  | _, _ => false
  end.

Fixpoint dict_eqb (a b : dict) : bool :=
  match a, b with
  | [], [] => true
  | (x, p) :: r, (y, q) :: t => String.eqb x y && (p =? q) && dict_eqb r t
  | _, _ => false
  end.

(** what the harness extracts from a transformed routine: name, dummies, constants, body *)
Definition tunit_eqb (t : tunit) (o : string * list (string * bool) * dict * list stmt) : bool :=
  match o with
  | (n, ps, cs, b) =>
      String.eqb (t_name t) n && params_eqb (t_params t) ps && dict_eqb (t_consts t) cs
      && stmts_eqb (t_guards t ++ t_body t) b
  end.

Fixpoint tunits_eqb (ts : list tunit) (os : list (string * list (string * bool) * dict * list stmt)) : bool :=
  match ts, os with
  | [], [] => true
  | t :: r, o :: q => tunit_eqb t o && tunits_eqb r q
  | _, _ => false
  end.

Fixpoint dicts_eqb (a b : list dict) : bool :=
  match a, b with
  | [], [] => true
  | x :: r, y :: q => dict_eqb x y && dicts_eqb r q
  | _, _ => false
  end.

(** tie 1: the model reproduces Loki's output and the dictionaries each routine was processed with *)
Definition chk_tree (m : pmode) (abort : list stmt) (us : list unit) (entries : list string) (D0 : dict)
           (used : list dict) (out : list (string * list (string * bool) * dict * list stmt)) : bool :=
  dicts_eqb (map a_dict (assign_dicts us entries D0)) used
  && tunits_eqb (param_tree m abort us entries D0) out.

(** tie 2: executing the model's output in Coq gives the observation the reference interpreter gave *)
Definition chk_run (m : pmode) (abort : list stmt) (us : list unit) (entries : list string) (D0 : dict)
           (entry : string) (fuel : nat)
           (scal0 : list (string * Z)) (cells0 : list (string * list Z * Z))
           (oscal : list string) (ocells : list (string * list Z)) (expected : option (list Z)) : bool :=
  let A := assign_dicts us entries D0 in
  match find_aunit A entry with
  | Some a =>
      olist_z_eqb (run_observe (procs_trans m abort A) fuel (tunit_stmts (transform_aunit A m abort a))
                               scal0 cells0 oscal ocells) expected
  | None => false
  end.

Definition chk_run_orig (us : list unit) (entries : list string) (D0 : dict) (entry : string) (fuel : nat)
           (scal0 : list (string * Z)) (cells0 : list (string * list Z * Z))
           (oscal : list string) (ocells : list (string * list Z)) (expected : option (list Z)) : bool :=
  let A := assign_dicts us entries D0 in
  match find_aunit A entry with
  | Some a => olist_z_eqb (run_observe (procs_orig A) fuel (u_body (a_unit a)) scal0 cells0 oscal ocells) expected
  | None => false
  end.

(** * declare_fixed_value_scalars_as_constants (same file of the anchor)

    Local scalars (declared, not dummies) that are never a plain actual of a CALL or of an inline
    (intrinsic) call, that are the target of exactly one assignment in the whole body, whose right-hand
    side is a literal or a sum/product all of whose children are literals, become constants initialised
    with that right-hand side; the assignment is removed. *)
Definition is_intrinsic_name (f : string) : bool :=
  in_names ["mod"%string; "modulo"%string; "abs"%string; "min"%string; "max"%string] f.

Definition plain_vars (args : list expr) : list string :=
  flat_map (fun a => match a with EVar x => [x] | _ => [] end) args.

Fixpoint icall_vars (e : expr) : list string :=
  match e with
  | ECall f args => (if is_intrinsic_name f then plain_vars args else []) ++ flat_map icall_vars args
  | ESum _ cs => flat_map icall_vars cs
  | EProd _ cs => flat_map icall_vars cs
  | EAnd cs => flat_map icall_vars cs
  | EOr cs => flat_map icall_vars cs
  | EQuot _ a b => icall_vars a ++ icall_vars b
  | EPow _ a b => icall_vars a ++ icall_vars b
  | ECmp _ a b => icall_vars a ++ icall_vars b
  | ENot a => icall_vars a
  | _ => []
  end.

Fixpoint arg_vars_stmt (st : stmt) : list string :=
  match st with
  | SAssign _ e => icall_vars e
  | SStore _ idx e => flat_map icall_vars idx ++ icall_vars e
  | SDo _ lo hi stp b =>
      icall_vars lo ++ icall_vars hi ++ (match stp with Some e => icall_vars e | None => [] end)
      ++ flat_map arg_vars_stmt b
  | SWhile c b => icall_vars c ++ flat_map arg_vars_stmt b
  | SIf c t e => icall_vars c ++ flat_map arg_vars_stmt t ++ flat_map arg_vars_stmt e
  | SCall _ args => plain_vars args ++ flat_map icall_vars args
  | SSkip _ => []
  end.

Fixpoint assigns_stmt (st : stmt) : list (string * expr) :=
  match st with
  | SAssign x e => [(x, e)]
  | SDo _ _ _ _ b => flat_map assigns_stmt b
  | SWhile _ b => flat_map assigns_stmt b
  | SIf _ t e => flat_map assigns_stmt t ++ flat_map assigns_stmt e
  | _ => []
  end.

Definition lit_val (e : expr) : option Z := match e with EInt v => Some v | _ => None end.

(** value of a right-hand side accepted by [is_constant_rhs] *)
Definition const_value (e : expr) : option Z :=
  match e with
  | EInt v => Some v
  | ESum _ cs => fold_right (fun c acc => obind (lit_val c) (fun v => obind acc (fun a => Some (v + a)))) (Some 0) cs
  | EProd _ cs => fold_right (fun c acc => obind (lit_val c) (fun v => obind acc (fun a => Some (v * a)))) (Some 1) cs
  | _ => None
  end.

Definition const_rhs (e : expr) : bool := match const_value e with Some _ => true | None => false end.

Definition dfv_chosen (params decls : list string) (body : list stmt) : list (string * expr) :=
  let args := flat_map arg_vars_stmt body in
  let asg := flat_map assigns_stmt body in
  flat_map (fun x =>
              if in_names params x || in_names args x then []
              else match filter (fun a => String.eqb (fst a) x) asg with
                   | [(_, e)] => if const_rhs e then [(x, e)] else []
                   | _ => []
                   end) decls.

Fixpoint dfv_rm_stmt (chosen : string -> bool) (st : stmt) : list stmt :=
  match st with
  | SAssign x e => if chosen x then [] else [st]
  | SDo v lo hi stp b => [SDo v lo hi stp (flat_map (dfv_rm_stmt chosen) b)]
  | SWhile c b => [SWhile c (flat_map (dfv_rm_stmt chosen) b)]
  | SIf c t e => [SIf c (flat_map (dfv_rm_stmt chosen) t) (flat_map (dfv_rm_stmt chosen) e)]
  | _ => [st]
  end.

Definition dfv_rm (chosen : string -> bool) (ss : list stmt) : list stmt := flat_map (dfv_rm_stmt chosen) ss.

Definition dfv_transform (params decls : list string) (body : list stmt) : list (string * expr) * list stmt :=
  let cs := dfv_chosen params decls body in
  (cs, dfv_rm (in_names (map fst cs)) body).

(** the constants with their values *)
Definition dfv_dict (cs : list (string * expr)) : dict :=
  flat_map (fun kv => match const_value (snd kv) with Some v => [(fst kv, v)] | None => [] end) cs.

(** class of the soundness theorem: no CALL in the body, a chosen variable is never a DO variable, and
    every assignment to it assigns its constant *)
Fixpoint dfv_wf (D : dict) (st : stmt) : bool :=
  match st with
  | SAssign x e => match lookup D x with Some v => oz_eqb (const_value e) (Some v) | None => true end
  | SDo v _ _ _ b => negb (mem D v) && forallb (dfv_wf D) b
  | SWhile _ b => forallb (dfv_wf D) b
  | SIf _ t e => forallb (dfv_wf D) t && forallb (dfv_wf D) e
  | SCall _ _ => false
  | _ => true
  end.

(** validity of the output as Fortran: a constant may not be assigned or be a DO variable *)
Fixpoint writes_stmt (st : stmt) : list string :=
  match st with
  | SAssign x _ => [x]
  | SDo v _ _ _ b => v :: flat_map writes_stmt b
  | SWhile _ b => flat_map writes_stmt b
  | SIf _ t e => flat_map writes_stmt t ++ flat_map writes_stmt e
  | _ => []
  end.

Definition dfv_valid (cs : list (string * expr)) (body' : list stmt) : bool :=
  forallb (fun kv => negb (in_names (flat_map writes_stmt body') (fst kv))) cs.

Fixpoint cexpr_mem (kv : string * expr) (l : list (string * expr)) : bool :=
  match l with
  | [] => false
  | (k, e) :: r => (String.eqb k (fst kv) && expr_eqb e (snd kv)) || cexpr_mem kv r
  end.

(** tie: chosen constants (as a set) and the remaining body *)
Definition chk_dfv (params decls : list string) (body : list stmt)
           (consts : list (string * expr)) (body' : list stmt) (valid : bool) : bool :=
  let r := dfv_transform params decls body in
  (Nat.eqb (List.length (fst r)) (List.length consts)) && forallb (fun kv => cexpr_mem kv (fst r)) consts
  && stmts_eqb (snd r) body' && Bool.eqb (dfv_valid (fst r) (snd r)) valid.
