(** C11 — equality / hashing of Loki expression nodes.  Definitions only.

    Layers:
    1. class table      : which class supplies __eq__ / __hash__, subclass relation
                          (compared with introspection of loki.expression on every run)
    2. views            : what __eq__/__hash__ of a node can observe (class, printed string,
                          literal payloads, range children, quotient children)
    3. Python's ==      : reflected-operand priority for proper subclasses, NotImplemented
                          fallback of the builtin types, the five __eq__ bodies of Loki and
                          pymbolic's Expression.__eq__
    4. trees + printer  : a model of LokiStringifyMapper on the node kinds, giving the view of a tree
    5. chk_*            : boolean comparators used by the correspondence *)
From Coq Require Import ZArith List Bool String Ascii Arith Lia DecimalString.
From LV Require Import Base.Strings.
Import ListNotations.
Open Scope string_scope.
Open Scope Z_scope.

(* ------------------------------------------------------------------------------------------ *)
(** * 1. Class table *)

(** classes whose __eq__/__hash__ only look at the printed string *)
Inductive gcls :=
| GMetaSymbol | GScalar | GArray | GDeferred | GVarSym | GProcSym | GDTypeSym
| GLogic | GIntrinsic | GLitList
| GSum | GProduct | GPower | GComparison | GAnd | GOr | GNot | GPAdd | GPMul | GPPow
| GConcat | GCast | GCall | GInlineDo | GArraySub | GStringSub | GReference | GDereference.

Inductive rcls := RRange | RRangeIndex | RLoopRange.

Inductive cls :=
| CG (g : gcls) | CInt | CFloat | CStrLit | CRng (r : rcls) | CQuot (par : bool).

Scheme Equality for gcls.
Scheme Equality for rcls.
Scheme Equality for cls.

(** the class whose body is executed for [__eq__] / [__hash__] *)
Inductive esrc := EStrCompare | EIntLiteral | EFloatLiteral | EStringLiteral | ERange | ERangeIndex.
Inductive hsrc := HStrCompare | HIntLiteral | HFloatLiteral | HStringLiteral | HRange | HRangeIndex | HInlineCall.
Scheme Equality for esrc.
Scheme Equality for hsrc.

Definition eq_src (c : cls) : esrc :=
  match c with
  | CG _ => EStrCompare
  | CInt => EIntLiteral
  | CFloat => EFloatLiteral
  | CStrLit => EStringLiteral
  | CRng RRangeIndex => ERangeIndex
  | CRng RRange => ERange
  | CRng RLoopRange => ERange
  | CQuot _ => EStrCompare
  end.

Definition hash_src (c : cls) : hsrc :=
  match c with
  | CG GCall => HInlineCall
  | CG _ => HStrCompare
  | CInt => HIntLiteral
  | CFloat => HFloatLiteral
  | CStrLit => HStringLiteral
  | CRng RRangeIndex => HRangeIndex
  | CRng RRange => HRange
  | CRng RLoopRange => HRange
  | CQuot _ => HStrCompare
  end.

(** proper superclasses among the expression-node classes (from the MRO) *)
Definition supers (c : cls) : list cls :=
  match c with
  | CG GScalar => [CG GMetaSymbol]
  | CG GArray => [CG GMetaSymbol]
  | CG GPAdd => [CG GSum]
  | CG GPMul => [CG GProduct]
  | CG GPPow => [CG GPower]
  | CQuot true => [CQuot false]
  | CRng RRangeIndex => [CRng RRange]
  | CRng RLoopRange => [CRng RRange]
  | _ => []
  end.

Definition all_gcls : list gcls :=
  [GMetaSymbol; GScalar; GArray; GDeferred; GVarSym; GProcSym; GDTypeSym; GLogic; GIntrinsic; GLitList;
   GSum; GProduct; GPower; GComparison; GAnd; GOr; GNot; GPAdd; GPMul; GPPow;
   GConcat; GCast; GCall; GInlineDo; GArraySub; GStringSub; GReference; GDereference].

Definition all_cls : list cls :=
  (map CG all_gcls ++ [CInt; CFloat; CStrLit; CRng RRange; CRng RRangeIndex; CRng RLoopRange; CQuot false; CQuot true])%list.

(** [psub cb ca]: cb is a proper subclass of ca *)
Definition psub (cb ca : cls) : bool := existsb (cls_beq ca) (supers cb).
Definition sub_or_eq (cb ca : cls) : bool := cls_beq cb ca || psub cb ca.

(* ------------------------------------------------------------------------------------------ *)
(** * Strings: canonical form, number parsing *)

(** StrCompareMixin._canonical with config['case-sensitive'] = False: str(x).lower().replace(' ', '') *)
Definition canon (s : string) : string := strip_blanks (lower s).

Definition is_digit (c : ascii) : bool :=
  let n := nat_of_ascii c in ((48 <=? n) && (n <=? 57))%nat.
Definition digit_val (c : ascii) : Z := Z.of_nat (nat_of_ascii c - 48).

Fixpoint take_digits (s : string) (acc : Z) (cnt : nat) : Z * nat * string :=
  match s with
  | String c r => if is_digit c then take_digits r (acc * 10 + digit_val c) (S cnt) else (acc, cnt, s)
  | EmptyString => (acc, cnt, s)
  end.

Fixpoint drop_lead_blanks (s : string) : string :=
  match s with
  | String c r => if Ascii.eqb c " "%char then drop_lead_blanks r else s
  | EmptyString => s
  end.
Fixpoint rev_string (s acc : string) : string :=
  match s with
  | String c r => rev_string r (String c acc)
  | EmptyString => acc
  end.
Definition trim (s : string) : string :=
  rev_string (drop_lead_blanks (rev_string (drop_lead_blanks s) "")) "".

Definition split_sign (s : string) : Z * string :=
  match s with
  | String c r => if Ascii.eqb c "+"%char then (1, r) else if Ascii.eqb c "-"%char then (-1, r) else (1, s)
  | EmptyString => (1, s)
  end.

(** Python [int(s)] on the class: blanks, optional sign, decimal digits (no underscores). None = ValueError *)
Definition parse_int (s : string) : option Z :=
  let '(sg, r) := split_sign (trim s) in
  let '(v, cnt, rest) := take_digits r 0 0 in
  match cnt, rest with
  | S _, EmptyString => Some (sg * v)
  | _, _ => None
  end.

(** Python [float(s)] on the class  [blanks] [sign] digits [. digits] [(e|E) [sign] digits] :
    value = mantissa * 10^exponent, exact (strings of at most 15 significant digits map injectively to doubles).
    None = ValueError (this includes Fortran's d-exponent) *)
Definition parse_float (s : string) : option (Z * Z) :=
  let '(sg, r0) := split_sign (trim s) in
  let '(m1, c1, r1) := take_digits r0 0 0 in
  let '(m2, c2, r2) :=
     match r1 with
     | String c r => if Ascii.eqb c "."%char then take_digits r m1 0 else (m1, 0%nat, r1)
     | EmptyString => (m1, 0%nat, r1)
     end in
  if (c1 + c2 =? 0)%nat then None else
  match r2 with
  | EmptyString => Some (sg * m2, - Z.of_nat c2)
  | String c r =>
      if Ascii.eqb c "e"%char || Ascii.eqb c "E"%char then
        let '(esg, r3) := split_sign r in
        let '(ev, ce, r4) := take_digits r3 0 0 in
        match ce, r4 with
        | S _, EmptyString => Some (sg * m2, esg * ev - Z.of_nat c2)
        | _, _ => None
        end
      else None
  end.

Definition q10_eq (a b : Z * Z) : bool :=
  let '(m1, e1) := a in let '(m2, e2) := b in
  let m := Z.min e1 e2 in
  (m1 * 10 ^ (e1 - m)) =? (m2 * 10 ^ (e2 - m)).

(** float(value) == z *)
Definition float_is_int (v : string) (z : Z) : bool :=
  match parse_float v with Some q => q10_eq q (z, 0) | None => false end.
(** float(value) == float(t) *)
Definition float_same (v t : string) : bool :=
  match parse_float v, parse_float t with Some q, Some q' => q10_eq q q' | _, _ => false end.

Definition string_of_Z (z : Z) : string := NilZero.string_of_int (Z.to_int z).

(* ------------------------------------------------------------------------------------------ *)
(** * 2. Views *)

Inductive view :=
| VPyNone
| VPyInt (z : Z)
| VPyStr (s : string)
| VGen (g : gcls) (s : string) (fl : option Z)
      (** [s] = str(x); [fl] = Some v when float(x) succeeds (arithmetic over Python ints only); only the pre-d84a976
          FloatLiteral.__eq__ looked at it *)
| VInt (z : Z) (kind : view) (s : string)
| VFloat (v : string) (kind : view) (s : string)
| VStrLit (v : string) (s : string)
| VRange (r : rcls) (start stop step : view) (s : string)
| VQuot (par : bool) (num den : view) (s : string).

Definition is_py (v : view) : bool :=
  match v with VPyNone | VPyInt _ | VPyStr _ => true | _ => false end.
Definition is_none (v : view) : bool := match v with VPyNone => true | _ => false end.

(** class of a node (dummy for the Python builtins, which are never asked) *)
Definition ncls (v : view) : cls :=
  match v with
  | VGen g _ _ => CG g
  | VInt _ _ _ => CInt
  | VFloat _ _ _ => CFloat
  | VStrLit _ _ => CStrLit
  | VRange r _ _ _ _ => CRng r
  | VQuot p _ _ _ => CQuot p
  | _ => CStrLit
  end.

Definition str_of (v : view) : string :=
  match v with
  | VPyNone => "None"
  | VPyInt z => string_of_Z z
  | VPyStr s => s
  | VGen _ s _ | VInt _ _ s | VFloat _ _ s | VStrLit _ s | VRange _ _ _ _ s | VQuot _ _ _ s => s
  end.

Fixpoint vsize (v : view) : nat :=
  match v with
  | VInt _ k _ | VFloat _ k _ => S (vsize k)
  | VRange _ a b c _ => S (vsize a + vsize b + vsize c)
  | VQuot _ a b _ => S (vsize a + vsize b)
  | _ => 1%nat
  end.

(** ** hash keys: hash(x) is modelled as an injective function of this value *)
Inductive hkey :=
| HNone | HInt (z : Z) | HStr (s : string)
| HTupI (z : Z) (k : hkey)        (** hash((int value, kind)) *)
| HTupF (v : string) (k : hkey)   (** hash((str value, kind)) *)
| HBad.                           (** shape does not fit the class table (never produced, see hkey_not_bad) *)

(** CPython: hash(-1) = -2 *)
Definition normz (z : Z) : Z := if z =? -1 then -2 else z.

Fixpoint hkey_eqb (a b : hkey) : bool :=
  match a, b with
  | HNone, HNone => true
  | HInt x, HInt y => x =? y
  | HStr s, HStr t => String.eqb s t
  | HTupI x k, HTupI y k' => (x =? y) && hkey_eqb k k'
  | HTupF s k, HTupF t k' => String.eqb s t && hkey_eqb k k'
  | HBad, HBad => true
  | _, _ => false
  end.

Fixpoint hkey_of (v : view) : hkey :=
  match v with
  | VPyNone => HNone
  | VPyInt z => HInt (normz z)
  | VPyStr s => HStr s
  | _ =>
    match hash_src (ncls v) with
    | HStrCompare | HInlineCall | HRange | HRangeIndex => HStr (canon (str_of v))
    | HIntLiteral => match v with VInt z k _ => HTupI (normz z) (hkey_of k) | _ => HBad end
    | HFloatLiteral => match v with VFloat x k _ => HTupF x (hkey_of k) | _ => HBad end
    | HStringLiteral => match v with VStrLit x _ => HStr x | _ => HBad end
    end
  end.

(* ------------------------------------------------------------------------------------------ *)
(** * 3. Python's [==] *)

Definition builtin_eq (a b : view) : bool :=
  match a, b with
  | VPyNone, VPyNone => true
  | VPyInt x, VPyInt y => x =? y
  | VPyStr s, VPyStr t => String.eqb s t
  | _, _ => false
  end.

Definition isinstance (b : view) (c : cls) : bool := negb (is_py b) && sub_or_eq (ncls b) c.

(** pymbolic Expression.__eq__ as reached from StrCompareMixin.__eq__ (other is not an instance of type(self),
    hence never the same object and never of the same type): unequal hashes -> False, else is_equal, which is
    [type(other) == type(self) and ...] = False except for Quotient.is_equal (isinstance(other, Quotient)) *)
Definition pmbl_eq (rec : view -> view -> bool) (a b : view) : bool :=
  if negb (hkey_eqb (hkey_of a) (hkey_of b)) then false
  else match a, b with
       | VQuot _ na da _, VQuot _ nb db _ => rec na nb && rec da db
       | _, _ => false
       end.

(** StrCompareMixin.__eq__ *)
Definition strcmp (rec : view -> view -> bool) (a b : view) : bool :=
  match b with
  | VPyStr t => String.eqb (canon (str_of a)) (canon t)
  | _ => if isinstance b (ncls a) then String.eqb (canon (str_of a)) (canon (str_of b))
         else pmbl_eq rec a b
  end.

(** IntLiteral.__eq__ *)
Definition int_eq (rec : view -> view -> bool) (a b : view) : bool :=
  match a with
  | VInt z k _ =>
      match b with
      | VInt z' k' _ => (z =? z') && rec k k'
      | VPyInt y => z =? y
      | VPyStr t => match parse_int t with Some y => z =? y | None => false end
      | _ => false        (* int(other) raises TypeError: only IntLiteral defines __int__ *)
      end
  | _ => false
  end.

(** FloatLiteral.__eq__ (after commit d84a976): any other pymbolic Expression compares unequal; float(other) is only
    tried for Python values *)
Definition float_eq (rec : view -> view -> bool) (a b : view) : bool :=
  match a with
  | VFloat v k _ =>
      match b with
      | VFloat v' k' _ => String.eqb v v' && rec k k'
      | VPyInt y => float_is_int v y
      | VPyStr t => float_same v t
      | _ => false
      end
  | _ => false
  end.

(** the body before d84a976: float(other) was also tried for nodes and went through pymbolic's Expression.__float__,
    which evaluates arithmetic over Python numbers (kept to state what was wrong, finding F6c) *)
Definition float_eq_old (rec : view -> view -> bool) (a b : view) : bool :=
  match a with
  | VFloat v k _ =>
      match b with
      | VFloat v' k' _ => String.eqb v v' && rec k k'
      | VPyInt y => float_is_int v y
      | VPyStr t => float_same v t
      | VGen _ _ (Some y) => float_is_int v y
      | _ => false
      end
  | _ => false
  end.

(** StringLiteral.__eq__ *)
Definition strlit_eq (a b : view) : bool :=
  match a with
  | VStrLit v _ =>
      match b with
      | VStrLit v' _ => String.eqb v v'
      | VPyStr t => String.eqb v t
      | _ => false
      end
  | _ => false
  end.

(** Range.__eq__ (also LoopRange) *)
Definition range_eq (rec : view -> view -> bool) (a b : view) : bool :=
  match a with
  | VRange _ st sp step _ =>
      if rec st (VPyInt 1) && is_none step then rec sp b || strcmp rec a b else strcmp rec a b
  | _ => false
  end.

(** RangeIndex.__eq__ : same test, super() is Range *)
Definition rangeindex_eq (rec : view -> view -> bool) (a b : view) : bool :=
  match a with
  | VRange _ st sp step _ =>
      if rec st (VPyInt 1) && is_none step then rec sp b || range_eq rec a b else range_eq rec a b
  | _ => false
  end.

(** a.__eq__(b) for a node a *)
Definition meth (rec : view -> view -> bool) (a b : view) : bool :=
  match eq_src (ncls a) with
  | EStrCompare => strcmp rec a b
  | EIntLiteral => int_eq rec a b
  | EFloatLiteral => float_eq rec a b
  | EStringLiteral => strlit_eq a b
  | ERange => range_eq rec a b
  | ERangeIndex => rangeindex_eq rec a b
  end.

(** a == b : builtin left operands answer NotImplemented for nodes, so the node's reflected __eq__ runs;
    for two nodes the right operand goes first when its type is a proper subclass of the left one's;
    no node __eq__ ever returns NotImplemented *)
Definition dispatch (rec : view -> view -> bool) (a b : view) : bool :=
  if is_py a then (if is_py b then builtin_eq a b else meth rec b a)
  else if is_py b then meth rec a b
  else if psub (ncls b) (ncls a) then meth rec b a
  else meth rec a b.

Fixpoint py_eq_f (n : nat) (a b : view) : bool :=
  match n with
  | O => false
  | S m => dispatch (py_eq_f m) a b
  end.

Definition node_eq (a b : view) : bool := py_eq_f (S (vsize a + vsize b)) a b.

(** ** class predicates of the theorems *)

(** the documented shortcut: a range [1:n] without step *)
Definition shortcut (v : view) : bool :=
  match v with
  | VRange _ st _ step _ => node_eq st (VPyInt 1) && is_none step
  | _ => false
  end.

(** neither side (nor the kinds that get compared) is a shortcut range *)
Fixpoint pair_ok (a b : view) : bool :=
  negb (shortcut a) && negb (shortcut b)
  && match a with
     | VInt _ k _ => match b with VInt _ k' _ => pair_ok k k' | _ => true end
     | VFloat _ k _ => match b with VFloat _ k' _ => pair_ok k k' | _ => true end
     | _ => true
     end.

(** both Python values or both expression nodes, also along the kinds that get compared *)
Fixpoint homog (a b : view) : bool :=
  Bool.eqb (is_py a) (is_py b)
  && match a with
     | VInt _ k _ => match b with VInt _ k' _ => homog k k' | _ => true end
     | VFloat _ k _ => match b with VFloat _ k' _ => homog k k' | _ => true end
     | _ => true
     end.

(* ------------------------------------------------------------------------------------------ *)
(** * 4. Trees and the printer (LokiStringifyMapper) *)

Inductive kind :=
| KPyNone | KPyInt | KPyStr
| KScalar | KArray | KDeferred | KVarSym | KProcSym | KDTypeSym
| KInt | KFloat | KLogic | KStrLit | KIntrinsic | KLitList
| KSum | KProduct | KQuotient | KPower | KComparison | KAnd | KOr | KNot
| KPAdd | KPMul | KPDiv | KPPow
| KConcat | KCast | KCall | KInlineDo
| KRange | KRangeIndex | KLoopRange
| KArraySub | KStringSub | KReference | KDereference.

(** [TN k name z lit kws ch]
    name : identifier compared case-insensitively (symbol basename, cast name)
    z    : integer payload (IntLiteral / Python int value, LogicLiteral 0/1, number of positional call arguments,
           Array: 1 if the first child is the derived-type parent)
    lit  : case-preserving text (FloatLiteral value, StringLiteral / IntrinsicLiteral value, comparison operator, Python str)
    kws  : keyword names of a call
    ch   : children; symbols: [] or [parent]; Array: [parent?] ++ dims; Int/Float: [kind]; Cast: [expr; kind];
           call: function :: args ++ kwvalues; ranges: [start; stop; step]; subscripts: aggregate :: index *)
Inductive tree := TN (k : kind) (name : string) (z : Z) (lit : string) (kws : list string) (ch : list tree).

Definition tkind (t : tree) : kind := match t with TN k _ _ _ _ _ => k end.
Definition tz (t : tree) : Z := match t with TN _ _ z _ _ _ => z end.

Definition PREC_CALL := 15%nat.
Definition PREC_POWER := 14%nat.
Definition PREC_UNARY := 13%nat.
Definition PREC_PRODUCT := 12%nat.
Definition PREC_SUM := 11%nat.
Definition PREC_COMPARISON := 6%nat.
Definition PREC_AND := 5%nat.
Definition PREC_OR := 4%nat.
Definition PREC_NONE := 0%nat.

Definition paren (s : string) : string := "(" ++ s ++ ")".
Definition paren_if (s : string) (enc my : nat) : string := if (my <? enc)%nat then paren s else s.

Fixpoint join (sep : string) (l : list string) : string :=
  match l with
  | [] => ""
  | [x] => x
  | x :: r => x ++ sep ++ join sep r
  end.

(** what a parent needs from a printed child: its text at an enclosing precedence, and its form as a term of a sum *)
Definition pinfo : Type := (nat -> string) * (bool * string).
Definition p_at (p : pinfo) (e : nat) : string := fst p e.
Definition p_neg (p : pinfo) : bool := fst (snd p).
Definition p_term (p : pinfo) : string := snd (snd p).
Definition pdflt : pinfo := (fun _ => "", (false, "")).
Definition mk_plain (f : nat -> string) : pinfo := (f, (false, f PREC_SUM)).

Definition cat (l : list string) : string := fold_right String.append "" l.

(** LokiStringifyMapper.map_string_literal: a maximal run of an odd number of quotes gets one more quote *)
Fixpoint dq_runs (s : string) (run : nat) : string :=
  let flush := fun (n : nat) => if Nat.odd n then "'" else "" in
  match s with
  | EmptyString => flush run
  | String c r =>
      if Ascii.eqb c "'"%char then String c (dq_runs r (S run))
      else flush run ++ String c (dq_runs r 0)
  end.
Definition print_strlit (v : string) : string := "'" ++ dq_runs v 0 ++ "'".

(** pymbolic map_constant for a Python int *)
Definition print_pyint (z : Z) (e : nat) : string :=
  if (z <? 0) && (PREC_SUM <? e)%nat then paren (string_of_Z z) else string_of_Z z.

Definition nthp (l : list pinfo) (i : nat) : pinfo := nth i l pdflt.
Definition nthk (l : list (kind * Z)) (i : nat) : kind * Z := nth i l (KPyNone, 0).

Definition is_pyneg1 (t : kind * Z) : bool :=
  match fst t with KPyInt => snd t =? -1 | _ => false end.
(** children[0] == -1 on the class (Python int or IntLiteral) *)
Definition is_neg1 (t : kind * Z) : bool :=
  match fst t with KPyInt | KInt => snd t =? -1 | _ => false end.

(** map_product body (without the outer parenthesize_if_needed) for children printed at PREC_PRODUCT *)
Definition product_body (tags : list (kind * Z)) (cs : list pinfo) : string :=
  let strs := map (fun p => p_at p PREC_PRODUCT) cs in
  if (List.length cs =? 2)%nat && is_neg1 (nthk tags 0) then "-" ++ join "*" (tl strs) else join "*" strs.

(** map_sum body *)
Fixpoint sum_terms (first : bool) (cs : list pinfo) : string :=
  match cs with
  | [] => ""
  | p :: r =>
      (if first then (if p_neg p then "-" else "") else (if p_neg p then " - " else " + "))
      ++ p_term p ++ sum_terms false r
  end.

Definition quotient_body (tags : list (kind * Z)) (cs : list pinfo) : string :=
  let den := p_at (nthp cs 1) PREC_PRODUCT in
  let den' := match fst (nthk tags 1) with KProduct | KQuotient => paren den | _ => den end in
  p_at (nthp cs 0) PREC_PRODUCT ++ " / " ++ den'.

Definition power_body (cs : list pinfo) : string :=
  p_at (nthp cs 0) PREC_POWER ++ "**" ++ p_at (nthp cs 1) PREC_POWER.

Definition sym_text (name : string) (cs : list pinfo) : string :=
  match cs with
  | [] => name
  | p :: _ => p_at p PREC_NONE ++ "%" ++ name
  end.

Definition args_at0 (cs : list pinfo) : list string := map (fun p => p_at p PREC_NONE) cs.

Fixpoint kw_strings (kws : list string) (cs : list pinfo) : list string :=
  match kws, cs with
  | k :: kr, p :: pr => (k ++ "=" ++ p_at p PREC_NONE) :: kw_strings kr pr
  | _, _ => []
  end.

Definition range_text (tags : list (kind * Z)) (cs : list pinfo) : string :=
  let strs := args_at0 cs in
  match fst (nthk tags 2) with
  | KPyNone => join ":" (firstn 2 strs)
  | _ => join ":" strs
  end.

(** printing of one node from the printed children; [tags] = (kind, z) of the children *)
Definition pr_node (k : kind) (name : string) (z : Z) (lit : string) (kws : list string)
           (tags : list (kind * Z)) (cs : list pinfo) : pinfo :=
  match k with
  | KPyNone => mk_plain (fun _ => "")
  | KPyInt => mk_plain (print_pyint z)
  | KPyStr => mk_plain (fun _ => lit)
  | KScalar | KDeferred | KVarSym | KProcSym | KDTypeSym => mk_plain (fun _ => sym_text name cs)
  | KArray =>
      let '(par, dims) := if z =? 1 then (firstn 1 cs, skipn 1 cs) else ([], cs) in
      mk_plain (fun _ => match dims with
                         | [] => sym_text name par
                         | _ => sym_text name par ++ "(" ++ join ", " (args_at0 dims) ++ ")"
                         end)
  | KInt => mk_plain (fun _ => string_of_Z z)
  | KFloat =>
      mk_plain (fun _ => match fst (nthk tags 0) with
                         | KPyNone => lit
                         | _ => lit ++ "_" ++ p_at (nthp cs 0) PREC_NONE
                         end)
  | KLogic => mk_plain (fun _ => if z =? 0 then "False" else "True")
  | KStrLit => mk_plain (fun _ => print_strlit lit)
  | KIntrinsic => mk_plain (fun _ => lit)
  | KLitList => mk_plain (fun _ => "[ " ++ join ", " (args_at0 cs) ++ " ]")
  | KSum => mk_plain (fun e => paren_if (sum_terms true cs) e PREC_SUM)
  | KPAdd => mk_plain (fun _ => paren (sum_terms true cs))
  | KProduct =>
      let f := fun e => paren_if (product_body tags cs) e PREC_PRODUCT in
      if is_pyneg1 (nthk tags 0) then
        (f, (true, if (List.length cs =? 2)%nat then p_at (nthp cs 1) PREC_PRODUCT
                   else product_body (tl tags) (tl cs)))
      else mk_plain f
  | KPMul => mk_plain (fun _ => paren (product_body tags cs))
  | KQuotient => mk_plain (fun e => paren_if (quotient_body tags cs) e PREC_PRODUCT)
  | KPDiv => mk_plain (fun _ => paren (quotient_body tags cs))
  | KPower => mk_plain (fun e => paren_if (power_body cs) e PREC_POWER)
  | KPPow => mk_plain (fun _ => paren (power_body cs))
  | KComparison =>
      mk_plain (fun e => paren_if (p_at (nthp cs 0) PREC_COMPARISON ++ " " ++ lit ++ " " ++ p_at (nthp cs 1) PREC_COMPARISON)
                                  e PREC_COMPARISON)
  | KAnd => mk_plain (fun e => paren_if (join " and " (map (fun p => p_at p PREC_AND) cs)) e PREC_AND)
  | KOr => mk_plain (fun e => paren_if (join " or " (map (fun p => p_at p PREC_OR) cs)) e PREC_OR)
  | KNot => mk_plain (fun e => paren_if ("not " ++ p_at (nthp cs 0) PREC_UNARY) e PREC_UNARY)
  | KConcat => mk_plain (fun e => join " // " (map (fun p => p_at p e) cs))
  | KCast =>
      mk_plain (fun _ => name ++ "(" ++ p_at (nthp cs 0) PREC_NONE
                         ++ match fst (nthk tags 1) with
                            | KPyNone => ""
                            | _ => ", kind=" ++ p_at (nthp cs 1) PREC_NONE
                            end ++ ")")
  | KCall =>
      let args := tl cs in
      let npos := Z.to_nat z in
      mk_plain (fun _ => p_at (nthp cs 0) PREC_CALL ++ "("
                         ++ join ", " (args_at0 (firstn npos args) ++ kw_strings kws (skipn npos args))%list ++ ")")
  | KInlineDo =>
      mk_plain (fun _ => "( " ++ p_at (nthp cs 0) PREC_NONE ++ ", " ++ p_at (nthp cs 1) PREC_NONE
                         ++ " = " ++ p_at (nthp cs 2) PREC_NONE ++ " )")
  | KRange | KRangeIndex | KLoopRange => mk_plain (fun e => paren_if (range_text tags cs) e PREC_NONE)
  | KArraySub | KStringSub =>
      mk_plain (fun _ => p_at (nthp cs 0) PREC_NONE ++ "(" ++ join ", " (args_at0 (tl cs)) ++ ")")
  | KReference | KDereference => mk_plain (fun _ => p_at (nthp cs 0) PREC_NONE)
  end.

Definition ttag (t : tree) : kind * Z := (tkind t, tz t).

Fixpoint pr (t : tree) : pinfo :=
  match t with
  | TN k name z lit kws ch => pr_node k name z lit kws (map ttag ch) (map pr ch)
  end.

(** str(x) *)
Definition tstr (t : tree) : string := p_at (pr t) PREC_NONE.

(** float(x) for arithmetic over Python ints (sums and products; see notes for what is outside the class) *)
Fixpoint opt_fold (f : Z -> Z -> Z) (acc : Z) (l : list (option Z)) : option Z :=
  match l with
  | [] => Some acc
  | Some x :: r => opt_fold f (f acc x) r
  | None :: _ => None
  end.

Fixpoint pyconst (t : tree) : option Z :=
  match t with
  | TN k _ z _ _ ch =>
      match k with
      | KPyInt => Some z
      | KSum | KPAdd => match ch with [] => None | _ => opt_fold Z.add 0 (map pyconst ch) end
      | KProduct | KPMul => match ch with [] => None | _ => opt_fold Z.mul 1 (map pyconst ch) end
      | _ => None
      end
  end.

Definition gcls_of (k : kind) : gcls :=
  match k with
  | KScalar => GScalar | KArray => GArray | KDeferred => GDeferred | KVarSym => GVarSym
  | KProcSym => GProcSym | KDTypeSym => GDTypeSym | KLogic => GLogic | KIntrinsic => GIntrinsic
  | KLitList => GLitList | KSum => GSum | KProduct => GProduct | KPower => GPower
  | KComparison => GComparison | KAnd => GAnd | KOr => GOr | KNot => GNot
  | KPAdd => GPAdd | KPMul => GPMul | KPPow => GPPow | KConcat => GConcat | KCast => GCast
  | KCall => GCall | KInlineDo => GInlineDo | KArraySub => GArraySub | KStringSub => GStringSub
  | KReference => GReference | KDereference => GDereference
  | _ => GMetaSymbol
  end.

Definition nthv (l : list view) (i : nat) : view := nth i l VPyNone.

(** the view of a node from its kind, payloads, printed text [s], float value [fl] and the views of its children *)
Definition view_node (k : kind) (z : Z) (lit s : string) (fl : option Z) (vs : list view) : view :=
  match k with
  | KPyNone => VPyNone
  | KPyInt => VPyInt z
  | KPyStr => VPyStr lit
  | KInt => VInt z (nthv vs 0) s
  | KFloat => VFloat lit (nthv vs 0) s
  | KStrLit => VStrLit lit s
  | KRange => VRange RRange (nthv vs 0) (nthv vs 1) (nthv vs 2) s
  | KRangeIndex => VRange RRangeIndex (nthv vs 0) (nthv vs 1) (nthv vs 2) s
  | KLoopRange => VRange RLoopRange (nthv vs 0) (nthv vs 1) (nthv vs 2) s
  | KQuotient => VQuot false (nthv vs 0) (nthv vs 1) s
  | KPDiv => VQuot true (nthv vs 0) (nthv vs 1) s
  | _ => VGen (gcls_of k) s fl
  end.

Fixpoint view_of (t : tree) : view :=
  match t with
  | TN k name z lit kws ch => view_node k z lit (tstr t) (pyconst t) (map view_of ch)
  end.

(** two trees that differ only in the letter case of identifiers (names, keyword names) *)
Fixpoint tsim (t u : tree) : Prop :=
  match t, u with
  | TN k name z lit kws ch, TN k' name' z' lit' kws' ch' =>
      k = k' /\ lower name = lower name' /\ z = z' /\ lit = lit'
      /\ Forall2 (fun a b => lower a = lower b) kws kws'
      /\ (fix all2 (l l' : list tree) : Prop :=
            match l, l' with
            | [], [] => True
            | a :: r, b :: r' => tsim a b /\ all2 r r'
            | _, _ => False
            end) ch ch'
  end.

(* ------------------------------------------------------------------------------------------ *)
(** * 5. Correspondence entry points *)

Definition opt_str_ok (o : option string) (s : string) : bool :=
  match o with Some x => String.eqb x s | None => true end.

(** the implementation reported: a==b, b==a, hash(a)==hash(b), b in {a: 1}, str(a) and str(b) (nodes only) *)
Definition chk_pair (ta tb : tree) (ab ba hh ind : bool) (sa sb : option string) : bool :=
  let a := view_of ta in let b := view_of tb in
  Bool.eqb (node_eq a b) ab && Bool.eqb (node_eq b a) ba
  && Bool.eqb (hkey_eqb (hkey_of a) (hkey_of b)) hh
  && Bool.eqb (hkey_eqb (hkey_of a) (hkey_of b) && node_eq a b) ind
  && opt_str_ok sa (tstr ta) && opt_str_ok sb (tstr tb).

(** str(x) itself (not only its canonical form) *)
Definition chk_str (t : tree) (s : string) : bool := String.eqb (tstr t) s.

Definition row : Type := cls * esrc * hsrc * list cls.
Definition row_of (c : cls) : row := (c, eq_src c, hash_src c, supers c).

Fixpoint list_beq {A} (f : A -> A -> bool) (l l' : list A) : bool :=
  match l, l' with
  | [], [] => true
  | a :: r, b :: r' => f a b && list_beq f r r'
  | _, _ => false
  end.

Definition row_beq (x y : row) : bool :=
  let '(c, e, h, s) := x in let '(c', e', h', s') := y in
  cls_beq c c' && esrc_beq e e' && hsrc_beq h h' && list_beq cls_beq s s'.

(** the table read from loki.expression by introspection equals the table of the model (rows in the order of [all_cls]) *)
Definition chk_class_table (rows : list row) : bool := list_beq row_beq rows (map row_of all_cls).
