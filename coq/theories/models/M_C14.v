(** C14 — the IR tree transformers (loki/ir/transformer.py): [Transformer], [NestedTransformer],
    [MaskedTransformer], [NestedMaskedTransformer] over a rose-tree model of the control-flow IR.
    Definitions only (executable model, declarative specification, class predicates, comparators). *)
From Coq Require Import ZArith List Bool.
Import ListNotations.
Open Scope Z_scope.

(** * IR items

    Everything a visitor can be handed: an opaque non-node object (expression, string, flag; equality is
    equality of the tag), Python's [None], a tuple, or an IR node.  A node carries
    - [id]   : the identity of the Python object (0 = an object created during the run); never inspected
               by the transformer, only copied (it is what "in place" means);
    - [kind] : the node class (table below);
    - [src]  : status of [Node.source] (0 = None, 1 = VALID, 2 = INVALID_NODE, 3 = INVALID_CHILDREN);
    - [pay]  : all other non-traversable fields as an equality class (for [Conditional] the lowest bit is
               [has_elseif]);
    - [ch]   : [Node.children], one item per entry of [_traversable]. *)
Inductive item : Type :=
| Obj (v : Z)
| NoneI
| Tup (l : list item)
| Nd (id kind src pay : Z) (ch : list item).

Fixpoint list_eqb {A} (f : A -> A -> bool) (l m : list A) : bool :=
  match l, m with
  | [], [] => true
  | x :: l', y :: m' => f x y && list_eqb f l' m'
  | _, _ => false
  end.

(** Python [==] on nodes is the dataclass equality: same class and equal fields; object identity plays no
    role.  This is the equality used by [o in self.mapper], [k in o], [nodes.index], set membership. *)
Fixpoint ieqb (a b : item) {struct a} : bool :=
  let fix go (l m : list item) {struct l} : bool :=
    match l, m with
    | [], [] => true
    | x :: l', y :: m' => ieqb x y && go l' m'
    | _, _ => false
    end in
  match a, b with
  | Obj v, Obj w => v =? w
  | NoneI, NoneI => true
  | Tup l, Tup m => go l m
  | Nd _ k s p c, Nd _ k' s' p' c' => (k =? k') && (s =? s') && (p =? p') && go c c'
  | _, _ => false
  end.

(** identity-aware equality (used by the comparators and class predicates only) *)
Fixpoint ideqb (a b : item) {struct a} : bool :=
  let fix go (l m : list item) {struct l} : bool :=
    match l, m with
    | [], [] => true
    | x :: l', y :: m' => ideqb x y && go l' m'
    | _, _ => false
    end in
  match a, b with
  | Obj v, Obj w => v =? w
  | NoneI, NoneI => true
  | Tup l, Tup m => go l m
  | Nd i k s p c, Nd i' k' s' p' c' => (i =? i') && (k =? k') && (s =? s') && (p =? p') && go c c'
  | _, _ => false
  end.

Definition mem (x : item) (l : list item) : bool := existsb (ieqb x) l.
Definition id_of_pre (o : item) : Z := match o with Nd i _ _ _ _ => i | _ => 0 end.

(** * Node classes *)
Definition K_Section := 0.        Definition K_Associate := 1.     Definition K_Loop := 2.
Definition K_WhileLoop := 3.      Definition K_Conditional := 4.   Definition K_PragmaRegion := 5.
Definition K_Interface := 6.      Definition K_Assignment := 7.    Definition K_CallStatement := 8.
Definition K_Comment := 9.        Definition K_Pragma := 10.       Definition K_MultiConditional := 11.
Definition K_TypeDef := 12.       Definition K_Forall := 13.       Definition K_MaskedStatement := 14.
Definition K_Allocation := 15.    Definition K_RawSource := 16.

(** [isinstance(o, ScopedNode)] *)
Definition kind_scoped (k : Z) : bool := (k =? K_Associate) || (k =? K_TypeDef).

(** handler found by [lookup_method] in [NestedMaskedTransformer] for a non-scoped node *)
Inductive disp := DLeaf | DInternal (body_index : nat) | DCond | DMulti.
Definition kind_disp (k : Z) : disp :=
  if k =? K_Section then DInternal 0 else if k =? K_Associate then DInternal 0
  else if k =? K_Loop then DInternal 2 else if k =? K_WhileLoop then DInternal 1
  else if k =? K_Conditional then DCond else if k =? K_PragmaRegion then DInternal 0
  else if k =? K_Interface then DInternal 0 else if k =? K_MultiConditional then DMulti
  else if k =? K_TypeDef then DInternal 0 else if k =? K_Forall then DInternal 2
  else DLeaf.

(** what the constructor (pydantic "before" validators + field types) does to each traversable argument *)
Inductive snorm := NId | NSanNodes | NSan | NNest | NReq | NTupNodes | NTupTupNodes.
Definition kind_slots (k : Z) : list snorm :=
  if k =? K_Section then [NSanNodes] else if k =? K_Associate then [NSanNodes; NId]
  else if k =? K_Loop then [NReq; NReq; NSanNodes] else if k =? K_WhileLoop then [NId; NSanNodes]
  else if k =? K_Conditional then [NReq; NSanNodes; NSanNodes] else if k =? K_PragmaRegion then [NSanNodes]
  else if k =? K_Interface then [NSan] else if k =? K_Assignment then [NReq; NReq]
  else if k =? K_CallStatement then [NReq; NSan; NNest] else if k =? K_MultiConditional then [NReq; NNest; NNest; NSanNodes]
  else if k =? K_TypeDef then [NSanNodes] else if k =? K_Forall then [NId; NId; NSanNodes]
  else if k =? K_MaskedStatement then [NId; NTupTupNodes; NTupNodes] else if k =? K_Allocation then [NId; NId; NId]
  else [].

(** * Python helpers *)

(** [flatten] (tuples and lists are flattened recursively; nodes, [Section] included, are atoms) *)
Fixpoint flatten_item (x : item) : list item :=
  match x with
  | Tup l => flat_map flatten_item l
  | _ => [x]
  end.
Definition flatten (l : list item) : list item := flat_map flatten_item l.

(** [as_tuple] *)
Definition as_tuple (x : item) : list item :=
  match x with NoneI => [] | Tup l => l | _ => [x] end.

Definition is_none (x : item) : bool := match x with NoneI => true | _ => false end.
Definition is_nd (x : item) : bool := match x with Nd _ _ _ _ _ => true | _ => false end.
Definition is_tup (x : item) : bool := match x with Tup _ => true | _ => false end.

(** [sanitize_tuple(t) = tuple(n for n in flatten(as_tuple(t)) if n is not None)] *)
Definition sanitize (x : item) : list item := filter (fun i => negb (is_none i)) (flatten (as_tuple x)).

(** [bool(x)] for the values that reach a truth test (results of [visit_tuple]) *)
Definition truthy (x : item) : bool :=
  match x with
  | NoneI => false
  | Tup [] => false
  | _ => true
  end.

(** entries kept by [visit_tuple]: [i is not None and as_tuple(i)] *)
Definition keep (x : item) : bool :=
  match x with NoneI => false | Tup [] => false | _ => true end.
Definition strip (l : list item) : list item := filter keep l.

Inductive err := EFuel | EAttribute | EValue | EValidation | ERecursion | EKey | EType.

Definition norm_slot (n : snorm) (x : item) : option item :=
  match n with
  | NId => Some x
  | NSan => Some (Tup (sanitize x))
  | NSanNodes => let l := sanitize x in if forallb is_nd l then Some (Tup l) else None
  | NNest => Some (Tup (map (fun p => Tup (sanitize p)) (as_tuple x)))
  | NReq => if is_none x then None else Some x
  | NTupNodes => match x with
                 | NoneI => Some x
                 | Tup l => if forallb is_nd l then Some x else None
                 | _ => None
                 end
  | NTupTupNodes => match x with
                    | Tup l => if forallb (fun b => match b with Tup m => forallb is_nd m | _ => false end) l
                               then Some x else None
                    | _ => None
                    end
  end.

Fixpoint norm_children (ns : list snorm) (ch : list item) : option (list item) :=
  match ch with
  | [] => Some []
  | x :: r =>
      let n := match ns with [] => NId | n :: _ => n end in
      match norm_slot n x, norm_children (tl ns) r with
      | Some y, Some r' => Some (y :: r')
      | _, _ => None
      end
  end.

(** assertions of [__post_init__] that a transformer can break *)
Definition kind_of_pre (o : item) : Z := match o with Nd _ k _ _ _ => k | _ => -1 end.
Definition post_init_ok (k pay : Z) (ch : list item) : bool :=
  if k =? K_Conditional then
    if Z.odd pay then
      match nth 2 ch NoneI with
      | Tup els => Nat.eqb (length els) 1 && (kind_of_pre (hd NoneI els) =? K_Conditional)
      | _ => false
      end
    else true
  else if k =? K_MaskedStatement then
    Nat.eqb (length ch) 3 && is_tup (nth 0 ch NoneI) && is_tup (nth 1 ch NoneI) &&
    Nat.eqb (length (as_tuple (nth 0 ch NoneI))) (length (as_tuple (nth 1 ch NoneI)))
  else true.

(** the node constructor [type(o)(args)]: a new object *)
Definition mk_node (k src pay : Z) (ch : list item) : option item :=
  match norm_children (kind_slots k) ch with
  | Some ch' => if post_init_ok k pay ch' then Some (Nd 0 k src pay ch') else None
  | None => None
  end.

(** * Mapper *)
Inductive handle := HNone | HNode (h : item) | HTup (l : list item).
Definition mapper := list (item * handle).

Fixpoint mfind (M : mapper) (o : item) : option (item * handle) :=
  match M with
  | [] => None
  | (k, h) :: r => if ieqb k o then Some (k, h) else mfind r o
  end.

(** [more_itertools.replace(o, pred = (args == group), substitutes, window_size = len(group))] *)
Fixpoint prefix_eqb (g l : list item) : bool :=
  match g, l with
  | [], _ => true
  | x :: g', y :: l' => ieqb x y && prefix_eqb g' l'
  | _ :: _, [] => false
  end.
Fixpoint rw_scan (fuel : nat) (o g subs : list item) : list item :=
  match fuel with
  | O => []
  | S f =>
      match o with
      | [] => []
      | x :: r => if prefix_eqb g o then subs ++ rw_scan f (skipn (length g) o) g subs
                  else x :: rw_scan f r g subs
      end
  end.
Definition replace_windowed (o g subs : list item) : list item :=
  match o with
  | [] => if (2 <=? length g)%nat then [NoneI] else []
  | _ => rw_scan (length o) o g subs
  end.

Definition handle_as_tuple (h : handle) : list item :=
  match h with HNone => [] | HNode x => [x] | HTup l => l end.

(** [_inject_handle] and the loop around it, with list indices as in the code *)
Fixpoint index_from (k : item) (l : list item) (i : nat) : option nat :=
  match l with
  | [] => None
  | x :: r => match i with
              | O => if ieqb x k then Some O else option_map S (index_from k r O)
              | S i' => option_map S (index_from k r i')
              end
  end.
Definition inject_handle (nodes : list item) (i : nat) (old : item) (new : list item) : list item * nat :=
  match index_from old nodes i with
  | Some j => (firstn j nodes ++ new ++ skipn (S j) nodes, (j + length new)%nat)
  | None => (nodes, length nodes)
  end.
Fixpoint inject_loop (fuel : nat) (o : list item) (i : nat) (k : item) (new : list item) : list item :=
  match fuel with
  | O => o
  | S f => if mem k (skipn i o)
           then let '(o', i') := inject_handle o i k new in inject_loop f o' i' k new
           else o
  end.
Definition inject_all (o : list item) (k : item) (new : list item) : list item :=
  inject_loop (length o) o 0 k new.

Definition inject_step (o : list item) (e : item * handle) : list item :=
  let '(k, h) := e in
  let o1 := match k with
            | Tup g => match g with [] => o | _ => replace_windowed o g (handle_as_tuple h) end
            | _ => o
            end in
  match h with
  | HTup new => if mem k o1 then inject_all o1 k new else o1
  | _ => o1
  end.
Definition inject (M : mapper) (o : list item) : list item := fold_left inject_step M o.

(** The same injection with the comparison Python's tuple operations really perform: [x is k or x == k].
    The identity shortcut only matters when the element has been updated in place since the mapper was built,
    which happens in [NestedTransformer] (injection after the visit); only that class uses this version. *)
Definition ieqb_id (a b : item) : bool :=
  (is_nd a && is_nd b && (id_of_pre a =? id_of_pre b) && negb (id_of_pre a =? 0)) || ieqb a b.

Section InjectId.
  Let eq := ieqb_id.
  Definition mem_g (x : item) (l : list item) : bool := existsb (eq x) l.
  Fixpoint prefix_eqb_g (g l : list item) : bool :=
    match g, l with
    | [], _ => true
    | x :: g', y :: l' => eq x y && prefix_eqb_g g' l'
    | _ :: _, [] => false
    end.
  Fixpoint rw_scan_g (fuel : nat) (o g subs : list item) : list item :=
    match fuel with
    | O => []
    | S f =>
        match o with
        | [] => []
        | x :: r => if prefix_eqb_g g o then subs ++ rw_scan_g f (skipn (length g) o) g subs
                    else x :: rw_scan_g f r g subs
        end
    end.
  Definition replace_windowed_g (o g subs : list item) : list item :=
    match o with
    | [] => if (2 <=? length g)%nat then [NoneI] else []
    | _ => rw_scan_g (length o) o g subs
    end.
  Fixpoint index_from_g (k : item) (l : list item) (i : nat) : option nat :=
    match l with
    | [] => None
    | x :: r => match i with
                | O => if eq x k then Some O else option_map S (index_from_g k r O)
                | S i' => option_map S (index_from_g k r i')
                end
    end.
  Definition inject_handle_g (nodes : list item) (i : nat) (old : item) (new : list item) : list item * nat :=
    match index_from_g old nodes i with
    | Some j => (firstn j nodes ++ new ++ skipn (S j) nodes, (j + length new)%nat)
    | None => (nodes, length nodes)
    end.
  Fixpoint inject_loop_g (fuel : nat) (o : list item) (i : nat) (k : item) (new : list item) : list item :=
    match fuel with
    | O => o
    | S f => if mem_g k (skipn i o)
             then let '(o', i') := inject_handle_g o i k new in inject_loop_g f o' i' k new
             else o
    end.
  Definition inject_step_g (o : list item) (e : item * handle) : list item :=
    let '(k, h) := e in
    let o1 := match k with
              | Tup g => match g with [] => o | _ => replace_windowed_g o g (handle_as_tuple h) end
              | _ => o
              end in
    match h with
    | HTup new => if mem_g k o1 then inject_loop_g (length o1) o1 0 k new else o1
    | _ => o1
    end.
  Definition inject_g (M : mapper) (o : list item) : list item := fold_left inject_step_g M o.
End InjectId.

(** * Transformer configuration and state *)
Inductive tcls := TPlain | TNested | TMasked | TNestedMasked.
Record cfg := {
  c_cls : tcls;
  c_map : mapper;
  c_inplace : bool;
  c_rebuild_scopes : bool;
  c_invsrc : bool;
  c_stop : list item;
  c_all_start : bool;
  c_greedy : bool }.

Definition is_masked (c : cfg) : bool :=
  match c_cls c with TMasked | TNestedMasked => true | _ => false end.

(** mutable state of a masked transformer: [self.active], [self.start] (a set: [remove_eq] removes every equal entry) *)
Record mstate := { m_active : bool; m_start : list item }.

(** an in-place [_update] of an object that existed before the run: new source status and children *)
Inductive eff := EUpd (id src : Z) (ch : list item).

Inductive res :=
| Ok (it : item) (same : bool) (ms : mstate) (lg : list eff) (rb : list (item * item))
| Err (e : err).
Inductive resl :=
| OkL (its : list item) (ms : mstate) (lg : list eff) (rb : list (item * item))
| ErrL (e : err).

Definition remove_eq (x : item) (l : list item) : list item :=
  (fix go (l : list item) : list item :=
     match l with [] => [] | y :: r => if ieqb y x then go r else y :: go r end) l.

(** [MaskedTransformer.visit]: update of the active status before dispatch *)
Definition mask_pre (c : cfg) (o : item) (ms : mstate) : mstate :=
  let ms1 :=
    if c_all_start c then
      if mem o (m_start ms) then
        let st := remove_eq o (m_start ms) in
        {| m_active := m_active ms || match st with [] => true | _ => false end; m_start := st |}
      else {| m_active := m_active ms && negb (mem o (c_stop c)); m_start := m_start ms |}
    else {| m_active := (m_active ms && negb (mem o (c_stop c))) || mem o (m_start ms); m_start := m_start ms |} in
  if c_greedy c && mem o (c_stop c) then {| m_active := false; m_start := [] |} else ms1.

(** positional arguments are zipped with the traversable field names of the node that receives them *)
Definition zip_children (old new : list item) : list item :=
  firstn (length old) new ++ skipn (length new) old.

(** [Transformer._rebuild]: source invalidation, then in-place update or a new node *)
Definition inv_src (c : cfg) (src : Z) (children : list item) : Z :=
  if c_invsrc c && (src =? 1) && existsb is_nd (flatten children) then 3 else src.

Definition do_rebuild (c : cfg) (o : item) (pay' : option Z) (children0 : list item) (ms : mstate) : res :=
  match o with
  | Nd id k src pay old =>
      let src' := inv_src c src children0 in
      let children := zip_children old children0 in
      let p := match pay' with Some p => p | None => pay end in
      if c_inplace c then Ok (Nd id k src' p children) true ms [EUpd id src' children] []
      else match mk_node k src' p children with
           | Some n => Ok n false ms [] []
           | None => Err EValidation
           end
  | _ => Err EAttribute
  end.

(** [handle._rebuild(handle.args)] *)
Definition copy_handle (h : item) (ms : mstate) : res :=
  match h with
  | Nd _ k src pay ch =>
      match mk_node k src pay ch with
      | Some n => Ok n false ms [] []
      | None => Err EValidation
      end
  | _ => Err EAttribute
  end.

Definition children_of (o : item) : list item := match o with Nd _ _ _ _ ch => ch | _ => [] end.
Definition kind_of (o : item) : Z := match o with Nd _ k _ _ _ => k | _ => -1 end.
Definition id_of (o : item) : Z := match o with Nd i _ _ _ _ => i | _ => 0 end.
Definition src_of (o : item) : Z := match o with Nd _ _ s _ _ => s | _ => 0 end.
Definition pay_of (o : item) : Z := match o with Nd _ _ _ p _ => p | _ => 0 end.
Definition set_children (o : item) (ch : list item) : item :=
  match o with Nd i k s p old => Nd i k s p (zip_children old ch) | _ => o end.
Definition set_src (o : item) (s : Z) : item :=
  match o with Nd i k _ p ch => Nd i k s p ch | _ => o end.

(** sequencing *)
Fixpoint visit_list (rec : item -> mstate -> res) (l : list item) (ms : mstate) : resl :=
  match l with
  | [] => OkL [] ms [] []
  | x :: r =>
      match rec x ms with
      | Err e => ErrL e
      | Ok y _ ms1 lg1 rb1 =>
          match visit_list rec r ms1 with
          | ErrL e => ErrL e
          | OkL ys ms2 lg2 rb2 => OkL (y :: ys) ms2 (lg1 ++ lg2) (rb1 ++ rb2)
          end
      end
  end.

(** the result of a masked visit of a node that is not active: [tuple(i for i in rebuilt if i is not None) or None] *)
Definition inactive_result (rebuilt : list item) : item :=
  match filter (fun i => negb (is_none i)) rebuilt with
  | [] => NoneI
  | l => Tup l
  end.

Section Handlers.
  Variable c : cfg.
  (** the recursive [self.visit(i, kwargs)]; the only keyword that matters is [parent_active] *)
  Variable rec : option bool -> item -> mstate -> res.

  (** [Transformer.visit_tuple] / [NestedTransformer.visit_tuple] *)
  Definition h_tuple (pa : option bool) (l : list item) (ms : mstate) : res :=
    match c_cls c with
    | TNested =>
        match visit_list (rec pa) l ms with
        | ErrL e => Err e
        | OkL vs ms1 lg rb => Ok (Tup (strip (inject_g (c_map c) vs))) false ms1 lg rb
        end
    | _ =>
        match visit_list (rec pa) (inject (c_map c) l) ms with
        | ErrL e => Err e
        | OkL vs ms1 lg rb => Ok (Tup (strip vs)) false ms1 lg rb
        end
    end.

  (** visit the children and rebuild: the tail of [Transformer.visit_Node] *)
  Definition h_generic (pa : option bool) (o : item) (ms : mstate) : res :=
    match visit_list (rec pa) (children_of o) ms with
    | ErrL e => Err e
    | OkL vs ms1 lg rb =>
        match do_rebuild c o None vs ms1 with
        | Ok r same ms2 lg2 rb2 => Ok r same ms2 (lg ++ lg2) (rb ++ rb2)
        | Err e => Err e
        end
    end.

  (** the tail of [Transformer.visit_ScopedNode]: rebuild (or keep) the scope object first, visit the children,
      then update the scope object in place.  [act]: [None] = plain transformer, [Some] = masked variant. *)
  Definition h_scoped_tail (masked : bool) (pa : option bool) (o : item) (ms : mstate) : res :=
    let first := if c_rebuild_scopes c then do_rebuild c o None (children_of o) ms
                 else Ok o true ms [] [] in
    match first with
    | Err e => Err e
    | Ok o1 same1 ms1 lg1 _ =>
        let pa' := if masked then Some (m_active ms1) else pa in
        match visit_list (rec pa') (children_of o1) ms1 with
        | ErrL e => Err e
        | OkL vs ms2 lg2 rb2 =>
            if masked && negb (m_active ms1)
            then Ok (inactive_result vs) false ms2 (lg1 ++ lg2) rb2
            else Ok (set_children o1 vs) same1 ms2
                    (lg1 ++ lg2 ++ (if same1 then [EUpd (id_of o1) (src_of o1) (zip_children (children_of o1) vs)] else [])) rb2
        end
    end.

  (** the mapper part shared by [Transformer.visit_Node] and [visit_ScopedNode] *)
  Definition h_plain_node (pa : option bool) (o : item) (ms : mstate) : res :=
    let tail := if kind_scoped (kind_of o) then h_scoped_tail false pa o ms else h_generic pa o ms in
    match mfind (c_map c) o with
    | Some (_, HNone) => Ok NoneI false ms [] []
    | Some (_, HNode h) => copy_handle h ms
    | Some (_, HTup hs) => if mem o hs then tail else Err EAttribute
    | None => tail
    end.

  (** [NestedTransformer.visit_Node] / [visit_ScopedNode] *)
  Definition extend_first (hs : list item) (rebuilt : list item) : option (list item) :=
    match rebuilt with
    | Tup b :: r => Some (Tup (hs ++ b) :: r)
    | _ => None
    end.

  Definition h_nested_node (pa : option bool) (o : item) (ms : mstate) : res :=
    let scoped := kind_scoped (kind_of o) in
    match mfind (c_map c) o with
    | Some (_, HNone) => Ok NoneI false ms [] []
    | Some (_, HTup hs) =>
        if scoped && c_rebuild_scopes c then Err EAttribute else
        match visit_list (rec pa) (children_of o) ms with
        | ErrL e => Err e
        | OkL vs ms1 lg rb =>
            match children_of o with
            | [] => Err EValue
            | _ =>
              match extend_first hs vs with
              | None => Err EType
              | Some ext =>
                  if scoped then
                    let s' := if c_invsrc c then 0 else src_of o in
                    Ok (set_src (set_children o ext) s') true ms1 (lg ++ [EUpd (id_of o) s' (zip_children (children_of o) ext)]) rb
                  else if c_invsrc c then Err EAttribute
                  else match mk_node (kind_of o) (src_of o) (pay_of o) ext with
                       | Some n => Ok n false ms1 lg rb
                       | None => Err EValidation
                       end
              end
            end
        end
    | other =>
        let h := match other with Some (_, HNode h) => h | _ => o end in
        if negb (is_nd h) then Err EAttribute else
        if scoped then
          let first := if c_rebuild_scopes c then do_rebuild c h None (children_of h) ms
                       else Ok h true ms [] [] in
          match first with
          | Err e => Err e
          | Ok h1 same1 ms1 lg1 _ =>
              match visit_list (rec pa) (children_of o) ms1 with
              | ErrL e => Err e
              | OkL vs ms2 lg2 rb2 =>
                  Ok (set_children h1 vs) (same1 && (id_of h =? id_of o)) ms2
                     (lg1 ++ lg2 ++ (if same1 then [EUpd (id_of h1) (src_of h1) (zip_children (children_of h1) vs)] else [])) rb2
              end
          end
        else
          match visit_list (rec pa) (children_of o) ms with
          | ErrL e => Err e
          | OkL vs ms1 lg rb =>
              match do_rebuild c h None vs ms1 with
              | Ok r same ms2 lg2 rb2 => Ok r (same && (id_of h =? id_of o)) ms2 (lg ++ lg2) (rb ++ rb2)
              | Err e => Err e
              end
          end
    end.

  (** [MaskedTransformer.visit_Node] / [visit_ScopedNode] *)
  Definition h_masked_node (pa : option bool) (o : item) (ms : mstate) : res :=
    match mfind (c_map c) o with
    | Some _ => h_plain_node pa o ms
    | None =>
        if kind_scoped (kind_of o) then h_scoped_tail true pa o ms
        else
          let act := m_active ms in
          match visit_list (rec (Some act)) (children_of o) ms with
          | ErrL e => Err e
          | OkL vs ms1 lg rb =>
              if act then
                match do_rebuild c o None vs ms1 with
                | Ok r same ms2 lg2 rb2 => Ok r same ms2 (lg ++ lg2) (rb ++ rb2)
                | Err e => Err e
                end
              else Ok (inactive_result vs) false ms1 lg rb
          end
    end.

  (** [NestedMaskedTransformer]: [visit_LeafNode], [visit_InternalNode], [visit_Conditional],
      [visit_MultiConditional]; scoped nodes go to [MaskedTransformer.visit_ScopedNode] *)
  Definition flat_tuple (x : item) : item := Tup (flatten (as_tuple x)).

  Fixpoint replace_nth (n : nat) (l : list item) (x : item) : list item :=
    match l, n with
    | [], _ => []
    | _ :: r, O => x :: r
    | y :: r, S n' => y :: replace_nth n' r x
    end.

  (** visits of the (values, bodies) pairs of a multi-conditional, in the order of the code *)
  Fixpoint visit_pairs (pa : option bool) (vs bs : list item) (ms : mstate)
    : (list (item * item) * mstate * list eff * list (item * item)) + err :=
    match vs, bs with
    | v :: vs', b :: bs' =>
        match rec pa v ms with
        | Err e => inr e
        | Ok v1 _ ms1 lg1 rb1 =>
            match rec pa b ms1 with
            | Err e => inr e
            | Ok b1 _ ms2 lg2 rb2 =>
                match visit_pairs pa vs' bs' ms2 with
                | inr e => inr e
                | inl (ps, ms3, lg3, rb3) =>
                    inl ((v1, b1) :: ps, ms3, lg1 ++ lg2 ++ lg3, rb1 ++ rb2 ++ rb3)
                end
            end
        end
    | _, _ => inl ([], ms, [], [])
    end.

  Definition set_elseif (pay : Z) (b : bool) : Z := 2 * (pay / 2) + (if b then 1 else 0).

  Definition h_nm_node (pa : option bool) (o : item) (ms : mstate) : res :=
    if kind_scoped (kind_of o) then h_masked_node pa o ms else
    match kind_disp (kind_of o) with
    | DLeaf =>
        match mfind (c_map c) o with
        | Some _ => h_plain_node pa o ms
        | None => if negb (m_active ms) then Ok NoneI false ms [] [] else h_generic pa o ms
        end
    | DInternal bi =>
        match mfind (c_map c) o with
        | Some _ => h_plain_node pa o ms
        | None =>
            match visit_list (rec pa) (children_of o) ms with
            | ErrL e => Err e
            | OkL vs ms1 lg rb =>
                let b := nth bi vs NoneI in
                let b' := if truthy b then flat_tuple b else b in
                if negb (truthy b') then Ok NoneI false ms1 lg rb else
                match do_rebuild c o None (replace_nth bi vs b') ms1 with
                | Ok r same ms2 lg2 rb2 => Ok r same ms2 (lg ++ lg2) (rb ++ rb2)
                | Err e => Err e
                end
            end
        end
    | DCond =>
        match mfind (c_map c) o with
        | Some _ => Err ERecursion
        | None =>
            if negb (Nat.eqb (length (children_of o)) 3) then Err EType else
            match visit_list (rec pa) (children_of o) ms with
            | ErrL e => Err e
            | OkL vs ms1 lg rb =>
                let body := flatten (as_tuple (nth 1 vs NoneI)) in
                let els := flatten (as_tuple (nth 2 vs NoneI)) in
                match body with
                | [] => Ok (Tup els) false ms1 lg rb
                | _ =>
                    let he := Z.odd (pay_of o) && (kind_of (hd NoneI els) =? K_Conditional) in
                    match do_rebuild c o (Some (set_elseif (pay_of o) he)) [nth 0 vs NoneI; Tup body; Tup els] ms1 with
                    | Ok r same ms2 lg2 rb2 => Ok r same ms2 (lg ++ lg2) (rb ++ rb2)
                    | Err e => Err e
                    end
                end
            end
        end
    | DMulti =>
        match mfind (c_map c) o with
        | Some _ => Err ERecursion
        | None =>
            let chn := children_of o in
            if negb (Nat.eqb (length chn) 4 && is_tup (nth 1 chn NoneI) && is_tup (nth 2 chn NoneI)) then Err EType else
            match rec pa (nth 0 chn NoneI) ms with
            | Err e => Err e
            | Ok ex1 _ ms1 lg1 rb1 =>
                match visit_pairs pa (as_tuple (nth 1 chn NoneI)) (as_tuple (nth 2 chn NoneI)) ms1 with
                | inr e => Err e
                | inl (ps, ms2, lg2, rb2) =>
                    let ps' := filter (fun p => match flatten (as_tuple (snd p)) with [] => false | _ => true end) ps in
                    match rec pa (nth 3 chn NoneI) ms2 with
                    | Err e => Err e
                    | Ok el1 _ ms3 lg3 rb3 =>
                        match ps' with
                        | [] => Ok el1 false ms3 (lg1 ++ lg2 ++ lg3) (rb1 ++ rb2 ++ rb3)
                        | _ =>
                            match do_rebuild c o None [ex1; Tup (map fst ps'); Tup (map snd ps'); el1] ms3 with
                            | Ok r same ms4 lg4 rb4 =>
                                Ok r same ms4 (lg1 ++ lg2 ++ lg3 ++ lg4) (rb1 ++ rb2 ++ rb3 ++ rb4)
                            | Err e => Err e
                            end
                        end
                    end
                end
            end
        end
    end.

  (** [visit]: (masked) status update, dispatch on the type of [o], record in [self.rebuilt] *)
  Definition visit_body (pa : option bool) (o : item) (ms0 : mstate) : res :=
    let ms := if is_masked c then mask_pre c o ms0 else ms0 in
    match o with
    | Obj _ | NoneI =>
        match c_cls c with
        | TMasked =>
            match pa with
            | None => Err EKey
            | Some true => Ok o true ms [] []
            | Some false => Ok NoneI (is_none o) ms [] []
            end
        | _ => Ok o true ms [] []
        end
    | Tup l => h_tuple pa l ms
    | Nd _ _ _ _ _ =>
        let r := match c_cls c with
                 | TPlain => h_plain_node pa o ms
                 | TNested => h_nested_node pa o ms
                 | TMasked => h_masked_node pa o ms
                 | TNestedMasked => h_nm_node pa o ms
                 end in
        match r with
        | Ok it same ms1 lg rb => Ok it same ms1 lg (if same then rb else rb ++ [(o, it)])
        | Err e => Err e
        end
    end.
End Handlers.

(** fuel bounds the Python call depth ([RecursionError] = [EFuel]); one unit per [visit] call *)
Fixpoint visit (n : nat) (c : cfg) (pa : option bool) (o : item) (ms : mstate) : res :=
  match n with
  | O => Err EFuel
  | S n' => visit_body c (visit n' c) pa o ms
  end.

Definition init_ms (active : bool) (start : list item) : mstate := {| m_active := active; m_start := start |}.

(** [self.rebuilt] as a dict: keys compared with [==], first key object kept, value overwritten *)
Fixpoint dict_set (d : list (item * item)) (k v : item) : list (item * item) :=
  match d with
  | [] => [(k, v)]
  | (k', v') :: r => if ieqb k' k then (k', v) :: r else (k', v') :: dict_set r k v
  end.
Definition dict_of (l : list (item * item)) : list (item * item) :=
  fold_left (fun d kv => dict_set d (fst kv) (snd kv)) l [].

Definition res_item (r : res) : option item := match r with Ok it _ _ _ _ => Some it | Err _ => None end.
Definition res_log (r : res) : list eff := match r with Ok _ _ _ lg _ => lg | Err _ => [] end.
Definition res_reb (r : res) : list (item * item) := match r with Ok _ _ _ _ rb => rb | Err _ => [] end.

(** * Declarative specification of [Transformer] (class [TPlain])

    [spec_gen lk rf] substitutes according to the look-up [lk]; [rf] is what happens to the members of a
    one-to-many replacement other than the replaced node itself (they are visited too). *)
Definition src_after (c : cfg) (o : item) (new_children : list item) : Z :=
  if kind_scoped (kind_of o)
  then (if c_rebuild_scopes c then inv_src c (src_of o) (children_of o) else src_of o)
  else inv_src c (src_of o) new_children.

(** the node that replaces an unmapped node [o] whose children have become [chs] *)
Definition spec_node (c : cfg) (o : item) (chs : list item) : option item :=
  match o with
  | Nd id k src pay ch =>
      let s' := src_after c o chs in
      if kind_scoped k then
        if c_rebuild_scopes c && negb (c_inplace c)
        then match mk_node k s' pay ch with Some _ => Some (Nd 0 k s' pay chs) | None => None end
        else Some (Nd id k s' pay chs)
      else if c_inplace c then Some (Nd id k s' pay chs) else mk_node k s' pay chs
  | _ => None
  end.

Fixpoint sequence {A} (l : list (option A)) : option (list A) :=
  match l with
  | [] => Some []
  | None :: _ => None
  | Some x :: r => match sequence r with Some r' => Some (x :: r') | None => None end
  end.

Fixpoint spec_gen (c : cfg) (lk : item -> option (item * handle)) (rf : item -> option item) (o : item) : option item :=
  match o with
  | Obj _ | NoneI => Some o
  | Tup l =>
      match sequence (map (fun x =>
               match lk x with
               | Some (_, HTup hs) =>
                   sequence (map (fun h => if ieqb h x then spec_gen c lk rf x else rf h) hs)
               | _ => match spec_gen c lk rf x with Some y => Some [y] | None => None end
               end) l) with
      | Some parts => Some (Tup (strip (concat parts)))
      | None => None
      end
  | Nd id k src pay ch =>
      let through := match sequence (map (spec_gen c lk rf) ch) with
                     | Some chs => spec_node c o chs
                     | None => None
                     end in
      match lk o with
      | Some (_, HNone) => Some NoneI
      | Some (_, HNode h) => match h with Nd _ hk hs hp hc => mk_node hk hs hp hc | _ => None end
      | Some (_, HTup hs) => if mem o hs then through else None
      | None => through
      end
  end.

(** visiting a tree in which nothing is mapped: every node is rebuilt, tuples are stripped *)
Definition refresh (c : cfg) : item -> option item := spec_gen c (fun _ => None) (fun _ => None).
Definition spec (c : cfg) : item -> option item := spec_gen c (mfind (c_map c)) (refresh c).

(** * Class predicates (decidable) *)
Fixpoint height (o : item) : nat :=
  match o with
  | Tup l => S (fold_right (fun x m => Nat.max (height x) m) O l)
  | Nd _ _ _ _ ch => S (fold_right (fun x m => Nat.max (height x) m) O ch)
  | _ => 1%nat
  end.

(** no node of [o] is a key of the mapper *)
Fixpoint keyfree (M : mapper) (o : item) : bool :=
  match o with
  | Tup l => forallb (keyfree M) l
  | Nd _ _ _ _ ch => match mfind M o with Some _ => false | None => forallb (keyfree M) ch end
  | _ => true
  end.

(** all keys are nodes (no windowed tuple keys), pairwise different under [==] (a dict) *)
Fixpoint keys_ok (M : mapper) : bool :=
  match M with
  | [] => true
  | (k, _) :: r => is_nd k && negb (existsb (fun e => ieqb (fst e) k) r) && keys_ok r
  end.

(** members of a one-to-many replacement: the key object itself, or trees without any key *)
Definition handles_ok (M : mapper) : bool :=
  forallb (fun e => match snd e with
                    | HTup hs => forallb (fun h => ideqb h (fst e) || keyfree M h) hs
                    | _ => true
                    end) M.

(** every node of the tree that is a key with a one-to-many replacement is the key object *)
Fixpoint exact_keys (M : mapper) (o : item) : bool :=
  match o with
  | Tup l => forallb (exact_keys M) l
  | Nd _ _ _ _ ch =>
      match mfind M o with
      | Some (k, HTup _) => ideqb k o
      | _ => true
      end && forallb (exact_keys M) ch
  | _ => true
  end.

(** children of scoped nodes are what the constructor would make of them *)
Fixpoint normalized (o : item) : bool :=
  match o with
  | Tup l => forallb normalized l
  | Nd _ k _ _ ch =>
      (if kind_scoped k then
         match norm_children (kind_slots k) ch with Some ch' => list_eqb ideqb ch' ch | None => true end
       else true) && forallb normalized ch
  | _ => true
  end.

Definition hmax (M : mapper) : nat :=
  fold_right (fun e m => Nat.max (fold_right (fun h m' => Nat.max (height h) m') O (handle_as_tuple (snd e))) m) O M.

Definition spec_class (M : mapper) (t : item) : bool :=
  keys_ok M && handles_ok M && exact_keys M t && normalized t &&
  forallb (fun e => forallb normalized (handle_as_tuple (snd e))) M.

(** no [None] / empty tuple inside a tuple (what [visit_tuple] strips) *)
Fixpoint clean (o : item) : bool :=
  match o with
  | Tup l => forallb (fun x => keep x && clean x) l
  | Nd _ _ _ _ ch => forallb clean ch
  | _ => true
  end.

Fixpoint no_valid_src (o : item) : bool :=
  match o with
  | Tup l => forallb no_valid_src l
  | Nd _ _ s _ ch => negb (s =? 1) && forallb no_valid_src ch
  | _ => true
  end.

Fixpoint has_scoped (o : item) : bool :=
  match o with
  | Tup l => existsb has_scoped l
  | Nd _ k _ _ ch => kind_scoped k || existsb has_scoped ch
  | _ => false
  end.

(** well-formed w.r.t. the constructor: rebuilding any node with its own children succeeds and changes nothing *)
Fixpoint constructed (o : item) : bool :=
  match o with
  | Tup l => forallb constructed l
  | Nd _ k s p ch =>
      match mk_node k s p ch with
      | Some (Nd _ _ _ _ ch') => list_eqb ideqb ch' ch
      | _ => false
      end && forallb constructed ch
  | _ => true
  end.

(** pre-order sequence of the nodes (kind, payload) of an item *)
Fixpoint preorder (o : item) : list (Z * Z) :=
  match o with
  | Tup l => flat_map preorder l
  | Nd _ k _ p ch => (k, p) :: flat_map preorder ch
  | _ => []
  end.

(** pre-order scan of a masked traversal without mapper: every node with the [active] flag it is visited with *)
Fixpoint scan (c : cfg) (o : item) (ms0 : mstate) {struct o} : list (Z * Z * bool) * mstate :=
  let fix go (l : list item) (ms : mstate) {struct l} : list (Z * Z * bool) * mstate :=
    match l with
    | [] => ([], ms)
    | x :: r => let '(a, ms1) := scan c x ms in let '(b, ms2) := go r ms1 in (a ++ b, ms2)
    end in
  let ms := mask_pre c o ms0 in
  match o with
  | Tup l => go l ms
  | Nd _ k _ p ch => let '(r, ms1) := go ch ms in ((k, p, m_active ms) :: r, ms1)
  | _ => ([], ms)
  end.
Definition selected (l : list (Z * Z * bool)) : list (Z * Z) :=
  map (fun x => (fst (fst x), snd (fst x))) (filter (fun x => snd x) l).

(** * Which nodes a [Transformer] traversal calls [visit] on *)
Definition passes (M : mapper) (o : item) : bool :=
  match mfind M o with
  | None => true
  | Some (_, HTup hs) => mem o hs
  | _ => false
  end.
Definition scoped_norm (o : item) : bool :=
  match o with
  | Nd _ k _ _ ch =>
      if kind_scoped k
      then match norm_children (kind_slots k) ch with Some ch' => list_eqb ideqb ch' ch | None => false end
      else true
  | _ => false
  end.
Inductive reached (M : mapper) : item -> item -> Prop :=
| R_self t : reached M t t
| R_tup l x y : In x (inject M l) -> reached M x y -> reached M (Tup l) y
| R_nd o x y : scoped_norm o = true -> passes M o = true -> In x (children_of o) -> reached M x y -> reached M o y.

(** * Heap view used by the correspondence: object id -> (source status, children as shallow references) *)
Fixpoint shal (o : item) : item :=
  match o with
  | Tup l => Tup (map shal l)
  | Nd i k s p ch => if i =? 0 then Nd 0 k s p (map shal ch) else Nd i k 0 0 []
  | _ => o
  end.

(** a value of [self.rebuilt] without its children *)
Fixpoint stub (o : item) : item :=
  match o with
  | Tup l => Tup (map stub l)
  | Nd i k s p _ => Nd i k s p []
  | _ => o
  end.

(** all original objects (id <> 0) of an item with their state *)
Fixpoint objects (o : item) : list (Z * (Z * list item)) :=
  match o with
  | Tup l => flat_map objects l
  | Nd i k s p ch => (if i =? 0 then [] else [(i, (s, map shal ch))]) ++ flat_map objects ch
  | _ => []
  end.

Fixpoint heap_get (h : list (Z * (Z * list item))) (i : Z) : option (Z * list item) :=
  match h with
  | [] => None
  | (j, v) :: r => if j =? i then Some v else heap_get r i
  end.

Definition state_eqb (a b : Z * list item) : bool := (fst a =? fst b) && list_eqb ideqb (snd a) (snd b).

(** final state of every object updated in place that differs from its initial state, sorted by id *)
Fixpoint insert_sorted (x : Z * (Z * list item)) (l : list (Z * (Z * list item))) :=
  match l with
  | [] => [x]
  | y :: r => if fst x <? fst y then x :: y :: r
              else if fst x =? fst y then x :: r
              else y :: insert_sorted x r
  end.
Definition heap_diff (inputs : list item) (lg : list eff) : list (Z * (Z * list item)) :=
  let h0 := flat_map objects inputs in
  let final := fold_left (fun acc e => match e with EUpd i s ch => insert_sorted (i, (s, map shal ch)) acc end) lg [] in
  filter (fun e => match heap_get h0 (fst e) with
                   | Some v => negb (state_eqb v (snd e))
                   | None => true
                   end) final.

Definition heap_eqb (a b : list (Z * (Z * list item))) : bool :=
  list_eqb (fun x y => (fst x =? fst y) && state_eqb (snd x) (snd y)) a b.

Definition err_code (e : err) : Z :=
  match e with EFuel => 1 | EAttribute => 2 | EValue => 3 | EValidation => 4 | ERecursion => 5 | EKey => 6 | EType => 7 end.

(** * Comparators for the correspondence *)
Definition FUEL : nat := 60%nat.

Definition run (c : cfg) (active : bool) (start : list item) (t : item) : res :=
  visit FUEL c None t (init_ms active start).

Definition mapper_items (M : mapper) : list item :=
  flat_map (fun e => fst e :: handle_as_tuple (snd e)) M.

(** the implementation returned [out], left the heap difference [hd] and the [rebuilt] dict [rb] *)
Definition chk_res (c : cfg) (active : bool) (start : list item) (t : item) (out : item) : bool :=
  match run c active start t with
  | Ok it _ _ _ _ => ideqb it out
  | Err _ => false
  end.
Definition chk_heap (c : cfg) (active : bool) (start : list item) (t : item) (hd : list (Z * (Z * list item))) : bool :=
  match run c active start t with
  | Ok _ _ _ lg _ => heap_eqb (heap_diff (t :: mapper_items (c_map c) ++ start ++ c_stop c) lg) hd
  | Err _ => false
  end.
Definition chk_reb (c : cfg) (active : bool) (start : list item) (t : item) (rb : list (Z * item)) : bool :=
  match run c active start t with
  | Ok _ _ _ _ reb =>
      list_eqb (fun x y => (fst x =? fst y) && ideqb (snd x) (snd y))
               (map (fun kv => (id_of (fst kv), stub (snd kv))) (dict_of reb)) rb
  | Err _ => false
  end.
Definition chk_ok (c : cfg) (active : bool) (start : list item) (t : item)
           (out : item) (hd : list (Z * (Z * list item))) (rb : list (Z * item)) : bool :=
  match run c active start t with
  | Ok it _ _ lg reb =>
      ideqb it out &&
      heap_eqb (heap_diff (t :: mapper_items (c_map c) ++ start ++ c_stop c) lg) hd &&
      list_eqb (fun x y => (fst x =? fst y) && ideqb (snd x) (snd y))
               (map (fun kv => (id_of (fst kv), stub (snd kv))) (dict_of reb)) rb
  | Err _ => false
  end.

Definition chk_err (c : cfg) (active : bool) (start : list item) (t : item) (code : Z) : bool :=
  match run c active start t with
  | Ok _ _ _ _ _ => false
  | Err e => err_code e =? code
  end.

(** the declarative specification agrees with the implementation's result on the class *)
Definition chk_spec (c : cfg) (t : item) (out : option item) : bool :=
  match spec c t, out with
  | Some a, Some b => ideqb a b
  | None, None => true
  | _, _ => false
  end.
