(** C05 — frontend input sanitisation leaves untargeted text untouched.  Definitions only.

    Models loki/frontend/preprocessing.py for the FP frontend: [sanitize_input] (six passes over
    [source.splitlines(keepends=True)], each pass applying [PPRule.filter] of one rule of
    [sanitize_registry[FP]] to every line and recording [pp_info]), the six rules as hand-written line
    scanners that reproduce what Python's [re] does FOR THESE FIXED PATTERNS (leftmost match, greedy and
    lazy quantifiers, optional groups, [re.I]), and the text rebuilt by [reinsert_convert_endian] /
    [reinsert_open_newunit].

    Fidelity is claimed for ASCII text and for "line shaped" arguments of the scanners (a newline can only
    be the last character) — the only strings [sanitize_input] ever passes to a rule. *)
From Coq Require Import String Ascii List Bool Arith NArith ZArith.
From LV Require Import Base.Strings.
Import ListNotations.
Open Scope string_scope.

(** * characters *)
Definition NL : ascii := "010"%char.
Definition is_nl (c : ascii) : bool := Ascii.eqb c NL.
(** [\s] of a str pattern == str.isspace() on ASCII: \t \n \v \f \r \x1c-\x1f and blank *)
Definition is_ws (c : ascii) : bool :=
  let n := N_of_ascii c in (((9 <=? n) && (n <=? 13)) || ((28 <=? n) && (n <=? 32)))%N.
(** line boundaries of str.splitlines on ASCII: \n \v \f \r \x1c \x1d \x1e  (\r\n is one boundary) *)
Definition is_break (c : ascii) : bool :=
  let n := N_of_ascii c in (((10 <=? n) && (n <=? 13)) || ((28 <=? n) && (n <=? 30)))%N.
Definition is_cr (c : ascii) : bool := Ascii.eqb c "013"%char.
Definition is_digit (c : ascii) : bool := let n := N_of_ascii c in ((48 <=? n) && (n <=? 57))%N.
Definition is_digit19 (c : ascii) : bool := let n := N_of_ascii c in ((49 <=? n) && (n <=? 57))%N.
Definition is_dq (c : ascii) : bool := Ascii.eqb c """"%char.
Definition is_quote (c : ascii) : bool := Ascii.eqb c """"%char || Ascii.eqb c "'"%char.

(** * string primitives *)
Fixpoint sconcat (l : list string) : string :=
  match l with [] => "" | a :: r => a ++ sconcat r end.

(** literal prefix, case-sensitive: the rest after [p] *)
Fixpoint starts (p s : string) : option string :=
  match p with
  | "" => Some s
  | String a p' => match s with
                   | String b s' => if Ascii.eqb a b then starts p' s' else None
                   | "" => None
                   end
  end.

(** literal prefix under re.I; [p] is given in lower case; returns (text as spelled in [s], rest) *)
Fixpoint starts_ci (p s : string) : option (string * string) :=
  match p with
  | "" => Some ("", s)
  | String a p' => match s with
                   | String b s' => if Ascii.eqb a (lower_ascii b)
                                    then match starts_ci p' s' with Some (m, r) => Some (String b m, r) | None => None end
                                    else None
                   | "" => None
                   end
  end.

Fixpoint span (f : ascii -> bool) (s : string) : string * string :=
  match s with
  | String c r => if f c then let (a, b) := span f r in (String c a, b) else ("", s)
  | "" => ("", "")
  end.
Definition span_ws := span is_ws.

Definition is_some {A} (o : option A) : bool := match o with Some _ => true | None => false end.

(** [p in s] *)
Fixpoint contains (p s : string) : bool :=
  if is_some (starts p s) then true else match s with "" => false | String _ r => contains p r end.
Fixpoint contains_ci (p s : string) : bool :=
  if is_some (starts_ci p s) then true else match s with "" => false | String _ r => contains_ci p r end.

(** leftmost occurrence of a literal: (text before, text from the occurrence on) *)
Fixpoint find_lit (p s : string) : option (string * string) :=
  match starts p s with
  | Some _ => Some ("", s)
  | None => match s with
            | "" => None
            | String c r => match find_lit p r with Some (a, b) => Some (String c a, b) | None => None end
            end
  end.

(** text up to the first newline, and what follows that newline *)
Fixpoint split_nl (s : string) : option (string * string) :=
  match s with
  | "" => None
  | String c r => if is_nl c then Some ("", r)
                  else match split_nl r with Some (a, b) => Some (String c a, b) | None => None end
  end.

(** [.{0,}?$] : everything up to the end of the string or up to a final newline; (text, tail) with tail "" or "\n".
    None when a newline is followed by more text (never for line-shaped strings). *)
Fixpoint split_eol (s : string) : option (string * string) :=
  match s with
  | "" => Some ("", "")
  | String c r => if is_nl c then (match r with "" => Some ("", s) | _ => None end)
                  else match split_eol r with Some (a, b) => Some (String c a, b) | None => None end
  end.

Fixpoint rev_s (s acc : string) : string :=
  match s with "" => acc | String c r => rev_s r (String c acc) end.
Definition srev (s : string) : string := rev_s s "".

(** * pp_info entries: a regex rule stores match.groupdict() (group name -> text or None, in pattern order),
      a plain-string rule stores the pair (match, replace) *)
Inductive entry :=
| EG (kv : list (string * option string))
| EP (a b : string).

Definition lineinfo := list (Z * list entry).      (* lineno -> entries, in increasing line order *)

(** * str.splitlines(keepends=True) *)
Fixpoint splitlines (s : string) : list string :=
  match s with
  | "" => []
  | String c r =>
      let rest := splitlines r in
      let crlf := is_cr c && match r with String d _ => is_nl d | "" => false end in
      if is_break c && negb crlf then String c "" :: rest
      else match rest with
           | [] => [String c ""]
           | l :: ls => String c l :: ls
           end
  end.

(** * generic left-to-right, non-overlapping token rewriting (re.sub with a literal alternation / str.replace).
      [skip] counts the characters of the current match that are still to be dropped. Returns the new text and the
      matched tokens in order. *)
Fixpoint rw_go (tok_at : string -> option string) (repl : string -> string) (skip : nat) (s : string)
  : string * list string :=
  match s with
  | "" => ("", [])
  | String c r =>
      match skip with
      | S k => rw_go tok_at repl k r
      | O => match tok_at s with
             | Some t => let (o, ts) := rw_go tok_at repl (pred (String.length t)) r in (repl t ++ o, t :: ts)
             | None => let (o, ts) := rw_go tok_at repl 0 r in (String c o, ts)
             end
      end
  end.

(** * rule 1  IBM_DIRECTIVES   re.compile(r'(@PROCESS.{0,}\n)')  ->  '\n'   (case-sensitive, no named group).
      In these comments the regex star is written {0,} and the lazy star {0,}? (a star next to a parenthesis would end the comment);
      the double quote inside a character class is written DQ. *)
Definition kw_process := "@PROCESS".
Definition f_ibm (l : string) : string * list entry :=
  match find_lit kw_process l with
  | Some (a, b) => match split_nl b with
                   | Some (_, rest) => (a ++ String NL rest, [EG []])
                   | None => (l, [])
                   end
  | None => (l, [])
  end.

(** * rule 2  STRING_PP_DIRECTIVES
      (?P<pp>^\s{0,}#.{0,}__(?:FILE|FILENAME|DATE|VERSION)__)|(?P<else>__(?:FILE|FILENAME|DATE|VERSION)__)
      replace = lambda m: m['pp'] or (DQ + m['else'] + DQ) *)
Definition macro_toks : list string := ["__FILE__"; "__FILENAME__"; "__DATE__"; "__VERSION__"].
Definition first_tok (toks : list string) (s : string) : option string :=
  find (fun t => is_some (starts t s)) toks.
Definition macro_at (s : string) : option string := first_tok macro_toks s.
Definition dquote (t : string) : string := String """"%char (t ++ String """"%char "").

(** greedy [.{0,}] followed by a token: the LAST position (before a newline) where a token starts *)
Fixpoint last_tok (s : string) : option (string * string * string) :=
  match s with
  | "" => None
  | String c r =>
      if is_nl c then None else
      match last_tok r with
      | Some (a, t, rest) => Some (String c a, t, rest)
      | None => match macro_at s with
                | Some t => match starts t s with Some rest => Some ("", t, rest) | None => None end
                | None => None
                end
      end
  end.

(** the [pp] alternative, only tried at position 0: (matched text, rest) *)
Definition pp_alt (l : string) : option (string * string) :=
  let (w, r) := span_ws l in
  match r with
  | String c r' => if Ascii.eqb c "#"%char
                   then match last_tok r' with
                        | Some (a, t, rest) => Some (w ++ String c (a ++ t), rest)
                        | None => None
                        end
                   else None
  | "" => None
  end.

Definition e_pp (m : string) : entry := EG [("pp", Some m); ("else", None)].
Definition e_else (t : string) : entry := EG [("pp", None); ("else", Some t)].

Definition f_strpp (l : string) : string * list entry :=
  match pp_alt l with
  | Some (m, rest) => let (o, ts) := rw_go macro_at dquote 0 rest in (m ++ o, e_pp m :: map e_else ts)
  | None => let (o, ts) := rw_go macro_at dquote 0 l in (o, map e_else ts)
  end.

(** * rule 3  INTEGER_PP_DIRECTIVES   match='__LINE__', replace='0'  (str.replace; one info entry per line) *)
Definition kw_line := "__LINE__".
Definition line_at (s : string) : option string := first_tok [kw_line] s.
Definition f_line (l : string) : string * list entry :=
  let (o, ts) := rw_go line_at (fun _ => "0") 0 l in
  (o, match ts with [] => [] | _ => [EP kw_line "0"] end).

(** * rule 4  CONVERT_ENDIAN  (re.I)
      (?P<ws>^\s{0,})(?P<pre>OPEN\s{0,}\(.{0,}?)(?P<convert>,?\s{0,}CONVERT=['DQ](?:BIG|LITTLE)_ENDIAN['DQ]\s{0,})(?P<post>.{0,}?$)
      replace = r'\g<ws>\g<pre>\g<post>' *)
Definition conv_body (s : string) : option (string * string) :=
  let (w, r) := span_ws s in
  match starts_ci "convert=" r with
  | Some (m1, String q1 r2) =>
      if is_quote q1 then
        match (match starts_ci "big" r2 with Some x => Some x | None => starts_ci "little" r2 end) with
        | Some (m2, r3) =>
            match starts_ci "_endian" r3 with
            | Some (m3, String q2 r5) =>
                if is_quote q2 then
                  let (w2, r6) := span_ws r5 in
                  Some (w ++ m1 ++ String q1 (m2 ++ m3 ++ String q2 w2), r6)
                else None
            | _ => None
            end
        | None => None
        end
      else None
  | _ => None
  end.

(** the [convert] group tried at the head of [s]: greedy optional comma first, then without *)
Definition conv_at (s : string) : option (string * string) :=
  match s with
  | String c r =>
      if Ascii.eqb c ","%char
      then match conv_body r with
           | Some (cv, rest) => Some (String c cv, rest)
           | None => conv_body s
           end
      else conv_body s
  | "" => conv_body s
  end.

(** lazy [.{0,}?] of [pre]: the smallest number of skipped characters (never a newline) after which [convert] matches *)
Fixpoint find_conv (s : string) : option (string * string * string) :=
  match conv_at s with
  | Some (cv, rest) => Some ("", cv, rest)
  | None => match s with
            | "" => None
            | String c r => if is_nl c then None
                            else match find_conv r with Some (a, cv, rest) => Some (String c a, cv, rest) | None => None end
            end
  end.

(** (?P<ws>^\s{0,}) OPEN \s{0,} \(   : (ws, text of the OPEN ( head, rest) *)
Definition open_head (l : string) : option (string * string * string) :=
  let (w, r) := span_ws l in
  match starts_ci "open" r with
  | Some (m, r1) => let (w1, r2) := span_ws r1 in
                    match r2 with
                    | String c r3 => if Ascii.eqb c "("%char then Some (w, m ++ w1 ++ String c "", r3) else None
                    | "" => None
                    end
  | None => None
  end.

Record conv_groups := { cg_ws : string; cg_pre : string; cg_convert : string; cg_post : string }.

(** the match of rule 4 on a line: groups and the unmatched tail ("" or the final newline) *)
Definition conv_match (l : string) : option (conv_groups * string) :=
  match open_head l with
  | Some (w, op, r3) =>
      match find_conv r3 with
      | Some (a, cv, rest) =>
          match split_eol rest with
          | Some (post, tail) => Some ({| cg_ws := w; cg_pre := op ++ a; cg_convert := cv; cg_post := post |}, tail)
          | None => None
          end
      | None => None
      end
  | None => None
  end.

Definition e_conv (g : conv_groups) : entry :=
  EG [("ws", Some (cg_ws g)); ("pre", Some (cg_pre g)); ("convert", Some (cg_convert g)); ("post", Some (cg_post g))].

Definition f_conv (l : string) : string * list entry :=
  match conv_match l with
  | Some (g, tail) => (cg_ws g ++ cg_pre g ++ cg_post g ++ tail, [e_conv g])
  | None => (l, [])
  end.

(** * rule 5  OPEN_NEWUNIT  (re.I)
      (?P<ws>^\s{0,})(?P<open>OPEN\s{0,}\()(?P<args1>.{0,}?)(?P<delim>,)?(?P<newunit_key>,?\s{0,}NEWUNIT=)
      (?P<newunit_val>.{0,}?(?=,|\)|&))(?P<args2>.{0,}?$)
      replace = ws + open + newunit_val + (delim or '') + args1 + args2 *)
Definition key_body (x : string) : option (string * string) :=
  let (w, r) := span_ws x in
  match starts_ci "newunit=" r with Some (m, r1) => Some (w ++ m, r1) | None => None end.
Definition key_at (s : string) : option (string * string) :=
  match s with
  | String c r =>
      if Ascii.eqb c ","%char
      then match key_body r with Some (k, rest) => Some (String c k, rest) | None => key_body s end
      else key_body s
  | "" => key_body s
  end.

Definition is_term (c : ascii) : bool :=
  Ascii.eqb c ","%char || Ascii.eqb c ")"%char || Ascii.eqb c "&"%char.

(** lazy [.{0,}?] with the lookahead (?=,|\)|&): the text before the first terminator (None if a newline or the end comes first) *)
Fixpoint val_split (s : string) : option (string * string) :=
  match s with
  | "" => None
  | String c r => if is_term c then Some ("", s)
                  else if is_nl c then None
                  else match val_split r with Some (a, b) => Some (String c a, b) | None => None end
  end.

Record nu_groups := { ng_ws : string; ng_open : string; ng_args1 : string; ng_delim : option string;
                      ng_key : string; ng_val : string; ng_args2 : string }.

(** delim, key, value and args2 tried at the head of [s] (greedy optional delim first, then without) *)
Definition nu_fin (d : option string) (x : string) : option (option string * string * string * string * string) :=
  match key_at x with
  | Some (k, r) => match val_split r with
                   | Some (v, r2) => match split_eol r2 with
                                     | Some (a2, tail) => Some (d, k, v, a2, tail)
                                     | None => None
                                     end
                   | None => None
                   end
  | None => None
  end.
Definition nu_tail (s : string) : option (option string * string * string * string * string) :=
  match s with
  | String c r => if Ascii.eqb c ","%char
                  then match nu_fin (Some (String c "")) r with Some x => Some x | None => nu_fin None s end
                  else nu_fin None s
  | "" => nu_fin None s
  end.

Fixpoint find_nu (s : string) : option (string * (option string * string * string * string * string)) :=
  match nu_tail s with
  | Some x => Some ("", x)
  | None => match s with
            | "" => None
            | String c r => if is_nl c then None
                            else match find_nu r with Some (a, x) => Some (String c a, x) | None => None end
            end
  end.

Definition ostr (o : option string) : string := match o with Some s => s | None => "" end.

Definition nu_match (l : string) : option (nu_groups * string) :=
  match open_head l with
  | Some (w, op, r3) =>
      match find_nu r3 with
      | Some (a1, (d, k, v, a2, tail)) =>
          Some ({| ng_ws := w; ng_open := op; ng_args1 := a1; ng_delim := d; ng_key := k; ng_val := v; ng_args2 := a2 |}, tail)
      | None => None
      end
  | None => None
  end.

Definition e_nu (g : nu_groups) : entry :=
  EG [("ws", Some (ng_ws g)); ("open", Some (ng_open g)); ("args1", Some (ng_args1 g)); ("delim", ng_delim g);
      ("newunit_key", Some (ng_key g)); ("newunit_val", Some (ng_val g)); ("args2", Some (ng_args2 g))].

Definition f_nu (l : string) : string * list entry :=
  match nu_match l with
  | Some (g, tail) =>
      (ng_ws g ++ ng_open g ++ ng_val g ++ ostr (ng_delim g) ++ ng_args1 g ++ ng_args2 g ++ tail, [e_nu g])
  | None => (l, [])
  end.

(** * rule 6  FYPP ANNOTATIONS   re.compile(r'(# [1-9].{0,}\DQ.{0,}\.(?:fypp|hypp)\DQ(?:\s+\d+)?\n)') -> ''
      The match has to end at the final newline, so the tail  .fypp DQ [blanks digits] newline  can only sit at the end of
      the line (it is unique); the start is the leftmost '# d' that still has a double quote between itself and that tail. *)
Definition fypp_tail_ok (rest : string) : bool :=          (* what may follow  .fypp DQ : the final newline, or blanks digits newline *)
  String.eqb rest (String NL "") ||
  (let (w, r1) := span_ws rest in
   let (ds, r2) := span is_digit r1 in
   negb (String.eqb w "") && negb (String.eqb ds "") && String.eqb r2 (String NL "")).
Definition fypp_end (s : string) : bool :=
  match (match starts ".fypp""" s with Some r => Some r | None => starts ".hypp""" s end) with
  | Some rest => fypp_tail_ok rest
  | None => false
  end.
(** the text before the (unique) position where the tail starts; a newline is never crossed *)
Fixpoint fypp_core (s : string) : option string :=
  if fypp_end s then Some ""
  else match s with
       | "" => None
       | String c r => if is_nl c then None
                       else match fypp_core r with Some a => Some (String c a) | None => None end
       end.
Fixpoint has_dq (s : string) : bool :=
  match s with "" => false | String c r => is_dq c || has_dq r end.
Definition fypp_head (s : string) : bool :=
  match s with
  | String a (String b (String d r)) => Ascii.eqb a "#"%char && Ascii.eqb b " "%char && is_digit19 d && has_dq r
  | _ => false
  end.
Fixpoint fypp_find (s : string) : option string :=
  match s with
  | "" => None
  | String c r => if fypp_head s then Some ""
                  else match fypp_find r with Some a => Some (String c a) | None => None end
  end.
Definition f_fypp (l : string) : string * list entry :=
  match fypp_core l with
  | Some core => match fypp_find core with
                 | Some before => (before, [EG []])
                 | None => (l, [])
                 end
  | None => (l, [])
  end.

(** * sanitize_input(source, FP) *)
Fixpoint collect (i : Z) (l : list (list entry)) : lineinfo :=
  match l with
  | [] => []
  | es :: r => match es with
               | [] => collect (i + 1)%Z r
               | _ => (i, es) :: collect (i + 1)%Z r
               end
  end.

Definition pass (f : string -> string * list entry) (src : string) : string * lineinfo :=
  let rs := map f (splitlines src) in
  (sconcat (map fst rs), collect 1%Z (map snd rs)).

Definition rules : list (string -> string * list entry) := [f_ibm; f_strpp; f_line; f_conv; f_nu; f_fypp].

Fixpoint run_rules (rs : list (string -> string * list entry)) (src : string) : string * list lineinfo :=
  match rs with
  | [] => (src, [])
  | f :: r => let (s1, i1) := pass f src in
              let (s2, is2) := run_rules r s1 in (s2, i1 :: is2)
  end.

(** new source text and pp_info (one lineinfo per rule, in registry order) *)
Definition sanitize (src : string) : string * list lineinfo := run_rules rules src.

(** * re-insertion (text given to GenericStmt by the postprocess callbacks) *)
Fixpoint rstrip (s : string) : string :=
  match s with
  | "" => ""
  | String c r => let r' := rstrip r in
                  match r' with
                  | "" => if is_ws c then "" else String c ""
                  | _ => String c r'
                  end
  end.
Fixpoint last_char (s : string) : option ascii :=
  match s with "" => None | String c "" => Some c | String _ r => last_char r end.
(** post.rstrip().endswith('&') *)
Definition ends_amp (s : string) : bool :=
  match last_char (rstrip s) with Some c => Ascii.eqb c "&"%char | None => false end.
(** str.find *)
Fixpoint first_occ (p s : string) : option nat :=
  if is_some (starts p s) then Some O
  else match s with "" => None | String _ r => match first_occ p r with Some n => Some (S n) | None => None end end.
Fixpoint sdrop (n : nat) (s : string) : string :=
  match n with O => s | S k => match s with "" => "" | String _ r => sdrop k r end end.
(** source.string[source.string.find(p) + len(p):]  (find = -1 when absent) *)
Definition after_first (p s : string) : string :=
  match first_occ p s with
  | Some i => sdrop (i + String.length p) s
  | None => sdrop (pred (String.length p)) s
  end.

Definition cont (last_group : string) (srcstr : string) : string :=
  if ends_amp last_group then rstrip (after_first last_group srcstr) else "".

Definition reinsert_convert (g : conv_groups) (srcstr : string) : string :=
  cg_ws g ++ cg_pre g ++ cg_convert g ++ cg_post g ++ cont (cg_post g) srcstr.
Definition reinsert_newunit (g : nu_groups) (srcstr : string) : string :=
  ng_ws g ++ ng_open g ++ ng_args1 g ++ ostr (ng_delim g) ++ ng_key g ++ ng_val g ++ ng_args2 g ++ cont (ng_args2 g) srcstr.

(** sanitize_ir applies the postprocess callbacks in registry order (CONVERT_ENDIAN, then OPEN_NEWUNIT): the text of the
    statement whose first line carries the recorded matches; [srcstr] is the statement's source string
    (updated by each callback); None = no callback fires, the statement keeps the parser's text *)
Definition final_text (cg : option conv_groups) (ng : option nu_groups) (srcstr : string) : option string :=
  let t1 := match cg with Some g => Some (reinsert_convert g srcstr) | None => None end in
  let s1 := match t1 with Some t => t | None => srcstr end in
  match ng with
  | Some g => Some (reinsert_newunit g s1)
  | None => t1
  end.

(** * trigger keywords *)
(** the decidable class of the identity theorem: none of the trigger keywords, in any letter case *)
Definition trigger_kws : list string :=
  ["@process"; "__file__"; "__filename__"; "__date__"; "__version__"; "__line__"; "convert="; "newunit="; "ypp"""].
Definition no_trigger (s : string) : bool := forallb (fun k => negb (contains_ci k s)) trigger_kws.
(** the sharper class: case-sensitive for the case-sensitive rules *)
Definition no_trigger_sharp (s : string) : bool :=
  negb (contains kw_process s) && forallb (fun k => negb (contains k s)) macro_toks && negb (contains kw_line s)
  && negb (contains_ci "convert=" s) && negb (contains_ci "newunit=" s) && negb (contains "ypp""" s).

(** line-shaped strings: a newline can only be the last character *)
Fixpoint is_line (s : string) : bool :=
  match s with "" => true | String c r => if is_nl c then (match r with "" => true | _ => false end) else is_line r end.

(** * comparators used by the correspondence run *)
Fixpoint list_eqb {A} (e : A -> A -> bool) (a b : list A) : bool :=
  match a, b with
  | [], [] => true
  | x :: a', y :: b' => e x y && list_eqb e a' b'
  | _, _ => false
  end.
Definition ostr_eqb (a b : option string) : bool :=
  match a, b with Some x, Some y => String.eqb x y | None, None => true | _, _ => false end.
Definition entry_eqb (a b : entry) : bool :=
  match a, b with
  | EG x, EG y => list_eqb (fun p q => String.eqb (fst p) (fst q) && ostr_eqb (snd p) (snd q)) x y
  | EP a1 b1, EP a2 b2 => String.eqb a1 a2 && String.eqb b1 b2
  | _, _ => false
  end.
Definition lineinfo_eqb (a b : lineinfo) : bool :=
  list_eqb (fun p q => Z.eqb (fst p) (fst q) && list_eqb entry_eqb (snd p) (snd q)) a b.

(** sanitize_input(src, FP) == (out, info) *)
Definition chk_sanitize (src out : string) (info : list lineinfo) : bool :=
  let (o, i) := sanitize src in String.eqb o out && list_eqb lineinfo_eqb i info.

(** the k-th rule's filter on one line *)
Definition chk_filter (k : nat) (l out : string) (es : list entry) : bool :=
  match nth_error rules k with
  | Some f => let (o, e) := f l in String.eqb o out && list_eqb entry_eqb e es
  | None => false
  end.

(** text given to the OPEN statement whose first line is [l4] (as seen by rule 4) by the two callbacks, recomputed from the
    line: rule 5 sees what rule 4 left.  [srcstr] = the statement's source string; None = parser text kept *)
Definition restored_text (l4 : string) (srcstr : string) : option string :=
  final_text (option_map fst (conv_match l4)) (option_map fst (nu_match (fst (f_conv l4)))) srcstr.

(** the line number [n] (1-based) of [src] as rule 4 sees it, i.e. after rules 1-3 *)
Definition line_for_conv (src : string) (n : nat) : string :=
  nth (pred n) (splitlines (fst (run_rules [f_ibm; f_strpp; f_line] src))) "".

(** GenericStmt.text of the statement starting on line [n] of [src] after parsing == [text] (None: no callback fired) *)
Definition chk_final_text (src : string) (n : nat) (srcstr : string) (text : option string) : bool :=
  ostr_eqb (restored_text (line_for_conv src n) srcstr) text.
