(** C16 — pragma / pragma-region / dataflow attach & detach on the IR tree.  Definitions only.

    Anchors: loki/ir/pragma_utils.py (PragmaAttacher, PragmaDetacher, get_matching_region_pragmas,
    PragmaRegionAttacher, PragmaRegionDetacher, the three context managers),
    loki/analyse/dataflow_analysis.py (DataflowAnalysisAttacher/Detacher), loki/analyse/abstract_dfa.py,
    loki/ir/transformer.py (Transformer.visit_tuple / visit_Node / visit_ScopedNode, in-place mode). *)
From Coq Require Import ZArith List Bool String Ascii Arith.
From LV Require Import Base.Strings.
Import ListNotations.
Open Scope Z_scope.

(** * The IR as a rose tree *)

(** Node classes that the anchored code distinguishes. *)
Inductive kind :=
| KLoop | KWhile | KCall | KVarDecl | KProcDecl        (* classes with a [pragma] field; the first two also [pragma_post] *)
| KCond | KMulti | KMasked                              (* Conditional; MultiConditional/TypeConditional; MaskedStatement *)
| KAssoc | KTypeDef | KStmtFunc                         (* ScopedNode classes *)
| KIface | KSection | KAssign | KComment | KOther.

Definition kind_code (k : kind) : nat :=
  match k with
  | KLoop => 0 | KWhile => 1 | KCall => 2 | KVarDecl => 3 | KProcDecl => 4 | KCond => 5 | KMulti => 6
  | KMasked => 7 | KAssoc => 8 | KTypeDef => 9 | KStmtFunc => 10 | KIface => 11 | KSection => 12
  | KAssign => 13 | KComment => 14 | KOther => 15
  end%nat.
Definition kind_eqb (a b : kind) : bool := Nat.eqb (kind_code a) (kind_code b).

(** A [Pragma] node: object identity [pid]; [psrc] stands for its [source] (0 = None, otherwise the line),
    which takes part in Python's [==]; [pdfa] = "the three dataflow attributes are set". *)
Record prag := mkP { pid : Z; psrc : Z; pkw : string; pcont : string; pdfa : bool }.

(** Value of the instance attribute [pragma] / [pragma_post] of a node:
    [NoAttr] = the object has no such attribute (class without the field, never [_update]d),
    [ANone] = None, [ATup l] = a tuple of Pragma nodes. *)
Inductive attr := NoAttr | ANone | ATup (l : list prag).

Inductive tree :=
| TP (p : prag)                                              (* stand-alone Pragma node *)
| TN (id : Z) (k : kind) (pre post : attr) (dfa : bool)      (* any other node *)
     (slots : list (list tree))                              (*   children that are tuples of nodes (body, else_body, default) *)
     (multi : list (list tree))                              (*   the child [bodies]: a tuple of tuples of nodes *)
| TR (start stop : prag) (dfa : bool) (body : list tree).    (* PragmaRegion *)

(** ** decidable equality (used by the correspondence comparators) *)
Section ListEq.
  Context {A : Type} (f : A -> A -> bool).
  Fixpoint list_eqb (x y : list A) : bool :=
    match x, y with
    | [], [] => true
    | a :: x', b :: y' => f a b && list_eqb x' y'
    | _, _ => false
    end.
End ListEq.

Definition prag_eqb (p q : prag) : bool :=
  Z.eqb (pid p) (pid q) && Z.eqb (psrc p) (psrc q) && String.eqb (pkw p) (pkw q)
  && String.eqb (pcont p) (pcont q) && Bool.eqb (pdfa p) (pdfa q).

Definition attr_eqb (a b : attr) : bool :=
  match a, b with
  | NoAttr, NoAttr => true
  | ANone, ANone => true
  | ATup x, ATup y => list_eqb prag_eqb x y
  | _, _ => false
  end.

Fixpoint tree_eqb (x y : tree) : bool :=
  match x, y with
  | TP p, TP q => prag_eqb p q
  | TN i k a b d ss ms, TN i' k' a' b' d' ss' ms' =>
      Z.eqb i i' && kind_eqb k k' && attr_eqb a a' && attr_eqb b b' && Bool.eqb d d'
      && list_eqb (list_eqb tree_eqb) ss ss' && list_eqb (list_eqb tree_eqb) ms ms'
  | TR s e d b, TR s' e' d' b' => prag_eqb s s' && prag_eqb e e' && Bool.eqb d d' && list_eqb tree_eqb b b'
  | _, _ => false
  end.

(** Python's [==] between two Pragma nodes (dataclass equality over source, keyword, content;
    identity and the transient dataflow attributes do not take part). *)
Definition py_eq (p q : prag) : bool :=
  Z.eqb (psrc p) (psrc q) && String.eqb (pkw p) (pkw q) && String.eqb (pcont p) (pcont q).

Definition olist {A} (o : option A) : list A := match o with Some x => [x] | None => [] end.
Definition is_nil {A} (l : list A) : bool := match l with [] => true | _ => false end.

(** [Transformer.visit_tuple]: "Strip empty sublists/subtuples or None entries".  Nodes are never
    stripped ([as_tuple(node)] is a 1-tuple); the only tuples of tuples are the [bodies] children. *)
Definition strip {A} (l : list (list A)) : list (list A) := filter (fun x => negb (is_nil x)) l.

(** * 1. PragmaAttacher / PragmaDetacher *)

Definition is_nt (nt : kind -> bool) (t : tree) : bool :=
  match t with TN _ k _ _ _ _ _ => nt k | _ => false end.

(** [hasattr(node, 'pragma_post')] *)
Definition has_post (t : tree) : bool :=
  match t with TN _ _ _ NoAttr _ _ _ => false | TN _ _ _ _ _ _ _ => true | _ => false end.

(** [node._update(pragma=as_tuple(pragmas))] / [node._update(pragma_post=...)]: plain [__dict__] update *)
Definition set_pre (t : tree) (l : list prag) : tree :=
  match t with TN i k _ b d ss ms => TN i k (ATup l) b d ss ms | _ => t end.
Definition set_post (t : tree) (l : list prag) : tree :=
  match t with TN i k a _ d ss ms => TN i k a (ATup l) d ss ms | _ => t end.

(** State of the loop in [PragmaAttacher.visit_tuple]:
    [updated] = [done ++ olist last] (the last element is the only one that may still be modified),
    [pragmas] = [pend]. *)
Record pst := mkSt { done : list tree; last : option tree; pend : list prag }.

Definition push (s : pst) (x : tree) : pst := mkSt (done s ++ olist (last s)) (Some x) [].

Definition att_step (nt : kind -> bool) (pf : bool) (s : pst) (x : tree) : pst :=
  match x with
  | TP p => mkSt (done s) (last s) (pend s ++ [p])
  | _ =>
    match pend s with
    | [] => push s x
    | _ :: _ =>
      if is_nt nt x then push s (set_pre x (pend s))
      else match last s with
           | Some y =>
             if pf && is_nt nt y && has_post y
             then push (mkSt (done s) (Some (set_post y (pend s))) []) x
             else push (mkSt (done s ++ [y] ++ map TP (pend s)) None []) x
           | None => push (mkSt (done s ++ map TP (pend s)) None []) x
           end
    end
  end.

(** after the loop: left-over pragmas go to [pragma_post] of the last element if it is of the
    requested type (no [hasattr] test here), otherwise they are re-appended *)
Definition att_finish (nt : kind -> bool) (pf : bool) (s : pst) : list tree :=
  match pend s, last s with
  | _ :: _, Some y =>
    if pf && is_nt nt y then done s ++ [set_post y (pend s)]
    else done s ++ [y] ++ map TP (pend s)
  | _, _ => done s ++ olist (last s) ++ map TP (pend s)
  end.

Fixpoint att_run (nt : kind -> bool) (pf : bool) (l : list tree) (s : pst) : list tree :=
  match l with
  | [] => att_finish nt pf s
  | x :: r => att_run nt pf r (att_step nt pf s x)
  end.

Definition att_pass (nt : kind -> bool) (pf : bool) (l : list tree) : list tree :=
  att_run nt pf l (mkSt [] None []).

(** [attach_pragmas(ir, node_type, attach_pragma_post)].  The code visits an element and then decides
    about attaching to it; visiting never changes the element's own class or pragma attributes, so the
    model first maps over the elements and then runs the tuple pass. *)
Fixpoint attP (nt : kind -> bool) (pf : bool) (t : tree) : tree :=
  match t with
  | TP p => TP p
  | TN i k a b d ss ms =>
      TN i k a b d (map (fun s => att_pass nt pf (map (attP nt pf) s)) ss)
                   (map (fun s => att_pass nt pf (map (attP nt pf) s)) ms)
  | TR s e d b => TR s e d (att_pass nt pf (map (attP nt pf) b))
  end.

(** [PragmaDetacher.visit_tuple] for one (already visited) element *)
Definition det1 (nt : kind -> bool) (df : bool) (x : tree) : list tree :=
  match x with
  | TN i k a b d ss ms =>
    if nt k then
      let pa := match a with ATup (p :: l) => (map TP (p :: l), ANone) | _ => ([], a) end in
      let pb := if df then match b with ATup (p :: l) => (map TP (p :: l), ANone) | _ => ([], b) end
                else ([], b) in
      fst pa ++ [TN i k (snd pa) (snd pb) d ss ms] ++ fst pb
    else [x]
  | _ => [x]
  end.

Definition det_pass (nt : kind -> bool) (df : bool) (l : list tree) : list tree := flat_map (det1 nt df) l.

Fixpoint detP (nt : kind -> bool) (df : bool) (t : tree) : tree :=
  match t with
  | TP p => TP p
  | TN i k a b d ss ms =>
      TN i k a b d (map (fun s => det_pass nt df (map (detP nt df) s)) ss)
                   (map (fun s => det_pass nt df (map (detP nt df) s)) ms)
  | TR s e d b => TR s e d (det_pass nt df (map (detP nt df) b))
  end.

(** ** views and class predicates *)

(** what [getattr(node, 'pragma', None)] sees: a missing attribute reads as None *)
Definition up_attr (a : attr) : attr := match a with NoAttr => ANone | _ => a end.
Definition up_top (t : tree) : tree :=
  match t with TN i k a b d ss ms => TN i k (up_attr a) (up_attr b) d ss ms | _ => t end.
Fixpoint up (t : tree) : tree :=
  match t with
  | TP p => TP p
  | TN i k a b d ss ms => TN i k (up_attr a) (up_attr b) d (map (map up) ss) (map (map up) ms)
  | TR s e d b => TR s e d (map up b)
  end.

Definition attr_free (a : attr) : bool := match a with ATup _ => false | _ => true end.
Definition attr_is_none (a : attr) : bool := match a with ANone => true | _ => false end.

(** nothing is attached yet to a node of the requested type *)
Definition npa_top (nt : kind -> bool) (pf : bool) (t : tree) : bool :=
  match t with
  | TN _ k a b _ _ _ => if nt k then attr_free a && (negb pf || attr_free b) else true
  | _ => true
  end.
(** ... and, in addition, the node really owns the attributes (they are None, not missing) *)
Definition clean_top (nt : kind -> bool) (pf : bool) (t : tree) : bool :=
  match t with
  | TN _ k a b _ _ _ => if nt k then attr_is_none a && (negb pf || attr_is_none b) else true
  | _ => true
  end.

Section Deep.
  Variable f : tree -> bool.
  Fixpoint deep (t : tree) : bool :=
    f t && match t with
           | TP _ => true
           | TN _ _ _ _ _ ss ms => forallb (forallb deep) ss && forallb (forallb deep) ms
           | TR _ _ _ b => forallb deep b
           end.
End Deep.

Definition no_preattached (nt : kind -> bool) (pf : bool) : tree -> bool := deep (npa_top nt pf).
Definition clean (nt : kind -> bool) (pf : bool) : tree -> bool := deep (clean_top nt pf).

(** the tree with every Pragma node (stand-alone or attached) and every pragma attribute removed:
    identity, class, nesting and order of all other nodes *)
Definition not_pragma (t : tree) : bool := match t with TP _ => false | _ => true end.
Fixpoint skel (t : tree) : tree :=
  match t with
  | TP p => TP p
  | TN i k a b d ss ms =>
      TN i k NoAttr NoAttr d
         (map (flat_map (fun x => if not_pragma x then [skel x] else [])) ss)
         (map (flat_map (fun x => if not_pragma x then [skel x] else [])) ms)
  | TR s e d b => TR s e d (flat_map (fun x => if not_pragma x then [skel x] else []) b)
  end.

(** all Pragma nodes in document order (attached ones where fgen prints them) *)
Definition attr_prags (a : attr) : list prag := match a with ATup l => l | _ => [] end.
Fixpoint doc_prags (t : tree) : list prag :=
  match t with
  | TP p => [p]
  | TN _ _ a b _ ss ms =>
      attr_prags a ++ flat_map (flat_map doc_prags) ms ++ flat_map (flat_map doc_prags) ss ++ attr_prags b
  | TR s e _ b => s :: flat_map doc_prags b ++ [e]
  end.

(** * 2. Pragma regions *)

(** [s.split(' ')] *)
Fixpoint split_sp (s : string) : list string :=
  match s with
  | EmptyString => [EmptyString]
  | String c r =>
    let l := split_sp r in
    if Ascii.eqb c " "%char then EmptyString :: l
    else match l with h :: t => String c h :: t | [] => [String c EmptyString] end
  end.

Definition tokens (p : prag) : list string := split_sp (lower (pcont p)).
Definition has_end (l : list string) : bool := existsb (String.eqb "end") l.
Fixpoint index_end (l : list string) : nat :=
  match l with [] => 0%nat | h :: t => if String.eqb "end" h then 0%nat else S (index_end t) end.

(** [_matches_starting_pragma(start, p)]; [None] = IndexError *)
Definition matches (start p : prag) : option bool :=
  let st := tokens start in
  let pt := tokens p in
  if negb (has_end pt) then Some false
  else if negb (String.eqb (lower (pkw start)) (lower (pkw p))) then Some false
  else let idx := index_end pt in
       match nth_error pt (S idx), nth_error st idx with
       | Some a, Some b => Some (String.eqb a b)
       | _, _ => None
       end.

(** [any(_matches_starting_pragma(p, p2) for p2 in l)] (short-circuit) *)
Fixpoint any_match (p : prag) (l : list prag) : option bool :=
  match l with
  | [] => Some false
  | q :: r => match matches p q with
              | None => None
              | Some true => Some true
              | Some false => any_match p r
              end
  end.

(** [get_matching_region_pragmas]; pairs in the order in which they are closed *)
Fixpoint match_loop (l : list prag) (stack : list prag) (acc : list (prag * prag)) : option (list (prag * prag)) :=
  match l with
  | [] => Some (rev acc)
  | p :: r =>
    if negb (has_end (tokens p)) then
      match any_match p (p :: r) with
      | None => None
      | Some true => match_loop r (p :: stack) acc
      | Some false => match_loop r stack acc
      end
    else match stack with
         | [] => match_loop r stack acc
         | s :: st' => match matches s p with
                       | None => None
                       | Some true => match_loop r st' ((s, p) :: acc)
                       | Some false => match_loop r stack acc
                       end
         end
  end.

Definition matching_pairs (l : list prag) : option (list (prag * prag)) := match_loop l [] [].

(** [FindNodes(Pragma).visit(ir)]: pre-order, attached pragmas are not found, TypeDef bodies are skipped *)
Fixpoint findp (t : tree) : list prag :=
  match t with
  | TP p => [p]
  | TN _ k _ _ _ ss ms =>
      if kind_eqb k KTypeDef then []
      else flat_map (flat_map findp) ms ++ flat_map (flat_map findp) ss
  | TR _ _ _ b => flat_map findp b
  end.

Definition kw_filter (kw : option string) (l : list prag) : list prag :=
  match kw with
  | None => l
  | Some k => if String.eqb k "" then l else filter (fun p => String.eqb (lower (pkw p)) (lower k)) l
  end.

(** Elements of a tuple while [PragmaRegionAttacher.visit_tuple] rewrites it: original elements and
    freshly created regions (whose bodies are slices of the tuple). *)
Inductive mk := MO (t : tree) | MR (s e : prag) (b : list mk).

(** [elem == p] *)
Definition mk_is (p : prag) (m : mk) : bool :=
  match m with MO (TP q) => py_eq q p | _ => false end.

Fixpoint find_idx {A} (f : A -> bool) (l : list A) : option nat :=
  match l with
  | [] => None
  | x :: r => if f x then Some 0%nat else option_map S (find_idx f r)
  end.

(** one iteration of [for start, stop in self.pragma_pairs]: [in] / [index] compare with [==] *)
Definition rw_step (o : list mk) (pr : prag * prag) : list mk :=
  match find_idx (mk_is (fst pr)) o with
  | None => o
  | Some a =>
    match find_idx (mk_is (snd pr)) o with
    | None => o
    | Some b => firstn a o ++ [MR (fst pr) (snd pr) (firstn (b - (a + 1)) (skipn (a + 1) o))] ++ skipn (b + 1) o
    end
  end.
Definition rewrite (pairs : list (prag * prag)) (o : list mk) : list mk := fold_left rw_step pairs o.

Fixpoint plain (m : mk) : tree :=
  match m with MO t => t | MR s e b => TR s e false (map plain b) end.

(** rewrite a tuple, then (visiting the new region nodes) their bodies, and so on *)
Fixpoint rw_deep (fuel : nat) (pairs : list (prag * prag)) (o : list mk) : list tree :=
  match fuel with
  | O => map plain o
  | S f => map (fun m => match m with MO t => t | MR s e b => TR s e false (rw_deep f pairs b) end)
               (rewrite pairs o)
  end.

Definition rw_tuple (pairs : list (prag * prag)) (o : list tree) : list tree :=
  rw_deep (S (List.length o)) pairs (map MO o).

(** [PragmaRegionAttacher(pairs, inplace=True).visit(ir)].  As for [attP] the elements are visited first
    (visiting never changes a top-level Pragma element, and [==] on pragmas is all the rewrite looks at). *)
Fixpoint attR (pairs : list (prag * prag)) (t : tree) : tree :=
  match t with
  | TP p => TP p
  | TN i k a b d ss ms =>
      TN i k a b d (map (fun s => rw_tuple pairs (map (attR pairs) s)) ss)
                   (strip (map (fun s => rw_tuple pairs (map (attR pairs) s)) ms))
  | TR s e d b => TR s e d (rw_tuple pairs (map (attR pairs) b))
  end.

(** [attach_pragma_regions(ir, keyword)]; [None] = IndexError raised while matching (before any update) *)
Definition attach_regions (kw : option string) (t : tree) : option tree :=
  match matching_pairs (kw_filter kw (findp t)) with
  | None => None
  | Some pairs => Some (attR pairs t)
  end.

(** [PragmaRegionDetacher.visit_tuple] for one element: a region is replaced by
    [(r.pragma,) + visit(r.body) + (r.pragma_post,)], every other node is visited. *)
Fixpoint detR1 (t : tree) : list tree :=
  match t with
  | TP p => [TP p]
  | TN i k a b d ss ms => [TN i k a b d (map (flat_map detR1) ss) (strip (map (flat_map detR1) ms))]
  | TR s e d b => TP s :: flat_map detR1 b ++ [TP e]
  end.
(** [detach_pragma_regions(ir)] for a root that is not itself a region *)
Definition detR (t : tree) : tree := hd t (detR1 t).

(** ** class predicates for the region round trip *)
Definition region_free_top (t : tree) : bool := match t with TR _ _ _ _ => false | _ => true end.
Definition multi_ok_top (t : tree) : bool :=
  match t with TN _ _ _ _ _ _ ms => forallb (fun b => negb (is_nil b)) ms | _ => true end.
Definition no_regions : tree -> bool := deep region_free_top.
Definition no_empty_bodies : tree -> bool := deep multi_ok_top.

(** every [in]/[index] lookup of the rewrite finds the very pragma object of the pair, and the start
    before the end: computed along the rewrite *)
Definition mk_same (p : prag) (m : mk) : bool :=
  match m with MO (TP q) => prag_eqb q p | _ => false end.

Definition step_safe (o : list mk) (pr : prag * prag) : bool :=
  match find_idx (mk_is (fst pr)) o, find_idx (mk_is (snd pr)) o with
  | Some a, Some b =>
      Nat.ltb a b
      && match nth_error o a with Some m => mk_same (fst pr) m | None => false end
      && match nth_error o b with Some m => mk_same (snd pr) m | None => false end
  | _, _ => true
  end.

Fixpoint rewrite_safe (pairs : list (prag * prag)) (o : list mk) : bool :=
  match pairs with
  | [] => true
  | pr :: r => step_safe o pr && rewrite_safe r (rw_step o pr)
  end.

Fixpoint deep_safe (fuel : nat) (pairs : list (prag * prag)) (o : list mk) : bool :=
  match fuel with
  | O => true
  | S f => rewrite_safe pairs o
           && forallb (fun m => match m with MO _ => true | MR _ _ b => deep_safe f pairs b end) (rewrite pairs o)
  end.

Definition tuple_safe (pairs : list (prag * prag)) (o : list tree) : bool :=
  deep_safe (S (List.length o)) pairs (map MO o).

Fixpoint attR_safe (pairs : list (prag * prag)) (t : tree) : bool :=
  match t with
  | TP _ => true
  | TN _ _ _ _ _ ss ms =>
      forallb (fun s => forallb (attR_safe pairs) s && tuple_safe pairs (map (attR pairs) s)) ss
      && forallb (fun s => forallb (attR_safe pairs) s && tuple_safe pairs (map (attR pairs) s)) ms
  | TR _ _ _ b => forallb (attR_safe pairs) b && tuple_safe pairs (map (attR pairs) b)
  end.

(** the decidable class on which the region round trip is exact *)
Definition region_class (pairs : list (prag * prag)) (t : tree) : bool :=
  no_regions t && no_empty_bodies t && attR_safe pairs t.

(** a structural sufficient condition used by the generators: all stand-alone pragmas pairwise [!=] *)
Fixpoint all_prags (t : tree) : list prag :=
  match t with
  | TP p => [p]
  | TN _ _ _ _ _ ss ms => flat_map (flat_map all_prags) ms ++ flat_map (flat_map all_prags) ss
  | TR _ _ _ b => flat_map all_prags b
  end.
Fixpoint pairwise_ne (l : list prag) : bool :=
  match l with [] => true | p :: r => negb (existsb (py_eq p) r) && pairwise_ne r end.
Definition distinct_pragmas (t : tree) : bool := pairwise_ne (all_prags t).

(** * 3. Dataflow analysis attach / detach (only which nodes carry the three attributes) *)

Definition set_pdfa (v : bool) (p : prag) : prag := mkP (pid p) (psrc p) (pkw p) (pcont p) v.

(** ScopedNode classes are dispatched to [Transformer.visit_ScopedNode], which recurses but never
    reaches the (overridden) [visit_Node] of the attacher/detacher. *)
Definition scoped (k : kind) : bool :=
  match k with KAssoc | KTypeDef | KStmtFunc => true | _ => false end.
(** the attacher has its own handlers for Associate and StatementFunction, not for TypeDef *)
Definition dfa_sets_self (k : kind) : bool := negb (kind_eqb k KTypeDef).
(** [visit_Interface] does not recurse *)
Definition dfa_descends (k : kind) : bool := negb (kind_eqb k KIface).

Fixpoint dfaA (t : tree) : tree :=
  match t with
  | TP p => TP (set_pdfa true p)
  | TN i k a b d ss ms =>
      if dfa_descends k
      then TN i k a b (if dfa_sets_self k then true else d) (map (map dfaA) ss) (map (map dfaA) ms)
      else TN i k a b true ss ms
  | TR s e d b => TR s e true (map dfaA b)
  end.

(** [DataflowAnalysisDetacher]: a [Transformer] (in place), so tuples go through [visit_tuple]'s strip *)
Fixpoint dfaD (t : tree) : tree :=
  match t with
  | TP p => TP (set_pdfa false p)
  | TN i k a b d ss ms =>
      TN i k a b (if scoped k then d else false) (map (map dfaD) ss) (strip (map (map dfaD) ms))
  | TR s e d b => TR s e false (map dfaD b)
  end.

Definition dfa_clear_top (t : tree) : bool :=
  match t with TP p => negb (pdfa p) | TN _ _ _ _ d _ _ => negb d | TR _ _ d _ => negb d end.
(** no node whose attributes the attacher sets but the detacher cannot reach *)
Definition dfa_reach_top (t : tree) : bool :=
  match t with TN _ k _ _ _ _ _ => negb (scoped k && dfa_sets_self k) | _ => true end.
Definition dfa_class (t : tree) : bool :=
  deep dfa_clear_top t && deep dfa_reach_top t && no_empty_bodies t.

(** * 4. Operation sequences and context managers on a program unit (spec, body, ...) *)

Inductive op :=
| OAttP (nt : list kind) (pf : bool)   (* attach_pragmas(section, node_type, attach_pragma_post) *)
| ODetP (nt : list kind) (df : bool)   (* detach_pragmas *)
| OAttR (kw : option string)           (* attach_pragma_regions *)
| ODetR
| OAttD                                (* attach dataflow analysis *)
| ODetD.

Definition nt_of (l : list kind) (k : kind) : bool := existsb (kind_eqb k) l.

(** result of an operation on the sections of a unit: [Ok u] or [Err u] (an exception escaped, the
    sections are left as [u]) *)
Inductive res := Ok (u : list tree) | Err (u : list tree).

(** sections are processed one after the other; an IndexError in the matching of one section leaves
    the earlier ones attached *)
Fixpoint attR_unit (kw : option string) (u : list tree) : res :=
  match u with
  | [] => Ok []
  | t :: r => match attach_regions kw t with
              | None => Err (t :: r)
              | Some t' => match attR_unit kw r with
                           | Ok r' => Ok (t' :: r')
                           | Err r' => Err (t' :: r')
                           end
              end
  end.

Definition run_op (o : op) (u : list tree) : res :=
  match o with
  | OAttP nt pf => Ok (map (attP (nt_of nt) pf) u)
  | ODetP nt df => Ok (map (detP (nt_of nt) df) u)
  | OAttR kw => attR_unit kw u
  | ODetR => Ok (map detR u)
  | OAttD => Ok (map dfaA u)
  | ODetD => Ok (map dfaD u)
  end.

Fixpoint run_ops (ops : list op) (u : list tree) : res :=
  match ops with
  | [] => Ok u
  | o :: r => match run_op o u with Ok u' => run_ops r u' | Err u' => Err u' end
  end.

(** what the body of a [with] block does with the unit: returns or raises, possibly after editing it *)
Inductive outcome := Returned (u : list tree) | Raised (u : list tree).

(** [@contextmanager def ctx(unit): <enter>; try: yield unit; finally: <leave>] *)
Definition with_ctx (enter : list tree -> res) (leave : list tree -> list tree)
           (u : list tree) (body : list tree -> outcome) : outcome :=
  match enter u with
  | Err u' => Raised u'                       (* raised before the [try]: nothing is undone *)
  | Ok u1 => match body u1 with
             | Returned u2 => Returned (leave u2)
             | Raised u2 => Raised (leave u2)  (* [finally] *)
             end
  end.

Definition pragmas_attached (nt : list kind) (pf : bool) :=
  with_ctx (run_op (OAttP nt pf)) (map (detP (nt_of nt) pf)).
Definition pragma_regions_attached (kw : option string) :=
  with_ctx (run_op (OAttR kw)) (map detR).
Definition dataflow_analysis_attached :=
  with_ctx (run_op OAttD) (map dfaD).

(** class membership as predicted for a case (so that the harness can cross-check its generators) *)
Definition in_region_class (kw : option string) (t : tree) : bool :=
  match matching_pairs (kw_filter kw (findp t)) with
  | None => false
  | Some pairs => region_class pairs t
  end.

(** ** properly nested contexts *)
Inductive ctx := CP (nt : list kind) (pf : bool) | CR (kw : option string) | CD.

Definition enter_op (c : ctx) : op :=
  match c with CP nt pf => OAttP nt pf | CR kw => OAttR kw | CD => OAttD end.
Definition leave_op (c : ctx) : op :=
  match c with CP nt pf => ODetP nt pf | CR _ => ODetR | CD => ODetD end.
(** [with c1: with c2: ... body]  =  enter c1, enter c2, ..., body, ..., leave c2, leave c1 *)
Definition enter_ops (fl : list ctx) : list op := map enter_op fl.
Definition leave_ops (fl : list ctx) : list op := rev (map leave_op fl).

(** every context is entered in a state that satisfies the hypothesis of its round-trip theorem *)
Fixpoint flow_in_class (fl : list ctx) (u : list tree) : bool :=
  match fl with
  | [] => true
  | c :: r =>
    match c with
    | CP nt pf => forallb (no_preattached (nt_of nt) pf) u && flow_in_class r (map (attP (nt_of nt) pf) u)
    | CR kw => forallb (in_region_class kw) u
               && match attR_unit kw u with Ok u' => flow_in_class r u' | Err _ => false end
    | CD => forallb dfa_class u && flow_in_class r (map dfaA u)
    end
  end.

(** * correspondence comparators *)
Definition res_eqb (r : res) (is_err : bool) (u : list tree) : bool :=
  match r with
  | Ok v => negb is_err && list_eqb tree_eqb v u
  | Err v => is_err && list_eqb tree_eqb v u
  end.

(** the model, run on [u] with [ops], ends (normally / with an exception) in exactly the exported state *)
Definition chk_ops (ops : list op) (u : list tree) (is_err : bool) (expected : list tree) : bool :=
  res_eqb (run_ops ops u) is_err expected.

(** the pairs found by [get_matching_region_pragmas] (as pid pairs); [None] = IndexError *)
Definition chk_pairs (kw : option string) (t : tree) (expected : option (list (Z * Z))) : bool :=
  match matching_pairs (kw_filter kw (findp t)), expected with
  | None, None => true
  | Some l, Some e => list_eqb (fun a b => Z.eqb (fst a) (fst b) && Z.eqb (snd a) (snd b))
                               (map (fun pr => (pid (fst pr), pid (snd pr))) l) e
  | _, _ => false
  end.

