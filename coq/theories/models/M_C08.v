(** C08 — model of loki/expression/symbolic.py: the helper functions used by [SimplifyMapper]
    and the mapper itself.  Definitions only.

    The model works on [sx], a copy of the shared [expr] type whose n-ary sums and products carry a
    three-valued class tag: [KL] = loki.expression.operations.Sum/Product, [KP] = ParenthesisedAdd/Mul,
    [KN] = *plain pymbolic* Sum/Product.  Plain nodes are created by Python operator overloading
    ([item.denominator * expr.denominator] in distribute_quotient, [expr1 - expr2] in symbolic_op); they
    fail every [isinstance(..., sym.Product)] test of the helpers and they survive into results of
    [simplify], so the exact output tree cannot be modelled without them.

    Equality of expression nodes in Loki ([new_expr != expr], dict keys in collect_coefficients) is
    equality of *class and canonical string*; the sort in accumulate_polynomial_terms is by [str].
    Hence a model [pr] of LokiStringifyMapper is part of the model.

    Functions that are instrumented return a pair (result, safe): [safe = false] records that a step was
    taken which is not value preserving for truncating integer division (or at all); the result
    component is always exactly what the implementation computes. *)
From Coq Require Import ZArith List Bool String Ascii DecimalString.
From LV Require Import Base.Expr Base.Strings.
Import ListNotations.
Open Scope Z_scope.

Inductive kls := KL | KP | KN.

Inductive sx : Type :=
| SInt (v : Z)
| SPy (v : Z)
| SVar (x : string)
| SLog (b : bool)
| SSum (k : kls) (cs : list sx)
| SProd (k : kls) (cs : list sx)
| SQuot (p : bool) (n d : sx)
| SPow (p : bool) (b e : sx)
| SCmp (op : cmpop) (l r : sx)
| SAnd (cs : list sx)
| SOr (cs : list sx)
| SNot (e : sx)
| SCall (f : string) (args : list sx).

Definition is_KP (k : kls) : bool := match k with KP => true | _ => false end.
Definition is_KN (k : kls) : bool := match k with KN => true | _ => false end.
Definition kls_eqb (a b : kls) : bool :=
  match a, b with KL, KL | KP, KP | KN, KN => true | _, _ => false end.

(** * Relation with the shared expression type *)
Fixpoint to_expr (s : sx) : expr :=
  match s with
  | SInt v => EInt v
  | SPy v => EPy v
  | SVar x => EVar x
  | SLog b => ELog b
  | SSum k cs => ESum (is_KP k) (map to_expr cs)
  | SProd k cs => EProd (is_KP k) (map to_expr cs)
  | SQuot p n d => EQuot p (to_expr n) (to_expr d)
  | SPow p b e => EPow p (to_expr b) (to_expr e)
  | SCmp op l r => ECmp op (to_expr l) (to_expr r)
  | SAnd cs => EAnd (map to_expr cs)
  | SOr cs => EOr (map to_expr cs)
  | SNot e => ENot (to_expr e)
  | SCall f args => ECall f (map to_expr args)
  end.

Fixpoint of_expr (e : expr) : sx :=
  match e with
  | EInt v => SInt v
  | EPy v => SPy v
  | EVar x => SVar x
  | ELog b => SLog b
  | ESum p cs => SSum (if p then KP else KL) (map of_expr cs)
  | EProd p cs => SProd (if p then KP else KL) (map of_expr cs)
  | EQuot p n d => SQuot p (of_expr n) (of_expr d)
  | EPow p b e => SPow p (of_expr b) (of_expr e)
  | ECmp op l r => SCmp op (of_expr l) (of_expr r)
  | EAnd cs => SAnd (map of_expr cs)
  | EOr cs => SOr (map of_expr cs)
  | ENot e => SNot (of_expr e)
  | ECall f args => SCall f (map of_expr args)
  end.

Definition cmpop_eqb (a b : cmpop) : bool :=
  match a, b with Ceq, Ceq | Cne, Cne | Clt, Clt | Cle, Cle | Cgt, Cgt | Cge, Cge => true | _, _ => false end.

Fixpoint sx_eqb (a b : sx) : bool :=
  let fix leqb (l1 l2 : list sx) : bool :=
    match l1, l2 with
    | [], [] => true
    | x :: r1, y :: r2 => sx_eqb x y && leqb r1 r2
    | _, _ => false
    end in
  match a, b with
  | SInt x, SInt y => x =? y
  | SPy x, SPy y => x =? y
  | SVar x, SVar y => String.eqb x y
  | SLog x, SLog y => Bool.eqb x y
  | SSum k cs, SSum k' ds => kls_eqb k k' && leqb cs ds
  | SProd k cs, SProd k' ds => kls_eqb k k' && leqb cs ds
  | SQuot p n d, SQuot q n' d' => Bool.eqb p q && sx_eqb n n' && sx_eqb d d'
  | SPow p n d, SPow q n' d' => Bool.eqb p q && sx_eqb n n' && sx_eqb d d'
  | SCmp o l r, SCmp o' l' r' => cmpop_eqb o o' && sx_eqb l l' && sx_eqb r r'
  | SAnd cs, SAnd ds => leqb cs ds
  | SOr cs, SOr ds => leqb cs ds
  | SNot x, SNot y => sx_eqb x y
  | SCall f cs, SCall g ds => String.eqb f g && leqb cs ds
  | _, _ => false
  end.

Fixpoint list_eqb {A} (eqb : A -> A -> bool) (l1 l2 : list A) : bool :=
  match l1, l2 with
  | [], [] => true
  | x :: r1, y :: r2 => eqb x y && list_eqb eqb r1 r2
  | _, _ => false
  end.

(** * Results with explicit errors *)
Inductive err := EZeroDiv.
Inductive res (A : Type) := Ok (a : A) | Err (e : err) | NoFuel.
Arguments Ok {A} a. Arguments Err {A} e. Arguments NoFuel {A}.

Definition rbind {A B} (r : res A) (f : A -> res B) : res B :=
  match r with Ok a => f a | Err e => Err e | NoFuel => NoFuel end.

(** map with conjunction of the safety flags *)
Fixpoint rmapb {A B} (f : A -> res (B * bool)) (l : list A) : res (list B * bool) :=
  match l with
  | [] => Ok ([], true)
  | x :: r => rbind (f x) (fun yb => rbind (rmapb f r) (fun ysb => Ok (fst yb :: fst ysb, snd yb && snd ysb)))
  end.

(** * Basic predicates of symbolic.py and of pymbolic *)
Definition is_py_m1 (e : sx) : bool := match e with SPy v => v =? -1 | _ => false end.
(** [v == -1] as evaluated by Python: the int -1 or IntLiteral(-1) *)
Definition is_m1 (e : sx) : bool := match e with SPy v | SInt v => v =? -1 | _ => false end.
(** isinstance(e, sym.Product) / sym.Sum: Loki classes (incl. Parenthesised), not plain pymbolic *)
Definition lprod (e : sx) : bool := match e with SProd k _ => negb (is_KN k) | _ => false end.
Definition lsum (e : sx) : bool := match e with SSum k _ => negb (is_KN k) | _ => false end.

(** bool(expr) in Python *)
Fixpoint truthy (e : sx) : bool :=
  match e with
  | SInt v | SPy v => negb (v =? 0)
  | SLog b => b
  | SSum _ cs => match cs with [c] => truthy c | _ => true end
  | SProd _ cs => forallb truthy cs
  | SQuot _ n _ => truthy n
  | _ => true
  end.

(** is_minus_prefix: a Loki Product whose first child is the Python int -1 *)
Definition is_minus_prefix (e : sx) : bool :=
  match e with SProd k (c0 :: _) => negb (is_KN k) && is_py_m1 c0 | _ => false end.

Definition strip_minus_prefix (e : sx) : sx :=
  match e with
  | SProd _ (_ :: rest) => match rest with [c] => c | _ => SProd KL rest end
  | _ => e
  end.

Fixpoint sx_size (e : sx) : nat :=
  match e with
  | SSum _ cs | SProd _ cs | SAnd cs | SOr cs | SCall _ cs => S (fold_right (fun c a => sx_size c + a)%nat O cs)
  | SQuot _ a b | SPow _ a b | SCmp _ a b => S (sx_size a + sx_size b)
  | SNot a => S (sx_size a)
  | _ => 1%nat
  end.

(** repeated stripping: number of prefixes removed and the remaining core
    (the fuel, the size of the tree, is never exhausted: every strip removes a node) *)
Fixpoint peel_f (fuel : nat) (e : sx) : nat * sx :=
  match fuel with
  | O => (O, e)
  | S f =>
      if is_minus_prefix e then let (n, x) := peel_f f (strip_minus_prefix e) in (S n, x)
      else (O, e)
  end.
Definition peel (e : sx) : nat * sx := peel_f (sx_size e) e.

Fixpoint wrap_neg (k : nat) (e : sx) : sx :=
  match k with O => e | S k' => SProd KL [SPy (-1); wrap_neg k' e] end.

Definition sgn_of (k : nat) : Z := if Nat.even k then 1 else -1.

(** symbolic.is_constant *)
Definition is_constant (e : sx) : bool :=
  match snd (peel e) with SInt _ | SPy _ => true | _ => false end.

(** * Python operators on pymbolic expressions (results are plain pymbolic nodes) *)
Definition is_py (e : sx) : option Z := match e with SPy v => Some v | _ => None end.
Definition prod_children (e : sx) : option (list sx) := match e with SProd _ cs => Some cs | _ => None end.

Definition py_mul (x y : sx) : sx :=
  match is_py x, is_py y with
  | Some a, Some b => SPy (a * b)
  | Some a, None =>
      if a =? 1 then y else if a =? 0 then SPy 0
      else match prod_children y with Some ys => SProd KN (x :: ys) | None => SProd KN [x; y] end
  | None, yo =>
      if (match yo with Some b => b =? 1 | None => false end) then x
      else
        match prod_children x, prod_children y with
        | Some xs, Some ys => SProd KN (xs ++ ys)
        | Some xs, None => if truthy y then SProd KN (xs ++ [y]) else SPy 0
        | None, _ => if truthy y then SProd KN [x; y] else SPy 0
        end
  end.

Definition py_neg (y : sx) : sx :=
  match y with
  | SPy v => SPy (- v)
  | SProd _ ys => SProd KN (SPy (-1) :: ys)
  | _ => SProd KN [SPy (-1); y]
  end.

Definition py_sub (x y : sx) : sx :=
  if truthy y then
    match x with
    | SSum _ xs => SSum KN (xs ++ [py_neg y])
    | _ => if truthy x then SSum KN [x; py_neg y] else py_neg y
    end
  else x.

(** * LokiStringifyMapper *)
Definition PREC_CALL := 15%nat.
Definition PREC_POWER := 14%nat.
Definition PREC_UNARY := 13%nat.
Definition PREC_PRODUCT := 12%nat.
Definition PREC_SUM := 11%nat.
Definition PREC_COMPARISON := 6%nat.
Definition PREC_AND := 5%nat.
Definition PREC_OR := 4%nat.
Definition PREC_NONE := 0%nat.

Open Scope string_scope.

Definition zstr (v : Z) : string := NilZero.string_of_int (Z.to_int v).
Definition parens (s : string) : string := "(" ++ s ++ ")".
Definition paren_if (s : string) (enc my : nat) : string := if Nat.ltb my enc then parens s else s.

Definition cmp_str (op : cmpop) : string :=
  match op with Ceq => "==" | Cne => "!=" | Clt => "<" | Cle => "<=" | Cgt => ">" | Cge => ">=" end.

(** body of map_product given the children and their strings at PREC_PRODUCT *)
Definition prod_body_of (cs : list sx) (strs : list string) (prec : nat) : string :=
  match cs, strs with
  | [c0; _], [_; s1] =>
      if is_m1 c0 then paren_if ("-" ++ s1) prec PREC_PRODUCT
      else paren_if (String.concat "*" strs) prec PREC_PRODUCT
  | _, _ => paren_if (String.concat "*" strs) prec PREC_PRODUCT
  end.

(** terms of map_sum: (is_minus, string) *)
Fixpoint sum_join (first : bool) (ts : list (bool * string)) : string :=
  match ts with
  | [] => ""
  | (m, s) :: r =>
      (if first then (if m then "-" ++ s else s)
       else (if m then " - " ++ s else " + " ++ s)) ++ sum_join false r
  end.

(** does the denominator get forced parentheses: Product/Quotient that is not a Parenthesised* class *)
Definition den_forced (d : sx) : bool :=
  match d with SProd k _ => negb (is_KP k) | SQuot p _ _ => negb p | _ => false end.

Fixpoint pr (e : sx) (prec : nat) {struct e} : string :=
  match e with
  | SInt v => zstr v
  | SPy v => if (v <? 0)%Z && Nat.ltb PREC_SUM prec then parens (zstr v) else zstr v
  | SVar x => x
  | SLog b => if b then "True" else "False"
  | SSum k cs =>
      let body := sum_join true
        ((fix st (l : list sx) : list (bool * string) :=
            match l with
            | [] => []
            | ch :: r =>
                (match ch with
                 | SProd k' (SPy m :: rest) =>
                     if negb (is_KP k') && (m =? -1)%Z then
                       (true, match rest with
                              | [c1] => pr c1 PREC_PRODUCT
                              | _ => prod_body_of rest
                                       ((fix mp (l2 : list sx) : list string :=
                                           match l2 with [] => [] | c :: r2 => pr c PREC_PRODUCT :: mp r2 end) rest)
                                       PREC_PRODUCT
                              end)
                     else (false, pr ch PREC_SUM)
                 | _ => (false, pr ch PREC_SUM)
                 end) :: st r
            end) cs) in
      if is_KP k then parens body else paren_if body prec PREC_SUM
  | SProd k cs =>
      let strs := (fix mp (l : list sx) : list string :=
                     match l with [] => [] | c :: r => pr c PREC_PRODUCT :: mp r end) cs in
      if is_KP k then parens (prod_body_of cs strs PREC_NONE) else prod_body_of cs strs prec
  | SQuot p n d =>
      let ds := pr d PREC_PRODUCT in
      let body := pr n PREC_PRODUCT ++ " / " ++ (if den_forced d then parens ds else ds) in
      if p then parens body else paren_if body prec PREC_PRODUCT
  | SPow p b x =>
      let body := pr b PREC_POWER ++ "**" ++ pr x PREC_POWER in
      if p then parens body else paren_if body prec PREC_POWER
  | SCmp op l r =>
      paren_if (pr l PREC_COMPARISON ++ " " ++ cmp_str op ++ " " ++ pr r PREC_COMPARISON) prec PREC_COMPARISON
  | SAnd cs =>
      paren_if (String.concat " and "
        ((fix mp (l : list sx) : list string :=
            match l with [] => [] | c :: r => pr c PREC_AND :: mp r end) cs)) prec PREC_AND
  | SOr cs =>
      paren_if (String.concat " or "
        ((fix mp (l : list sx) : list string :=
            match l with [] => [] | c :: r => pr c PREC_OR :: mp r end) cs)) prec PREC_OR
  | SNot c => paren_if ("not " ++ pr c PREC_UNARY) prec PREC_UNARY
  | SCall f args =>
      f ++ "(" ++ String.concat ", "
        ((fix mp (l : list sx) : list string :=
            match l with [] => [] | c :: r => pr c PREC_NONE :: mp r end) args) ++ ")"
  end.

Definition str_of (e : sx) : string := pr e PREC_NONE.
(** StrCompareMixin._canonical *)
Definition canon (s : string) : string := strip_blanks (lower s).

Close Scope string_scope.

Definition same_class (a b : sx) : bool :=
  match a, b with
  | SVar _, SVar _ | SLog _, SLog _ => true
  | SSum k _, SSum k' _ | SProd k _, SProd k' _ => kls_eqb k k'
  | SQuot p _ _, SQuot q _ _ | SPow p _ _, SPow q _ _ => Bool.eqb p q
  | SCmp _ _ _, SCmp _ _ _ | SAnd _, SAnd _ | SOr _, SOr _ | SNot _, SNot _ | SCall _ _, SCall _ _ => true
  | _, _ => false
  end.

(** [a == b] for expression nodes: literals by value, everything else by exact class and canonical string *)
Definition loki_eq (a b : sx) : bool :=
  match a, b with
  | (SInt x | SPy x), (SInt y | SPy y) => x =? y
  | (SInt _ | SPy _), _ => false
  | _, (SInt _ | SPy _) => false
  | _, _ => same_class a b && String.eqb (canon (str_of a)) (canon (str_of b))
  end.

(** [c == 'True'] / [c == 'False'] *)
Definition eq_str (c : sx) (s : string) : bool :=
  match c with SInt _ | SPy _ => false | _ => String.eqb (canon (str_of c)) s end.

(** * distribute_product *)
Fixpoint dp_process (item : sx) (st : list (list sx) * list sx) {struct item} : list (list sx) * list sx :=
  let other := (map (fun l => l ++ [item]) (fst st), snd st) in
  match item with
  | SInt v => if v =? 1 then st else other
  | SProd k cs =>
      if is_KN k then other
      else fold_left (fun s c => dp_process c s) cs st
  | SQuot _ n d => dp_process n (fst st, snd st ++ [d])
  | SSum k cs =>
      if is_KN k then other
      else (flat_map (fun c => map (fun l => l ++ [c]) (fst st)) cs, snd st)
  | _ => other
  end.

Definition dp_component (comps : list sx) : sx :=
  let neg := Nat.odd (List.length (filter is_m1 comps)) in
  let cs := filter (fun v => negb (is_m1 v)) comps in
  let c := match cs with [] => SInt 1 | [x] => x | _ => SProd KL cs end in
  if neg then SProd KL [SPy (-1); c] else c.

Definition dp_retval (num : sx) (den : list sx) : sx :=
  match den with [] => num | [d] => SQuot false num d | _ => SQuot false num (SProd KL den) end.

Definition dp_children (cs : list sx) : list (list sx) * list sx :=
  fold_left (fun s c => dp_process c s) cs ([[]], []).

Definition distribute_product (e : sx) : sx :=
  match e with
  | SProd k cs =>
      if is_KN k then e
      else
        let (done, den) := dp_children cs in
        match done with
        | [] => dp_retval (SInt 1) den
        | _ => match map dp_component done with
               | [x] => dp_retval x den
               | ch => dp_retval (SSum KL ch) den
               end
        end
  | _ => e
  end.

(** guard: no quotient is met while flattening the product (then distribution is a ring identity),
    or the product is exactly  (-1) * (n / d)  with a quotient-free numerator *)
Fixpoint qfree (e : sx) : bool :=
  match e with
  | SQuot _ _ _ => false
  | SProd k cs => if is_KN k then true else forallb qfree cs
  | SSum k cs => if is_KN k then true else negb (match cs with [] => true | _ => false end)
  | _ => true
  end.

Definition dp_safe (e : sx) : bool :=
  qfree e ||
  match e with
  | SProd k [u; SQuot _ n _] => negb (is_KN k) && is_m1 u && qfree n
  | _ => false
  end.

(** * distribute_quotient (instrumented): [dq n d] = distribute_quotient(Quotient(n, d)) *)
Definition neg_r (r : sx * bool) : sx * bool := (SProd KL [SPy (-1); fst r], snd r).

Definition dq_finish (kd : nat) (items : list (sx * bool)) : sx * bool :=
  let r := match items with [] => SInt 1 | [x] => fst x | _ => SSum KL (map fst items) end in
  (wrap_neg kd r, Nat.eqb (List.length items) 1 && forallb snd items).

(** the loop of distribute_quotient over the (flattened) numerator; [rec] is the recursive call for a
    nested quotient, [dc] the denominator (minus prefixes already stripped) *)
Fixpoint dq_items (rec : sx -> sx -> sx * bool) (dc : sx) (m : sx) {struct m} : list (sx * bool) :=
  match m with
  | SInt v => if v =? 0 then [] else [(SQuot false m dc, true)]
  | SSum k cs =>
      if is_KN k then [(SQuot false m dc, true)]
      else flat_map (dq_items rec dc) cs
  | SQuot _ x y => [rec x (py_mul y dc)]
  | _ => [(SQuot false m dc, true)]
  end.

(** [fuel] bounds the nesting of recursive calls (one per stripped minus prefix of the numerator and per
    nested quotient); exhaustion is flagged unsafe *)
Fixpoint dq (fuel : nat) (n d : sx) {struct fuel} : sx * bool :=
  match fuel with
  | O => (SQuot false n d, false)
  | S f =>
      if is_minus_prefix n then neg_r (dq f (strip_minus_prefix n) d)
      else let (kd, dc) := peel d in dq_finish kd (dq_items (dq f) dc n)
  end.

Definition distribute_quotient_i (fuel : nat) (e : sx) : sx * bool :=
  match e with SQuot _ n d => dq fuel n d | _ => (e, true) end.

(** * flatten_expr (work fuel [wf]: one unit per loop iteration) *)
Fixpoint flat_loop (wf : nat) (queue done_rev : list sx) (safe : bool) {struct wf} : res (list sx * bool) :=
  match queue with
  | [] => Ok (rev done_rev, safe)
  | item :: q =>
      match wf with
      | O => NoFuel
      | S wf' =>
          if negb (truthy item) then flat_loop wf' q done_rev safe
          else
            let it1 := if lprod item then distribute_product item else item in
            let s1 := if lprod item then dp_safe item else true in
            let r2 := distribute_quotient_i wf it1 in
            let it2 := fst r2 in
            let s := safe && s1 && snd r2 in
            match it2 with
            | SSum k cs =>
                if is_KN k then flat_loop wf' q (it2 :: done_rev) s
                else flat_loop wf' (cs ++ q) done_rev s
            | _ => flat_loop wf' q (it2 :: done_rev) s
            end
      end
  end.

Definition flatten_i (wf : nat) (e : sx) : res (sx * bool) :=
  rbind (flat_loop wf [e] [] true) (fun r =>
    Ok (match fst r with [] => SInt 0 | [x] => x | l => SSum KL l end, snd r)).

(** * sum_literals *)
(** value of a (possibly repeatedly negated) literal summand, [_process] of sum_literals *)
Definition sl_val (lit : bool) (c : sx) : option Z :=
  let (k, core) := peel c in
  match core with
  | SInt v =>
      if lit then
        match k with
        | O => Some v
        | _ => if v =? 0 then None else Some (sgn_of k * v)
        end
      else None
  | _ => None
  end.

Fixpoint sl_split (lit : bool) (cs : list sx) : Z * list sx :=
  match cs with
  | [] => (0, [])
  | c :: r =>
      let (v, rem) := sl_split lit r in
      match sl_val lit c with Some w => (w + v, rem) | None => (v, c :: rem) end
  end.

Definition sum_literals (ia fp : bool) (e : sx) : sx :=
  match e with
  | SSum k cs =>
      if is_KN k then e
      else
        let (value, rem) := sl_split (ia || fp) cs in
        if negb ia then e
        else
          match (if value =? 0 then rem else SInt value :: rem) with
          | [] => SInt 0
          | [x] => x
          | l => SSum KL l
          end
  | _ => e
  end.

(** * separate_coefficients / mul_literals *)
(** [_process] of separate_coefficients: coefficient and remaining factor of one child
    (after commit 6254d3f: a minus-prefixed child is stripped with strip_minus_prefix, repeatedly) *)
Definition sc_process (lit : bool) (c : sx) : Z * option sx :=
  let (k, core) := peel c in
  match core with
  | SPy v | SInt v => if lit then (sgn_of k * v, None) else (sgn_of k, Some core)
  | _ => (sgn_of k, Some core)
  end.

(** the behaviour before 6254d3f, kept only to state what was wrong: only [children[1]] of a minus-prefixed
    child was looked at, further factors were dropped *)
Fixpoint sc_process_old (lit : bool) (c : sx) : Z * option sx :=
  match c with
  | SPy v | SInt v => if lit then (v, None) else (1, Some c)
  | SProd k (SPy w :: c1 :: _) =>
      if negb (is_KN k) && (w =? -1) then let (v, o) := sc_process_old lit c1 in (- v, o)
      else (1, Some c)
  | _ => (1, Some c)
  end.

Fixpoint sc_children (lit : bool) (cs : list sx) : Z * list sx :=
  match cs with
  | [] => (1, [])
  | c :: r =>
      let (v, rem) := sc_children lit r in
      let (w, o) := sc_process lit c in
      (w * v, match o with Some x => x :: rem | None => rem end)
  end.

Definition separate_coefficients (ia fp : bool) (e : sx) : Z * list sx :=
  let lit := ia || fp in
  let (k, core) := peel e in
  let (v, rem) :=
    match core with
    | SInt v => if lit then (v, []) else (1, [core])
    | SProd kk cs =>
        if is_KN kk then (1, [core])
        else if negb ia then (1, [core])
        else sc_children lit cs
    | _ => (1, [core])
    end in
  (sgn_of k * v, rem).

Definition mul_literals (ia fp : bool) (e : sx) : sx :=
  if lprod e then
    let (v, rem0) := separate_coefficients ia fp e in
    if v =? 0 then SInt 0
    else
      let rem := if Z.abs v =? 1 then rem0 else SInt (Z.abs v) :: rem0 in
      let ret := match rem with [] => SInt 1 | [x] => x | _ => SProd KL rem end in
      if v <? 0 then SProd KL [SPy (-1); ret] else ret
  else e.

(** * div_literals *)
Definition div_literals_i (fp : bool) (e : sx) : res (sx * bool) :=
  match e with
  | SQuot _ n d =>
      let (kn, nc) := peel n in
      let (kd, dc) := peel d in
      let k := (kn + kd)%nat in
      let cur := match k with O => e | _ => SQuot false nc dc end in
      let wrap (r : sx) := Ok (wrap_neg k r, true) in
      match dc with
      | SInt dv =>
          match nc with
          | SInt nv =>
              let g := Z.gcd nv dv in
              if g =? 0 then Err EZeroDiv
              else
                let n2 := SInt (nv / g) in
                let d2 := dv / g in
                wrap (if d2 =? 1 then n2 else SQuot false n2 (SInt d2))
          | SProd kk _ =>
              if is_KN kk then wrap (if dv =? 1 then nc else SQuot false nc dc)
              else
                let (v, rem) := separate_coefficients true fp nc in
                let g := Z.gcd v dv in
                if g =? 0 then Err EZeroDiv
                else
                  let p2 := SProd KL (SInt (v / g) :: rem) in
                  let n2 := mul_literals true fp p2 in
                  let d2 := dv / g in
                  Ok (wrap_neg k (if d2 =? 1 then n2 else SQuot false n2 (SInt d2)), true)
          | _ => wrap (if dv =? 1 then nc else SQuot false nc dc)
          end
      | _ => wrap cur
      end
  | _ => Ok (e, true)
  end.

(** * accumulate_polynomial_terms / collect_coefficients *)
Fixpoint insert_key (x : string * sx) (l : list (string * sx)) : list (string * sx) :=
  match l with
  | [] => [x]
  | y :: r => if String.ltb (fst x) (fst y) then x :: l else y :: insert_key x r
  end.

(** sorted(components, key=str): stable *)
Definition sort_by_str (l : list sx) : list sx :=
  map snd (fold_left (fun acc x => insert_key (str_of x, x) acc) l []).

Definition key_eq (k1 k2 : list sx) : bool := list_eqb loki_eq k1 k2.

(** dict update [summands[key] += v]; the flag says the merged keys are also structurally equal *)
Fixpoint acc_add (key : list sx) (v : Z) (assoc : list (list sx * Z)) : list (list sx * Z) * bool :=
  match assoc with
  | [] => ([(key, v)], true)
  | (k, f) :: r =>
      if key_eq k key then ((k, f + v) :: r, list_eqb sx_eqb k key)
      else let (r', s) := acc_add key v r in ((k, f) :: r', s)
  end.

Record acc_state := { a_const : Z; a_assoc : list (list sx * Z); a_safe : bool }.

Definition acc_item (st : acc_state) (item : sx) : acc_state :=
  if lprod item then
    let (v, rem) := separate_coefficients true false item in
    let s := a_safe st in
    if v =? 0 then {| a_const := a_const st; a_assoc := a_assoc st; a_safe := s |}
    else
      match rem with
      | [] => {| a_const := a_const st + v; a_assoc := a_assoc st; a_safe := s |}
      | _ => let (as', s') := acc_add (sort_by_str rem) v (a_assoc st) in
             {| a_const := a_const st; a_assoc := as'; a_safe := s && s' |}
      end
  else
    match item with
    | SPy v | SInt v => {| a_const := a_const st + v; a_assoc := a_assoc st; a_safe := a_safe st |}
    | _ => let (as', s') := acc_add [item] 1 (a_assoc st) in
           {| a_const := a_const st; a_assoc := as'; a_safe := a_safe st && s' |}
    end.

Definition accumulate (e : sx) : acc_state :=
  fold_left acc_item (if lsum e then match e with SSum _ cs => cs | _ => [e] end else [e])
            {| a_const := 0; a_assoc := []; a_safe := true |}.

Definition cc_coeff (f : Z) : list sx :=
  if f =? 1 then [] else if f =? -1 then [SPy (-1)]
  else if f <? 0 then [SPy (-1); SInt (Z.abs f)] else [SInt (Z.abs f)].

Fixpoint cc_terms (assoc : list (list sx * Z)) : list sx :=
  match assoc with
  | [] => []
  | (base, f) :: r =>
      if f =? 0 then cc_terms r
      else (match base with
            | [b] => if f =? 1 then b else SProd KL (cc_coeff f ++ base)
            | _ => SProd KL (cc_coeff f ++ base)
            end) :: cc_terms r
  end.

Definition collect_i (e : sx) : sx * bool :=
  let st := accumulate e in
  let c := a_const st in
  let comps :=
    (if c <? 0 then [SProd KL [SPy (-1); SInt (Z.abs c)]] else if 0 <? c then [SInt c] else [])
    ++ cc_terms (a_assoc st) in
  (match comps with [] => SInt 0 | [x] => x | _ => SSum KL comps end, a_safe st).

(** * SimplifyMapper *)
Record flags := { f_flatten : bool; f_int : bool; f_fp : bool; f_cc : bool; f_logic : bool }.
Definition all_flags : flags := {| f_flatten := true; f_int := true; f_fp := true; f_cc := true; f_logic := true |}.

(** get_constant_value of map_comparison (after commit fb957a2: recursive through nested minus prefixes,
    [getattr(expr, 'value', expr)]); only called when is_constant holds, i.e. the core is a literal *)
Definition cval (e : sx) : Z :=
  let (k, core) := peel e in
  match core with SInt v | SPy v => sgn_of k * v | _ => 0 end.

(** before fb957a2: [-1 * strip_minus_prefix(expr).value] / [expr.value]; [None] = AttributeError *)
Definition cval_old (e : sx) : option Z :=
  let (k, core) := peel e in
  match k, core with
  | O, SInt v => Some v
  | S O, SInt v => Some (- v)
  | _, _ => None
  end.

Definition is_log (c : sx) : bool := match c with SLog _ => true | _ => false end.
(** guard: a child that compares equal to the strings 'True' / 'False' really is that literal *)
Definition log_shape_ok (cs : list sx) : bool :=
  forallb (fun c => implb (eq_str c "true" || eq_str c "false") (is_log c)) cs.

Definition pipeline_sum (fl : flags) (wf : nat) (new0 : sx) : res (sx * bool) :=
  rbind (if f_flatten fl then flatten_i wf new0 else Ok (new0, true)) (fun r1 =>
    let new2 := if f_int fl || f_fp fl then sum_literals (f_int fl) (f_fp fl) (fst r1) else fst r1 in
    let r3 := if f_cc fl then collect_i new2 else (new2, true) in
    Ok (fst r3, snd r1 && snd r3)).

Definition pipeline_prod (fl : flags) (wf : nat) (new0 : sx) : res (sx * bool) :=
  rbind (if f_flatten fl then flatten_i wf new0 else Ok (new0, true)) (fun r1 =>
    if f_int fl || f_fp fl then Ok (mul_literals (f_int fl) (f_fp fl) (fst r1), snd r1)
    else Ok r1).

Definition pipeline_quot (fl : flags) (wf : nat) (new0 : sx) : res (sx * bool) :=
  rbind (if f_flatten fl then flatten_i wf new0 else Ok (new0, true)) (fun r1 =>
    if f_int fl || f_fp fl then
      rbind (div_literals_i (f_fp fl) (fst r1)) (fun r2 => Ok (fst r2, snd r1 && snd r2))
    else Ok r1).

(** one application of the mapper to a node; [rec] is the recursive call of the mapper *)
Definition reapply (rec : sx -> res (sx * bool)) (e : sx) (s0 : bool) (r : sx * bool) : res (sx * bool) :=
  if loki_eq (fst r) e then Ok (e, true)
  else rbind (rec (fst r)) (fun r' => Ok (fst r', s0 && snd r && snd r')).

Definition simp_pow (fl : flags) (p : bool) (b' x' : sx) : sx :=
  if p then SPow true b' x'
  else if f_int fl then
    match b', x' with
    | SInt bv, SInt xv =>
        if bv =? 1 then b'
        else if xv =? 0 then SInt 1
        else if xv =? 1 then b'
        else if 0 <? xv then SInt (bv ^ xv)
        else SPow false b' x'
    | SInt bv, _ => if bv =? 1 then b' else SPow false b' x'
    | _, SInt xv =>
        if xv =? 0 then SInt 1
        else if xv =? 1 then b'
        else SPow false b' x'
    | _, _ => SPow false b' x'
    end
  else SPow false b' x'.

Definition simp_and (fl : flags) (cs' : list sx) (s0 : bool) : sx * bool :=
  if f_logic fl then
    let s := s0 && log_shape_ok cs' in
    if existsb (fun c => eq_str c "false") cs' then (SLog false, s)
    else
      match filter (fun c => negb (eq_str c "true")) cs' with
      | [] => (SLog true, s)
      | l => (SAnd l, s)
      end
  else match cs' with [] => (SLog true, s0) | _ => (SAnd cs', s0) end.

Definition simp_or (fl : flags) (cs' : list sx) (s0 : bool) : sx * bool :=
  if f_logic fl then
    let s := s0 && log_shape_ok cs' in
    if existsb (fun c => eq_str c "true") cs' then (SLog true, s)
    else
      match filter (fun c => negb (eq_str c "false")) cs' with
      | [] => (SLog false, s)
      | l => (SOr l, s)
      end
  else match cs' with [] => (SLog false, s0) | _ => (SOr cs', s0) end.

Definition simp_not (fl : flags) (c' : sx) (s0 : bool) : sx * bool :=
  if f_logic fl then
    let s := s0 && log_shape_ok [c'] in
    if eq_str c' "true" then (SLog false, s)
    else if eq_str c' "false" then (SLog true, s)
    else (SNot c', s)
  else (SNot c', s0).

Definition simp_cmp (fl : flags) (op : cmpop) (l' r' : sx) (s : bool) : res (sx * bool) :=
  if f_logic fl && is_constant l' && is_constant r' then Ok (SLog (cmp_z op (cval l') (cval r')), s)
  else Ok (SCmp op l' r', s).

Definition simp_step (fl : flags) (wf : nat) (rec : sx -> res (sx * bool)) (e : sx) : res (sx * bool) :=
  match e with
  | SInt _ | SPy _ | SVar _ | SLog _ => Ok (e, true)
  | SSum _ cs =>
      rbind (rmapb rec cs) (fun r0 =>
      rbind (pipeline_sum fl wf (SSum KL (fst r0))) (fun r => reapply rec e (snd r0) r))
  | SProd _ cs =>
      rbind (rmapb rec cs) (fun r0 =>
      rbind (pipeline_prod fl wf (SProd KL (fst r0))) (fun r => reapply rec e (snd r0) r))
  | SQuot _ n d =>
      rbind (rec n) (fun rn => rbind (rec d) (fun rd =>
      rbind (pipeline_quot fl wf (SQuot false (fst rn) (fst rd))) (fun r =>
        reapply rec e (snd rn && snd rd) r)))
  | SPow p b x =>
      rbind (rec b) (fun rb => rbind (rec x) (fun rx =>
        Ok (simp_pow fl p (fst rb) (fst rx), snd rb && snd rx)))
  | SCmp op l r =>
      rbind (rec l) (fun rl => rbind (rec r) (fun rr =>
        simp_cmp fl op (fst rl) (fst rr) (snd rl && snd rr)))
  | SAnd cs => rbind (rmapb rec cs) (fun r0 => Ok (simp_and fl (fst r0) (snd r0)))
  | SOr cs => rbind (rmapb rec cs) (fun r0 => Ok (simp_or fl (fst r0) (snd r0)))
  | SNot c => rbind (rec c) (fun rc => Ok (simp_not fl (fst rc) (snd rc)))
  | SCall f args => rbind (rmapb rec args) (fun r0 => Ok (SCall f (fst r0), snd r0))
  end.

(** [fuel] bounds the depth of nested [rec] calls (each re-application [rec(new_expr)] costs one) *)
Fixpoint simp_i (fl : flags) (wf : nat) (fuel : nat) (e : sx) {struct fuel} : res (sx * bool) :=
  match fuel with
  | O => NoFuel
  | S fu => simp_step fl wf (simp_i fl wf fu) e
  end.

(** * Entry points on the shared expression type *)
Definition default_wf : nat := Z.to_nat 6000.
Definition default_fuel : nat := 80%nat.

Definition simplify_i (fl : flags) (e : expr) : res (sx * bool) := simp_i fl default_wf default_fuel (of_expr e).

(** the result as a shared [expr] (plain pymbolic nodes are shown as ordinary ones) *)
Definition simplify (fl : flags) (e : expr) : option expr :=
  match simplify_i fl e with Ok r => Some (to_expr (fst r)) | _ => None end.

(** the decidable class of the soundness theorem: the run took no unsafe step *)
Definition in_class (fl : flags) (e : expr) : bool :=
  match simplify_i fl e with Ok r => snd r | _ => false end.

(** * Correspondence comparators *)
Inductive outcome := OOk (s : sx) | OErr (e : err) | OFuel.

Definition err_eqb (a b : err) : bool := match a, b with EZeroDiv, EZeroDiv => true end.

Definition chk_simplify (fl : flags) (e : expr) (out : outcome) : bool :=
  match simplify_i fl e, out with
  | Ok r, OOk s => sx_eqb (fst r) s
  | Err a, OErr b => err_eqb a b
  | NoFuel, OFuel => true
  | _, _ => false
  end.

(** printer correspondence: str(expr) of the implementation *)
Definition chk_str (e : expr) (s : string) : bool := String.eqb (str_of (of_expr e)) s.

(** class membership as computed by the model must equal the tag the harness attached to the case *)
Definition chk_class (fl : flags) (e : expr) (b : bool) : bool := Bool.eqb (in_class fl e) b.

(** does the model predict an exception (ZeroDivisionError of a literal 0/0)? *)
Definition predicts_error (fl : flags) (e : expr) : bool :=
  match simplify_i fl e with Err _ => true | _ => false end.
